From Coq Require Import ZArith Lia.
Open Scope Z_scope.

(* filterlist/rulestoragescanner.go:66-77
   int64(listID)<<32 | int64(ruleIdx)&0xFFFFFFFF ;  listID = int32(idx >> 32) ; ruleIdx = int32(idx) *)
Definition int32 (z : Z) : Z := (z + 2^31) mod 2^32 - 2^31.          (* Go's int32(x) truncation *)
Definition pack (id off : Z) : Z := Z.lor (Z.shiftl id 32) (Z.land off (2^32 - 1)).
Definition unpack (idx : Z) : Z * Z := (int32 (Z.shiftr idx 32), int32 idx).

Lemma land_mask x : Z.land x (2^32 - 1) = x mod 2^32.
Proof. change (2^32 - 1) with (Z.ones 32). apply Z.land_ones. lia. Qed.

Lemma lor_add a b : 0 <= b < 2^32 -> Z.lor (Z.shiftl a 32) b = a * 2^32 + b.
Proof.
  intro Hb. rewrite Z.shiftl_mul_pow2 by lia.
  rewrite <- Z.lxor_lor, <- Z.add_nocarry_lxor; try reflexivity.
  all: apply Z.bits_inj'; intros n Hn; rewrite Z.land_spec, Z.bits_0;
    destruct (Z.ltb_spec n 32) as [Hlt|Hge].
  all: try (rewrite Z.mul_pow2_bits_low by lia; reflexivity).
  all: rewrite (Z.bits_above_log2 b n); [apply Bool.andb_false_r | lia |].
  all: destruct (Z.eq_dec b 0) as [->|Hnz]; [cbn; lia|];
    apply Z.log2_lt_pow2; [lia|]; apply Z.lt_le_trans with (2^32); [lia|];
    apply Z.pow_le_mono_r; lia.
Qed.

Theorem pack_unpack id off :
  - 2^31 <= id < 2^31 -> 0 <= off < 2^31 ->
  unpack (pack id off) = (id, off) /\ - 2^63 <= pack id off < 2^63.
Proof.
  intros Hid Hoff. unfold pack, unpack.
  rewrite land_mask, Z.mod_small by lia.
  rewrite lor_add by lia.
  rewrite Z.shiftr_div_pow2 by lia.
  replace ((id * 2^32 + off) / 2^32) with id
    by (apply Z.div_unique with off; lia).
  unfold int32. split; [f_equal|].
  - rewrite Z.mod_small; lia.
  - replace (id * 2^32 + off + 2^31) with (off + 2^31 + id * 2^32) by lia.
    rewrite Z.mod_add by lia. rewrite Z.mod_small; lia.
  - lia.
Qed.

Theorem pack_injective id1 off1 id2 off2 :
  - 2^31 <= id1 < 2^31 -> 0 <= off1 < 2^31 -> - 2^31 <= id2 < 2^31 -> 0 <= off2 < 2^31 ->
  pack id1 off1 = pack id2 off2 -> id1 = id2 /\ off1 = off2.
Proof.
  intros H1 H2 H3 H4 E.
  destruct (pack_unpack id1 off1 H1 H2) as [E1 _]. destruct (pack_unpack id2 off2 H3 H4) as [E2 _].
  rewrite E in E1. rewrite E1 in E2. now inversion E2.
Qed.
Print Assumptions pack_unpack.
