From Coq Require Strings.String Strings.Byte List.
Export Coq.Strings.String.StringSyntax.
Delimit Scope string_scope with string.
Notation "$ s" := (Coq.Strings.String.list_byte_of_string s%string) (at level 1, format "$ s").
