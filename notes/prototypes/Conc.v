From Coq Require Import List Arith Bool Lia.
Import ListNotations.

(* Interleaving model of filterlist.RuleStorage.RetrieveRule (storage.go:84-114):
   RLock; r,ok := cache[idx]; RUnlock; if ok return r;
   r := list.RetrieveRule(idx)          (pure here: src idx)
   if r != nil { Lock; cache[idx] = r; Unlock }; return r                        *)

Section Cache.
Variable rule : Type.
Variable src : nat -> option rule.           (* what parsing the list at idx yields *)

Definition tid := nat.
Definition idx := nat.

Inductive pc :=
| PIdle
| PRLock (i : idx) | PRead (i : idx) | PRUnlock (i : idx) (hit : option rule)
| PLoad (i : idx)
| PWLock (i : idx) (r : rule) | PWrite (i : idx) (r : rule) | PWUnlock (i : idx) (r : rule).

Record thread := { tpc : pc; todo : list idx; results : list (idx * option rule) }.

Record state := {
  rset : list tid;              (* holders of the read lock (ghost view of the reader count) *)
  wholder : option tid;         (* holder of the write lock *)
  cache : idx -> option rule;
  th : tid -> thread }.

Definition upd {A} (f : nat -> A) (k : nat) (v : A) : nat -> A := fun k' => if Nat.eqb k' k then v else f k'.
Lemma upd_same {A} (f : nat -> A) k v : upd f k v k = v.
Proof. unfold upd. now rewrite Nat.eqb_refl. Qed.
Lemma upd_other {A} (f : nat -> A) k v k' : k' <> k -> upd f k v k' = f k'.
Proof. unfold upd. intro H. apply Nat.eqb_neq in H. now rewrite H. Qed.

Definition set_pc (T : thread) (p : pc) : thread := {| tpc := p; todo := todo T; results := results T |}.
Definition finish (T : thread) (i : idx) (r : option rule) : thread :=
  {| tpc := PIdle; todo := todo T; results := (i, r) :: results T |}.

(* one step of thread t; None = not enabled (blocked on a lock, or finished) *)
Definition step (s : state) (t : tid) : option state :=
  let T := th s t in
  match tpc T with
  | PIdle =>
      match todo T with
      | [] => None
      | i :: rest => Some {| rset := rset s; wholder := wholder s; cache := cache s;
                             th := upd (th s) t {| tpc := PRLock i; todo := rest; results := results T |} |}
      end
  | PRLock i =>
      match wholder s with
      | Some _ => None
      | None => Some {| rset := t :: rset s; wholder := None; cache := cache s;
                        th := upd (th s) t (set_pc T (PRead i)) |}
      end
  | PRead i =>                                       (* reads the shared map *)
      Some {| rset := rset s; wholder := wholder s; cache := cache s;
              th := upd (th s) t (set_pc T (PRUnlock i (cache s i))) |}
  | PRUnlock i hit =>
      Some {| rset := remove Nat.eq_dec t (rset s); wholder := wholder s; cache := cache s;
              th := upd (th s) t (match hit with
                                  | Some r => finish T i (Some r)
                                  | None => set_pc T (PLoad i)
                                  end) |}
  | PLoad i =>
      Some {| rset := rset s; wholder := wholder s; cache := cache s;
              th := upd (th s) t (match src i with
                                  | Some r => set_pc T (PWLock i r)
                                  | None => finish T i None
                                  end) |}
  | PWLock i r =>
      match wholder s, rset s with
      | None, [] => Some {| rset := []; wholder := Some t; cache := cache s;
                            th := upd (th s) t (set_pc T (PWrite i r)) |}
      | _, _ => None
      end
  | PWrite i r =>                                    (* writes the shared map *)
      Some {| rset := rset s; wholder := wholder s; cache := upd (cache s) i (Some r);
              th := upd (th s) t (set_pc T (PWUnlock i r)) |}
  | PWUnlock i r =>
      Some {| rset := rset s; wholder := None; cache := cache s;
              th := upd (th s) t (finish T i (Some r)) |}
  end.

(* a schedule is any list of thread ids; disabled steps are skipped *)
Fixpoint run (s : state) (sched : list tid) : state :=
  match sched with
  | [] => s
  | t :: rest => run (match step s t with Some s' => s' | None => s end) rest
  end.

Definition in_R (p : pc) : Prop := match p with PRead _ | PRUnlock _ _ => True | _ => False end.
Definition in_W (p : pc) : Prop := match p with PWrite _ _ | PWUnlock _ _ => True | _ => False end.
Definition carries_ok (p : pc) : Prop :=
  match p with
  | PRUnlock i (Some r) => src i = Some r
  | PWLock i r | PWrite i r | PWUnlock i r => src i = Some r
  | _ => True
  end.

Record Inv (s : state) : Prop := {
  I_r : forall t, In t (rset s) <-> in_R (tpc (th s t));
  I_w : forall t, wholder s = Some t <-> in_W (tpc (th s t));
  I_excl : wholder s <> None -> rset s = [];
  I_cache : forall i r, cache s i = Some r -> src i = Some r;
  I_pc : forall t, carries_ok (tpc (th s t));
  I_res : forall t i r, In (i, r) (results (th s t)) -> r = src i }.

Definition init (todos : tid -> list idx) : state :=
  {| rset := []; wholder := None; cache := fun _ => None;
     th := fun t => {| tpc := PIdle; todo := todos t; results := [] |} |}.

Lemma inv_init todos : Inv (init todos).
Proof.
  constructor; cbn.
  - intro t. split; [intros [] | intros []].
  - intro t. split; [discriminate | intros []].
  - reflexivity.
  - discriminate.
  - intro t. exact I.
  - intros t i r [].
Qed.

Lemma in_remove_iff (l : list tid) (t t' : tid) :
  In t' (remove Nat.eq_dec t l) <-> In t' l /\ t' <> t.
Proof.
  split.
  - intro H. apply in_remove in H. tauto.
  - intros [H1 H2]. now apply in_in_remove.
Qed.

(* every step replaces the stepping thread's record and possibly the lock state / cache:
   the invariant is preserved as soon as six local conditions hold *)
Lemma inv_upd s t rs' wh' c' T' :
  Inv s ->
  (forall t', t' <> t -> (In t' rs' <-> In t' (rset s))) ->
  (In t rs' <-> in_R (tpc T')) ->
  (forall t', t' <> t -> (wh' = Some t' <-> wholder s = Some t')) ->
  (wh' = Some t <-> in_W (tpc T')) ->
  (wh' <> None -> rs' = []) ->
  (forall i r, c' i = Some r -> src i = Some r) ->
  carries_ok (tpc T') ->
  (forall i r, In (i, r) (results T') -> r = src i) ->
  Inv {| rset := rs'; wholder := wh'; cache := c'; th := upd (th s) t T' |}.
Proof.
  intros [Ir Iw Ie Ic Ip Ires] H1 H2 H3 H4 H5 H6 H7 H8.
  constructor; cbn.
  - intro t'. destruct (Nat.eq_dec t' t) as [->|Hne].
    + now rewrite upd_same.
    + rewrite upd_other by exact Hne. rewrite H1 by exact Hne. apply Ir.
  - intro t'. destruct (Nat.eq_dec t' t) as [->|Hne].
    + now rewrite upd_same.
    + rewrite upd_other by exact Hne. rewrite H3 by exact Hne. apply Iw.
  - exact H5.
  - exact H6.
  - intro t'. destruct (Nat.eq_dec t' t) as [->|Hne].
    + now rewrite upd_same.
    + rewrite upd_other by exact Hne. apply Ip.
  - intros t' i r. destruct (Nat.eq_dec t' t) as [->|Hne].
    + rewrite upd_same. apply H8.
    + rewrite upd_other by exact Hne. apply Ires.
Qed.

Lemma step_inv s t s' : Inv s -> step s t = Some s' -> Inv s'.
Proof.
  intros HI H. pose proof HI as [Ir Iw Ie Ic Ip Ires]. unfold step in H.
  pose proof (Ir t) as Irt. pose proof (Iw t) as Iwt. pose proof (Ip t) as Ipt.
  pose proof (Ires t) as Irest.
  destruct (tpc (th s t)) as [|i|i|i hit|i|i r|i r|i r] eqn:Epc; cbn in Irt, Iwt, Ipt.
  - (* PIdle *)
    destruct (todo (th s t)) as [|i rest] eqn:Etodo; [discriminate|]. inversion H; subst; clear H.
    apply inv_upd; cbn; try tauto; try assumption.
  - (* PRLock: needs the write lock free *)
    destruct (wholder s) as [w|] eqn:Ew; [discriminate|]. inversion H; subst; clear H.
    apply inv_upd; cbn; try tauto; try assumption; try congruence.
    + intros t' Hne. split; [intros [E|E]; [congruence | exact E] | tauto].
    + intros t' Hne. rewrite Ew. split; discriminate.
  - (* PRead: reads the map under the read lock *)
    inversion H; subst; clear H.
    apply inv_upd; cbn; try tauto; try assumption.
    destruct (cache s i) eqn:Ec; [now apply Ic | exact I].
  - (* PRUnlock *)
    inversion H; subst; clear H.
    apply inv_upd; cbn; try tauto; try assumption.
    + intros t' Hne. rewrite in_remove_iff. tauto.
    + rewrite in_remove_iff. destruct hit; cbn; tauto.
    + destruct hit; cbn; tauto.
    + intro Hw. now rewrite (Ie Hw).
    + destruct hit; cbn; exact I.
    + intros i0 r0. destruct hit as [r1|]; cbn.
      * intros [E|E]; [inversion E; subst; now rewrite Ipt | now apply Irest].
      * apply Irest.
  - (* PLoad: no lock held, touches nothing shared *)
    inversion H; subst; clear H.
    apply inv_upd; cbn; try assumption; try tauto.
    + destruct (src i); cbn; tauto.
    + destruct (src i); cbn; tauto.
    + destruct (src i) eqn:Es; cbn; [exact Es | exact I].
    + intros i0 r0. destruct (src i) eqn:Es; cbn; [apply Irest|].
      intros [E|E]; [inversion E; subst; now rewrite Es | now apply Irest].
  - (* PWLock: needs no reader and no writer *)
    destruct (wholder s) as [w|] eqn:Ew; [discriminate|].
    destruct (rset s) as [|x xs] eqn:Er; [|discriminate]. inversion H; subst; clear H.
    apply inv_upd; cbn; try assumption; try tauto.
    + intros t' Hne. rewrite Er. cbn. tauto.
    + intros t' Hne. rewrite Ew. split; [intro E; inversion E; congruence | discriminate].
  - (* PWrite: writes the map under the write lock *)
    inversion H; subst; clear H.
    apply inv_upd; cbn; try assumption; try tauto.
    intros i0 r0 Hc. unfold upd in Hc. destruct (Nat.eqb i0 i) eqn:E; [|now apply Ic].
    apply Nat.eqb_eq in E. subst i0. inversion Hc; subst. exact Ipt.
  - (* PWUnlock *)
    inversion H; subst; clear H.
    assert (Hw : wholder s = Some t) by tauto.
    apply inv_upd; cbn; try assumption; try tauto; try congruence.
    + intros t' Hne. rewrite Hw. split; [discriminate | intro E; inversion E; congruence].
    + split; [discriminate | intros []].
    + intros i0 r0 [E|E]; [inversion E; subst; now rewrite Ipt | now apply Irest].
Qed.

Theorem run_inv sched : forall s, Inv s -> Inv (run s sched).
Proof.
  induction sched as [|t rest IH]; intros s H; cbn [run]; [exact H|].
  apply IH. destruct (step s t) eqn:E; [eapply step_inv; eassumption | exact H].
Qed.

(* ---- the three statements of the property, for every schedule and every per-thread program ---- *)
Definition reads_cache (p : pc) := match p with PRead _ => True | _ => False end.
Definition writes_cache (p : pc) := match p with PWrite _ _ => True | _ => False end.

Lemma no_conflict_inv s t1 t2 : Inv s ->
  t1 <> t2 -> writes_cache (tpc (th s t1)) ->
  ~ reads_cache (tpc (th s t2)) /\ ~ writes_cache (tpc (th s t2)).
Proof.
  intros [Ir Iw Ie _ _ _] Hne Hw.
  assert (H1 : wholder s = Some t1).
  { apply Iw. destruct (tpc (th s t1)); cbn in *; tauto. }
  split; intro H2.
  - assert (H : In t2 (rset s)) by (apply Ir; destruct (tpc (th s t2)); cbn in *; tauto).
    rewrite Ie in H by congruence. exact H.
  - assert (H : wholder s = Some t2) by (apply Iw; destruct (tpc (th s t2)); cbn in *; tauto).
    congruence.
Qed.

(* for every number of threads, every per-thread program, every schedule *)
Theorem no_conflict todos sched t1 t2 :
  t1 <> t2 -> writes_cache (tpc (th (run (init todos) sched) t1)) ->
  ~ reads_cache (tpc (th (run (init todos) sched) t2)) /\
  ~ writes_cache (tpc (th (run (init todos) sched) t2)).
Proof. apply no_conflict_inv, run_inv, inv_init. Qed.

Theorem seq_consistent todos sched t i r :
  In (i, r) (results (th (run (init todos) sched) t)) -> r = src i.
Proof. intro H. eapply I_res; [apply run_inv, inv_init | exact H]. Qed.

(* no deadlock: if some thread is not finished, some thread can step *)
Definition finished (T : thread) := tpc T = PIdle /\ todo T = [].
Lemma progress_inv s t : Inv s -> ~ finished (th s t) -> exists t', step s t' <> None.
Proof.
  intros [Ir Iw Ie _ _ _] Hnf.
  destruct (wholder s) as [w|] eqn:Ew.
  - exists w. assert (Hw : in_W (tpc (th s w))) by (now apply Iw).
    unfold step. destruct (tpc (th s w)); cbn in Hw; try tauto; discriminate.
  - destruct (rset s) as [|x xs] eqn:Er.
    + exists t. unfold step, finished in *.
      destruct (tpc (th s t)) eqn:Ep; rewrite ?Ew, ?Er; try discriminate.
      destruct (todo (th s t)) eqn:Et; [tauto | discriminate].
    + exists x. assert (Hx : in_R (tpc (th s x))) by (apply Ir; rewrite ?Er; now left).
      unfold step. destruct (tpc (th s x)); cbn in Hx; try tauto; discriminate.
Qed.
Theorem progress todos sched t :
  ~ finished (th (run (init todos) sched) t) -> exists t', step (run (init todos) sched) t' <> None.
Proof. apply progress_inv, run_inv, inv_init. Qed.
End Cache.
Print Assumptions no_conflict.
Print Assumptions seq_consistent.
Print Assumptions progress.
