From Coq Require Import List Arith NArith Bool Lia.
From Coq Require Import Strings.Byte.
Require Import Lit.
Import ListNotations.

Definition bytes := list byte.
Definition b2n (b : byte) : N := Byte.to_N b.
Definition beq (a b : byte) : bool := N.eqb (b2n a) (b2n b).

(* ---------- regex AST ---------- *)
Inductive re :=
| RCls (neg : bool) (rs : list (byte * byte))
| RAny | RBol | REol
| RCat (l : list re) | RAlt (l : list re)
| RStar (r : re) | RPlus (r : re) | ROpt (r : re).

(* ---------- lexer: a fold over bytes ---------- *)
Inductive rtok :=
| TCls (neg : bool) (rs : list (byte * byte))
| TAny | TBol | TEol | TLp | TRp | TBar | TStar | TPlus | TQuest.

Inductive lstate :=
| LNormal
| LEsc                                   (* after backslash, outside class *)
| LCls0                                  (* just after '[' : may see '^' *)
| LCls (neg : bool) (acc : list (byte * byte)) (pend : option byte) (dash : bool)
                                         (* inside class; pend = previous single char; dash = saw '-' after pend *)
| LClsEsc (neg : bool) (acc : list (byte * byte)) (pend : option byte) (dash : bool)
| LErr.

Definition flush (acc : list (byte*byte)) (pend : option byte) (dash : bool) : list (byte*byte) :=
  let acc1 := match pend with Some p => acc ++ [(p,p)] | None => acc end in
  if dash then acc1 ++ [("-"%byte,"-"%byte)] else acc1.

Definition cls_char (neg : bool) acc (pend : option byte) (dash : bool) (c : byte) : lstate :=
  match pend, dash with
  | Some p, true => LCls neg (acc ++ [(p, c)]) None false      (* range p-c *)
  | Some p, false => LCls neg (acc ++ [(p,p)]) (Some c) false
  | None, true => LCls neg (acc ++ [("-"%byte,"-"%byte)]) (Some c) false
  | None, false => LCls neg acc (Some c) false
  end.

Definition lex_step (st : lstate * list rtok) (c : byte) : lstate * list rtok :=
  let '(s, out) := st in
  match s with
  | LErr => (LErr, out)
  | LNormal =>
      if beq c "\"%byte then (LEsc, out)
      else if beq c "["%byte then (LCls0, out)
      else if beq c "("%byte then (LNormal, (TLp :: out))
      else if beq c ")"%byte then (LNormal, (TRp :: out))
      else if beq c "|"%byte then (LNormal, (TBar :: out))
      else if beq c "*"%byte then (LNormal, (TStar :: out))
      else if beq c "+"%byte then (LNormal, (TPlus :: out))
      else if beq c "?"%byte then (LNormal, (TQuest :: out))
      else if beq c "."%byte then (LNormal, (TAny :: out))
      else if beq c "^"%byte then (LNormal, (TBol :: out))
      else if beq c "$"%byte then (LNormal, (TEol :: out))
      else (LNormal, (TCls false [(c,c)] :: out))
  | LEsc => (LNormal, (TCls false [(c,c)] :: out))      (* prototype: escaped punctuation only *)
  | LCls0 => if beq c "^"%byte then (LCls true [] None false, out)
             else if beq c "\"%byte then (LClsEsc false [] None false, out)
             else (LCls false [] (Some c) false, out)      (* first char literal, even ']' *)
  | LCls neg acc pend dash =>
      if beq c "]"%byte then
        (match acc, pend with
         | [], None => (LCls neg acc (Some c) false, out)            (* ']' first after '^' is literal *)
         | _, _ => (LNormal, (TCls neg (flush acc pend dash) :: out))
         end)
      else if beq c "\"%byte then (LClsEsc neg acc pend dash, out)
      else if beq c "-"%byte then
        (match pend, dash with
         | Some _, false => (LCls neg acc pend true, out)
         | _, _ => (cls_char neg acc pend dash c, out)
         end)
      else (cls_char neg acc pend dash c, out)
  | LClsEsc neg acc pend dash => (cls_char neg acc pend dash c, out)
  end.

Definition lex_from (st : lstate * list rtok) (s : bytes) := fold_left lex_step s st.
Definition lex (s : bytes) : option (list rtok) :=
  match lex_from (LNormal, []) s with (LNormal, out) => Some (rev out) | _ => None end.

Eval vm_compute in lex $"([^ a-zA-Z0-9.%_-]|$)".
Eval vm_compute in lex $"^(http|https|ws|wss)://([a-z0-9-_.]+\.)?".

(* ---------- parser: a fold over tokens with an explicit stack ---------- *)
(* frame = (finished alternatives (reversed), current concatenation (reversed)) *)
Definition frame := (list re * list re)%type.
Inductive pstate := PS (cur : frame) (stack : list frame) | PErr.

Definition close_frame (f : frame) : re :=
  let '(alts, cat) := f in
  match alts with
  | [] => RCat (rev cat)
  | _ => RAlt (rev (RCat (rev cat) :: alts))
  end.

Definition push_atom (a : re) (f : frame) : frame := (fst f, a :: snd f).

Definition quant (q : re -> re) (st : pstate) : pstate :=
  match st with
  | PS (alts, a :: cat) stack => PS (alts, q a :: cat) stack
  | _ => PErr
  end.

Definition parse_step (st : pstate) (t : rtok) : pstate :=
  match st with
  | PErr => PErr
  | PS cur stack =>
    match t with
    | TCls neg rs => PS (push_atom (RCls neg rs) cur) stack
    | TAny => PS (push_atom RAny cur) stack
    | TBol => PS (push_atom RBol cur) stack
    | TEol => PS (push_atom REol cur) stack
    | TLp => PS ([], []) (cur :: stack)
    | TRp => match stack with
             | parent :: stack' => PS (push_atom (close_frame cur) parent) stack'
             | [] => PErr
             end
    | TBar => PS (RCat (rev (snd cur)) :: fst cur, []) stack
    | TStar => quant RStar st
    | TPlus => quant RPlus st
    | TQuest => quant ROpt st
    end
  end.

Definition parse_from (st : pstate) (ts : list rtok) := fold_left parse_step ts st.
Definition parse_re (s : bytes) : option re :=
  match lex s with
  | None => None
  | Some ts => match parse_from (PS ([], []) []) ts with
               | PS cur [] => Some (close_frame cur)
               | _ => None
               end
  end.

Eval vm_compute in parse_re $"a.*([^ a-z]|$)b".

(* ---------- mask tokens ---------- *)
Inductive tok := StartURL | Bol | Eol | Star | Sep | Lit (c : byte).
Definition SEP : bytes := $"([^ a-zA-Z0-9.%_-]|$)".
Definition STARTURL : bytes := $"^(http|https|ws|wss)://([a-z0-9-_.]+\.)?".
Definition is_special (c : byte) : bool := existsb (beq c) $".+?${}()[]/\".
Definition emit1 (t : tok) : bytes :=
  match t with
  | StartURL => STARTURL | Bol => $"^" | Eol => $"$" | Star => $".*" | Sep => SEP
  | Lit c => if beq c "|"%byte then $"\|" else if is_special c then ["\"%byte; c] else [c]
  end.
Definition emit (l : list tok) : bytes := flat_map emit1 l.

Definition lit (c : byte) := RCls false [(c,c)].
Definition SEP_RE : re := Eval vm_compute in
  match parse_re SEP with Some (RCat [r]) => r | _ => RAny end.
Definition STARTURL_RES : list re := Eval vm_compute in
  match parse_re STARTURL with Some (RCat l) => l | _ => [] end.
Print SEP_RE.
Definition re_of (t : tok) : list re :=
  match t with
  | StartURL => STARTURL_RES | Bol => [RBol] | Eol => [REol] | Star => [RStar RAny] | Sep => [SEP_RE]
  | Lit c => [lit c]
  end.

(* a mask literal must not be one of the mask's own specials *)
Definition lit_ok (t : tok) : bool :=
  match t with Lit c => negb (beq c "*"%byte) && negb (beq c "^"%byte) | _ => true end.

(* ---- frame lemmas ---- *)
Lemma lex_from_app st a b : lex_from st (a ++ b) = lex_from (lex_from st a) b.
Proof. apply fold_left_app. Qed.
Lemma parse_from_app st a b : parse_from st (a ++ b) = parse_from (parse_from st a) b.
Proof. apply fold_left_app. Qed.

Definition lex_tok (t : tok) : list rtok :=
  match lex (emit1 t) with Some l => l | None => [] end.

Lemma lex_emit1 t out : lit_ok t = true ->
  lex_from (LNormal, out) (emit1 t) = (LNormal, rev (lex_tok t) ++ out).
Proof.
  intros H. destruct t as [| | | | |c]; try reflexivity.
  destruct c; try discriminate H; reflexivity.
Qed.

Lemma lex_emit toks : forall out, forallb lit_ok toks = true ->
  lex_from (LNormal, out) (emit toks) = (LNormal, rev (flat_map lex_tok toks) ++ out).
Proof.
  induction toks as [|t toks IH]; intros out H; cbn [emit flat_map].
  - reflexivity.
  - cbn [forallb] in H. apply andb_prop in H as [Ht Hr].
    rewrite lex_from_app, lex_emit1 by exact Ht. rewrite IH by exact Hr.
    now rewrite rev_app_distr, app_assoc.
Qed.

Lemma parse_tok t alts cat stack : lit_ok t = true ->
  parse_from (PS (alts, cat) stack) (lex_tok t) = PS (alts, rev (re_of t) ++ cat) stack.
Proof.
  intros H. destruct t as [| | | | |c]; try reflexivity.
  destruct c; try discriminate H; reflexivity.
Qed.

Lemma parse_toks toks : forall alts cat stack, forallb lit_ok toks = true ->
  parse_from (PS (alts, cat) stack) (flat_map lex_tok toks)
  = PS (alts, rev (flat_map re_of toks) ++ cat) stack.
Proof.
  induction toks as [|t toks IH]; intros alts cat stack H; cbn [flat_map].
  - reflexivity.
  - cbn [forallb] in H. apply andb_prop in H as [Ht Hr].
    rewrite parse_from_app, parse_tok by exact Ht. rewrite IH by exact Hr.
    now rewrite rev_app_distr, app_assoc.
Qed.

Theorem parse_emit toks : forallb lit_ok toks = true ->
  parse_re (emit toks) = Some (RCat (flat_map re_of toks)).
Proof.
  intros H. unfold parse_re, lex.
  rewrite lex_emit by exact H. rewrite app_nil_r, rev_involutive.
  rewrite parse_toks by exact H. cbn [close_frame].
  now rewrite app_nil_r, rev_involutive.
Qed.
Print Assumptions parse_emit.
