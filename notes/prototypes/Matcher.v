From Coq Require Import List Arith Bool Lia.
From Coq Require Import Strings.Byte.
Import ListNotations.

Definition bytes := list byte.
Definition isnil (s : bytes) : bool := match s with [] => true | _ => false end.

Inductive re :=
| RCls (f : byte -> bool)
| RBol | REol
| RCat (l : list re) | RAlt (l : list re)
| RStar (r : re).

(* nested induction principle *)
Section ReInd.
  Variable P : re -> Prop.
  Hypothesis Hcls : forall f, P (RCls f).
  Hypothesis Hbol : P RBol.
  Hypothesis Heol : P REol.
  Hypothesis Hcat : forall l, Forall P l -> P (RCat l).
  Hypothesis Halt : forall l, Forall P l -> P (RAlt l).
  Hypothesis Hstar : forall r, P r -> P (RStar r).
  Fixpoint re_ind' (r : re) : P r :=
    match r with
    | RCls f => Hcls f
    | RBol => Hbol
    | REol => Heol
    | RCat l => Hcat l ((fix go (l : list re) : Forall P l :=
                           match l with [] => Forall_nil P | r :: l' => Forall_cons r (re_ind' r) (go l') end) l)
    | RAlt l => Halt l ((fix go (l : list re) : Forall P l :=
                           match l with [] => Forall_nil P | r :: l' => Forall_cons r (re_ind' r) (go l') end) l)
    | RStar r => Hstar r (re_ind' r)
    end.
End ReInd.

(* executable CPS matcher; st = "no byte consumed since the start of the text" *)
Definition K := bool -> bytes -> bool.

Definition star_loop (mr : bool -> bytes -> K -> bool) (k : K) : nat -> bool -> bytes -> bool :=
  fix loop (n : nat) (st : bool) (s0 : bytes) {struct n} : bool :=
    k st s0 ||
    match n with
    | O => false
    | S n' => mr st s0 (fun st' s' => Nat.ltb (length s') (length s0) && loop n' st' s')
    end.

Fixpoint m (r : re) (st : bool) (s : bytes) (k : K) {struct r} : bool :=
  match r with
  | RCls f => match s with c :: s' => f c && k false s' | [] => false end
  | RBol => st && k st s
  | REol => match s with [] => k st s | _ => false end
  | RCat l =>
      (fix mc (l : list re) (st : bool) (s : bytes) (k : K) {struct l} : bool :=
         match l with
         | [] => k st s
         | r1 :: l' => m r1 st s (fun st' s' => mc l' st' s' k)
         end) l st s k
  | RAlt l =>
      (fix ma (l : list re) : bool :=
         match l with
         | [] => false
         | r1 :: l' => m r1 st s k || ma l'
         end) l
  | RStar r1 => star_loop (m r1) k (length s) st s
  end.

(* named versions of the inner loops, convertible with the above *)
Fixpoint mc (l : list re) (st : bool) (s : bytes) (k : K) : bool :=
  match l with [] => k st s | r1 :: l' => m r1 st s (fun st' s' => mc l' st' s' k) end.
Fixpoint ma (l : list re) (st : bool) (s : bytes) (k : K) : bool :=
  match l with [] => false | r1 :: l' => m r1 st s k || ma l' st s k end.
Definition loop (r1 : re) (k : K) := star_loop (m r1) k.
Lemma loop_S r1 k n st s0 : loop r1 k (S n) st s0 =
  k st s0 || m r1 st s0 (fun st' s' => Nat.ltb (length s') (length s0) && loop r1 k n st' s').
Proof. reflexivity. Qed.
Lemma loop_0 r1 k st s0 : loop r1 k 0 st s0 = k st s0 || false.
Proof. reflexivity. Qed.
Lemma m_cat l st s k : m (RCat l) st s k = mc l st s k.
Proof. revert st s k. induction l as [|r l IH]; intros; [reflexivity|]. cbn [m mc]. reflexivity. Qed.
Lemma m_alt l st s k : m (RAlt l) st s k = ma l st s k.
Proof. induction l as [|r l IH]; [reflexivity|]. cbn [m ma] in *. now rewrite <- IH. Qed.
Lemma m_star r st s k : m (RStar r) st s k = loop r k (length s) st s.
Proof. reflexivity. Qed.

(* relational semantics: M r st s1 rest — r matches s1, followed by rest, st = nothing consumed before *)
Inductive M : re -> bool -> bytes -> bytes -> Prop :=
| M_cls f c st rest : f c = true -> M (RCls f) st [c] rest
| M_bol rest : M RBol true [] rest
| M_eol st : M REol st [] []
| M_cat_nil st rest : M (RCat []) st [] rest
| M_cat_cons r l st s1 s2 rest :
    M r st s1 (s2 ++ rest) -> M (RCat l) (st && isnil s1) s2 rest -> M (RCat (r :: l)) st (s1 ++ s2) rest
| M_alt_hd r l st s rest : M r st s rest -> M (RAlt (r :: l)) st s rest
| M_alt_tl r l st s rest : M (RAlt l) st s rest -> M (RAlt (r :: l)) st s rest
| M_star_0 r st rest : M (RStar r) st [] rest
| M_star_S r st s1 s2 rest :
    s1 <> [] -> M r st s1 (s2 ++ rest) -> M (RStar r) false s2 rest -> M (RStar r) st (s1 ++ s2) rest.

Definition spec (r : re) : Prop := forall st s k,
  m r st s k = true <-> exists s1 s2, s = s1 ++ s2 /\ M r st s1 s2 /\ k (st && isnil s1) s2 = true.

Lemma isnil_app a b : isnil (a ++ b) = isnil a && isnil b.
Proof. destruct a; reflexivity. Qed.

Lemma spec_cat l : Forall spec l -> spec (RCat l).
Proof.
  intro HF. unfold spec. induction HF as [|r l Hr HF IH]; intros st s k; rewrite m_cat.
  - cbn [mc]. split.
    + intro H. exists [], s. repeat split; [constructor|]. now rewrite andb_true_r.
    + intros (s1 & s2 & -> & HM & Hk). inversion HM; subst. cbn. now rewrite andb_true_r in Hk.
  - cbn [mc]. rewrite (Hr st s). split.
    + intros (a & b & -> & HMa & Hk). rewrite <- m_cat in Hk. apply IH in Hk.
      destruct Hk as (c & d & -> & HMc & Hk).
      exists (a ++ c), d. rewrite app_assoc. repeat split.
      * now constructor.
      * now rewrite isnil_app, andb_assoc.
    + intros (s1 & s2 & -> & HM & Hk). inversion HM; subst.
      exists s0, (s3 ++ s2). rewrite app_assoc. repeat split; [assumption|].
      rewrite <- m_cat. apply IH. exists s3, s2. repeat split; [assumption|].
      now rewrite isnil_app, andb_assoc in Hk.
Qed.

Lemma spec_alt l : Forall spec l -> spec (RAlt l).
Proof.
  intro HF. unfold spec. induction HF as [|r l Hr HF IH]; intros st s k; rewrite m_alt.
  - cbn [ma]. split; [discriminate|]. intros (s1 & s2 & _ & HM & _). inversion HM.
  - cbn [ma]. rewrite orb_true_iff, (Hr st s), <- m_alt, IH. split.
    + intros [(a & b & -> & HM & Hk) | (a & b & -> & HM & Hk)]; exists a, b; repeat split; try assumption.
      * now apply M_alt_hd.
      * now apply M_alt_tl.
    + intros (a & b & -> & HM & Hk). inversion HM; subst; [left | right]; exists a, b; repeat split; assumption.
Qed.

Lemma nonnil_len (a b : bytes) : Nat.ltb (length b) (length (a ++ b)) = negb (isnil a).
Proof.
  destruct a; cbn [app isnil negb length].
  - apply Nat.ltb_irrefl.
  - apply Nat.ltb_lt. rewrite app_length. lia.
Qed.

Lemma spec_star r : spec r -> spec (RStar r).
Proof.
  intros Hr st s k. rewrite m_star. split.
  - (* -> *)
    generalize (length s) as n. intro n. revert st s.
    induction n as [|n IH]; intros st s H; [rewrite loop_0 in H | rewrite loop_S in H]; apply orb_true_iff in H.
    + destruct H as [H|H]; [|discriminate].
      exists [], s. repeat split; [constructor|]. now rewrite andb_true_r.
    + destruct H as [H|H].
      * exists [], s. repeat split; [constructor|]. now rewrite andb_true_r.
      * apply Hr in H. destruct H as (a & b & -> & HMa & H).
        apply andb_prop in H as [Hlt H]. rewrite nonnil_len in Hlt.
        assert (Ha : a <> []) by (destruct a; [discriminate | discriminate]).
        assert (Hst : st && isnil a = false) by (destruct a; [congruence | apply andb_false_r]).
        rewrite Hst in H. apply IH in H. destruct H as (c & d & -> & HMc & Hk).
        exists (a ++ c), d. rewrite app_assoc. repeat split.
        -- now apply M_star_S.
        -- rewrite isnil_app. destruct a as [|x a]; [congruence|].
           cbn [isnil andb] in *. rewrite andb_false_r. exact Hk.
  - (* <- *)
    intros (s1 & s2 & -> & HM & Hk).
    assert (Hgen : forall n, length (s1 ++ s2) <= n -> loop r k n st (s1 ++ s2) = true);
      [| now apply Hgen].
    remember (RStar r) as rs eqn:Ers. revert Hk.
    induction HM; try discriminate Ers; inversion Ers; subst; intros Hk n Hn.
    + (* zero iterations *)
      cbn [app] in *. rewrite andb_true_r in Hk. destruct n; [rewrite loop_0 | rewrite loop_S]; now rewrite Hk.
    + (* one more iteration *)
      destruct n as [|n].
      { destruct s1; [congruence | cbn in Hn; lia]. }
      rewrite loop_S. apply orb_true_iff. right.
      rewrite <- app_assoc. apply Hr. exists s1, (s2 ++ rest). repeat split; [assumption|].
      rewrite nonnil_len. destruct s1 as [|x s1]; [congruence|]. cbn [isnil negb andb].
      rewrite andb_false_r.
      apply IHHM2; [reflexivity | | ].
      * rewrite isnil_app in Hk. cbn [isnil andb] in Hk |- *. rewrite andb_false_r in Hk. exact Hk.
      * rewrite !app_length in *. cbn [length] in Hn. lia.
Qed.

Theorem m_correct : forall r, spec r.
Proof.
  apply re_ind'.
  - (* cls *) intros f st s k. cbn [m]. split.
    + destruct s as [|c s]; [discriminate|]. intro H. apply andb_prop in H as [Hf Hk].
      exists [c], s. repeat split; [now constructor|]. now rewrite andb_false_r.
    + intros (s1 & s2 & -> & HM & Hk). inversion HM; subst. cbn [app].
      rewrite andb_false_r in Hk.
      match goal with H : f _ = true |- _ => rewrite H end. exact Hk.
  - (* bol *) intros st s k. cbn [m]. split.
    + intro H. apply andb_prop in H as [-> Hk]. exists [], s. repeat split; [constructor | exact Hk].
    + intros (s1 & s2 & -> & HM & Hk). inversion HM; subst. exact Hk.
  - (* eol *) intros st s k. cbn [m]. split.
    + destruct s; [|discriminate]. intro Hk. exists [], []. repeat split; [constructor|]. now rewrite andb_true_r.
    + intros (s1 & s2 & -> & HM & Hk). inversion HM; subst. cbn. now rewrite andb_true_r in Hk.
  - exact spec_cat.
  - exact spec_alt.
  - exact spec_star.
Qed.
Print Assumptions m_correct.

(* unanchored search, as regexp.MatchString *)
Definition anyb : re := RCls (fun _ => true).
Definition search (r : re) (s : bytes) : bool := m (RCat [RStar anyb; r]) true s (fun _ _ => true).
