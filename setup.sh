#!/bin/sh
# Build the framework from files on disk only (offline).
set -e
cd "$(dirname "$0")"
ROOT=$(pwd)
export GOFLAGS=-mod=mod GOPROXY=off GOSUMDB=off GOTOOLCHAIN=local
sh coq/build.sh
ROOT="$ROOT" python3 - <<'PY'
import os, sys
sys.path.insert(0, os.path.join(os.environ['ROOT'], 'lib'))
import runner, props
ok, exe, log = runner.build_harness()
print('harness', ok)
if not ok:
    print(log); sys.exit(1)
for p in sorted(props.PROPS):
    ok, exe, log = runner.build_model(p)
    print('model', p, ok)
    if not ok:
        print(log); sys.exit(1)
    if props.PROPS[p].get('race'):
        ok, exe, log = runner.build_harness(race=True)
        print('harness-race', ok)
        if not ok:
            print(log); sys.exit(1)
PY
