#!/bin/sh
# Build the framework from files on disk only (offline).
set -e
cd /verif
export GOFLAGS=-mod=mod GOPROXY=off GOSUMDB=off GOTOOLCHAIN=local
sh coq/build.sh
python3 - <<'PY'
import sys
sys.path.insert(0, '/verif/lib')
import runner, props
ok, exe, log = runner.build_harness()
print('harness', ok)
if not ok:
    print(log); sys.exit(1)
for p in sorted(props.PROPS):
    ok, exe, log = runner.build_model(p)
    print('model', p, ok)
    if not ok:
        print(log); sys.exit(1)
PY
