From Coq Require Import Extraction ExtrOcamlBasic.
From UF Require Import Run.RunSession.
Extraction "Ex.ml" run_case.
