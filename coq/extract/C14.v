From Coq Require Import Extraction ExtrOcamlBasic.
From UF Require Import Run.RunC14.
Extraction "Ex.ml" run_case.
