#!/bin/sh
# Full (.vo) build of the Coq development; _CoqProject is regenerated from the tree.
set -e
cd "$(dirname "$0")"
{ echo "-Q theories UF"; echo "-arg -w -arg -notation-overridden,-deprecated-hint-without-locality,-deprecated-syntactic-definition"; find theories -name '*.v' | sort; } > _CoqProject.new
if ! cmp -s _CoqProject.new _CoqProject 2>/dev/null; then mv _CoqProject.new _CoqProject; coq_makefile -f _CoqProject -o Makefile >/dev/null; else rm _CoqProject.new; fi
exec make -j"${JOBS:-16}" "$@"
