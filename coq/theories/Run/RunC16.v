(* Case runner for C16: <text hex> TAB <mode> TAB <whitelist> TAB <enabled bits> *)
From Coq Require Import List NArith Bool.
From UF Require Import Base.Lit Base.Bytes Base.Codec Model.Options.
Import ListNotations.

Definition run_case (line : bytes) : bytes :=
  let fs := fields line in
  let mode := nth_field fs 1 in
  if bytes_eqb mode $"absent" then dec_of_N (get_cosmetic_option None)
  else if bytes_eqb (nth_field fs 2) $"E" then $"E"
  else match N_of_dec (nth_field fs 3) with
       | Some en => dec_of_N (get_cosmetic_option (Some (dec_bool (nth_field fs 2), en)))
       | None => $"BADCASE"
       end.
