(* Case runner for C16: <text hex> TAB <mode> [TAB <second rule hex>]; the model parses the rule texts itself. *)
From Coq Require Import List NArith ZArith Bool.
From UF Require Import Base.Lit Base.Bytes Base.Codec Model.Options Model.NetRule Model.Result Run.Common.
Import ListNotations.

Definition run_case (line : bytes) : bytes :=
  let fs := fields line in
  let mode := nth_field fs 1 in
  if bytes_eqb mode $"absent" then dec_of_N (get_cosmetic_option None)
  else match hex_decode (nth_field fs 0) with
       | None => $"BADCASE"
       | Some text =>
         show_res (fun r =>
           if bytes_eqb mode $"pair" then
             (* two rules matching the request, in this order: the priority order selects the verdict *)
             match hex_decode (nth_field fs 2) with
             | None => $"BADCASE"
             | Some text2 =>
               show_res (fun r2 => dec_of_N (result_cosmetic_option (new_matching_result [r; r2] [])))
                        (new_network_rule text2 1%Z)
             end
           else
           (* the rule is the only match, so it is the basic rule of the result *)
           dec_of_N (result_cosmetic_option (new_matching_result [r] [])))
           (new_network_rule text 1%Z)
       end.
