(* Case runner for C06. *)
From Coq Require Import List NArith ZArith Bool.
From UF Require Import Base.Lit Base.Bytes Base.Codec Model.NetRule Model.Result Run.Common.
Import ListNotations.

Definition class_of (o : option net_rule) : bytes :=
  match o with
  | None => $"n:"
  | Some r => (if nr_whitelist r then $"a:" else $"b:") ++ hex_encode (nr_text r)
  end.

Definition parse_field (fs : list bytes) (n : nat) : res (list net_rule) :=
  match dec_list (nth_field fs n) with
  | None => Err
  | Some texts => parse_rules texts 1%Z
  end.

Definition run_case (line : bytes) : bytes :=
  let fs := fields line in
  let kind := nth_field fs 0 in
  if bytes_eqb kind $"web" then
    show_res (fun x => x)
      (do rs <- parse_field fs 1; do src <- parse_field fs 2;
       Ok (class_of (get_basic_result (new_matching_result rs src))))
  else if bytes_eqb kind $"dns" then
    show_res (fun x => x) (do rs <- parse_field fs 1; Ok (class_of (get_dns_basic_rule rs)))
  else
    (* engine: fields 3,4,5 = matched rules for the request, for the referrer, for the DNS request;
       fields 6,7 = for a document request whose referrer is its own URL, and for that referrer *)
    show_res (fun x => x)
      (do m1 <- parse_field fs 3; do m2 <- parse_field fs 4; do m3 <- parse_field fs 5;
       do m4 <- parse_field fs 6; do m5 <- parse_field fs 7;
       Ok (class_of (get_basic_result (new_matching_result m1 m2)) ++ $";" ++
           class_of (get_basic_result (new_matching_result m1 [])) ++ $";" ++
           class_of (get_dns_basic_rule m3) ++ $";" ++
           class_of (get_basic_result (new_matching_result m4 m5)))).
