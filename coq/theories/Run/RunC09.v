(* Case runner for C09: field 2 holds the rules of DNSResult.NetworkRules in order. *)
From Coq Require Import List NArith ZArith Bool.
From UF Require Import Base.Lit Base.Bytes Base.Codec Model.NetRule Model.Result Run.Common.
Import ListNotations.

Definition run_case (line : bytes) : bytes :=
  let fs := fields line in
  match dec_list (nth_field fs 2) with
  | None => $"BADCASE"
  | Some texts => show_res (fun rs => enc_list (map nr_text (dns_rewrites rs))) (parse_rules texts 1%Z)
  end.
