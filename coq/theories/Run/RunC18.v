(* Case runner for C18: <line hex> TAB <ip> TAB <names> TAB <probes> *)
From Coq Require Import List NArith ZArith Bool.
From UF Require Import Base.Lit Base.Bytes Base.Codec Model.Netip Model.Rule Run.Common.
Import ListNotations.

Definition run_case (line : bytes) : bytes :=
  let fs := fields line in
  (* "echo": a case decided by the Go-side oracle alone (many goroutines looking names up in one engine) *)
  if bytes_eqb (nth_field fs 0) $"echo" then nth_field fs 1 else
  match hex_decode (nth_field fs 0), dec_list (nth_field fs 3) with
  | Some text, Some probes =>
    match new_rule text 7%Z with
    | Ok None => $"none"
    | Ok (Some (RHost h)) =>
      show_rule_any (RHost h) ++ $";" ++ flat_map (fun p => enc_bool (host_match h p)) probes ++ $";" ++
      (* DNS engine: the rule is reported under the group of its address family iff the name is listed *)
      flat_map (fun p => if isnil p then $"-" else
                         if host_match h p then (if is4 (hr_ip h) then $"4" else $"6") else $"-") probes
    | Ok (Some r) => show_rule_any r
    | Err => $"E" | Crash => $"P" | Unsupported => $"U"
    end
  | _, _ => $"BADCASE"
  end.
