(* Helpers shared by the case runners. *)
From Coq Require Import List NArith ZArith Bool.
From Coq Require Import Strings.Byte.
From UF Require Import Base.Lit Base.Bytes Base.Codec Model.NetRule.
Import ListNotations.

(* parse a list of rule texts; the first text that is not accepted decides the result *)
Fixpoint parse_rules (texts : list bytes) (id : Z) : res (list net_rule) :=
  match texts with
  | [] => Ok []
  | t :: ts => do r <- new_network_rule t id; do rs <- parse_rules ts id; Ok (r :: rs)
  end.

Definition show_res {A} (show : A -> bytes) (r : res A) : bytes :=
  match r with Ok a => show a | Err => $"E" | Crash => $"P" | Unsupported => $"U" end.

Definition show_opt_text (r : option net_rule) : bytes :=
  match r with None => $"nil" | Some r => hex_encode (nr_text r) end.

(* ---- requests and the Public Suffix List oracle ---- *)
From UF Require Import Model.Netip Model.Request.

(* psl table: flat list [host; suffix; "1"|"0"; host; suffix; ...] *)
Fixpoint psl_table (l : list bytes) : list (bytes * (bytes * bool)) :=
  match l with
  | h :: s :: i :: l' => (h, (s, dec_bool i)) :: psl_table l'
  | _ => []
  end.
Fixpoint assoc_b {A} (k : bytes) (l : list (bytes * A)) : option A :=
  match l with [] => None | (k', v) :: l' => if bytes_eqb k k' then Some v else assoc_b k l' end.
Definition psl_of (tbl : list (bytes * (bytes * bool))) (h : bytes) : bytes * bool :=
  match assoc_b h tbl with Some x => x | None => ([], false) end.

(* request encoding of the harness: kind;url;source;type;hostname;clientname;clientip;tags;dnstype *)
Definition decode_req (psl : bytes -> bytes * bool) (s : bytes) : res request :=
  match split_byte ";"%byte s with
  | [kind; url; source; typ; host; cname; cip; tags; dtype] =>
    match hex_decode url, hex_decode source, N_of_dec typ, hex_decode host, hex_decode cname,
          hex_decode cip, dec_list tags, N_of_dec dtype with
    | Some url, Some source, Some typ, Some host, Some cname, Some cip, Some tags, Some dtype =>
      if bytes_eqb kind $"url" then
        if all_ascii url && all_ascii source then Ok (new_request psl url source typ) else Unsupported
      else
        if negb (all_ascii host) then Unsupported else
        match (if isnil cip then Ok None else match parse_addr cip with Ok a => Ok (Some a) | Err => Ok None | Crash => Crash | Unsupported => Unsupported end) with
        | Ok ip => Ok (new_hostname_request psl host cname ip tags dtype)
        | Err => Err | Crash => Crash | Unsupported => Unsupported
        end
    | _, _, _, _, _, _, _, _ => Err
    end
  | _ => Err
  end.

(* ---- storages and engines ---- *)
From UF Require Import Model.Rule Model.Storage Model.Engines.

Definition parse_flist (s : bytes) : option flist :=
  match split_byte ":"%byte s with
  | [id; ig; c] =>
    match Z_of_dec id, hex_decode c with
    | Some id, Some c => Some {| rl_id := id; rl_content := c; rl_ignore_cosmetic := dec_bool ig |}
    | _, _ => None
    end
  | _ => None
  end.
Definition parse_storage (s : bytes) : option storage := opt_all (map parse_flist (split_byte ";"%byte s)).

Fixpoint assoc_z {A} (k : Z) (l : list (Z * A)) : option A :=
  match l with [] => None | (k', v) :: l' => if Z.eqb k k' then Some v else assoc_z k l' end.

(* sorted set of byte strings: the canonical form both sides print *)
Fixpoint dedup_sorted (l : list bytes) : list bytes :=
  match l with
  | a :: ((b :: _) as l') => if bytes_eqb a b then dedup_sorted l' else a :: dedup_sorted l'
  | _ => l
  end.
Definition sorted_set (l : list bytes) : bytes := enc_list (dedup_sorted (sort_by bytes_leb l)).
(* sorted multiset: a rule reported twice (the same text from two lists) is a different answer *)
Definition sorted_multi (l : list bytes) : bytes := enc_list (sort_by bytes_leb l).

Fixpoint res_all {A} (l : list (res A)) : res (list A) :=
  match l with
  | [] => Ok []
  | r :: l' => do a <- r; do rest <- res_all l'; Ok (a :: rest)
  end.
