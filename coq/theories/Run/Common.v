(* Helpers shared by the case runners. *)
From Coq Require Import List NArith ZArith Bool.
From UF Require Import Base.Lit Base.Bytes Base.Codec Model.NetRule.
Import ListNotations.

(* parse a list of rule texts; the first text that is not accepted decides the result *)
Fixpoint parse_rules (texts : list bytes) (id : Z) : res (list net_rule) :=
  match texts with
  | [] => Ok []
  | t :: ts => do r <- new_network_rule t id; do rs <- parse_rules ts id; Ok (r :: rs)
  end.

Definition show_res {A} (show : A -> bytes) (r : res A) : bytes :=
  match r with Ok a => show a | Err => $"E" | Crash => $"P" | Unsupported => $"U" end.

Definition show_opt_text (r : option net_rule) : bytes :=
  match r with None => $"nil" | Some r => hex_encode (nr_text r) end.
