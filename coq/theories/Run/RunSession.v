(* Case runner for histories (C13, C19): <storage> TAB <ops> TAB <psl table>.
   ops = op|op|...; an op is a request in the harness encoding whose kind is
   "url" / "host" (NetworkEngine.MatchAll), "web" (Engine.MatchRequest: verdict and cosmetic option), "dns"
   (DNSEngine.MatchRequest) or "close" (the lists become unreadable).
   The STATEFUL model (Model/Session.v) is executed on the history from the initial state. *)
From Coq Require Import List NArith ZArith Bool.
From Coq Require Import Strings.Byte.
From UF Require Import Base.Lit Base.Bytes Base.Codec Model.Options Model.Netip Model.NetRule Model.Rule Model.Request
  Model.Match Model.Result Model.Storage Model.Engines Model.Session Run.Common.
Import ListNotations.

Definition cls_of (o : option net_rule) : bytes :=
  match o with
  | None => $"n"
  | Some r => (if is_opt_enabled r OptImportant then $"i" else []) ++ (if nr_whitelist r then $"a" else $"b")
  end.

Definition decode_op (psl : bytes -> bytes * bool) (s : bytes) : res (op * option request) :=
  match split_byte ";"%byte s with
  | [kind; url; source; typ; host; cname; cip; tags; dtype] =>
    if bytes_eqb kind $"close" then Ok (OpClose, None)
    else if bytes_eqb kind $"dns" then
      match hex_decode host, hex_decode cname, hex_decode cip, dec_list tags, N_of_dec dtype with
      | Some host, Some cname, Some cip, Some tags, Some dtype =>
        if negb (all_ascii host) then Unsupported else
        do ip <- (if isnil cip then Ok None else
                  match parse_addr cip with Ok a => Ok (Some a) | Err => Ok None | Crash => Crash | Unsupported => Unsupported end);
        Ok (QDns host cname ip tags dtype, Some (new_hostname_request psl host cname ip tags dtype))
      | _, _, _, _, _ => Err
      end
    else if bytes_eqb kind $"web" then
      (* Engine.MatchRequest: the request is decoded like a "url" request; its referrer is looked up by the model *)
      do q <- decode_req psl (join $";" [$"url"; url; source; typ; host; cname; cip; tags; dtype]); Ok (QWeb q, Some q)
    else do q <- decode_req psl s; Ok (QNet q, Some q)
  | _ => Err
  end.

Definition show_answer (a : answer) : bytes :=
  match a with
  | ANet l => sorted_set (map nr_text l)
  | ADns r matched =>
    sorted_set (map nr_text (dr_network_rules r)) ++ $"/" ++ cls_of (dr_network_rule r) ++ $"/" ++
    sorted_set (map hr_text (dr_v4 r)) ++ $"/" ++ sorted_set (map hr_text (dr_v6 r)) ++ $"/" ++ enc_bool matched
  | AWeb m =>
    $"W" ++ cls_of (get_basic_result m) ++ $"/" ++
    (match get_basic_result m with Some r => hex_encode (nr_text r) | None => $"nil" end) ++ $"/" ++ dec_of_N (result_cosmetic_option m)
  | ANone => $"c"
  end.

Definition run_case (line : bytes) : bytes :=
  let fs := fields line in
  (* cases decided by the implementation-side oracle alone (histories too long for the list-based model):
     the expected observation is carried in the case *)
  if bytes_eqb (nth_field fs 0) $"echo" then nth_field fs 1 else
  match parse_storage (nth_field fs 0), dec_list (nth_field fs 2) with
  | Some st, Some tbl =>
    let psl := psl_of (psl_table tbl) in
    match storage_scan st with
    | Ok scanned =>
      let nrs := flat_map (fun ri => match fst ri with RNet f => [(f, snd ri)] | _ => [] end) scanned in
      let ne := build_net djb2 nrs in
      let de := build_dns djb2 scanned in
      let backing := fun idx => match storage_retrieve st idx with Ok (Some r) => Some r | _ => None end in
      match res_all (map (decode_op psl) (split_byte "|"%byte (nth_field fs 1))) with
      | Ok ops =>
        if existsb (fun oq => match snd oq with
                              | Some q => existsb (fun ri => match rule_match psl (fst ri) q with Unsupported => true | _ => false end) nrs
                              | None => false end) ops
        then $"U"
        else join $"|" (map show_answer (snd (run djb2 psl backing ne de (map fst ops) ss_init)))
      | Err => $"E" | Crash => $"P" | Unsupported => $"U"
      end
    | Err => $"E" | Crash => $"P" | Unsupported => $"U"
    end
  | _, _ => $"BADCASE"
  end.
