(* Case runner for C05: kind TAB <rule text hex> TAB <subjects> TAB <Go's shortcut hex> *)
From Coq Require Import List NArith ZArith Bool.
From UF Require Import Base.Lit Base.Bytes Base.Codec Model.Options Model.NetRule Model.Regex Model.Mask
  Proofs.C05Proofs Run.Common.
Import ListNotations.

Definition run_case (line : bytes) : bytes :=
  let fs := fields line in
  match hex_decode (nth_field fs 1), hex_decode (nth_field fs 3) with
  | Some text, Some go_shortcut =>
    match new_network_rule text 1%Z with
    | Ok r =>
      match prepare_pattern (nr_pattern r) (is_opt_enabled r OptMatchCase) with
      | Ok (PRe _ cr) =>
        if is_regex_pattern (nr_pattern r) then
          (* regex rule: decided per rule by the verified checker on the shortcut the implementation uses;
             a difference to the model's own findRegexpShortcut is reported as a diagnostic suffix *)
          if must_contain (snd cr) go_shortcut then
            hex_encode go_shortcut ++ $";sound" ++
            (if bytes_eqb go_shortcut (nr_shortcut r) then [] else $";model-shortcut=" ++ hex_encode (nr_shortcut r))
          else $"U:undecided"
        else
          (* mask rule: the universal theorem C05_mask applies to the model's shortcut *)
          hex_encode (nr_shortcut r) ++ $";sound"
      | Ok _ => hex_encode (nr_shortcut r) ++ $";nore"
      | Err => $"E" | Crash => $"P" | Unsupported => $"U:regex-fragment"
      end
    | Err => $"E" | Crash => $"P" | Unsupported => $"U:text"
    end
  | _, _ => $"BADCASE"
  end.
