(* Case runner for C08 (kind "direct"): all listed rules are treated as matching. *)
From Coq Require Import List NArith ZArith Bool.
From UF Require Import Base.Lit Base.Bytes Base.Codec Model.NetRule Model.Result Run.Common.
Import ListNotations.

Definition show_texts (l : list net_rule) : bytes := enc_list (map nr_text l).

Definition observe (rs : list net_rule) : bytes :=
  show_texts (remove_badfilter rs) ++ $";" ++ show_opt_text (get_dns_basic_rule rs) ++ $";" ++
  show_opt_text (get_basic_result (new_matching_result rs [])) ++ $";" ++ show_texts (dns_rewrites rs).

Definition run_case (line : bytes) : bytes :=
  let fs := fields line in
  match dec_list (nth_field fs 1) with
  | None => $"BADCASE"
  | Some texts => show_res observe (parse_rules texts 1%Z)
  end.
