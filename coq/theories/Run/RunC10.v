(* Case runner for C10: <value hex>; the rule text is "||h^$dnsrewrite=" ++ value. *)
From Coq Require Import List NArith ZArith Bool.
From UF Require Import Base.Lit Base.Bytes Base.Codec Model.DNSRewrite Model.NetRule.
Import ListNotations.

Definition run_case (line : bytes) : bytes :=
  match hex_decode (tl line) with
  | None => $"BADCASE"
  | Some v =>
    match new_network_rule ($"||h^$dnsrewrite=" ++ v) 1%Z with
    | Ok r => show_dnsrewrite (nr_dnsrewrite r)
    | Err => $"E"
    | Crash => $"P"
    | Unsupported => $"U"
    end
  end.
