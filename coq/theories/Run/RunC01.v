(* Case runner for C01: engine TAB <storage> TAB <requests> TAB <psl table> | hash TAB <string> *)
From Coq Require Import List NArith ZArith Bool.
From Coq Require Import Strings.Byte.
From UF Require Import Base.Lit Base.Bytes Base.Codec Model.NetRule Model.Rule Model.Request Model.Match
  Model.Storage Model.Engines Run.Common.
Import ListNotations.

Definition net_rules_of (l : list (rule * Z)) : list (net_rule * Z) :=
  flat_map (fun ri => match fst ri with RNet f => [(f, snd ri)] | _ => [] end) l.

Definition run_case (line : bytes) : bytes :=
  let fs := fields line in
  if bytes_eqb (nth_field fs 0) $"hash" then
    match hex_decode (nth_field fs 1) with Some s => dec_of_N (djb2 s) | None => $"BADCASE" end
  else
  match parse_storage (nth_field fs 1), dec_list (nth_field fs 3) with
  | Some st, Some tbl =>
    let psl := psl_of (psl_table tbl) in
    match storage_scan st with
    | Ok scanned =>
      let nrs := net_rules_of scanned in
      let e := build_net djb2 nrs in
      let retr := fun idx => assoc_z idx (map (fun ri => (snd ri, fst ri)) nrs) in
      show_res (fun l => join $"|" l)
        (res_all (map (fun rq =>
           do q <- decode_req psl rq;
           (* a rule whose match is outside the modelled fragment makes the request undecidable *)
           if existsb (fun ri => match rule_match psl (fst ri) q with Unsupported => true | _ => false end) nrs
           then Unsupported
           else Ok (sorted_multi (map nr_text (match_all djb2 psl retr e q))))
           (split_byte "|"%byte (nth_field fs 2))))
    | Err => $"E" | Crash => $"P" | Unsupported => $"U"
    end
  | _, _ => $"BADCASE"
  end.
