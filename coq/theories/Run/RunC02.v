(* Case runner for C02: <storage> TAB <requests> TAB <psl table> *)
From Coq Require Import List NArith ZArith Bool.
From Coq Require Import Strings.Byte.
From UF Require Import Base.Lit Base.Bytes Base.Codec Model.Options Model.NetRule Model.Rule Model.Request Model.Match
  Model.Result Model.Storage Model.Engines Run.Common.
Import ListNotations.

Definition cls_of (o : option net_rule) : bytes :=
  match o with
  | None => $"n"
  | Some r => (if is_opt_enabled r OptImportant then $"i" else []) ++ (if nr_whitelist r then $"a" else $"b")
  end.

Definition run_case (line : bytes) : bytes :=
  let fs := fields line in
  match parse_storage (nth_field fs 0), dec_list (nth_field fs 2) with
  | Some st, Some tbl =>
    let psl := psl_of (psl_table tbl) in
    match storage_scan st with
    | Ok scanned =>
      let e := build_dns djb2 scanned in
      let retr := fun idx => match assoc_z idx (map (fun ri => (snd ri, fst ri)) scanned) with Some (RNet f) => Some f | _ => None end in
      let retr_host := fun idx => match assoc_z idx (map (fun ri => (snd ri, fst ri)) scanned) with Some (RHost h) => Some h | _ => None end in
      let nrs := flat_map (fun ri => match fst ri with RNet f => [f] | _ => [] end) scanned in
      show_res (fun l => join $"|" l)
        (res_all (map (fun rq =>
           do q <- decode_req psl rq;
           if existsb (fun f => match rule_match psl f q with Unsupported => true | _ => false end) nrs
           then Unsupported
           else
             let '(r, matched) := dns_match djb2 psl retr retr_host e (rq_hostname q) q in
             Ok (sorted_multi (map nr_text (dr_network_rules r)) ++ $"/" ++ cls_of (dr_network_rule r) ++ $"/" ++
                 sorted_multi (map hr_text (dr_v4 r)) ++ $"/" ++ sorted_multi (map hr_text (dr_v6 r)) ++ $"/" ++ enc_bool matched))
           (split_byte "|"%byte (nth_field fs 1))))
    | Err => $"E" | Crash => $"P" | Unsupported => $"U"
    end
  | _, _ => $"BADCASE"
  end.
