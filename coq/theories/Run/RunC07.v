(* Case runner for C07. *)
From Coq Require Import List NArith ZArith Bool.
From UF Require Import Base.Lit Base.Bytes Base.Codec Model.NetRule Model.Result Run.Common.
Import ListNotations.

Definition run_case (line : bytes) : bytes :=
  let fs := fields line in
  match dec_list (nth_field fs 1) with
  | None => $"BADCASE"
  | Some texts =>
    show_res (fun rs =>
      if bytes_eqb (nth_field fs 0) $"pairs" then
        flat_map (fun a => flat_map (fun b => enc_bool (is_higher_priority a b)) rs) rs
      else if bytes_eqb (nth_field fs 0) $"selectsrc" then
        (* candidates with the rules matching the page (field 2): NewMatchingResult(rs, src).BasicRule *)
        match dec_list (nth_field fs 2) with
        | None => $"BADCASE"
        | Some stexts =>
          show_res (fun ss => show_opt_text (mr_basic (new_matching_result rs ss))) (parse_rules stexts 1%Z)
        end
      else
        show_opt_text (get_dns_basic_rule rs) ++ $";" ++
        show_opt_text (get_basic_result (new_matching_result rs [])))
      (parse_rules texts 1%Z)
  end.
