(* Case runner for C07. *)
From Coq Require Import List NArith ZArith Bool.
From UF Require Import Base.Lit Base.Bytes Base.Codec Model.NetRule Model.Result Run.Common.
Import ListNotations.

Definition run_case (line : bytes) : bytes :=
  let fs := fields line in
  match dec_list (nth_field fs 1) with
  | None => $"BADCASE"
  | Some texts =>
    show_res (fun rs =>
      if bytes_eqb (nth_field fs 0) $"pairs" then
        flat_map (fun a => flat_map (fun b => enc_bool (is_higher_priority a b)) rs) rs
      else
        show_opt_text (get_dns_basic_rule rs) ++ $";" ++
        show_opt_text (get_basic_result (new_matching_result rs [])))
      (parse_rules texts 1%Z)
  end.
