(* Case runner for C03: <pattern hex> TAB <match-case> TAB <subjects> *)
From Coq Require Import List NArith ZArith Bool.
From UF Require Import Base.Lit Base.Bytes Base.Codec Model.Options Model.NetRule Model.Regex Model.Mask Run.Common.
Import ListNotations.

Definition run_case (line : bytes) : bytes :=
  let fs := fields line in
  match hex_decode (nth_field fs 0), dec_list (nth_field fs 2) with
  | Some p, Some subjects =>
    let text := p ++ $"$domain=x.org" ++ (if dec_bool (nth_field fs 1) then $",match-case" else []) in
    match new_network_rule text 1%Z with
    | Ok r =>
      show_res (fun pp =>
        match pp with
        | PAny => $"0;;" ++ flat_map (fun _ => $"1") subjects
        | PInvalid => $"-1;;" ++ flat_map (fun _ => $"0") subjects
        | PRe t cr =>
          if forallb all_ascii subjects then
            $"1;" ++ hex_encode t ++ $";" ++ flat_map (fun s => enc_bool (match_string cr s)) subjects
          else $"U"
        end) (prepare_pattern (nr_pattern r) (is_opt_enabled r OptMatchCase))
    | Err => $"E" | Crash => $"P" | Unsupported => $"U"
    end
  | _, _ => $"BADCASE"
  end.
