(* Case runner for C04: <rule text hex> TAB <request> TAB <psl table> *)
From Coq Require Import List NArith ZArith Bool.
From UF Require Import Base.Lit Base.Bytes Base.Codec Model.NetRule Model.Request Model.Match Run.Common.
Import ListNotations.

Definition run_case (line : bytes) : bytes :=
  let fs := fields line in
  match hex_decode (nth_field fs 0), dec_list (nth_field fs 2) with
  | Some text, Some tbl =>
    let psl := psl_of (psl_table tbl) in
    show_res enc_bool
      (do r <- new_network_rule text 1%Z; do q <- decode_req psl (nth_field fs 1); rule_match psl r q)
  | _, _ => $"BADCASE"
  end.
