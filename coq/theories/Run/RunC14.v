(* Case runner for C14: the input is the list of access kinds the implementation run reached ("1011": CacheRead,
   CacheWrite, FileRead, Compile).  The output is the lock mode the protocol model REQUIRES at each kind of
   access — read off the region tasks the theorems of Properties/C14.v are about — followed by the pool and
   answer claims (C14_pool_exclusive, C14_load/lookup/prepare). *)
From Coq Require Import List NArith Bool.
From Coq Require Import Strings.Byte.
From UF Require Import Base.Lit Base.Bytes Base.Codec Model.Conc.
Import ListNotations.

Definition mode_of {lk C out} (tk : task lk C out) : bytes := if t_write tk then $"w" else $"r".
Definition required : list (bytes * bytes) :=
  [ ($"CacheRead", mode_of (T_lookup unit unit (0, 0)));
    ($"CacheWrite", mode_of (T_insert unit unit (0, 0) tt 0));
    ($"FileRead", mode_of (T_load unit unit (fun _ _ => None) (0, 0)));
    ($"Compile", mode_of (T_prepare unit unit (fun _ => tt) 0)) ].

Definition run_case (line : bytes) : bytes :=
  let fs := fields line in
  let reached := nth_field fs 0 in
  join $";" (map (fun kr => fst (fst kr) ++ $"=" ++ (if beq (snd kr) "1"%byte then snd (fst kr) else $"-"))
                 (combine required reached))
  ++ $";pool=excl;answers=seq".
