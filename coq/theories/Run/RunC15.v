(* Case runner for C15: <storage> TAB <hostnames> TAB <psl table> *)
From Coq Require Import List NArith ZArith Bool.
From Coq Require Import Strings.Byte.
From UF Require Import Base.Lit Base.Bytes Base.Codec Model.Rule Model.Storage Model.Engines Run.Common.
Import ListNotations.

Definition run_case (line : bytes) : bytes :=
  let fs := fields line in
  match parse_storage (nth_field fs 0), dec_list (nth_field fs 1), dec_list (nth_field fs 2) with
  | Some st, Some hosts, Some tbl =>
    let psl := psl_of (psl_table tbl) in
    match storage_scan st with
    | Ok scanned =>
      let crs := flat_map (fun ri => match fst ri with RCos c => [c] | _ => [] end) scanned in
      let e := build_cos crs in
      join $"|" (flat_map (fun h =>
        map (fun fl => let css := Nat.odd fl in let js := Nat.odd (Nat.div2 fl) in let gen := Nat.odd (Nat.div2 (Nat.div2 fl)) in
                       let '(g, s) := cos_engine_match psl e h css js gen in
                       sorted_set g ++ $"/" ++ sorted_set s) (seq 0 8)) hosts)
    | Err => $"E" | Crash => $"P" | Unsupported => $"U"
    end
  | _, _, _ => $"BADCASE"
  end.
