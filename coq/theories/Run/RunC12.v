(* Case runner for C12. *)
From Coq Require Import List NArith ZArith Bool.
From Coq Require Import Strings.Byte.
From UF Require Import Base.Lit Base.Bytes Base.Codec Model.NetRule Model.Request Model.Match Model.Rule Run.Common.
Import ListNotations.

Definition kind_of (r : rule) : bytes := match r with RNet _ => $"N" | RHost _ => $"H" | RCos _ => $"C" end.

(* match results of one rule against the requests; Unsupported for the whole case if any is *)
Fixpoint match_all (r : rule) (reqs psls : list bytes) : res bytes :=
  match reqs, psls with
  | rq :: reqs', ps :: psls' =>
    match dec_list ps with
    | None => Err
    | Some tbl =>
      let psl := psl_of (psl_table tbl) in
      do q <- decode_req psl rq;
      do b <- (match r with
               | RNet f => rule_match psl f q
               | RHost h => Ok (host_match h (rq_hostname q))
               | RCos c => Ok (cos_match psl c (rq_hostname q))
               end);
      do rest <- match_all r reqs' psls';
      Ok (enc_bool b ++ rest)
    end
  | _, _ => Ok []
  end.

Definition run_case (line : bytes) : bytes :=
  let fs := fields line in
  if bytes_eqb (nth_field fs 0) $"line" then
    match hex_decode (nth_field fs 1) with
    | None => $"BADCASE"
    | Some text =>
      match new_rule text 11%Z with
      | Ok None => $"none"
      | Ok (Some r) =>
        show_res (fun m => kind_of r ++ $":" ++ hex_encode (rule_text r) ++ $":" ++ dec_of_Z (rule_list r) ++ $":" ++ m)
          (match_all r (split_byte "|"%byte (nth_field fs 2)) (split_byte "|"%byte (nth_field fs 3)))
      | Err => $"E" | Crash => $"P" | Unsupported => $"U"
      end
    end
  else
    match dec_list (nth_field fs 1) with
    | None => $"BADCASE"
    | Some lines =>
      (* the scan sequence: texts of the rules yielded line by line *)
      (fix go (ls : list bytes) (acc : list bytes) : bytes :=
         match ls with
         | [] => enc_list (rev' acc)
         | l :: ls' =>
           match new_rule l 3%Z with
           | Ok (Some r) => go ls' (rule_text r :: acc)
           | Ok None | Err => go ls' acc
           | Crash => $"P"
           | Unsupported => $"U"
           end
         end) lines []
    end.
