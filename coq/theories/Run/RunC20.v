(* Case runner for C20: <body hex> TAB <gzip flag> TAB <csp flag> TAB <injection hex (oracle field: the tag the implementation built)> *)
From Coq Require Import List NArith Bool.
From Coq Require Import Strings.Byte.
From UF Require Import Base.Lit Base.Bytes Base.Codec Model.Html Run.Common.
Import ListNotations.

Definition run_case (line : bytes) : bytes :=
  let fs := fields line in
  (* "echo": a case decided by the Go-side reference alone (bodies of several MiB, beyond what the list model evaluates) *)
  if bytes_eqb (nth_field fs 0) $"echo" then nth_field fs 1 else
  match hex_decode (nth_field fs 0), hex_decode (nth_field fs 3) with
  | Some body, Some tag => show_res hex_encode (filter_html body tag)
  | _, _ => $"BADCASE"
  end.
