(* Case runner for C11: <id>:<ignore>:<content hex>;... *)
From Coq Require Import List NArith ZArith Bool.
From Coq Require Import Strings.Byte.
From UF Require Import Base.Lit Base.Bytes Base.Codec Model.Rule Model.Storage Run.Common.
Import ListNotations.

Definition kind_of (r : rule) : bytes := match r with RNet _ => $"N" | RHost _ => $"H" | RCos _ => $"C" end.

Definition run_case (line : bytes) : bytes :=
  match parse_storage line with
  | None => $"BADCASE"
  | Some st =>
    match storage_scan st with
    | Ok l =>
      (* every yielded index must retrieve the yielded rule in the model as well (cross-check of the
         model against its own theorem C11_retrieve; a failure prints a marker that cannot match) *)
      let ok := forallb (fun ri => match storage_retrieve st (snd ri) with
                                   | Ok (Some r) => bytes_eqb (rule_text r) (rule_text (fst ri))
                                   | _ => false end) l in
      join $"," (map (fun ri => dec_of_Z (snd ri) ++ $":" ++ kind_of (fst ri) ++ $":" ++
                                 hex_encode (rule_text (fst ri)) ++ $":" ++ dec_of_Z (rule_list (fst ri))) l)
      ++ (if ok then [] else $"MODEL-RETRIEVE-MISMATCH")
    | Err => $"E" | Crash => $"P" | Unsupported => $"U"
    end
  end.
