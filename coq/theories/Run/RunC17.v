(* Case runner for C17. *)
From Coq Require Import List NArith ZArith Bool.
From UF Require Import Base.Lit Base.Bytes Base.Codec Model.Options Model.Request Run.Common.
Import ListNotations.

Definition show_req (q : request) : bytes :=
  join $";" [hex_encode (rq_hostname q); hex_encode (rq_domain q); hex_encode (rq_source_hostname q);
             hex_encode (rq_source_domain q); enc_bool (rq_third_party q); hex_encode (rq_url_lower q)].

Definition run_case (line : bytes) : bytes :=
  let fs := fields line in
  if bytes_eqb (nth_field fs 0) $"url" then
    match hex_decode (nth_field fs 1), hex_decode (nth_field fs 2), dec_list (nth_field fs 4) with
    | Some u, Some s, Some tbl =>
      if all_ascii u && all_ascii s then show_req (new_request (psl_of (psl_table tbl)) u s TypeScript) else $"U"
    | _, _, _ => $"BADCASE"
    end
  else
    match hex_decode (nth_field fs 1), dec_list (nth_field fs 2) with
    | Some h, Some tbl =>
      if all_ascii h then show_req (new_hostname_request (psl_of (psl_table tbl)) h [] None [] 0) else $"U"
    | _, _ => $"BADCASE"
    end.
