(* String-literal notation $"..." for [list byte] without importing String
   (importing it would shadow [length]/[append] for lists). *)
From Coq Require Strings.String Strings.Byte List.
Export Coq.Strings.String.StringSyntax.
Delimit Scope string_scope with string.
Notation "$ s" := (Coq.Strings.String.list_byte_of_string s%string) (at level 1, format "$ s").
