(* Byte strings = [list byte]; the part of Go's [strings] package the library uses,
   at byte level.  Definitions only (lemmas live in Proofs/). *)
From Coq Require Import List Arith NArith ZArith Bool.
From Coq Require Import Strings.Byte.
From UF Require Import Base.Lit.
Import ListNotations.

Definition bytes := list byte.

(* List.rev of the standard library is quadratic (rev l ++ [x]); the executable model uses the
   linear rev_append form, equal to it by [rev'_eq] *)
Definition rev' {A} (l : list A) : list A := rev_append l [].
Lemma rev'_eq {A} (l : list A) : rev' l = rev l.
Proof. unfold rev'. symmetry. apply rev_alt. Qed.

Definition b2n (b : byte) : N := Byte.to_N b.
Definition beq (a b : byte) : bool := N.eqb (b2n a) (b2n b).
Definition n2b (n : N) : byte := match Byte.of_N n with Some b => b | None => x00 end.

(* explicit partiality: Ok / Go error / Go panic / outside the modelled fragment *)
Inductive res (A : Type) := Ok (a : A) | Err | Crash | Unsupported.
Arguments Ok {A}. Arguments Err {A}. Arguments Crash {A}. Arguments Unsupported {A}.

Definition rbind {A B} (r : res A) (f : A -> res B) : res B :=
  match r with Ok a => f a | Err => Err | Crash => Crash | Unsupported => Unsupported end.
Notation "'do' x <- r ; k" := (rbind r (fun x => k)) (at level 200, x pattern, r at level 100, k at level 200).

Definition isnil {A} (s : list A) : bool := match s with [] => true | _ => false end.

Fixpoint bytes_eqb (a b : bytes) : bool :=
  match a, b with
  | [], [] => true
  | x :: a', y :: b' => beq x y && bytes_eqb a' b'
  | _, _ => false
  end.

Fixpoint has_prefix (p s : bytes) : bool :=
  match p, s with
  | [], _ => true
  | a :: p', b :: s' => beq a b && has_prefix p' s'
  | _ :: _, [] => false
  end.
Definition has_suffix (p s : bytes) : bool :=
  (length p <=? length s) && bytes_eqb p (skipn (length s - length p) s).

(* strings.Contains / strings.Index *)
Fixpoint contains (sub s : bytes) : bool :=
  has_prefix sub s || match s with [] => false | _ :: s' => contains sub s' end.
Fixpoint index_of (sub s : bytes) : option nat :=
  if has_prefix sub s then Some 0
  else match s with [] => None | _ :: s' => option_map S (index_of sub s') end.
Fixpoint index_byte (c : byte) (s : bytes) : option nat :=
  match s with [] => None | x :: s' => if beq x c then Some 0 else option_map S (index_byte c s') end.
Fixpoint index_any (cs : bytes) (s : bytes) : option nat :=
  match s with [] => None | x :: s' => if existsb (beq x) cs then Some 0 else option_map S (index_any cs s') end.
Definition mem_byte (c : byte) (cs : bytes) : bool := existsb (beq c) cs.

(* strings.LastIndex with a one-byte needle *)
Definition last_index_byte (c : byte) (s : bytes) : option nat :=
  match index_byte c (rev' s) with Some i => Some (length s - 1 - i) | None => None end.

(* Go slice expression s[lo:hi]; panics (Crash) when out of range *)
Definition slice_chk (s : bytes) (lo hi : nat) : res bytes :=
  if (lo <=? hi) && (hi <=? length s) then Ok (firstn (hi - lo) (skipn lo s)) else Crash.
Definition slice (s : bytes) (lo hi : nat) : bytes := firstn (hi - lo) (skipn lo s).

(* strings.Split(s, sep) for a one-byte separator: all tokens preserved *)
Fixpoint split_byte_aux (c : byte) (s : bytes) (cur : bytes) : list bytes :=
  match s with
  | [] => [rev' cur]
  | x :: s' => if beq x c then rev' cur :: split_byte_aux c s' [] else split_byte_aux c s' (x :: cur)
  end.
Definition split_byte (c : byte) (s : bytes) : list bytes := split_byte_aux c s [].

(* strings.SplitN(s, sep, n) for a one-byte separator and n >= 1 *)
Fixpoint splitn_byte_aux (c : byte) (n : nat) (s : bytes) (cur : bytes) : list bytes :=
  match n with
  | O => [rev' cur ++ s]
  | S n' =>
    match s with
    | [] => [rev' cur]
    | x :: s' => if beq x c then rev' cur :: splitn_byte_aux c n' s' [] else splitn_byte_aux c n s' (x :: cur)
    end
  end.
Definition splitn_byte (c : byte) (n : nat) (s : bytes) : list bytes := splitn_byte_aux c (n - 1) s [].

(* strings.ReplaceAll with a one-byte needle *)
Definition replace1 (c : byte) (r : bytes) (s : bytes) : bytes :=
  flat_map (fun x => if beq x c then r else [x]) s.
(* strings.ReplaceAll with a general non-empty needle *)
Fixpoint replace_all_fuel (fuel : nat) (old new s : bytes) : bytes :=
  match fuel with
  | O => s
  | S f =>
    match s with
    | [] => []
    | x :: s' => if has_prefix old s then new ++ replace_all_fuel f old new (skipn (length old) s)
                 else x :: replace_all_fuel f old new s'
    end
  end.
Definition replace_all (old new s : bytes) : bytes := replace_all_fuel (S (length s)) old new s.

Fixpoint join (sep : bytes) (l : list bytes) : bytes :=
  match l with [] => [] | [a] => a | a :: l' => a ++ sep ++ join sep l' end.

(* ASCII classes *)
Definition in_range (lo hi : N) (b : byte) : bool := N.leb lo (b2n b) && N.leb (b2n b) hi.
Definition is_lower (b : byte) := in_range 97 122 b.
Definition is_upper (b : byte) := in_range 65 90 b.
Definition is_digit (b : byte) := in_range 48 57 b.
Definition is_alpha (b : byte) := is_lower b || is_upper b.
Definition is_alnum (b : byte) := is_alpha b || is_digit b.
Definition is_ascii (b : byte) := N.ltb (b2n b) 128.
Definition all_ascii (s : bytes) : bool := forallb is_ascii s.
Definition lower_b (b : byte) : byte := if is_upper b then n2b (b2n b + 32) else b.
Definition upper_b (b : byte) : byte := if is_lower b then n2b (b2n b - 32) else b.
(* strings.ToLower / ToUpper on ASCII text *)
Definition to_lower (s : bytes) : bytes := map lower_b s.
Definition to_upper (s : bytes) : bytes := map upper_b s.
(* strings.EqualFold on ASCII text *)
Definition equal_fold (a b : bytes) : bool := bytes_eqb (to_lower a) (to_lower b).

(* strings.TrimSpace, ASCII white space: \t \n \v \f \r space.  (U+0085 and U+00A0 and the
   other Unicode spaces are multi-byte in UTF-8; callers declare such lines Unsupported.) *)
Definition is_space (b : byte) : bool :=
  match b2n b with 9%N | 10%N | 11%N | 12%N | 13%N | 32%N => true | _ => false end.
Fixpoint trim_left (s : bytes) : bytes :=
  match s with x :: s' => if is_space x then trim_left s' else s | [] => [] end.
Definition trim_right (s : bytes) : bytes := rev' (trim_left (rev' s)).
Definition trim_space (s : bytes) : bytes := trim_right (trim_left s).

(* string comparison as Go's < on strings (bytewise) *)
Fixpoint bytes_cmp (a b : bytes) : comparison :=
  match a, b with
  | [], [] => Eq
  | [], _ => Lt
  | _, [] => Gt
  | x :: a', y :: b' => match N.compare (b2n x) (b2n y) with Eq => bytes_cmp a' b' | c => c end
  end.
Definition bytes_leb (a b : bytes) : bool := match bytes_cmp a b with Gt => false | _ => true end.

Fixpoint list_eqb {A} (eq : A -> A -> bool) (a b : list A) : bool :=
  match a, b with
  | [], [] => true
  | x :: a', y :: b' => eq x y && list_eqb eq a' b'
  | _, _ => false
  end.

Definition last_byte (s : bytes) : option byte :=
  match rev' s with x :: _ => Some x | [] => None end.

(* insertion sort (stable); Go's slices.Sort on a total order yields the same list *)
Fixpoint insert_sorted {A} (le : A -> A -> bool) (x : A) (l : list A) : list A :=
  match l with
  | [] => [x]
  | y :: l' => if le x y then x :: l else y :: insert_sorted le x l'
  end.
Definition sort_by {A} (le : A -> A -> bool) (l : list A) : list A :=
  fold_right (insert_sorted le) [] l.
