(* Wire format shared by the Go harness and the extracted model: one case per line,
   fields separated by TAB, byte strings in lower-case hex, lists as comma-separated
   items each prefixed by 'x' (so [] = "" and [""] = "x"), numbers in decimal. *)
From Coq Require Import List Arith NArith ZArith Bool.
From Coq Require Import Strings.Byte.
From UF Require Import Base.Lit Base.Bytes.
Import ListNotations.

Definition hex_val (b : byte) : option N :=
  if is_digit b then Some (b2n b - 48)%N
  else if in_range 97 102 b then Some (b2n b - 87)%N
  else if in_range 65 70 b then Some (b2n b - 55)%N
  else None.
Definition hex_digit (n : N) : byte := if N.ltb n 10 then n2b (n + 48) else n2b (n + 87).

Fixpoint hex_decode (s : bytes) : option bytes :=
  match s with
  | [] => Some []
  | a :: b :: s' =>
    match hex_val a, hex_val b, hex_decode s' with
    | Some x, Some y, Some r => Some (n2b (x * 16 + y) :: r)
    | _, _, _ => None
    end
  | _ => None
  end.
Definition hex_encode (s : bytes) : bytes :=
  flat_map (fun b => [hex_digit (N.div (b2n b) 16); hex_digit (N.modulo (b2n b) 16)]) s.

(* decimal *)
Fixpoint dec_digits (fuel : nat) (n : N) (acc : bytes) : bytes :=
  match fuel with
  | O => acc
  | S f => let acc' := n2b (N.modulo n 10 + 48) :: acc in
           if N.ltb n 10 then acc' else dec_digits f (N.div n 10) acc'
  end.
Definition dec_of_N (n : N) : bytes := dec_digits (S (N.to_nat (N.size n))) n [].
Definition dec_of_nat (n : nat) : bytes := dec_of_N (N.of_nat n).
Definition dec_of_Z (z : Z) : bytes :=
  match z with
  | Z0 => $"0"
  | Zpos p => dec_of_N (Npos p)
  | Zneg p => $"-" ++ dec_of_N (Npos p)
  end.
Fixpoint N_of_dec_acc (s : bytes) (acc : N) : option N :=
  match s with
  | [] => Some acc
  | c :: s' => if is_digit c then N_of_dec_acc s' (acc * 10 + (b2n c - 48))%N else None
  end.
Definition N_of_dec (s : bytes) : option N :=
  match s with [] => None | _ => N_of_dec_acc s 0%N end.
Definition Z_of_dec (s : bytes) : option Z :=
  match s with
  | c :: s' => if beq c "-"%byte then option_map (fun n => Z.opp (Z.of_N n)) (N_of_dec s')
               else option_map Z.of_N (N_of_dec s)
  | [] => None
  end.
Definition nat_of_dec (s : bytes) : option nat := option_map N.to_nat (N_of_dec s).

Definition tab : byte := x09.
Definition fields (line : bytes) : list bytes := split_byte tab line.

Definition enc_list (l : list bytes) : bytes :=
  join $"," (map (fun s => "x"%byte :: hex_encode s) l).
Fixpoint opt_all {A} (l : list (option A)) : option (list A) :=
  match l with
  | [] => Some []
  | Some a :: l' => option_map (cons a) (opt_all l')
  | None :: _ => None
  end.
Definition dec_list (s : bytes) : option (list bytes) :=
  match s with
  | [] => Some []
  | _ => opt_all (map (fun it => match it with
                                 | c :: h => if beq c "x"%byte then hex_decode h else None
                                 | [] => None end) (split_byte ","%byte s))
  end.

Definition enc_bool (b : bool) : bytes := if b then $"1" else $"0".
Definition dec_bool (s : bytes) : bool := bytes_eqb s $"1".

Definition nth_field (fs : list bytes) (n : nat) : bytes := nth n fs [].
