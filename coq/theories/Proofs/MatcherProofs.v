(* Correctness of the CPS backtracking matcher of Model/Regex.v with respect to a relational
   semantics of regular expressions.  Ported and extended from notes/prototypes/Matcher.v. *)
From Coq Require Import List Arith NArith Bool Lia.
From Coq Require Import Strings.Byte.
From UF Require Import Base.Lit Base.Bytes Model.Regex Proofs.EqLemmas.
Import ListNotations.

(* nested induction principle for [re] *)
Section ReInd.
  Variable P : re -> Prop.
  Hypothesis Hcls : forall neg rs, P (RCls neg rs).
  Hypothesis Hany : P RAny.
  Hypothesis Hbol : P RBol.
  Hypothesis Heol : P REol.
  Hypothesis Hwb : P RWordB.
  Hypothesis Hnwb : P RNWordB.
  Hypothesis Hcat : forall l, Forall P l -> P (RCat l).
  Hypothesis Halt : forall l, Forall P l -> P (RAlt l).
  Hypothesis Hstar : forall r, P r -> P (RStar r).
  Hypothesis Hplus : forall r, P r -> P (RPlus r).
  Hypothesis Hopt : forall r, P r -> P (ROpt r).
  Hypothesis Hrep : forall r n m, P r -> P (RRep r n m).
  Fixpoint re_ind' (r : re) : P r :=
    match r with
    | RCls neg rs => Hcls neg rs
    | RAny => Hany | RBol => Hbol | REol => Heol | RWordB => Hwb | RNWordB => Hnwb
    | RCat l => Hcat l ((fix go (l : list re) : Forall P l :=
                           match l with [] => Forall_nil P | r :: l' => Forall_cons r (re_ind' r) (go l') end) l)
    | RAlt l => Halt l ((fix go (l : list re) : Forall P l :=
                           match l with [] => Forall_nil P | r :: l' => Forall_cons r (re_ind' r) (go l') end) l)
    | RStar r => Hstar r (re_ind' r)
    | RPlus r => Hplus r (re_ind' r)
    | ROpt r => Hopt r (re_ind' r)
    | RRep r n m => Hrep r n m (re_ind' r)
    end.
End ReInd.

(* the byte before the current position after consuming s *)
Definition adv (prev : option byte) (s : bytes) : option byte := fold_left (fun _ c => Some c) s prev.
Lemma adv_app prev a b : adv prev (a ++ b) = adv (adv prev a) b.
Proof. apply fold_left_app. Qed.
Lemma adv_nil prev : adv prev [] = prev. Proof. reflexivity. Qed.

Section Sem.
Variable ci : bool.

(* M r prev s1 rest : r matches s1, the byte before s1 being prev and the text continuing with rest *)
Inductive M : re -> option byte -> bytes -> bytes -> Prop :=
| M_cls neg rs c prev rest : match_cls ci neg rs c = true -> M (RCls neg rs) prev [c] rest
| M_any c prev rest : beq c x0a = false -> M RAny prev [c] rest
| M_bol rest : M RBol None [] rest
| M_eol prev : M REol prev [] []
| M_wordb prev rest : at_word_boundary prev rest = true -> M RWordB prev [] rest
| M_nwordb prev rest : at_word_boundary prev rest = false -> M RNWordB prev [] rest
| M_cat_nil prev rest : M (RCat []) prev [] rest
| M_cat_cons r l prev s1 s2 rest :
    M r prev s1 (s2 ++ rest) -> M (RCat l) (adv prev s1) s2 rest -> M (RCat (r :: l)) prev (s1 ++ s2) rest
| M_alt_hd r l prev s rest : M r prev s rest -> M (RAlt (r :: l)) prev s rest
| M_alt_tl r l prev s rest : M (RAlt l) prev s rest -> M (RAlt (r :: l)) prev s rest
| M_star_0 r prev rest : M (RStar r) prev [] rest
| M_star_S r prev s1 s2 rest :
    s1 <> [] -> M r prev s1 (s2 ++ rest) -> M (RStar r) (adv prev s1) s2 rest -> M (RStar r) prev (s1 ++ s2) rest
| M_plus r prev s1 s2 rest :
    M r prev s1 (s2 ++ rest) -> M (RStar r) (adv prev s1) s2 rest -> M (RPlus r) prev (s1 ++ s2) rest
| M_opt_some r prev s rest : M r prev s rest -> M (ROpt r) prev s rest
| M_opt_none r prev rest : M (ROpt r) prev [] rest.

(* named versions of the inner loops, convertible with the nested fixpoints *)
Fixpoint mc (l : list re) (prev : option byte) (s : bytes) (k : K) : bool :=
  match l with [] => k prev s | r1 :: l' => m ci r1 prev s (fun prev' s' => mc l' prev' s' k) end.
Fixpoint ma (l : list re) (prev : option byte) (s : bytes) (k : K) : bool :=
  match l with [] => false | r1 :: l' => m ci r1 prev s k || ma l' prev s k end.
Definition loop (r1 : re) (k : K) := star_loop (m ci r1) k.
Lemma loop_S r1 k n prev s0 : loop r1 k (S n) prev s0 =
  k prev s0 || m ci r1 prev s0 (fun prev' s' => Nat.ltb (length s') (length s0) && loop r1 k n prev' s').
Proof. reflexivity. Qed.
Lemma loop_0 r1 k prev s0 : loop r1 k 0 prev s0 = k prev s0 || false.
Proof. reflexivity. Qed.
Lemma m_cat l prev s k : m ci (RCat l) prev s k = mc l prev s k.
Proof. revert prev s k. induction l as [|r l IH]; intros; [reflexivity|]. cbn [m mc]. reflexivity. Qed.
Lemma m_alt l prev s k : m ci (RAlt l) prev s k = ma l prev s k.
Proof. induction l as [|r l IH]; [reflexivity|]. cbn [m ma] in *. now rewrite <- IH. Qed.
Lemma m_star r prev s k : m ci (RStar r) prev s k = loop r k (length s) prev s.
Proof. reflexivity. Qed.
Lemma m_plus r prev s k : m ci (RPlus r) prev s k =
  m ci r prev s (fun prev' s' => loop r k (length s') prev' s').
Proof. reflexivity. Qed.

Definition spec (r : re) : Prop := forall prev s k,
  m ci r prev s k = true <-> exists s1 s2, s = s1 ++ s2 /\ M r prev s1 s2 /\ k (adv prev s1) s2 = true.

Lemma spec_cat l : Forall spec l -> spec (RCat l).
Proof.
  intro HF. unfold spec. induction HF as [|r l Hr HF IH]; intros prev s k; rewrite m_cat.
  - cbn [mc]. split.
    + intro H. exists [], s. repeat split; [constructor | exact H].
    + intros (s1 & s2 & -> & HM & Hk). inversion HM; subst. exact Hk.
  - cbn [mc]. rewrite (Hr prev s). split.
    + intros (a & b & -> & HMa & Hk). rewrite <- m_cat in Hk. apply IH in Hk.
      destruct Hk as (c & d & -> & HMc & Hk).
      exists (a ++ c), d. rewrite app_assoc. repeat split.
      * now constructor.
      * now rewrite adv_app.
    + intros (s1 & s2 & -> & HM & Hk). inversion HM; subst.
      exists s0, (s3 ++ s2). rewrite app_assoc. repeat split; [assumption|].
      rewrite <- m_cat. apply IH. exists s3, s2. repeat split; [assumption|].
      now rewrite adv_app in Hk.
Qed.

Lemma spec_alt l : Forall spec l -> spec (RAlt l).
Proof.
  intro HF. unfold spec. induction HF as [|r l Hr HF IH]; intros prev s k; rewrite m_alt.
  - cbn [ma]. split; [discriminate|]. intros (s1 & s2 & _ & HM & _). inversion HM.
  - cbn [ma]. rewrite orb_true_iff, (Hr prev s), <- m_alt, IH. split.
    + intros [(a & b & -> & HM & Hk) | (a & b & -> & HM & Hk)]; exists a, b; repeat split; try assumption.
      * now apply M_alt_hd.
      * now apply M_alt_tl.
    + intros (a & b & -> & HM & Hk). inversion HM; subst; [left | right]; exists a, b; repeat split; assumption.
Qed.

Lemma nonnil_len (a b : bytes) : Nat.ltb (length b) (length (a ++ b)) = negb (isnil a).
Proof.
  destruct a; cbn [app isnil negb length].
  - apply Nat.ltb_irrefl.
  - apply Nat.ltb_lt. rewrite app_length. lia.
Qed.

(* the loop, for any fuel at least the length of the input *)
Lemma loop_spec r : spec r -> forall k n prev s, length s <= n ->
  (loop r k n prev s = true <-> exists s1 s2, s = s1 ++ s2 /\ M (RStar r) prev s1 s2 /\ k (adv prev s1) s2 = true).
Proof.
  intros Hr k. induction n as [|n IH]; intros prev s Hn.
  - rewrite loop_0, orb_false_r. assert (s = []) by (destruct s; [reflexivity | cbn in Hn; lia]). subst s. split.
    + intro H. exists [], []. repeat split; [constructor | exact H].
    + intros (s1 & s2 & E & HM & Hk). symmetry in E. apply app_eq_nil in E as [-> ->]. exact Hk.
  - rewrite loop_S, orb_true_iff. split.
    + intros [H|H].
      * exists [], s. repeat split; [constructor | exact H].
      * apply Hr in H. destruct H as (a & b & -> & HMa & H).
        apply andb_prop in H as [Hlt H]. rewrite nonnil_len in Hlt.
        assert (Ha : a <> []) by (destruct a; [discriminate | discriminate]).
        apply IH in H.
        2:{ rewrite app_length in Hn. destruct a; [congruence|]. cbn in Hn. lia. }
        destruct H as (c & d & -> & HMc & Hk).
        exists (a ++ c), d. rewrite app_assoc. repeat split.
        -- now apply M_star_S.
        -- now rewrite adv_app.
    + intros (s1 & s2 & -> & HM & Hk).
      remember (RStar r) as rs eqn:Ers. revert Hk Hn.
      induction HM; try discriminate Ers; inversion Ers; subst; intros Hk Hn.
      * left. exact Hk.
      * right. rewrite <- app_assoc. apply Hr. exists s1, (s2 ++ rest). repeat split; [assumption|].
        rewrite nonnil_len. destruct s1 as [|x s1]; [congruence|]. cbn [isnil negb andb].
        apply IH.
        -- rewrite !app_length in *. cbn [length] in Hn. lia.
        -- exists s2, rest. repeat split; [assumption|]. now rewrite adv_app in Hk.
Qed.

Lemma spec_star r : spec r -> spec (RStar r).
Proof. intros Hr prev s k. rewrite m_star. now apply loop_spec. Qed.

Lemma spec_plus r : spec r -> spec (RPlus r).
Proof.
  intros Hr prev s k. rewrite m_plus, (Hr prev s). split.
  - intros (a & b & -> & HMa & H). apply (loop_spec r Hr) in H; [|lia].
    destruct H as (c & d & -> & HMc & Hk). exists (a ++ c), d. rewrite app_assoc. repeat split.
    + now apply M_plus.
    + now rewrite adv_app.
  - intros (s1 & s2 & -> & HM & Hk). inversion HM; subst.
    exists s0, (s3 ++ s2). rewrite app_assoc. repeat split; [assumption|].
    apply (loop_spec r Hr); [lia|]. exists s3, s2. repeat split; [assumption|]. now rewrite adv_app in Hk.
Qed.

Lemma spec_opt r : spec r -> spec (ROpt r).
Proof.
  intros Hr prev s k. cbn [m]. rewrite orb_true_iff, (Hr prev s). split.
  - intros [(a & b & -> & HM & Hk) | H].
    + exists a, b. repeat split; [now apply M_opt_some | exact Hk].
    + exists [], s. repeat split; [apply M_opt_none | exact H].
  - intros (s1 & s2 & -> & HM & Hk). inversion HM; subst.
    + left. exists s1, s2. repeat split; assumption.
    + right. exact Hk.
Qed.

Theorem m_correct : forall r, spec r.
Proof.
  apply re_ind'.
  - (* cls *) intros neg rs prev s k. cbn [m]. split.
    + destruct s as [|c s]; [discriminate|]. intro H. apply andb_prop in H as [Hf Hk].
      exists [c], s. repeat split; [now constructor | exact Hk].
    + intros (s1 & s2 & -> & HM & Hk). inversion HM; subst. cbn [app].
      match goal with H : match_cls _ _ _ _ = true |- _ => rewrite H end. exact Hk.
  - (* any *) intros prev s k. cbn [m]. split.
    + destruct s as [|c s]; [discriminate|]. intro H. apply andb_prop in H as [Hf Hk].
      exists [c], s. repeat split; [constructor; now apply negb_true_iff | exact Hk].
    + intros (s1 & s2 & -> & HM & Hk). inversion HM; subst. cbn [app].
      match goal with H : beq _ _ = false |- _ => rewrite H end. exact Hk.
  - (* bol *) intros prev s k. cbn [m]. split.
    + destruct prev; [discriminate|]. intro Hk. exists [], s. repeat split; [constructor | exact Hk].
    + intros (s1 & s2 & -> & HM & Hk). inversion HM; subst. exact Hk.
  - (* eol *) intros prev s k. cbn [m]. split.
    + destruct s; [|discriminate]. intro Hk. exists [], []. repeat split; [constructor | exact Hk].
    + intros (s1 & s2 & -> & HM & Hk). inversion HM; subst. exact Hk.
  - (* \b *) intros prev s k. cbn [m]. split.
    + intro H. apply andb_prop in H as [Hb Hk]. exists [], s. repeat split; [now constructor | exact Hk].
    + intros (s1 & s2 & -> & HM & Hk). inversion HM; subst. cbn [app].
      match goal with H : at_word_boundary _ _ = true |- _ => rewrite H end. exact Hk.
  - (* \B *) intros prev s k. cbn [m]. split.
    + intro H. apply andb_prop in H as [Hb Hk]. apply negb_true_iff in Hb.
      exists [], s. repeat split; [now constructor | exact Hk].
    + intros (s1 & s2 & -> & HM & Hk). inversion HM; subst. cbn [app].
      match goal with H : at_word_boundary _ _ = false |- _ => rewrite H end. exact Hk.
  - exact spec_cat.
  - exact spec_alt.
  - exact spec_star.
  - exact spec_plus.
  - exact spec_opt.
  - (* RRep is removed by desugar; the matcher rejects it and it has no derivation *)
    intros r n mx _ prev s k. cbn [m]. split; [discriminate|]. intros (s1 & s2 & _ & HM & _). inversion HM.
Qed.

(* unanchored search = some substring is matched *)
Lemma M_star_any prev s rest : M (RStar any_byte) prev s rest.
Proof.
  revert prev. induction s as [|c s IH]; intro prev; [constructor|].
  change (c :: s) with ([c] ++ s). apply M_star_S; [discriminate | | apply IH].
  constructor. unfold match_cls. cbn. destruct ci; reflexivity.
Qed.

Theorem search_spec r s : search ci r s = true <->
  exists pre mid post, s = pre ++ mid ++ post /\ M r (adv None pre) mid post.
Proof.
  unfold search. rewrite (m_correct (RCat [RStar any_byte; r]) None s). split.
  - intros (s1 & s2 & -> & HM & _). inversion HM; subst.
    match goal with H : M (RCat [r]) _ _ _ |- _ => inversion H; subst end.
    match goal with H : M (RCat []) _ _ _ |- _ => inversion H; subst end.
    rewrite app_nil_r in *. eexists _, _, _. split; [now rewrite <- app_assoc | eassumption].
  - intros (pre & mid & post & -> & HM). exists (pre ++ mid), post. split; [now rewrite <- app_assoc|].
    split; [|reflexivity]. constructor; [apply M_star_any|].
    rewrite <- (app_nil_r mid). constructor; [now rewrite app_nil_l | constructor].
Qed.
End Sem.
