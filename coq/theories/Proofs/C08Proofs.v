(* C08: $badfilter disables exactly its twin rules, however many are present. *)
From Coq Require Import List Arith NArith ZArith Bool Lia.
From UF Require Import Base.Lit Base.Bytes Model.Options Model.Netip Model.DNSRewrite Model.NetRule
  Model.Result Proofs.EqLemmas.
Import ListNotations.

(* Specification: b is the badfilter twin of r — every field equal, except that b carries the
   badfilter bit in addition (text, list id and shortcut are not part of the rule's meaning;
   the pattern is the normalised one). *)
Definition twin (b r : net_rule) : Prop :=
  nr_whitelist b = nr_whitelist r /\ nr_pattern b = nr_pattern r /\
  nr_ptypes b = nr_ptypes r /\ nr_rtypes b = nr_rtypes r /\
  N.lxor (nr_enabled b) OptBadfilter = nr_enabled r /\ nr_disabled b = nr_disabled r /\
  nr_pdomains b = nr_pdomains r /\ nr_rdomains b = nr_rdomains r /\ nr_denyallow b = nr_denyallow r /\
  nr_pdns b = nr_pdns r /\ nr_rdns b = nr_rdns r /\ nr_dnsrewrite b = nr_dnsrewrite r /\
  nr_ptags b = nr_ptags r /\ nr_rtags b = nr_rtags r /\
  nr_pclients b = nr_pclients r /\ nr_rclients b = nr_rclients r.

Definition is_bad (r : net_rule) : bool := is_opt_enabled r OptBadfilter.

Lemma opt_dnsrewrite_eqb_eq a b : opt_dnsrewrite_eqb a b = true <-> a = b.
Proof.
  destruct a, b; cbn; try (split; [discriminate|congruence]); try tauto.
  rewrite dnsrewrite_eqb_eq. split; congruence.
Qed.

Theorem negates_iff b r : negates_badfilter b r = true <-> is_bad b = true /\ twin b r.
Proof.
  unfold negates_badfilter, twin, is_bad.
  rewrite !andb_true_iff, Bool.eqb_true_iff, !bytes_eqb_eq, !N.eqb_eq,
    !(list_eqb_spec bytes_eqb bytes_eqb_eq), !(list_eqb_spec N.eqb N.eqb_eq),
    opt_dnsrewrite_eqb_eq, !clients_eqb_eq.
  tauto.
Qed.

(* a badfilter rule never negates another badfilter rule's twin relation with itself removed:
   the twin of b lacks the badfilter bit *)
Lemma twin_not_bad b r : is_bad b = true -> twin b r -> is_bad r = false.
Proof.
  unfold is_bad, is_opt_enabled, has_opt, twin. intros Hb (_ & _ & _ & _ & He & _).
  apply N.eqb_eq in Hb. apply N.eqb_neq. rewrite <- He. intro Hc.
  assert (Ht : N.testbit (N.land (N.lxor (nr_enabled b) OptBadfilter) OptBadfilter) 3 = N.testbit OptBadfilter 3)
    by now rewrite Hc.
  apply (f_equal (fun x => N.testbit x 3)) in Hb.
  rewrite N.land_spec in Ht, Hb. rewrite N.lxor_spec in Ht.
  change (N.testbit OptBadfilter 3) with true in *. rewrite andb_true_r in Hb. rewrite Hb in Ht. discriminate.
Qed.

(* Specification of the effective rules: order kept, any number of badfilter rules *)
Definition disabled_in (l : list net_rule) (r : net_rule) : bool :=
  existsb (fun b => negates_badfilter b r) l.
Definition spec_effective (l : list net_rule) : list net_rule :=
  filter (fun r => negb (is_bad r) && negb (disabled_in l r)) l.

Lemma existsb_filter_bad l r :
  existsb (fun b => negates_badfilter b r) (filter is_bad l) = disabled_in l r.
Proof.
  unfold disabled_in. induction l as [|b l IH]; [reflexivity|]. cbn [filter existsb].
  destruct (is_bad b) eqn:E; cbn [existsb]; rewrite IH; [reflexivity|].
  replace (negates_badfilter b r) with false; [reflexivity|].
  unfold negates_badfilter. fold (is_bad b). now rewrite E.
Qed.

Lemma filter_id {A} (f : A -> bool) l : (forall x, In x l -> f x = true) -> filter f l = l.
Proof.
  induction l as [|x l IH]; intro H; [reflexivity|]. cbn. rewrite (H x (or_introl eq_refl)).
  f_equal. apply IH. intros y Hy. apply H. now right.
Qed.

Theorem remove_badfilter_spec l : remove_badfilter l = spec_effective l.
Proof.
  unfold remove_badfilter, spec_effective. fold is_bad.
  destruct (isnil (filter is_bad l)) eqn:E.
  - (* no badfilter rule at all: nothing is removed *)
    assert (Hn : filter is_bad l = []) by (destruct (filter is_bad l); [reflexivity|discriminate]).
    symmetry. apply filter_id. intros x Hx.
    assert (Hb : is_bad x = false).
    { destruct (is_bad x) eqn:Eb; [|reflexivity].
      assert (In x (filter is_bad l)) by (apply filter_In; auto). rewrite Hn in H. destruct H. }
    rewrite Hb. cbn. rewrite <- existsb_filter_bad, Hn. reflexivity.
  - apply filter_ext. intro r. now rewrite existsb_filter_bad.
Qed.

(* membership characterisation: a rule survives iff it is not a badfilter rule and no badfilter
   rule of the list is its twin *)
Theorem effective_iff l r : In r (remove_badfilter l) <->
  In r l /\ is_bad r = false /\ forall b, In b l -> is_bad b = true -> ~ twin b r.
Proof.
  rewrite remove_badfilter_spec. unfold spec_effective. rewrite filter_In, andb_true_iff, !negb_true_iff.
  unfold disabled_in. split.
  - intros (Hin & Hb & Hd). repeat split; auto. intros b Hbin Hbb Ht.
    assert (existsb (fun b0 => negates_badfilter b0 r) l = true).
    { apply existsb_exists. exists b. split; [assumption|]. apply negates_iff. auto. }
    congruence.
  - intros (Hin & Hb & Hall). repeat split; auto.
    apply not_true_is_false. intro Hc. apply existsb_exists in Hc as (b & Hbin & Hn).
    apply negates_iff in Hn as [Hbb Ht]. exact (Hall b Hbin Hbb Ht).
Qed.

(* badfilter rules never become a result *)
Theorem no_badfilter_in_result l r : In r (remove_badfilter l) -> is_bad r = false.
Proof. intro H. apply effective_iff in H. tauto. Qed.

(* ---- adding rules together with their badfilter twins ---- *)
(* M is the base list L with extra elements inserted anywhere: elements are marked (rule, extra?) *)
Definition base (M : list (net_rule * bool)) : list net_rule := map fst (filter (fun x => negb (snd x)) M).
Definition full (M : list (net_rule * bool)) : list net_rule := map fst M.

(* every extra element is either a badfilter rule that is the twin of no base rule, or a rule
   disabled by one of the extra badfilter rules *)
Definition extras_ok (M : list (net_rule * bool)) : Prop :=
  forall e, In (e, true) M ->
    (is_bad e = true /\ forall r, In r (base M) -> negates_badfilter e r = false)
    \/ (exists b, In (b, true) M /\ negates_badfilter b e = true).

Lemma in_full M r : In r (full M) <-> exists m, In (r, m) M.
Proof.
  unfold full. rewrite in_map_iff. split.
  - intros ([r' m] & E & H). cbn in E; subst. eauto.
  - intros (m & H). exists (r, m). auto.
Qed.
Lemma in_base M r : In r (base M) <-> In (r, false) M.
Proof.
  unfold base. rewrite in_map_iff. split.
  - intros ([r' m] & E & H). cbn in E; subst. apply filter_In in H as [H Hm]. destruct m; [discriminate|assumption].
  - intro H. exists (r, false). split; [reflexivity|]. apply filter_In. auto.
Qed.

Lemma disabled_full_base M r : extras_ok M -> In r (base M) ->
  disabled_in (full M) r = disabled_in (base M) r.
Proof.
  intros Hok Hr. unfold disabled_in.
  destruct (existsb _ (base M)) eqn:Eb.
  - apply existsb_exists in Eb as (b & Hb & Hn). apply existsb_exists. exists b. split; [|assumption].
    apply in_full. exists false. now apply in_base.
  - apply not_true_is_false. intro Hc. apply existsb_exists in Hc as (b & Hb & Hn).
    apply in_full in Hb as ([|] & Hb).
    + destruct (Hok b Hb) as [[_ Hnone] | (b' & Hb' & Hn')].
      * rewrite (Hnone r Hr) in Hn. discriminate.
      * (* b is disabled by b', so b is not a badfilter rule and negates nothing *)
        apply negates_iff in Hn' as [Hbb' Ht]. apply twin_not_bad in Ht; [|assumption].
        apply negates_iff in Hn as [Hbb _]. congruence.
    + assert (existsb (fun b0 => negates_badfilter b0 r) (base M) = true).
      { apply existsb_exists. exists b. split; [now apply in_base | assumption]. }
      congruence.
Qed.

Lemma filter_map_fst_ext (P Q : net_rule -> bool) (M : list (net_rule * bool)) :
  (forall r, In (r, false) M -> P r = Q r) ->
  (forall r, In (r, true) M -> P r = false) ->
  filter P (map fst M) = filter Q (map fst (filter (fun x => negb (snd x)) M)).
Proof.
  induction M as [|[r m] M IH]; intros H0 H1; [reflexivity|]. cbn [map filter fst snd].
  assert (IH' : filter P (map fst M) = filter Q (map fst (filter (fun x => negb (snd x)) M))).
  { apply IH; intros; [apply H0 | apply H1]; now right. }
  destruct m; cbn [negb].
  - rewrite (H1 r (or_introl eq_refl)). exact IH'.
  - cbn [map filter fst]. rewrite (H0 r (or_introl eq_refl)). destruct (Q r); [f_equal|]; exact IH'.
Qed.

Theorem add_twins_unchanged M : extras_ok M -> remove_badfilter (full M) = remove_badfilter (base M).
Proof.
  intro Hok. rewrite !remove_badfilter_spec. unfold spec_effective, full, base.
  apply filter_map_fst_ext.
  - intros r Hr. f_equal. f_equal. apply disabled_full_base; [assumption | now apply in_base].
  - intros e He. destruct (Hok e He) as [[Hb _] | (b & Hb & Hn)].
    + now rewrite Hb.
    + replace (disabled_in (map fst M) e) with true; [now rewrite andb_false_r|].
      symmetry. apply existsb_exists. exists b. split; [|assumption]. apply in_full. eauto.
Qed.

(* every verdict function starts from the effective rules, so all verdicts are unchanged *)
Corollary add_twins_web M src : extras_ok M ->
  new_matching_result (full M) src = new_matching_result (base M) src.
Proof. intro H. unfold new_matching_result. now rewrite (add_twins_unchanged M H). Qed.
Corollary add_twins_source rs M : extras_ok M ->
  new_matching_result rs (full M) = new_matching_result rs (base M).
Proof. intro H. unfold new_matching_result. now rewrite (add_twins_unchanged M H). Qed.
Corollary add_twins_dns M : extras_ok M -> get_dns_basic_rule (full M) = get_dns_basic_rule (base M).
Proof. intro H. unfold get_dns_basic_rule. now rewrite (add_twins_unchanged M H). Qed.
Corollary add_twins_rewrites M : extras_ok M -> dns_rewrites (full M) = dns_rewrites (base M).
Proof. intro H. unfold dns_rewrites, dns_rewrites_all. now rewrite (add_twins_unchanged M H). Qed.

(* a rule that differs from x in at least one value stays effective next to x$badfilter *)
Theorem other_rule_unaffected L y bx : In y L -> is_bad y = false -> ~ twin bx y ->
  (forall b, In b L -> is_bad b = true -> ~ twin b y) ->
  In y (remove_badfilter (L ++ [bx])).
Proof.
  intros Hy Hb Hnt Hall. apply effective_iff. split; [apply in_or_app; now left|]. split; [assumption|].
  intros b Hbin Hbb. apply in_app_or in Hbin as [Hbin | [<- | []]]; [now apply Hall | assumption].
Qed.

(* non-vacuity: two badfilter rules on one list (the F05 shape), and a near-twin (F06 shape) *)
Example ex_two_badfilters :
  exists a b ba bb, new_network_rule $"||a.org^" 1%Z = Ok a /\ new_network_rule $"||a.org^$script" 1%Z = Ok b /\
    new_network_rule $"||a.org^$badfilter" 1%Z = Ok ba /\ new_network_rule $"||a.org^$script,badfilter" 1%Z = Ok bb /\
    remove_badfilter [a; b; ba; bb] = [] /\ remove_badfilter [a; b; bb] = [a].
Proof. do 4 eexists. repeat split; vm_compute; reflexivity. Qed.
Example ex_near_twin :
  exists y bx, new_network_rule $"||a.org^$denyallow=x.com" 1%Z = Ok y /\
    new_network_rule $"||a.org^$denyallow=y.com,badfilter" 1%Z = Ok bx /\
    remove_badfilter [y; bx] = [y].
Proof. do 2 eexists. repeat split; vm_compute; reflexivity. Qed.
