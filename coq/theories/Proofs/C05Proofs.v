(* C05: the shortcut pre-check never rejects a request the rule accepts. *)
From Coq Require Import List Arith NArith ZArith Bool Lia.
From Coq Require Import Strings.Byte.
From UF Require Import Base.Lit Base.Bytes Model.Options Model.NetRule Model.Regex Model.Mask
  Proofs.EqLemmas Proofs.MaskTextProofs Proofs.MatcherProofs Proofs.ParseProofs Proofs.MaskSemProofs.
Import ListNotations.

(* ---------- substrings ---------- *)
Lemma has_prefix_iff p s : has_prefix p s = true <-> exists b, s = p ++ b.
Proof.
  revert s. induction p as [|a p IH]; intro s; cbn.
  - split; eauto.
  - destruct s as [|x s]; [split; [discriminate | intros (b & E); discriminate]|].
    rewrite andb_true_iff, beq_eq, IH. split.
    + intros (-> & b & ->). eauto.
    + intros (b & E). inversion E; subst. eauto.
Qed.
Lemma contains_iff sub s : contains sub s = true <-> exists a b, s = a ++ sub ++ b.
Proof.
  induction s as [|x s IH]; cbn [contains].
  - rewrite orb_false_r, has_prefix_iff. split.
    + intros (b & E). exists [], b. exact E.
    + intros (a & b & E). destruct a; [eauto|discriminate].
  - rewrite orb_true_iff, has_prefix_iff, IH. split.
    + intros [(b & E) | (a & b & E)]; [exists [], b; exact E | exists (x :: a), b; now rewrite E].
    + intros (a & b & E). destruct a as [|y a]; [left; eauto|]. inversion E; subst. right; eauto.
Qed.
Lemma contains_app_mid sub a m b : contains sub m = true -> contains sub (a ++ m ++ b) = true.
Proof.
  rewrite !contains_iff. intros (x & y & ->). exists (a ++ x), (y ++ b). now rewrite <- !app_assoc.
Qed.
Lemma to_lower_app a b : to_lower (a ++ b) = to_lower a ++ to_lower b.
Proof. apply map_app. Qed.

(* ---------- case ---------- *)
Lemma lower_swapcase b : lower_b (swapcase b) = lower_b b.
Proof. destruct b; reflexivity. Qed.
Lemma in_ranges_single c x : in_ranges [(c, c)] x = true -> x = c.
Proof.
  unfold in_ranges. cbn. rewrite orb_false_r, andb_true_iff, !N.leb_le. intros [H1 H2].
  apply beq_eq. unfold beq. apply N.eqb_eq. lia.
Qed.
(* a literal comparison, with or without case folding, implies equality of the lower-cased bytes *)
Lemma lit_match_lower ci c b : lit_match ci c b = true -> lower_b b = lower_b c.
Proof.
  unfold lit_match, match_cls. rewrite xorb_false_l, orb_true_iff. intros [H|H].
  - apply in_ranges_single in H. now subst.
  - apply andb_prop in H as [_ H]. apply in_ranges_single in H. rewrite <- H. symmetry. apply lower_swapcase.
Qed.

(* ---------- mandatory text of a regular expression ----------
   items: Some c = one byte equal to c up to ASCII case; None = a gap (anything, possibly empty) *)
Definition item := option byte.
Fixpoint items (r : re) : list item :=
  match r with
  | RCls false [(a, b)] => if beq a b then [Some a] else [None]
  | RCls _ _ | RAny => [None]
  | RBol | REol | RWordB | RNWordB => []
  | RCat l => (fix go (l : list re) : list item := match l with [] => [] | x :: l' => items x ++ go l' end) l
  | RPlus r => items r ++ [None]
  | RAlt _ | RStar _ | ROpt _ | RRep _ _ _ => [None]
  end.
Fixpoint items_list (l : list re) : list item := match l with [] => [] | x :: l' => items x ++ items_list l' end.
Lemma items_cat l : items (RCat l) = items_list l.
Proof. induction l as [|x l IH]; [reflexivity|]. cbn [items items_list] in *. now rewrite <- IH. Qed.

(* a string fits an item list *)
Inductive Fits : list item -> bytes -> Prop :=
| F_nil : Fits [] []
| F_lit c b its w : lower_b b = lower_b c -> Fits its w -> Fits (Some c :: its) (b :: w)
| F_gap its w1 w2 : Fits its w2 -> Fits (None :: its) (w1 ++ w2).

Lemma Fits_gap_any w : Fits [None] w.
Proof. rewrite <- (app_nil_r w). constructor. constructor. Qed.
Lemma Fits_app a : forall b s1 s2, Fits a s1 -> Fits b s2 -> Fits (a ++ b) (s1 ++ s2).
Proof.
  intros b s1 s2 H. revert b s2. induction H; intros b' s2 H2; cbn [app].
  - exact H2.
  - constructor; [assumption | now apply IHFits].
  - rewrite <- app_assoc. constructor. now apply IHFits.
Qed.

Lemma M_fits ci r prev s rest : M ci r prev s rest -> Fits (items r) s.
Proof.
  induction 1; try (cbn [items]; apply Fits_gap_any); try (cbn [items]; constructor).
  - (* class *) cbn [items]. destruct neg; [apply Fits_gap_any|].
    destruct rs as [|[a b] [|? ?]]; try apply Fits_gap_any.
    destruct (beq a b) eqn:E; [|apply Fits_gap_any]. apply beq_eq in E. subst b.
    constructor; [|constructor]. now apply (lit_match_lower ci).
  - (* cat cons *) rewrite items_cat in *. cbn [items_list]. now apply Fits_app.
  - (* plus *) cbn [items]. apply Fits_app; [assumption | apply Fits_gap_any].
Qed.

(* the literal runs between gaps *)
Fixpoint runs_aux (its : list item) (cur : bytes) : list bytes :=
  match its with
  | [] => [rev' cur]
  | Some c :: its' => runs_aux its' (c :: cur)
  | None :: its' => rev' cur :: runs_aux its' []
  end.
Definition runs (its : list item) : list bytes := runs_aux its [].

Lemma runs_aux_factor its : forall cur run, In run (runs_aux its cur) ->
  exists A B, map Some (rev cur) ++ its = A ++ map Some run ++ B.
Proof.
  induction its as [|[c|] its IH]; intros cur run H; cbn [runs_aux] in H.
  - destruct H as [<-|[]]. exists [], []. now rewrite rev'_eq, !app_nil_r.
  - apply IH in H. destruct H as (A & B & E). exists A, B. rewrite <- E. cbn [rev]. rewrite map_app, <- app_assoc. reflexivity.
  - destruct H as [<-|H].
    + exists [], (None :: its). now rewrite rev'_eq.
    + apply IH in H. destruct H as (A & B & E). cbn [rev map app] in E.
      exists (map Some (rev cur) ++ None :: A), B. rewrite <- app_assoc. cbn [app]. now rewrite E.
Qed.
Lemma runs_factor its run : In run (runs its) -> exists A B, its = A ++ map Some run ++ B.
Proof. intro H. apply runs_aux_factor in H. exact H. Qed.

(* a string that fits A ++ run ++ B contains the run, up to case *)
Lemma Fits_lits run : forall w B, Fits (map Some run ++ B) w ->
  exists x y, w = x ++ y /\ to_lower x = to_lower run.
Proof.
  induction run as [|c run IH]; intros w B H; cbn [map app] in H.
  - exists [], w. split; reflexivity.
  - inversion H as [| c' b its w' Hlow Hfit |]; subst. destruct (IH _ _ Hfit) as (x & y & -> & E). exists (b :: x), y. split; [reflexivity|].
    unfold to_lower in *. cbn [map]. now rewrite Hlow, E.
Qed.
Lemma Fits_factor A : forall run B w, Fits (A ++ map Some run ++ B) w -> contains (to_lower run) (to_lower w) = true.
Proof.
  induction A as [|[c|] A IH]; intros run B w H; cbn [app] in H.
  - apply Fits_lits in H. destruct H as (x & y & -> & E). apply contains_iff.
    exists [], (to_lower y). now rewrite to_lower_app, E.
  - inversion H as [| c' b its w' Hlow Hfit |]; subst. apply IH in Hfit. apply contains_iff in Hfit as (a & b' & E). apply contains_iff.
    exists (lower_b b :: a), b'. unfold to_lower in *. cbn [map app]. now rewrite E.
  - inversion H as [| | its w1 w2 Hfit]; subst. apply IH in Hfit. rewrite to_lower_app.
    apply contains_iff in Hfit as (a & b' & E). apply contains_iff. exists (to_lower w1 ++ a), b'. now rewrite E, <- app_assoc.
Qed.

(* the verified checker: the lower-cased shortcut occurs inside one mandatory run *)
Definition must_contain (r : re) (shortcut : bytes) : bool :=
  existsb (fun run => contains (to_lower shortcut) (to_lower run)) (runs (items r)).

Lemma contains_trans a b c : contains a b = true -> contains b c = true -> contains a c = true.
Proof.
  rewrite !contains_iff. intros (x & y & ->) (u & v & ->). exists (u ++ x), (y ++ v). now rewrite <- !app_assoc.
Qed.

Theorem must_contain_sound ci r sc : must_contain r sc = true ->
  forall u, search ci r u = true -> contains (to_lower sc) (to_lower u) = true.
Proof.
  unfold must_contain. intros H u Hs. apply existsb_exists in H as (run & Hrun & Hc).
  apply search_spec in Hs. destruct Hs as (pre & mid & post & -> & HM).
  apply M_fits in HM. apply runs_factor in Hrun as (A & B & E). rewrite E in HM.
  apply Fits_factor in HM. rewrite !to_lower_app. apply contains_app_mid.
  eapply contains_trans; eauto.
Qed.

(* ---------- mask rules: the universal theorem ---------- *)
Definition no_special (s : bytes) : Prop := forall c, In c s -> mem_byte c $"*^|" = false.

Lemma tok_inner_plain c : mem_byte c $"*^|" = false -> tok_inner c = Lit c.
Proof.
  unfold mem_byte. cbn. rewrite !orb_false_iff. intros (H1 & H2 & _). unfold tok_inner, star, caret. now rewrite H1, H2.
Qed.
Lemma tok_last_plain c : mem_byte c $"*^|" = false -> tok_last c = Lit c.
Proof.
  intro H. unfold tok_last. pose proof H as H'. unfold mem_byte in H'. cbn in H'. rewrite !orb_false_iff in H'.
  destruct H' as (_ & _ & H3 & _). unfold pipe. rewrite H3. now apply tok_inner_plain.
Qed.

(* the items of the expression of a token list *)
Lemma items_re_of_lit c : items_list (re_of (Lit c)) = [Some c].
Proof. cbn. now rewrite beq_refl. Qed.
Lemma items_list_app a b : items_list (a ++ b) = items_list a ++ items_list b.
Proof. induction a as [|x a IH]; [reflexivity|]. cbn. now rewrite IH, app_assoc. Qed.
Lemma items_lits run : items_list (flat_map re_of (map Lit run)) = map Some run.
Proof. induction run as [|c run IH]; [reflexivity|]. cbn [map flat_map]. now rewrite items_list_app, items_re_of_lit, IH. Qed.

(* body of a pattern around a special-free run *)
Lemma body_cons a t : t <> [] -> body (a :: t) = tok_inner a :: body t.
Proof. destruct t; [congruence | reflexivity]. Qed.

Lemma body_lits run : forall y, no_special run -> run <> [] -> exists B, body (run ++ y) = map Lit run ++ B.
Proof.
  induction run as [|c run IH]; intros y Hs Hne; [congruence|].
  assert (Hc : mem_byte c $"*^|" = false) by (apply Hs; now left).
  destruct run as [|c' run'].
  - destruct y as [|d y]; cbn [app map].
    + exists []. cbn [body]. now rewrite tok_last_plain.
    + exists (body (d :: y)). rewrite body_cons by discriminate. now rewrite tok_inner_plain.
  - assert (Hs' : no_special (c' :: run')) by (intros z Hz; apply Hs; now right).
    destruct (IH y Hs' ltac:(discriminate)) as (B & E). exists B.
    change ((c :: c' :: run') ++ y) with (c :: (c' :: run') ++ y).
    rewrite body_cons by discriminate. rewrite tok_inner_plain by exact Hc. now rewrite E.
Qed.

Lemma body_run x : forall run y, no_special run -> run <> [] ->
  exists A B, body (x ++ run ++ y) = A ++ map Lit run ++ B.
Proof.
  induction x as [|a x IH]; intros run y Hs Hne.
  - destruct (body_lits run y Hs Hne) as (B & E). exists [], B. exact E.
  - destruct (IH run y Hs Hne) as (A & B & E).
    assert (Hnn : x ++ run ++ y <> []) by (destruct x; [destruct run; [congruence|discriminate] | discriminate]).
    exists (tok_inner a :: A), B. cbn [app]. rewrite body_cons by exact Hnn. now rewrite E.
Qed.

Lemma tokenize_run x run y : no_special run -> run <> [] ->
  exists A B, tokenize (x ++ run ++ y) = A ++ map Lit run ++ B.
Proof.
  intros Hs Hne.
  assert (Hrun : forall c, In c run -> beq c pipe = false).
  { intros c Hc. specialize (Hs c Hc). unfold mem_byte in Hs. cbn in Hs. rewrite !orb_false_iff in Hs. tauto. }
  destruct x as [|a [|b x]].
  - (* the run starts the pattern: no leading pipe *)
    destruct run as [|c run]; [congruence|]. cbn [app].
    assert (Hc : beq c pipe = false) by (apply Hrun; now left).
    assert (Et : tokenize ((c :: run) ++ y) = body ((c :: run) ++ y)).
    { cbn [app]. destruct (run ++ y) as [|d t]; [reflexivity|]. cbn [tokenize]. now rewrite Hc. }
    change (c :: run ++ y) with ((c :: run) ++ y). rewrite Et.
    apply (body_run [] (c :: run) y Hs). discriminate.
  - (* one byte before the run *)
    destruct run as [|c run]; [congruence|]. cbn [app].
    assert (Hc : beq c pipe = false) by (apply Hrun; now left).
    cbn [tokenize]. rewrite Hc, andb_false_r. destruct (beq a pipe).
    + destruct (body_run [] (c :: run) y Hs ltac:(discriminate)) as (A & B & E). cbn [app] in E.
      exists (Bol :: A), B. cbn [app]. now rewrite E.
    + apply (body_run [a] (c :: run) y Hs). discriminate.
  - (* two or more bytes before the run *)
    cbn [app tokenize]. destruct (beq a pipe && beq b pipe).
    + destruct (body_run x run y Hs Hne) as (A & B & E). exists (StartURL :: A), B. cbn [app]. now rewrite E.
    + destruct (beq a pipe).
      * destruct (body_run (b :: x) run y Hs Hne) as (A & B & E). cbn [app] in E. exists (Bol :: A), B. cbn [app]. now rewrite E.
      * apply (body_run (a :: b :: x) run y Hs Hne).
Qed.

(* findShortcut returns a special-free substring of the pattern *)
Lemma index_any_spec cs s i : index_any cs s = Some i ->
  (forall c, In c (firstn i s) -> mem_byte c cs = false) /\ i < length s.
Proof.
  revert i. induction s as [|x s IH]; intro i; cbn [index_any]; [discriminate|].
  destruct (existsb (beq x) cs) eqn:E.
  - intro H; inversion H; subst. split; [intros c []| cbn; lia].
  - destruct (index_any cs s) as [j|]; [|discriminate]. cbn. intro H; inversion H; subst.
    destruct (IH j eq_refl) as [H1 H2]. split; [|lia].
    intros c [<-|Hc]; [exact E | now apply H1].
Qed.
Lemma index_any_none cs s : index_any cs s = None -> forall c, In c s -> mem_byte c cs = false.
Proof.
  induction s as [|x s IH]; cbn [index_any]; [intros _ c []|].
  destruct (existsb (beq x) cs) eqn:E; [discriminate|].
  destruct (index_any cs s); [discriminate|]. intros _ c [<-|Hc]; [exact E | now apply IH].
Qed.

Definition factor_of (p sc : bytes) : Prop := sc = [] \/ (no_special sc /\ exists x y, p = x ++ sc ++ y).

Lemma find_shortcut_aux_factor p : forall fuel pattern sc pre,
  p = pre ++ pattern -> factor_of p sc -> factor_of p (find_shortcut_aux fuel pattern sc).
Proof.
  induction fuel as [|fuel IH]; intros pattern sc pre Hp Hsc; cbn [find_shortcut_aux]; [exact Hsc|].
  destruct (isnil pattern); [exact Hsc|].
  destruct (index_any $"*^|" pattern) as [i|] eqn:Ei.
  - apply index_any_spec in Ei as [Hns Hi].
    apply (IH _ _ (pre ++ firstn (S i) pattern)).
    + rewrite Hp, <- app_assoc. f_equal. symmetry. apply firstn_skipn.
    + destruct (length sc <? i); [|exact Hsc]. right. split; [exact Hns|].
      exists pre, (skipn i pattern). rewrite Hp. f_equal. symmetry. apply firstn_skipn.
  - destruct (length sc <? length pattern); [|exact Hsc]. right. split; [exact (index_any_none _ _ Ei)|].
    exists pre, []. now rewrite app_nil_r.
Qed.
Lemma find_shortcut_factor p : factor_of p (find_shortcut p).
Proof. unfold find_shortcut. apply (find_shortcut_aux_factor p _ p [] []); [reflexivity | now left]. Qed.

(* main theorem for mask rules: accepted => the lower-cased subject contains the shortcut *)
Theorem mask_shortcut_sound p mc u : is_early p = false -> is_regex_pat p = false ->
  match prepare_pattern p mc with
  | Ok (PRe _ cr) => match_string cr u = true -> contains (load_shortcut p) (to_lower u) = true
  | _ => True
  end.
Proof.
  intros He Hr. pose proof (mask_language p mc u He Hr) as HL.
  destruct (prepare_pattern p mc) as [[| |t cr]| | |]; try exact I.
  intro Hm. apply HL in Hm. destruct Hm as (pre & mid & post & -> & Hacc).
  unfold load_shortcut. replace (NetRule.is_regex_pattern p) with false by (symmetry; exact Hr).
  destruct (1 <? length (find_shortcut p)) eqn:El; [|apply contains_iff; exists [], (to_lower (pre ++ mid ++ post)); reflexivity].
  destruct (find_shortcut_factor p) as [E|[Hns (x & y & Ep)]].
  { rewrite E in El. discriminate. }
  assert (Hne : find_shortcut p <> []) by (destruct (find_shortcut p); [discriminate | discriminate]).
  destruct (tokenize_run x (find_shortcut p) y Hns Hne) as (A & B & Et). rewrite <- Ep in Et.
  apply toks_equiv in Hacc. apply M_fits in Hacc. rewrite items_cat, Et, !flat_map_app, !items_list_app, items_lits in Hacc.
  apply Fits_factor in Hacc. rewrite !to_lower_app. now apply contains_app_mid.
Qed.

(* non-vacuity *)
Example ex_shortcut : load_shortcut $"||example.org^*banner" = $"example.org" /\
  must_contain (RCat [lit "a"%byte; lit "d"%byte; RStar RAny; lit "s"%byte]) $"ad" = true /\
  must_contain (RCat [lit "a"%byte; lit "d"%byte; RStar RAny; lit "s"%byte]) $"ads" = false.
Proof. repeat split; vm_compute; reflexivity. Qed.
