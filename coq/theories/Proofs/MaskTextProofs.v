(* C03 (text half): patternToRegexp, followed step by step on text, produces exactly the
   concatenation of the regular-expression pieces of the pattern's tokens — for every byte string.
   In particular it never panics (after the one-character repair) and every literal character is
   escaped.  Ported from notes/prototypes/MaskText.v. *)
From Coq Require Import List Arith NArith Bool Lia.
From Coq Require Import Strings.Byte.
From UF Require Import Base.Lit Base.Bytes Model.Regex Model.Mask Proofs.EqLemmas.
Import ListNotations.

Lemma replace1_app c r a b : replace1 c r (a ++ b) = replace1 c r a ++ replace1 c r b.
Proof. unfold replace1. now rewrite flat_map_app. Qed.

(* ---- spec side ---- *)
Inductive tok := StartURL | Bol | Eol | Star | Sep | Lit (c : byte).
Definition tok_inner (c : byte) : tok :=
  if beq c star then Star else if beq c caret then Sep else Lit c.
Definition tok_last (c : byte) : tok :=
  if beq c pipe then Eol else tok_inner c.
Fixpoint body (p : bytes) : list tok :=
  match p with
  | [] => []
  | [c] => [tok_last c]
  | c :: rest => tok_inner c :: body rest
  end.
Definition tokenize (p : bytes) : list tok :=
  match p with
  | a :: b :: rest => if beq a pipe && beq b pipe then StartURL :: body rest
                      else if beq a pipe then Bol :: body (b :: rest) else body p
  | _ => body p
  end.
Definition emit1 (t : tok) : bytes :=
  match t with
  | StartURL => STARTURL | Bol => $"^" | Eol => $"$" | Star => ANY | Sep => SEP
  | Lit c => if beq c pipe then [bslash; pipe] else esc1 c
  end.
Definition emit (l : list tok) : bytes := flat_map emit1 l.

(* ---- per-byte images ---- *)
Definition sc (c : byte) : bytes := if beq c star then ANY else if beq c caret then SEP else [c].
Definition mid (c : byte) : bytes := if beq c pipe then [bslash; pipe] else sc c.
Definition fin (c : byte) : bytes := if beq c pipe then $"$" else sc c.

Lemma rep3_mid m :
  replace1 caret SEP (replace1 star ANY (replace1 pipe [bslash; pipe] m)) = flat_map mid m.
Proof.
  induction m as [|c m IH]; [reflexivity|].
  change (c :: m) with ([c] ++ m). rewrite !replace1_app, IH, flat_map_app. f_equal.
  destruct c; reflexivity.
Qed.
Lemma rep2_sc m : replace1 caret SEP (replace1 star ANY m) = flat_map sc m.
Proof.
  induction m as [|c m IH]; [reflexivity|].
  change (c :: m) with ([c] ++ m). rewrite !replace1_app, IH, flat_map_app. f_equal.
  destruct c; reflexivity.
Qed.

(* emit of inner / last tokens in terms of mid / fin on the escaped text *)
Lemma emit_inner c : emit1 (tok_inner c) = flat_map mid (esc1 c).
Proof. destruct c; reflexivity. Qed.
Lemma emit_last c : emit1 (tok_last c) = flat_map mid (removelast (esc1 c)) ++ fin c.
Proof. destruct c; reflexivity. Qed.
Lemma esc1_last c : last (esc1 c) c = c.
Proof. destruct c; reflexivity. Qed.
Lemma esc1_nonnil c : esc1 c <> [].
Proof. destruct c; discriminate. Qed.
Lemma escape_nonnil r : r <> [] -> escape r <> [].
Proof. destruct r as [|c r]; [congruence|]. intros _. cbn [escape flat_map].
  intro H. apply app_eq_nil in H as [H _]. now apply esc1_nonnil in H. Qed.

Lemma last_app_nonnil (a b : bytes) d : b <> [] -> last (a ++ b) d = last b d.
Proof.
  intro Hb. induction a as [|x a IH]; [reflexivity|].
  cbn [app]. destruct (a ++ b) eqn:E.
  - apply app_eq_nil in E as [_ E]. congruence.
  - rewrite <- E in *. cbn [last]. rewrite E. rewrite <- E. exact IH.
Qed.

Lemma body_emit r d : r <> [] ->
  emit (body r) = flat_map mid (removelast (escape r)) ++ fin (last (escape r) d).
Proof.
  induction r as [|c r IH]; [congruence|]. intros _.
  destruct r as [|c' r'].
  - cbn [body emit flat_map escape]. rewrite !app_nil_r.
    rewrite emit_last. f_equal. f_equal.
    destruct c; reflexivity.
  - assert (Hne : c' :: r' <> []) by discriminate.
    specialize (IH Hne).
    change (body (c :: c' :: r')) with (tok_inner c :: body (c' :: r')).
    change (emit (tok_inner c :: body (c' :: r'))) with (emit1 (tok_inner c) ++ emit (body (c' :: r'))).
    rewrite IH, emit_inner.
    change (escape (c :: c' :: r')) with (esc1 c ++ escape (c' :: r')).
    rewrite removelast_app by (apply escape_nonnil; exact Hne).
    rewrite last_app_nonnil by (apply escape_nonnil; exact Hne).
    now rewrite flat_map_app, app_assoc.
Qed.

(* ---- slicing facts ---- *)
Lemma skipn_last (l : bytes) d : l <> [] -> skipn (length l - 1) l = [last l d].
Proof.
  intro H. destruct (exists_last H) as [l' [x ->]].
  rewrite app_length, last_last. cbn [length].
  replace (length l' + 1 - 1) with (length l') by lia.
  rewrite skipn_app, skipn_all, Nat.sub_diag. reflexivity.
Qed.
Lemma firstn_removelast (l : bytes) : firstn (length l - 1) l = removelast l.
Proof. rewrite removelast_firstn_len. f_equal. lia. Qed.

Lemma slice_ok (s : bytes) lo hi : lo <= hi -> hi <= length s ->
  slice_chk s lo hi = Ok (firstn (hi - lo) (skipn lo s)).
Proof.
  intros H1 H2. unfold slice_chk.
  apply Nat.leb_le in H1. apply Nat.leb_le in H2. now rewrite H1, H2.
Qed.

Definition rp := replace1 pipe [bslash; pipe].

Lemma eip_dbl (E' : bytes) d : E' <> [] ->
  escape_inner_pipes (pipe :: pipe :: E') = Ok ([pipe; pipe] ++ rp (removelast E') ++ [last E' d]).
Proof.
  intro H. unfold escape_inner_pipes.
  change (has_prefix $"||" (pipe :: pipe :: E')) with true. cbv iota.
  assert (Hl : 1 <= length E') by (destruct E'; [congruence | cbn; lia]).
  set (E := pipe :: pipe :: E').
  assert (HE : length E = 2 + length E') by reflexivity.
  rewrite (slice_ok E 0 2) by lia.
  rewrite (slice_ok E 2 (length E - 1)) by lia.
  rewrite (slice_ok E (length E - 1) (length E)) by lia.
  assert (H1 : firstn (2 - 0) (skipn 0 E) = [pipe; pipe]) by reflexivity.
  assert (H2 : firstn (length E - 1 - 2) (skipn 2 E) = removelast E').
  { subst E. cbn [skipn].
    replace (length (pipe :: pipe :: E') - 1 - 2) with (length E' - 1) by (cbn [length]; lia).
    apply firstn_removelast. }
  assert (H3 : firstn (length E - (length E - 1)) (skipn (length E - 1) E) = [last E' d]).
  { replace (length E - (length E - 1)) with 1 by lia.
    rewrite (skipn_last E d) by (subst E; discriminate).
    subst E. cbn [firstn].
    change (pipe :: pipe :: E') with ([pipe; pipe] ++ E').
    now rewrite last_app_nonnil by exact H. }
  now rewrite H1, H2, H3.
Qed.

Lemma eip_gen (x : byte) (E' : bytes) d : E' <> [] -> has_prefix $"||" (x :: E') = false ->
  escape_inner_pipes (x :: E') = Ok ([x] ++ rp (removelast E') ++ [last E' d]).
Proof.
  intros H Hp. unfold escape_inner_pipes. rewrite Hp.
  assert (Hl : 1 <= length E') by (destruct E'; [congruence | cbn; lia]).
  set (E := x :: E').
  assert (HE : length E = 1 + length E') by reflexivity.
  replace (1 <? length E) with true by (symmetry; apply Nat.ltb_lt; lia).
  rewrite (slice_ok E 0 1) by lia.
  rewrite (slice_ok E 1 (length E - 1)) by lia.
  rewrite (slice_ok E (length E - 1) (length E)) by lia.
  assert (H1 : firstn (1 - 0) (skipn 0 E) = [x]) by reflexivity.
  assert (H2 : firstn (length E - 1 - 1) (skipn 1 E) = removelast E').
  { subst E. cbn [skipn].
    replace (length (x :: E') - 1 - 1) with (length E' - 1) by (cbn [length]; lia).
    apply firstn_removelast. }
  assert (H3 : firstn (length E - (length E - 1)) (skipn (length E - 1) E) = [last E' d]).
  { replace (length E - (length E - 1)) with 1 by lia.
    rewrite (skipn_last E d) by (subst E; discriminate).
    subst E. cbn [firstn].
    change (x :: E') with ([x] ++ E').
    now rewrite last_app_nonnil by exact H. }
  now rewrite H1, H2, H3.
Qed.

(* the two whole-string replacements distribute over the three pieces *)
Lemma e3_pieces (a m : bytes) (z : byte) :
  replace1 caret SEP (replace1 star ANY (a ++ rp m ++ [z]))
  = flat_map sc a ++ flat_map mid m ++ sc z.
Proof.
  rewrite !replace1_app. unfold rp. rewrite rep3_mid, !rep2_sc.
  cbn [flat_map]. now rewrite app_nil_r.
Qed.

(* suffix test on a string whose last piece is [sc z] *)
Lemma skipn_app_exact {A} (a b : list A) : skipn (length a) (a ++ b) = b.
Proof. induction a; cbn; auto. Qed.
Lemma has_suffix_pipe (l : bytes) (z : byte) :
  has_suffix $"|" (l ++ sc z) = beq z pipe.
Proof.
  unfold has_suffix. change (length $"|") with 1.
  assert (Hs : exists pre x, sc z = pre ++ [x] /\ beq x pipe = beq z pipe).
  { destruct z; try (exists [], pipe; split; reflexivity);
      try (eexists [], _; split; reflexivity).
    - exists $".", "*"%byte. split; reflexivity.
    - exists (removelast SEP), ")"%byte. split; reflexivity. }
  destruct Hs as (pre & x & Hs & Hx). rewrite Hs, app_assoc, app_length. cbn [length].
  replace (1 <=? length (l ++ pre) + 1) with true by (symmetry; apply Nat.leb_le; lia).
  replace (length (l ++ pre) + 1 - 1) with (length (l ++ pre)) by lia.
  rewrite skipn_app_exact. cbn [andb]. change (bytes_eqb $"|" [x]) with (beq pipe x && true).
  rewrite andb_true_r, <- Hx. unfold beq. apply N.eqb_sym.
Qed.
Lemma removelast_pipe (l : bytes) : removelast (l ++ sc pipe) = l.
Proof. change (sc pipe) with [pipe]. apply removelast_last. Qed.

Lemma finish (pre l : bytes) (z : byte) :
  (if has_suffix $"|" (pre ++ l ++ sc z) then removelast (pre ++ l ++ sc z) ++ $"$" else pre ++ l ++ sc z)
  = pre ++ l ++ fin z.
Proof.
  rewrite app_assoc, has_suffix_pipe. unfold fin.
  destruct (beq z pipe) eqn:Hz.
  - apply beq_eq in Hz. subst z. rewrite removelast_pipe. now rewrite <- app_assoc.
  - now rewrite <- app_assoc.
Qed.

(* ---- heads ---- *)
Lemma sc_head_not_pipe (y : byte) (l : bytes) : y <> pipe -> has_prefix $"|" (sc y ++ l) = false.
Proof. intro H. destruct y; try reflexivity. now elim H. Qed.
Lemma mid_sc y : y <> pipe -> mid y = sc y.
Proof. intro H. unfold mid. apply beq_neq in H. now rewrite H. Qed.

Definition G (E : bytes) d : bytes := flat_map mid (removelast E) ++ sc (last E d).

Lemma G_head (y : byte) (t : bytes) d : y <> pipe -> has_prefix $"|" (G (y :: t) d) = false.
Proof.
  intro H. unfold G. destruct t as [|y' t'].
  - cbn [removelast flat_map last app]. rewrite <- (app_nil_r (sc y)). now apply sc_head_not_pipe.
  - change (removelast (y :: y' :: t')) with (y :: removelast (y' :: t')).
    cbn [flat_map]. rewrite mid_sc by exact H. rewrite <- app_assoc. now apply sc_head_not_pipe.
Qed.

Lemma esc1_head (a : byte) : a <> pipe -> exists x t, esc1 a = x :: t /\ x <> pipe.
Proof.
  intro H. unfold esc1. destruct (is_special a).
  - exists bslash, [a]. split; [reflexivity | discriminate].
  - exists a, []. split; [reflexivity | exact H].
Qed.

Lemma escape_head (b : byte) (r : bytes) : b <> pipe ->
  exists y t, escape (b :: r) = y :: t /\ y <> pipe.
Proof.
  intro H. destruct (esc1_head b H) as [x [t [Hx Hn]]].
  exists x, (t ++ escape r). split; [|exact Hn].
  change (escape (b :: r)) with (esc1 b ++ escape r). now rewrite Hx.
Qed.

Lemma prefix2_of_1 (l : bytes) : has_prefix $"|" l = false -> has_prefix $"||" l = false.
Proof.
  destruct l as [|g gs]; [reflexivity|].
  change (has_prefix $"|" (g :: gs)) with (beq pipe g && true).
  change (has_prefix $"||" (g :: gs)) with (beq pipe g && has_prefix [pipe] gs).
  rewrite andb_true_r. now intros ->.
Qed.
Lemma prefix2_cons (l : bytes) : has_prefix $"||" (pipe :: l) = has_prefix $"|" l.
Proof. reflexivity. Qed.

Theorem C03_text p : is_early p = false -> is_regex_pat p = false ->
  pattern_to_regexp p = Ok (emit (tokenize p)).
Proof.
  intros He Hre. unfold pattern_to_regexp. rewrite He, Hre. clear Hre.
  destruct p as [|a [|b r]].
  - discriminate He.
  - destruct a; try discriminate He; reflexivity.
  - destruct (beq a pipe) eqn:Ha.
    + apply beq_eq in Ha. subst a.
      destruct (beq b pipe) eqn:Hb.
      * (* "||" r *)
        apply beq_eq in Hb. subst b.
        assert (Hr : r <> []) by (intro; subst r; discriminate He).
        change (escape (pipe :: pipe :: r)) with (pipe :: pipe :: escape r).
        rewrite (eip_dbl (escape r) pipe) by (now apply escape_nonnil). cbn [rbind].
        rewrite e3_pieces.
        change (flat_map sc [pipe; pipe]) with [pipe; pipe].
        change (has_prefix $"||" ([pipe; pipe] ++ flat_map mid (removelast (escape r)) ++ sc (last (escape r) pipe))) with true.
        cbv iota. change (skipn 2 ([pipe; pipe] ++ ?x)) with x.
        cbn [app skipn].
        rewrite (finish STARTURL).
        cbn [tokenize]. rewrite !beq_refl. cbn [andb].
        change (emit (StartURL :: body r)) with (STARTURL ++ emit (body r)).
        now rewrite (body_emit r pipe Hr).
      * (* "|" b r, b <> pipe *)
        apply beq_neq in Hb.
        destruct (escape_head b r Hb) as [y [t [HE Hy]]].
        change (escape (pipe :: b :: r)) with (pipe :: escape (b :: r)).
        assert (HP : has_prefix $"||" (pipe :: escape (b :: r)) = false).
        { rewrite HE. destruct y; try reflexivity. now elim Hy. }
        rewrite (eip_gen pipe (escape (b :: r)) pipe) by (try exact HP; apply escape_nonnil; discriminate). cbn [rbind].
        rewrite e3_pieces.
        change (flat_map sc [pipe]) with [pipe].
        fold (G (escape (b :: r)) pipe).
        assert (HG : has_prefix $"|" (G (escape (b :: r)) pipe) = false) by (rewrite HE; now apply G_head).
        assert (H2 : has_prefix $"||" ([pipe] ++ G (escape (b :: r)) pipe) = false).
        { cbn [app]. now rewrite prefix2_cons. }
        rewrite H2.
        change (has_prefix $"|" ([pipe] ++ G (escape (b :: r)) pipe)) with true. cbv iota.
        cbn [app skipn]. unfold G.
        change ("^"%byte :: ?x) with ($"^" ++ x).
        rewrite (finish $"^").
        cbn [tokenize]. rewrite beq_refl. apply beq_neq in Hb. rewrite Hb. cbn [andb].
        change (emit (Bol :: body (b :: r))) with ($"^" ++ emit (body (b :: r))).
        now rewrite (body_emit (b :: r) pipe) by discriminate.
    + (* a <> pipe *)
      apply beq_neq in Ha.
      destruct (escape_head a (b :: r) Ha) as [y [t [HE Hy]]].
      assert (Ht : t <> []).
      { intro; subst t. apply (f_equal (@length byte)) in HE.
        change (escape (a :: b :: r)) with (esc1 a ++ esc1 b ++ escape r) in HE.
        rewrite !app_length in HE. cbn [length] in HE.
        assert (1 <= length (esc1 a)) by (destruct a; cbn; lia).
        assert (1 <= length (esc1 b)) by (destruct b; cbn; lia). lia. }
      rewrite HE.
      assert (HP : has_prefix $"||" (y :: t) = false).
      { destruct y; try reflexivity. now elim Hy. }
      rewrite (eip_gen y t pipe Ht HP). cbn [rbind].
      rewrite e3_pieces.
      change (flat_map sc [y]) with (sc y ++ []). rewrite app_nil_r.
      assert (HE3 : sc y ++ flat_map mid (removelast t) ++ sc (last t pipe) = G (y :: t) pipe).
      { unfold G. destruct t as [|t0 ts]; [congruence|].
        change (removelast (y :: t0 :: ts)) with (y :: removelast (t0 :: ts)).
        change (last (y :: t0 :: ts) pipe) with (last (t0 :: ts) pipe).
        cbn [flat_map]. rewrite mid_sc by exact Hy. now rewrite <- app_assoc. }
      rewrite HE3.
      assert (HG : has_prefix $"|" (G (y :: t) pipe) = false) by (now apply G_head).
      assert (H2 : has_prefix $"||" (G (y :: t) pipe) = false) by (now apply prefix2_of_1).
      rewrite H2, HG. unfold G.
      rewrite <- (app_nil_l (flat_map mid _ ++ _)).
      rewrite (finish []). cbn [app].
      rewrite <- HE.
      assert (Htk : tokenize (a :: b :: r) = body (a :: b :: r)).
      { cbn [tokenize]. apply beq_neq in Ha. now rewrite Ha. }
      rewrite Htk.
      now rewrite (body_emit (a :: b :: r) pipe) by discriminate.
Qed.
Print Assumptions C03_text.
