(* C19, DNS engine: what a DNS query reports when retrieval hands out only part of the lists (e.g. only what is cached),
   what a DNS query materialises, and the chain "reported before the fault => still reported after it" for hosts-file
   rules. *)
From Coq Require Import List Arith NArith ZArith Bool.
From UF Require Import Base.Lit Base.Bytes Model.Options Model.Netip Model.Domain Model.NetRule Model.Rule
  Model.Request Model.Match Model.Result Model.Engines Model.Session Proofs.EqLemmas Proofs.StrLemmas Proofs.SplitLemmas
  Proofs.ParserInv Proofs.C01Proofs Proofs.C02Proofs Proofs.SessionProofs.
Import ListNotations.

Section DnsDegraded.
Variable hash : bytes -> N.
Variable psl : bytes -> bytes * bool.
Variable rules : list (rule * Z).
(* ANY storage behaviour: what retrieval hands out now (e.g. only what is cached) *)
Variable retr : Z -> option net_rule.
Variable retr_host : Z -> option host_rule.
Variable hostname : bytes.
Variable q : request.
Let e := build_dns hash rules.
Let res := fst (dns_match hash psl retr retr_host e hostname q).
Let matched := snd (dns_match hash psl retr retr_host e hostname q).

(* every reported hosts-file rule names the hostname and is what retrieval handed out for an index filed under it *)
Theorem dns_hosts_truthful h : In h (dr_v4 res ++ dr_v6 res) ->
  host_match h hostname = true /\ exists idx, In idx (bucket (de_hosts e) (hash hostname)) /\ retr_host idx = Some h.
Proof.
  unfold res, dns_match. destruct (isnil hostname); [intros []|].
  destruct (get_dns_basic_rule _); [intros []|].
  set (hs := flat_map _ _). destruct (isnil hs); cbn [fst dr_v4 dr_v6 app]; [intros []|].
  intro H. assert (Hin : In h hs) by (apply in_app_or in H as [H|H]; apply filter_In in H; tauto).
  apply in_flat_map in Hin as (idx & Hb & Hh). destruct (retr_host idx) as [h'|] eqn:R; [|destruct Hh].
  destruct (host_match h' hostname) eqn:M; [|destruct Hh]. destruct Hh as [<-|[]]. eauto.
Qed.

(* a hosts-file rule that retrieval still hands out and that names the hostname is still reported (when no
   network rule decides the answer), whatever else has become unreadable *)
Theorem dns_hosts_still_served h idx : In (RHost h, idx) rules -> retr_host idx = Some h ->
  host_match h hostname = true -> hostname <> [] -> dr_network_rule res = None ->
  In h (if is4 (hr_ip h) then dr_v4 res else dr_v6 res) /\ matched = true.
Proof.
  intros Hin R M Hne. unfold res, matched, dns_match. destruct hostname as [|c0 hn] eqn:Eh; [congruence|]. cbn [isnil].
  rewrite <- Eh in *. destruct (get_dns_basic_rule _); cbn [fst snd dr_network_rule]; [discriminate|]. intros _.
  set (hs := flat_map _ _).
  assert (Hhs : In h hs).
  { apply in_flat_map. exists idx. split.
    - destruct (build_dns_tables hash rules) as [Hh _]. fold e in Hh. rewrite Hh. apply bucket_in. apply host_tbl_in.
      exists h, hostname. split; [exact Hin|]. split; [|reflexivity].
      unfold host_match in M. apply existsb_exists in M as (n & Hn & He). apply bytes_eqb_eq in He. now subst.
    - rewrite R, M. now left. }
  destruct (isnil hs) eqn:En; [destruct hs; [destruct Hhs | discriminate]|]. cbn [fst snd dr_v4 dr_v6].
  split; [|reflexivity]. destruct (is4 (hr_ip h)) eqn:E4; apply filter_In; split; auto. now rewrite E4.
Qed.
End DnsDegraded.

Section HostsMaterialised.
Variable hash : bytes -> N.
Variable psl : bytes -> bytes * bool.
Variable backing : Z -> option rule.
Variable ne : net_engine.
Variable de : dns_engine.
Variable V : Z -> option rule.
Hypothesis Vsound : forall idx r, V idx = Some r -> backing idx = Some r.
Notation St := (St backing ne de V).

Definition AllH (bk : list Z) (s : sstate) (acc : list host_rule) : Prop :=
  St s /\ forall h, In h acc -> exists idx, In idx bk /\ cached s idx (RHost h).

Lemma host_step_allh bk hostname acc idx s : In idx bk -> AllH bk s acc ->
  AllH bk (fst (host_step_st backing hostname acc idx s)) (snd (host_step_st backing hostname acc idx s)).
Proof.
  intros Hin [Hs Hc]. unfold host_step_st, bind, retrieve_host, bind, ret.
  destruct (pure_retrieve backing ne de V idx s Hs) as (Hs1 & Hv & [G1 _]).
  pose proof (retrieve_caches backing idx s) as Hrc.
  destruct (retrieve backing idx s) as [s1 r]. cbn [fst snd] in *.
  assert (Hold : forall h, In h acc -> exists i, In i bk /\ cached s1 i (RHost h)).
  { intros h Hh. destruct (Hc h Hh) as (i & A & B). exists i. split; [exact A | now apply G1]. }
  destruct r as [[f|h|c]|]; try (split; assumption).
  destruct (host_match h hostname); [|split; assumption].
  split; [exact Hs1|]. intros h' Hh'. apply in_app_or in Hh' as [Hh'|[<-|[]]]; [now apply Hold|].
  exists idx. split; [exact Hin | now apply Hrc].
Qed.

Lemma host_fold_allh bk hostname : forall l, (forall idx, In idx l -> In idx bk) -> forall acc s, AllH bk s acc ->
  AllH bk (fst (foldM (host_step_st backing hostname) l acc s)) (snd (foldM (host_step_st backing hostname) l acc s)).
Proof.
  induction l as [|i l IH]; intros Hl acc s H; cbn [foldM]; [exact H|]. unfold bind.
  pose proof (host_step_allh bk hostname acc i s (Hl i (or_introl eq_refl)) H) as H2.
  destruct (host_step_st backing hostname acc i s) as [s2 r2]. cbn [fst snd] in H2.
  apply IH; [intros j Hj; apply Hl; now right | exact H2].
Qed.

(* every hosts-file rule a DNS query reports is in the cache afterwards, under an index of the hostname's bucket *)
Theorem hosts_materialised hostname cn ip tags t s s' res : St s ->
  dns_match_st hash psl backing de hostname cn ip tags t s = (s', res) ->
  forall h, In h (dr_v4 (fst res) ++ dr_v6 (fst res)) ->
  exists idx, In idx (bucket (de_hosts de) (hash hostname)) /\ cached s' idx (RHost h).
Proof.
  intros Hs E. unfold dns_match_st in E. destruct (isnil hostname); [inversion E; subst; intros h []|].
  unfold bind at 1 in E. destruct (neutral_pool_get backing ne de V s Hs) as [Hs1 _].
  destruct (pool_get s) as [s1 stale]. cbn [fst snd] in Hs1.
  set (q := fill_from_pool psl stale hostname cn ip tags t) in E.
  unfold bind at 1 in E.
  destruct (pure_match_all hash psl backing ne de V Vsound 1 (de_net de) q (fun n f H => H) s1 Hs1) as (Hs2 & _ & _).
  destruct (match_all_st hash psl backing 1 (de_net de) q s1) as [s2 nrs]. cbn [fst snd] in Hs2.
  destruct (get_dns_basic_rule nrs).
  - unfold bind, pool_put, ret in E. inversion E; subst. intros h [].
  - unfold bind at 1 in E.
    pose proof (host_fold_allh (bucket (de_hosts de) (hash hostname)) hostname (bucket (de_hosts de) (hash hostname))
                  (fun _ H => H) [] s2 (conj Hs2 (fun h (H : In h []) => match H with end))) as [_ Hc].
    destruct (foldM (host_step_st backing hostname) (bucket (de_hosts de) (hash hostname)) [] s2) as [s3 hs]. cbn [fst snd] in Hc.
    unfold bind, pool_put in E. destruct (isnil hs); unfold ret in E; inversion E; subst; cbn [fst snd dr_v4 dr_v6 app]; [intros h []|].
    intros h Hh. assert (Hin : In h hs) by (apply in_app_or in Hh as [Hh|Hh]; apply filter_In in Hh; tauto).
    destruct (Hc h Hin) as (idx & A & B). exists idx. split; [exact A | exact B].
Qed.
End HostsMaterialised.

Section HostChain.
Variable hash : bytes -> N.
Variable psl : bytes -> bytes * bool.
Variable backing : Z -> option rule.
Variable ne : net_engine.
Variable rules : list (rule * Z).
Let de := build_dns hash rules.
Hypothesis backing_ok : forall r i, In (r, i) rules -> backing i = Some r.

(* the chain "reported before the fault => materialised => still reported after it" for hosts-file rules: if a DNS query
   on readable lists reported h, then after ANY further fault-free queries and the fault, every DNS query for a name
   of h that no network rule decides still reports h *)
Theorem host_served_before_served_after n1 cn ip tags t s s1 res h ops n2 q2 :
  St backing ne de backing s ->
  dns_match_st hash psl backing de n1 cn ip tags t s = (s1, res) ->
  In h (dr_v4 (fst res) ++ dr_v6 (fst res)) ->
  Forall (fun o => o <> OpClose) ops ->
  let s2 := fst (run hash psl backing ne de ops s1) in
  let r2 := dns_match hash psl (vnet (cached_view s2)) (vhost (cached_view s2)) de n2 q2 in
  host_match h n2 = true -> n2 <> [] -> dr_network_rule (fst r2) = None ->
  In h (if is4 (hr_ip h) then dr_v4 (fst r2) else dr_v6 (fst r2)) /\ snd r2 = true.
Proof.
  intros Hs E Hin Hops s2 r2 M Hne Hnone.
  destruct (hosts_materialised hash psl backing ne de backing (fun _ _ H => H) n1 cn ip tags t s s1 res Hs E h Hin) as (idx & Hb & Hc).
  assert (Hs1 : St backing ne de backing s1).
  { destruct (pure_dns_match hash psl backing ne de backing (fun _ _ H => H) n1 cn ip tags t s Hs) as (H1 & _ & _).
    rewrite E in H1. exact H1. }
  assert (Hlisted : In (RHost h, idx) rules).
  { destruct (build_dns_tables hash rules) as [Hh _]. fold de in Hh. rewrite Hh in Hb.
    apply bucket_in, host_tbl_in in Hb as (hr & n & Hr & _ & _).
    destruct Hs1 as [[I1 _] _]. apply I1 in Hc. rewrite (backing_ok _ _ Hr) in Hc. inversion Hc; subst. exact Hr. }
  assert (Hc2 : cached_view s2 idx = Some (RHost h)).
  { apply (cache_monotone hash psl backing ne de backing ops s1 (fun _ _ H => H) Hs1 Hops). exact Hc. }
  apply (dns_hosts_still_served hash psl rules (vnet (cached_view s2)) (vhost (cached_view s2)) n2 q2 h idx); auto.
  unfold vhost. now rewrite Hc2.
Qed.
End HostChain.
