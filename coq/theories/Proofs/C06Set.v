(* The web and DNS verdicts depend only on the SET of matching rules (not on order, not on multiplicity):
   a rule reported twice by a lookup table, or in another position, changes nothing. *)
From Coq Require Import List Arith NArith Bool Lia.
From UF Require Import Base.Lit Base.Bytes Model.Options Model.NetRule Model.Result
  Proofs.EqLemmas Proofs.C07Proofs Proofs.C08Proofs Proofs.C06Proofs.
Import ListNotations.

Definition same_set {A} (a b : list A) : Prop := forall x, In x a <-> In x b.

Lemma existsb_same_set {A} (f : A -> bool) a b : same_set a b -> existsb f a = existsb f b.
Proof.
  intro H. destruct (existsb f a) eqn:Ea; destruct (existsb f b) eqn:Eb; try reflexivity.
  - apply existsb_exists in Ea as (x & Hx & Hf). assert (existsb f b = true) by (apply existsb_exists; exists x; split; [now apply H | exact Hf]). congruence.
  - apply existsb_exists in Eb as (x & Hx & Hf). assert (existsb f a = true) by (apply existsb_exists; exists x; split; [now apply H | exact Hf]). congruence.
Qed.
Lemma filter_same_set {A} (f g : A -> bool) a b : same_set a b -> (forall x, In x a -> f x = g x) ->
  same_set (filter f a) (filter g b).
Proof.
  intros H Hfg x. rewrite !filter_In. split.
  - intros [Hx Hf]. split; [now apply H | now rewrite <- Hfg].
  - intros [Hx Hg]. assert (In x a) by now apply H. split; [assumption | now rewrite Hfg].
Qed.

(* the maximum of a function over a list depends on the set of elements only *)
Lemma max_cls_ge l r : In r l -> exists m, max_cls l = Some m /\ cls r <= m.
Proof.
  induction l as [|x l IH]; [intros []|]. intros [->|Hin]; cbn [max_cls fold_right].
  - fold (max_cls l). destruct (max_cls l) as [m|]; eexists; split; try reflexivity; lia.
  - fold (max_cls l). destruct (IH Hin) as (m & -> & Hle). eexists; split; [reflexivity | lia].
Qed.
Lemma max_cls_attained l m : max_cls l = Some m -> exists r, In r l /\ cls r = m.
Proof.
  revert m. induction l as [|x l IH]; intro m; cbn [max_cls fold_right]; [discriminate|]. fold (max_cls l).
  destruct (max_cls l) as [m'|] eqn:E.
  - intro H; inversion H; subst. destruct (Nat.max_spec (cls x) m') as [[_ ->]|[_ ->]].
    + destruct (IH m' eq_refl) as (r & Hr & Hc). exists r. split; [now right | exact Hc].
    + exists x. split; [now left | reflexivity].
  - intro H; inversion H; subst. exists x. split; [now left | reflexivity].
Qed.
Lemma max_cls_same_set a b : same_set a b -> max_cls a = max_cls b.
Proof.
  intro H. destruct (max_cls a) as [m|] eqn:Ea; destruct (max_cls b) as [m'|] eqn:Eb.
  - f_equal. destruct (max_cls_attained _ _ Ea) as (r & Hr & <-). destruct (max_cls_attained _ _ Eb) as (r' & Hr' & <-).
    destruct (max_cls_ge b r (proj1 (H r) Hr)) as (m1 & E1 & L1). destruct (max_cls_ge a r' (proj2 (H r') Hr')) as (m2 & E2 & L2).
    rewrite Eb in E1. rewrite Ea in E2. inversion E1; inversion E2; subst. lia.
  - destruct (max_cls_attained _ _ Ea) as (r & Hr & _). destruct (max_cls_ge b r (proj1 (H r) Hr)) as (m1 & E1 & _). congruence.
  - destruct (max_cls_attained _ _ Eb) as (r & Hr & _). destruct (max_cls_ge a r (proj2 (H r) Hr)) as (m1 & E1 & _). congruence.
  - reflexivity.
Qed.

Lemma eff_same_set a b : same_set a b -> same_set (eff a) (eff b).
Proof.
  intro H. unfold eff, remove_dnsrewrite. rewrite !remove_badfilter_spec. unfold spec_effective.
  apply filter_same_set; [|reflexivity]. apply filter_same_set; [exact H|].
  intros x _. unfold disabled_in. f_equal. f_equal. now apply existsb_same_set.
Qed.

Theorem web_verdict_same_set rs rs' src src' : same_set rs rs' -> same_set src src' ->
  spec_web_verdict rs src = spec_web_verdict rs' src'.
Proof.
  intros Hr Hs. unfold spec_web_verdict, has_replace, candidates.
  pose proof (eff_same_set _ _ Hr) as Her. pose proof (eff_same_set _ _ Hs) as Hes.
  rewrite (existsb_same_set _ _ _ Her).
  assert (Hba : basic_allowed src = basic_allowed src') by (unfold basic_allowed; now rewrite (existsb_same_set _ _ _ Hes)).
  assert (Hga : generic_allowed src = generic_allowed src') by (unfold generic_allowed; now rewrite (existsb_same_set _ _ _ Hes)).
  assert (Hc : same_set (filter (candidate src) (eff rs)) (filter (candidate src') (eff rs'))).
  { apply filter_same_set; [exact Her|]. intros x _. unfold candidate. now rewrite Hba, Hga. }
  rewrite (max_cls_same_set _ _ Hc), (existsb_same_set _ _ _ Hes). reflexivity.
Qed.
Theorem dns_verdict_same_set rs rs' : same_set rs rs' -> spec_dns_verdict rs = spec_dns_verdict rs'.
Proof.
  intro Hr. unfold spec_dns_verdict, dns_candidates. pose proof (eff_same_set _ _ Hr) as Her.
  rewrite (existsb_same_set _ _ _ Her).
  assert (Hc : same_set (filter (fun r => negb (is_cookie r || is_csp r || is_stealth r)) (eff rs))
                        (filter (fun r => negb (is_cookie r || is_csp r || is_stealth r)) (eff rs')))
    by (apply filter_same_set; [exact Her | reflexivity]).
  now rewrite (max_cls_same_set _ _ Hc).
Qed.
