(* Facts about rules produced by the network-rule parser that the engine proofs rely on:
   (1) permitted $domain values are valid names (non-empty, no trailing dot) or wildcard-TLD names;
   (2) the list id does not influence anything but the list id: two rules with the same text behave
       identically in Match. *)
From Coq Require Import List Arith NArith ZArith Bool Lia.
From Coq Require Import Strings.Byte.
From UF Require Import Base.Lit Base.Bytes Model.Options Model.Netip Model.Domain Model.DnsTables Model.DNSRewrite Model.NetRule
  Model.Request Model.Match Proofs.EqLemmas Proofs.StrLemmas Proofs.SplitLemmas Proofs.C12Proofs.
Import ListNotations.

(* ---- (1) ---- *)
Lemma dn_step_dot s : match dn_step s "."%byte with Some s' => dn_st s' <> 2 | None => True end.
Proof.
  destruct s as [s|]; cbn [dn_step]; [|exact I].
  destruct (dn_st s <? 2)%nat.
  - cbn. exact I.
  - cbn [beq]. change (beq "."%byte "."%byte) with true. cbn iota.
    destruct (beq (dn_prev s) "-"%byte); [exact I|]. cbn. discriminate.
Qed.

Lemma is_domain_name_ok d : is_domain_name d = true -> dom_ok d.
Proof.
  unfold is_domain_name. destruct (253 <? length d)%nat; [discriminate|].
  destruct d as [|c d0]; [cbn; discriminate|].
  destruct (@exists_last _ (c :: d0)) as (d' & z & E); [discriminate|]. rewrite E.
  rewrite fold_left_app. cbn [fold_left]. intro H. exists d', z. split; [reflexivity|].
  intros ->. pose proof (dn_step_dot (fold_left dn_step d' (Some dn_init))) as Hd.
  destruct (dn_step (fold_left dn_step d' (Some dn_init)) "."%byte) as [s|]; [|discriminate].
  destruct (dn_st s =? 2)%nat eqn:E2; [apply Nat.eqb_eq in E2; contradiction|]. cbn in H. discriminate.
Qed.

Definition pd_ok (r : net_rule) : Prop :=
  forall d, In d (nr_pdomains r) -> is_domain_name d = true \/ has_suffix $".*" d = true.

Lemma load_domains_aux_ok l : forall p r p' r',
  (forall d, In d p -> is_domain_name d = true \/ has_suffix $".*" d = true) ->
  load_domains_aux l p r = Some (p', r') ->
  forall d, In d p' -> is_domain_name d = true \/ has_suffix $".*" d = true.
Proof.
  induction l as [|d0 l IH]; intros p r p' r' Hp; cbn [load_domains_aux].
  - intro H. inversion H; subst. intros d Hd. rewrite rev'_eq in Hd. apply in_rev in Hd. now apply Hp.
  - destruct (strip_tilde d0) as [neg d1]. destruct (negb (is_domain_name d1) && negb (has_suffix $".*" d1)) eqn:E; [discriminate|].
    destruct neg; [now apply IH|]. apply IH. intros d [<-|Hd]; [|now apply Hp].
    destruct (is_domain_name d1); [now left|]. destruct (has_suffix $".*" d1); [now right | discriminate].
Qed.

Lemma set_option_enabled_pd r o e r' : set_option_enabled r o e = Ok r' -> pd_ok r -> pd_ok r'.
Proof.
  unfold set_option_enabled. destruct (_ && _); [discriminate|]. destruct (_ && _); [discriminate|].
  destruct e; intro H; inversion H; auto.
Qed.
Lemma set_option_ignore_pd r o : pd_ok r -> pd_ok (set_option_ignore r o).
Proof.
  unfold set_option_ignore. destruct (set_option_enabled r o true) eqn:E; auto.
  intro H. eapply set_option_enabled_pd; eauto.
Qed.

Lemma load_option_pd r name value r' : pd_ok r -> load_option r name value = Ok r' -> pd_ok r'.
Proof.
  intros Hr. unfold load_option.
  destruct (assoc_bytes name simple_options) as [[o en]|].
  { intro H. eapply set_option_enabled_pd; eauto. }
  destruct (bytes_eqb name $"dnstype").
  { destruct (load_dnstypes value) as [[p q]|]; [|discriminate]. intro H; inversion H. exact Hr. }
  destruct (bytes_eqb name $"dnsrewrite").
  { destruct (load_dnsrewrite value) as [d| | |]; try discriminate. cbn [rbind]. intro H; inversion H. exact Hr. }
  destruct (bytes_eqb name $"domain").
  { destruct (load_domains value _) as [[p q]|] eqn:E; [|discriminate]. intro H; inversion H.
    unfold load_domains in E. destruct (isnil value); [discriminate|].
    intros d Hd. cbn [set_domains nr_pdomains] in Hd. eapply load_domains_aux_ok; [|exact E|exact Hd]. intros ? []. }
  destruct (bytes_eqb name $"denyallow").
  { destruct (load_domains value _) as [[p q]|]; [|discriminate].
    destruct (_ || _); [discriminate|]. intro H; inversion H. exact Hr. }
  destruct (bytes_eqb name $"ctag").
  { destruct (load_ctags value) as [[p q]|] eqn:E; [|discriminate]. intro H; inversion H. exact Hr. }
  destruct (bytes_eqb name $"client").
  { destruct (load_clients value) as [[p q]| | |] eqn:E; try discriminate. cbn [rbind]. intro H; inversion H. exact Hr. }
  destruct (bytes_eqb name $"~extension").
  { intro H; inversion H. exact Hr. }
  destruct (bytes_eqb name $"document").
  { destruct (set_option_enabled r OptElemhide true) as [r1| | |] eqn:E; try discriminate.
    intro H; inversion H. repeat apply set_option_ignore_pd. eapply set_option_enabled_pd; eauto. }
  destruct (strip_tilde name) as [neg base].
  destruct (assoc_bytes base request_type_names); [|discriminate].
  destruct neg; intro H; inversion H; exact Hr.
Qed.

Lemma load_option_list_pd l : forall r r', pd_ok r -> load_option_list r l = Ok r' -> pd_ok r'.
Proof.
  induction l as [|o l IH]; intros r r' Hr; cbn [load_option_list].
  - intro H; inversion H; subst; exact Hr.
  - match goal with |- rbind ?s _ = _ -> _ => destruct s as [r1| | |] eqn:E end; try discriminate.
    cbn [rbind]. intro H. eapply IH; [|exact H].
    destruct (index_byte _ o) as [[|i]|]; eapply load_option_pd; eauto.
Qed.

Theorem parser_pd text id r : new_network_rule text id = Ok r -> pd_ok r.
Proof.
  unfold new_network_rule. destruct (_ || _); [discriminate|].
  destruct (parse_rule_text text) as [[[pattern options] wl]| | |]; try discriminate. cbn [rbind].
  destruct (load_options _ options) as [r0| | |] eqn:E; try discriminate. cbn [rbind].
  assert (H0 : pd_ok r0).
  { assert (Hb : pd_ok (nr_blank text id wl pattern)) by (intros ? []).
    unfold load_options in E. destruct (isnil options).
    - inversion E; subst. exact Hb.
    - destruct (load_option_list _ _) as [r1| | |] eqn:E1; try discriminate. cbn [rbind] in E.
      assert (pd_ok r1) by (eapply load_option_list_pd; eauto).
      destruct (existsb _ _); inversion E; subst; assumption. }
  destruct (_ && _); [discriminate|]. intro H; inversion H. exact H0.
Qed.

(* ---- (2) the list id is carried along and never read ---- *)
Definition relist (r : net_rule) (id : Z) : net_rule :=
  {| nr_text := nr_text r; nr_list := id; nr_whitelist := nr_whitelist r; nr_pattern := nr_pattern r;
     nr_shortcut := nr_shortcut r; nr_enabled := nr_enabled r; nr_disabled := nr_disabled r; nr_ptypes := nr_ptypes r;
     nr_rtypes := nr_rtypes r; nr_pdomains := nr_pdomains r; nr_rdomains := nr_rdomains r;
     nr_denyallow := nr_denyallow r; nr_pdns := nr_pdns r; nr_rdns := nr_rdns r; nr_ptags := nr_ptags r;
     nr_rtags := nr_rtags r; nr_pclients := nr_pclients r; nr_rclients := nr_rclients r;
     nr_dnsrewrite := nr_dnsrewrite r |}.
Definition rmap {A B} (f : A -> B) (r : res A) : res B :=
  match r with Ok a => Ok (f a) | Err => Err | Crash => Crash | Unsupported => Unsupported end.

Lemma set_option_enabled_relist r o e id :
  set_option_enabled (relist r id) o e = rmap (fun x => relist x id) (set_option_enabled r o e).
Proof.
  unfold set_option_enabled. cbn [relist nr_whitelist].
  destruct (_ && _); [reflexivity|]. destruct (_ && _); [reflexivity|]. destruct e; reflexivity.
Qed.
Lemma set_option_ignore_relist r o id : set_option_ignore (relist r id) o = relist (set_option_ignore r o) id.
Proof. unfold set_option_ignore. rewrite set_option_enabled_relist. destruct (set_option_enabled r o true); reflexivity. Qed.

Lemma load_option_relist r name value id :
  load_option (relist r id) name value = rmap (fun x => relist x id) (load_option r name value).
Proof.
  unfold load_option.
  destruct (assoc_bytes name simple_options) as [[o en]|]; [apply set_option_enabled_relist|].
  destruct (bytes_eqb name $"dnstype"). { destruct (load_dnstypes value) as [[p q]|]; reflexivity. }
  destruct (bytes_eqb name $"dnsrewrite"). { destruct (load_dnsrewrite value); reflexivity. }
  destruct (bytes_eqb name $"domain"). { destruct (load_domains value _) as [[p q]|]; reflexivity. }
  destruct (bytes_eqb name $"denyallow").
  { destruct (load_domains value _) as [[p q]|]; [|reflexivity]. destruct (_ || _); reflexivity. }
  destruct (bytes_eqb name $"ctag"). { destruct (load_ctags value) as [[p q]|]; reflexivity. }
  destruct (bytes_eqb name $"client"). { destruct (load_clients value) as [[p q]| | |]; reflexivity. }
  destruct (bytes_eqb name $"~extension"); [reflexivity|].
  destruct (bytes_eqb name $"document").
  { rewrite set_option_enabled_relist. destruct (set_option_enabled r OptElemhide true) as [r1| | |]; try reflexivity.
    cbn [rmap]. now rewrite !set_option_ignore_relist. }
  destruct (strip_tilde name) as [neg base].
  destruct (assoc_bytes base request_type_names); [|reflexivity]. destruct neg; reflexivity.
Qed.

Lemma load_option_list_relist l : forall r id,
  load_option_list (relist r id) l = rmap (fun x => relist x id) (load_option_list r l).
Proof.
  induction l as [|o l IH]; intros r id; cbn [load_option_list]; [reflexivity|].
  assert (Hs : forall n v, load_option (relist r id) n v = rmap (fun x => relist x id) (load_option r n v))
    by (intros; apply load_option_relist).
  destruct (index_byte _ o) as [[|i]|]; rewrite Hs;
    match goal with |- context [rmap _ ?s] => destruct s as [r1| | |] end; cbn [rmap rbind]; auto.
Qed.

Lemma load_options_relist r options id :
  load_options (relist r id) options = rmap (fun x => relist x id) (load_options r options).
Proof.
  unfold load_options. destruct (isnil options); [reflexivity|]. rewrite load_option_list_relist.
  destruct (load_option_list r _) as [r1| | |]; cbn [rmap rbind]; try reflexivity.
  change (existsb (is_opt_enabled (relist r1 id)) doc_level_opts) with (existsb (is_opt_enabled r1) doc_level_opts).
  destruct (existsb _ _); reflexivity.
Qed.

Theorem new_network_rule_relist text id id' :
  new_network_rule text id' = rmap (fun x => relist x id') (new_network_rule text id).
Proof.
  unfold new_network_rule. destruct (_ || _); [reflexivity|].
  destruct (parse_rule_text text) as [[[pattern options] wl]| | |]; try reflexivity. cbn [rbind].
  change (nr_blank text id' wl pattern) with (relist (nr_blank text id wl pattern) id').
  rewrite load_options_relist. destruct (load_options _ options) as [r0| | |]; cbn [rmap rbind]; try reflexivity.
  change (no_restrictions (relist r0 id')) with (no_restrictions r0).
  destruct (_ && _); reflexivity.
Qed.

Lemma rule_match_relist psl f id q : rule_match psl (relist f id) q = rule_match psl f q.
Proof. reflexivity. Qed.

(* two parsed rules with the same text give the same Match answer on every request *)
Theorem same_text_same_match psl f f' q :
  new_network_rule (nr_text f) (nr_list f) = Ok f -> new_network_rule (nr_text f') (nr_list f') = Ok f' ->
  nr_text f' = nr_text f -> rule_match psl f' q = rule_match psl f q.
Proof.
  intros H H' Ht. rewrite Ht in H'. rewrite (new_network_rule_relist _ (nr_list f) (nr_list f')), H in H'.
  cbn [rmap] in H'. inversion H' as [E]. rewrite <- E at 1. apply rule_match_relist.
Qed.
