(* C04: a rule matches iff its pattern and every modifier are satisfied. *)
From Coq Require Import List Arith NArith ZArith Bool Lia Sorting.Sorted Permutation.
From Coq Require Import Strings.Byte.
From UF Require Import Base.Lit Base.Bytes Model.Options Model.Netip Model.Domain Model.DnsTables Model.DNSRewrite Model.NetRule
  Model.Regex Model.Mask Model.Request Model.Match Proofs.EqLemmas Proofs.BytesOrder Proofs.C09Proofs Proofs.C06Proofs.
Import ListNotations.

Definition mem (x : bytes) (l : list bytes) : bool := existsb (bytes_eqb x) l.

Lemma mem_In x l : mem x l = true <-> In x l.
Proof.
  unfold mem. rewrite existsb_exists. split.
  - intros (y & Hy & E). apply bytes_eqb_eq in E. now subst.
  - intro H. exists x. split; [assumption | apply bytes_eqb_refl].
Qed.
Lemma mem_false x l : mem x l = false <-> ~ In x l.
Proof. rewrite <- mem_In. destruct (mem x l); split; congruence. Qed.

(* ---- sorted lists ---- *)
Lemma sorted_nth l : sorted_bytes l -> forall a b, a <= b -> b < length l -> ble (nth a l []) (nth b l []).
Proof.
  induction 1 as [|x l Hs IH Hall]; intros a b Hab Hb; cbn in Hb; [lia|].
  destruct a as [|a], b as [|b]; cbn [nth]; try lia.
  - apply ble_refl.
  - rewrite Forall_forall in Hall. apply Hall. apply nth_In. lia.
  - apply IH; lia.
Qed.

Lemma cmp_lt_not_ble a b : bytes_cmp a b = Lt -> ~ ble b a.
Proof. intros H Hc. apply ble_iff in Hc. rewrite (bytes_cmp_antisym a b), H in Hc. now apply Hc. Qed.
Lemma cmp_lt_ble a b : bytes_cmp a b = Lt -> ble a b.
Proof. intro H. apply ble_iff. rewrite H. discriminate. Qed.
Lemma cmp_not_lt_ble a b : bytes_cmp a b <> Lt -> ble b a.
Proof.
  intro H. apply ble_iff. rewrite (bytes_cmp_antisym a b). destruct (bytes_cmp a b); cbn; congruence.
Qed.

(* ---- slices.BinarySearch is membership on a sorted list ---- *)
Lemma lower_bound_spec l x : sorted_bytes l -> forall fuel i j,
  j - i < fuel -> i <= j -> j <= length l ->
  (forall k, k < i -> bytes_cmp (nth k l []) x = Lt) ->
  (forall k, j <= k -> k < length l -> bytes_cmp (nth k l []) x <> Lt) ->
  let r := lower_bound fuel l i j x in
  r <= length l /\ (forall k, k < r -> bytes_cmp (nth k l []) x = Lt)
  /\ (forall k, r <= k -> k < length l -> bytes_cmp (nth k l []) x <> Lt).
Proof.
  intro Hs. induction fuel as [|fuel IH]; intros i j Hf Hij Hj Hlo Hhi; [lia|]. cbn [lower_bound].
  destruct (j <=? i) eqn:E.
  - apply Nat.leb_le in E. assert (i = j) by lia. subst. cbn. repeat split; auto.
  - apply Nat.leb_gt in E.
    assert (Hh : i <= (i + j) / 2 /\ (i + j) / 2 < j).
    { split; [apply Nat.div_le_lower_bound; lia | apply Nat.div_lt_upper_bound; lia]. }
    set (h := (i + j) / 2) in *.
    destruct (bytes_cmp (nth h l []) x) eqn:Ec.
    + apply IH; try lia; [exact Hlo|]. intros k Hk Hkl.
      intro Hc. assert (Hb : ble (nth h l []) (nth k l [])) by (apply sorted_nth; auto; lia).
      apply bytes_cmp_eq in Ec. rewrite Ec in Hb. exact (cmp_lt_not_ble _ _ Hc Hb).
    + apply IH; try lia; [|exact Hhi]. intros k Hk.
      destruct (Nat.eq_dec k h) as [->|Hne]; [exact Ec|].
      assert (Hb : ble (nth k l []) (nth h l [])) by (apply sorted_nth; auto; lia).
      destruct (bytes_cmp (nth k l []) x) eqn:Ek; [|reflexivity|].
      * apply bytes_cmp_eq in Ek. rewrite Ek in Hb. exfalso. exact (cmp_lt_not_ble _ _ Ec Hb).
      * exfalso. assert (Hx : ble x (nth k l [])) by (apply cmp_not_lt_ble; congruence).
        exact (cmp_lt_not_ble _ _ Ec (ble_trans _ _ _ Hx Hb)).
    + apply IH; try lia; [exact Hlo|]. intros k Hk Hkl. intro Hc.
      assert (Hb : ble (nth h l []) (nth k l [])) by (apply sorted_nth; auto; lia).
      assert (Hx : ble x (nth h l [])) by (apply cmp_not_lt_ble; congruence).
      exact (cmp_lt_not_ble _ _ Hc (ble_trans _ _ _ Hx Hb)).
Qed.

Theorem binary_search_spec l x : sorted_bytes l -> binary_search l x = mem x l.
Proof.
  intro Hs. unfold binary_search.
  destruct (lower_bound_spec l x Hs (S (length l)) 0 (length l)) as (Hr & Hlo & Hhi); try lia.
  set (r := lower_bound _ _ _ _ _) in *.
  destruct (r <? length l) eqn:E; cbn [andb].
  - apply Nat.ltb_lt in E. destruct (bytes_cmp (nth r l []) x) eqn:Ec.
    + symmetry. apply mem_In. apply bytes_cmp_eq in Ec. rewrite <- Ec. now apply nth_In.
    + exfalso. exact (Hhi r (le_n _) E Ec).
    + symmetry. apply mem_false. intro Hin. apply In_nth with (d := []) in Hin as (k & Hk & Ek).
      destruct (Nat.lt_ge_cases k r) as [Hkr|Hkr].
      * specialize (Hlo k Hkr). rewrite Ek, bytes_cmp_refl in Hlo. discriminate.
      * assert (Hb : ble (nth r l []) (nth k l [])) by (apply sorted_nth; auto).
        rewrite Ek in Hb. apply ble_iff in Hb. congruence.
  - apply Nat.ltb_ge in E. symmetry. apply mem_false. intro Hin.
    apply In_nth with (d := []) in Hin as (k & Hk & Ek).
    assert (Hkr : k < r) by lia. specialize (Hlo k Hkr). rewrite Ek, bytes_cmp_refl in Hlo. discriminate.
Qed.

(* ---- the merge walk finds a common element of two sorted lists ---- *)
Definition common (a b : list bytes) : bool := existsb (fun x => mem x b) a.

Lemma sorted_head_lt_not_mem r c ct : sorted_bytes (c :: ct) -> bytes_cmp r c = Lt -> mem r (c :: ct) = false.
Proof.
  intros Hs Hlt. apply mem_false. intro Hin. inversion Hs as [|? ? _ Hall]; subst. rewrite Forall_forall in Hall.
  destruct Hin as [->|Hin]; [rewrite bytes_cmp_refl in Hlt; discriminate|].
  exact (cmp_lt_not_ble _ _ Hlt (Hall r Hin)).
Qed.

Lemma existsb_ext_in' {A} (f g : A -> bool) l : (forall x, In x l -> f x = g x) -> existsb f l = existsb g l.
Proof.
  induction l as [|y l IH]; intro H; [reflexivity|]. cbn. rewrite (H y (or_introl eq_refl)). f_equal.
  apply IH. intros x Hx. apply H. now right.
Qed.

Lemma common_nil_r a : common a [] = false.
Proof. induction a; cbn; auto. Qed.

Lemma tags_walk_spec : forall fuel a b, length a + length b < fuel -> sorted_bytes a -> sorted_bytes b ->
  tags_walk fuel a b = common a b.
Proof.
  induction fuel as [|fuel IH]; intros a b Hf Ha Hb; [lia|]. cbn [tags_walk].
  destruct a as [|r rt]; [reflexivity|]. destruct b as [|c ct]; [now rewrite common_nil_r|].
  destruct (bytes_cmp r c) eqn:E.
  - apply bytes_cmp_eq in E. subst. cbn. now rewrite bytes_eqb_refl.
  - rewrite IH; [| cbn in *; lia | now inversion Ha | assumption].
    unfold common at 2. cbn [existsb]. now rewrite (sorted_head_lt_not_mem r c ct Hb E).
  - rewrite IH; [| cbn in *; lia | assumption | now inversion Hb].
    (* c is below every element of r :: rt, so it is none of them *)
    assert (Hc : forall x, In x (r :: rt) -> bytes_eqb x c = false).
    { intros x Hx. apply not_true_is_false. intro Hc. apply bytes_eqb_eq in Hc. subst x.
      assert (Hlt : bytes_cmp c r = Lt) by (rewrite (bytes_cmp_antisym r c), E; reflexivity).
      inversion Ha as [|? ? _ Hall]; subst. rewrite Forall_forall in Hall.
      destruct Hx as [->|Hx]; [rewrite bytes_cmp_refl in Hlt; discriminate|].
      exact (cmp_lt_not_ble _ _ Hlt (Hall c Hx)). }
    unfold common. apply existsb_ext_in'. intros x Hx. unfold mem. cbn [existsb]. now rewrite (Hc x Hx).
Qed.

Theorem match_tags_specific_spec a b : sorted_bytes a -> sorted_bytes b -> match_tags_specific a b = common a b.
Proof. intros. apply tags_walk_spec; auto. Qed.

(* ---- well-formedness established by the parser ---- *)
Definition wf_clients (c : option clients) : Prop :=
  match c with Some c => sorted_bytes (c_hosts c) | None => True end.
Definition wf_rule (r : net_rule) : Prop :=
  sorted_bytes (nr_ptags r) /\ sorted_bytes (nr_rtags r) /\ wf_clients (nr_pclients r) /\ wf_clients (nr_rclients r).

Lemma load_ctags_aux_sorted l : forall p r p' r', load_ctags_aux l p r = Some (p', r') -> sorted_bytes p' /\ sorted_bytes r'.
Proof.
  induction l as [|d l IH]; intros p r p' r'; cbn [load_ctags_aux].
  - intro H; inversion H. split; apply sort_bytes_sorted.
  - destruct (strip_tilde d) as [neg d']. destruct (negb (is_valid_ctag d')); [discriminate|].
    destruct neg; apply IH.
Qed.
Lemma load_clients_aux_wf l : forall p r p' r', load_clients_aux l p r = Ok (p', r') -> wf_clients p' /\ wf_clients r'.
Proof.
  induction l as [|s l IH]; intros p r p' r'; cbn [load_clients_aux].
  - intro H; inversion H. split; [destruct p | destruct r]; cbn; auto; apply sort_bytes_sorted.
  - destruct (strip_tilde s) as [neg c0]. destruct (isnil (unquote_client c0)); [discriminate|].
    destruct neg.
    + destruct (clients_add _ _) as [x| | |]; try discriminate. cbn [rbind]. apply IH.
    + destruct (clients_add _ _) as [x| | |]; try discriminate. cbn [rbind]. apply IH.
Qed.

Lemma set_option_enabled_wf r o e r' : set_option_enabled r o e = Ok r' -> wf_rule r -> wf_rule r'.
Proof.
  unfold set_option_enabled. destruct (_ && _); [discriminate|]. destruct (_ && _); [discriminate|].
  destruct e; intro H; inversion H; auto.
Qed.
Lemma set_option_ignore_wf r o : wf_rule r -> wf_rule (set_option_ignore r o).
Proof.
  unfold set_option_ignore. destruct (set_option_enabled r o true) eqn:E; auto.
  intro H. eapply set_option_enabled_wf; eauto.
Qed.

Lemma load_option_wf r name value r' : wf_rule r -> load_option r name value = Ok r' -> wf_rule r'.
Proof.
  intros Hr. unfold load_option.
  destruct (assoc_bytes name simple_options) as [[o en]|].
  { intro H. eapply set_option_enabled_wf; eauto. }
  destruct (bytes_eqb name $"dnstype").
  { destruct (load_dnstypes value) as [[p q]|]; [|discriminate]. intro H; inversion H. exact Hr. }
  destruct (bytes_eqb name $"dnsrewrite").
  { destruct (load_dnsrewrite value) as [d| | |]; try discriminate. cbn [rbind]. intro H; inversion H. exact Hr. }
  destruct (bytes_eqb name $"domain").
  { destruct (load_domains value _) as [[p q]|]; [|discriminate]. intro H; inversion H. exact Hr. }
  destruct (bytes_eqb name $"denyallow").
  { destruct (load_domains value _) as [[p q]|]; [|discriminate].
    destruct (_ || _); [discriminate|]. intro H; inversion H. exact Hr. }
  destruct (bytes_eqb name $"ctag").
  { destruct (load_ctags value) as [[p q]|] eqn:E; [|discriminate]. intro H; inversion H.
    unfold load_ctags in E. destruct (isnil value); [discriminate|].
    apply load_ctags_aux_sorted in E as [Hs1 Hs2]. destruct Hr as (_ & _ & Hs3 & Hs4). subst. repeat split; assumption. }
  destruct (bytes_eqb name $"client").
  { destruct (load_clients value) as [[p q]| | |] eqn:E; try discriminate. cbn [rbind]. intro H; inversion H.
    unfold load_clients in E. destruct (isnil value); [discriminate|].
    apply load_clients_aux_wf in E as [Hs1 Hs2]. destruct Hr as (Hs3 & Hs4 & _ & _). subst. repeat split; assumption. }
  destruct (bytes_eqb name $"~extension").
  { intro H; inversion H. exact Hr. }
  destruct (bytes_eqb name $"document").
  { destruct (set_option_enabled r OptElemhide true) as [r1| | |] eqn:E; try discriminate.
    intro H; inversion H. repeat apply set_option_ignore_wf. eapply set_option_enabled_wf; eauto. }
  destruct (strip_tilde name) as [neg base].
  destruct (assoc_bytes base request_type_names); [|discriminate].
  destruct neg; intro H; inversion H; exact Hr.
Qed.

Lemma load_option_list_wf l : forall r r', wf_rule r -> load_option_list r l = Ok r' -> wf_rule r'.
Proof.
  induction l as [|o l IH]; intros r r' Hr; cbn [load_option_list].
  - intro H; inversion H; subst; exact Hr.
  - match goal with |- rbind ?s _ = _ -> _ => destruct s as [r1| | |] eqn:E end; try discriminate.
    cbn [rbind]. intro H. eapply IH; [|exact H].
    destruct (index_byte _ o) as [[|i]|]; eapply load_option_wf; eauto.
Qed.

Theorem parser_wf text id r : new_network_rule text id = Ok r -> wf_rule r.
Proof.
  unfold new_network_rule. destruct (_ || _); [discriminate|].
  destruct (parse_rule_text text) as [[[pattern options] wl]| | |]; try discriminate. cbn [rbind].
  destruct (load_options _ options) as [r0| | |] eqn:E; try discriminate. cbn [rbind].
  assert (H0 : wf_rule r0).
  { assert (Hb : wf_rule (nr_blank text id wl pattern)) by (repeat split; constructor).
    unfold load_options in E. destruct (isnil options).
    - inversion E; subst. exact Hb.
    - destruct (load_option_list _ _) as [r1| | |] eqn:E1; try discriminate. cbn [rbind] in E.
      assert (wf_rule r1) by (eapply load_option_list_wf; eauto).
      destruct (existsb _ _); inversion E; subst; assumption. }
  destruct (_ && _); [discriminate|]. intro H; inversion H; subst r. exact H0.
Qed.

(* ---- the reference semantics: the same conjunction with membership instead of searches ---- *)
Definition sem_clients_contains (c : option clients) (host : bytes) (ip : option addr) : bool :=
  match c with
  | None => false
  | Some c => (negb (isnil host) && mem host (c_hosts c))
              || match ip with None => false | Some a => existsb (fun n => prefix_contains n a) (c_nets c) end
  end.
Definition sem_client_tags (f : net_rule) (tags : list bytes) : bool :=
  if isnil (nr_rtags f) && isnil (nr_ptags f) then true
  else if common (nr_rtags f) tags then false
  else if negb (isnil (nr_ptags f)) then common (nr_ptags f) tags
  else true.
Definition sem_client (f : net_rule) (host : bytes) (ip : option addr) : bool :=
  if (clients_len (nr_rclients f) =? 0)%nat && (clients_len (nr_pclients f) =? 0)%nat then true
  else if sem_clients_contains (nr_rclients f) host ip then false
  else if negb (clients_len (nr_pclients f) =? 0)%nat then sem_clients_contains (nr_pclients f) host ip
  else true.

Section PSL.
Variable psl : bytes -> bytes * bool.

(* every modifier holds ... *)
Definition modifiers_hold (f : net_rule) (r : request) : res bool :=
  do rd <- match_request_domain psl f (rq_hostname r) (rq_is_hostname r);
  Ok (negb (is_opt_enabled f OptThirdParty && negb (rq_third_party r))
      && negb (is_opt_disabled f OptThirdParty && rq_third_party r)
      && match_request_type f (rq_type r)
      && rd
      && match_source_domain psl f (rq_source_hostname r)
      && match_dns_type f (rq_dnstype r)
      && sem_client_tags f (rq_tags r)
      && sem_client f (rq_client_name r) (rq_client_ip r)).

(* ... and the pattern (with its shortcut pre-check, see C05) accepts the proper target *)
Definition sem (f : net_rule) (r : request) : res bool :=
  if negb (match_shortcut f r) then Ok false else
  if is_opt_enabled f OptThirdParty && negb (rq_third_party r) then Ok false else
  if is_opt_disabled f OptThirdParty && rq_third_party r then Ok false else
  if negb (match_request_type f (rq_type r)) then Ok false else
  do mh <- modifiers_hold f r;
  if negb mh then Ok false else match_pattern f r.

Lemma clients_contains_spec c host ip : wf_clients c -> clients_contains_any c host ip = sem_clients_contains c host ip.
Proof. destruct c as [c|]; [|reflexivity]. cbn. intro H. now rewrite binary_search_spec. Qed.

Lemma match_client_tags_spec f tags : wf_rule f -> sorted_bytes tags ->
  match_client_tags f tags = sem_client_tags f tags.
Proof.
  intros (Hp & Hr & _) Ht. unfold match_client_tags, sem_client_tags.
  now rewrite !match_tags_specific_spec.
Qed.
Lemma match_client_spec f host ip : wf_rule f -> match_client f host ip = sem_client f host ip.
Proof.
  intros (_ & _ & Hp & Hr). unfold match_client, sem_client. now rewrite !clients_contains_spec.
Qed.

Theorem rule_match_sem f r : wf_rule f -> sorted_bytes (rq_tags r) -> rule_match psl f r = sem f r.
Proof.
  intros Hwf Ht. unfold rule_match, sem, modifiers_hold.
  destruct (negb (match_shortcut f r)); [reflexivity|].
  destruct (is_opt_enabled f OptThirdParty && negb (rq_third_party r)); [reflexivity|].
  destruct (is_opt_disabled f OptThirdParty && rq_third_party r); [reflexivity|].
  destruct (match_request_type f (rq_type r)); [|reflexivity]. cbn [negb andb].
  destruct (match_request_domain psl f (rq_hostname r) (rq_is_hostname r)) as [rd| | |]; try reflexivity.
  cbn [rbind]. rewrite (match_client_tags_spec f _ Hwf Ht), (match_client_spec f _ _ Hwf).
  destruct rd; [|reflexivity]. cbn [negb andb].
  destruct (match_source_domain psl f (rq_source_hostname r)); [|reflexivity].
  destruct (match_dns_type f (rq_dnstype r)); [|reflexivity].
  destruct (sem_client_tags f (rq_tags r)); [|reflexivity].
  destruct (sem_client f (rq_client_name r) (rq_client_ip r)); reflexivity.
Qed.

(* through the parser: for every accepted rule text *)
Corollary text_match_sem text id f r : new_network_rule text id = Ok f -> sorted_bytes (rq_tags r) ->
  rule_match psl f r = sem f r.
Proof. intros H. apply rule_match_sem. eapply parser_wf; eauto. Qed.

(* ---- the order of the values inside a modifier never matters ---- *)
Lemma common_perm_l a a' b : Permutation a a' -> common a b = common a' b.
Proof. apply existsb_perm. Qed.
Lemma mem_perm x l l' : Permutation l l' -> mem x l = mem x l'.
Proof. apply existsb_perm. Qed.

Lemma is_dom_perm d l l' : Permutation l l' ->
  is_domain_or_subdomain_of_any psl d l = is_domain_or_subdomain_of_any psl d l'.
Proof. apply existsb_perm. Qed.

Lemma isnil_perm {A} (l l' : list A) : Permutation l l' -> isnil l = isnil l'.
Proof.
  intro H. destruct l, l'; try reflexivity.
  - apply Permutation_nil in H. discriminate.
  - apply Permutation_sym, Permutation_nil in H. discriminate.
Qed.

Theorem source_domain_order f f' d :
  Permutation (nr_pdomains f) (nr_pdomains f') -> Permutation (nr_rdomains f) (nr_rdomains f') ->
  match_source_domain psl f d = match_source_domain psl f' d.
Proof.
  intros Hp Hr. unfold match_source_domain.
  now rewrite (isnil_perm _ _ Hp), (isnil_perm _ _ Hr), (is_dom_perm d _ _ Hp), (is_dom_perm d _ _ Hr).
Qed.
Theorem denyallow_order f f' d h : Permutation (nr_denyallow f) (nr_denyallow f') ->
  match_request_domain psl f d h = match_request_domain psl f' d h.
Proof.
  intro Hp. unfold match_request_domain. now rewrite (isnil_perm _ _ Hp), (is_dom_perm d _ _ Hp).
Qed.
Theorem dnstype_order f f' t : Permutation (nr_pdns f) (nr_pdns f') -> Permutation (nr_rdns f) (nr_rdns f') ->
  match_dns_type f t = match_dns_type f' t.
Proof.
  intros Hp Hr. unfold match_dns_type.
  now rewrite (isnil_perm _ _ Hp), (isnil_perm _ _ Hr), (existsb_perm _ _ _ Hp), (existsb_perm _ _ _ Hr).
Qed.
End PSL.

(* $ctag: the parsed rule itself is independent of the order of the values *)
Lemma load_ctags_aux_char l : forall p r,
  load_ctags_aux l p r =
  if forallb (fun d => is_valid_ctag (snd (strip_tilde d))) l then
    Some (sort_by bytes_leb (rev p ++ map (fun d => snd (strip_tilde d)) (filter (fun d => negb (fst (strip_tilde d))) l)),
          sort_by bytes_leb (rev r ++ map (fun d => snd (strip_tilde d)) (filter (fun d => fst (strip_tilde d)) l)))
  else None.
Proof.
  induction l as [|d l IH]; intros p r; cbn [load_ctags_aux forallb filter map].
  - now rewrite !rev'_eq, !app_nil_r.
  - destruct (strip_tilde d) as [neg d'] eqn:E. cbn [fst snd].
    destruct (is_valid_ctag d'); cbn [negb andb]; [|reflexivity].
    destruct neg; cbn [negb map]; rewrite IH; cbn [rev]; rewrite <- ?app_assoc, ?E; reflexivity.
Qed.

Lemma forallb_perm {A} (f : A -> bool) l l' : Permutation l l' -> forallb f l = forallb f l'.
Proof.
  induction 1; cbn; try congruence.
  - destruct (f x), (f y); reflexivity.
Qed.

Theorem ctag_order l l' : Permutation l l' -> load_ctags_aux l [] [] = load_ctags_aux l' [] [].
Proof.
  intro H. rewrite !load_ctags_aux_char. rewrite (forallb_perm _ _ _ H).
  destruct (forallb _ l'); [|reflexivity]. cbn [rev app]. f_equal. f_equal.
  - apply (sort_canonical bytes_leb ble_total ble_trans ble_antisym).
    apply Permutation_map. now apply filter_perm.
  - apply (sort_canonical bytes_leb ble_total ble_trans ble_antisym).
    apply Permutation_map. now apply filter_perm.
Qed.

(* non-vacuity: an unsorted tag list on the request side makes the walk miss (the sortedness
   hypothesis is not decorative), and a concrete matching rule *)
Example ex_unsorted_tags : match_tags_specific [$"b"] [$"z"; $"b"] = false /\ common [$"b"] [$"z"; $"b"] = true.
Proof. split; reflexivity. Qed.
