(* C16: exception modifiers only ever switch cosmetic options off. *)
From Coq Require Import List Arith NArith ZArith Bool Lia.
From UF Require Import Base.Lit Base.Bytes Model.Options Model.NetRule.
Import ListNotations.
Local Open Scope N_scope.

(* Specification: what each modifier bit disables (document is the union of the
   bits it sets: elemhide, jsinject, urlblock, content, extension). *)
Definition disabled_by (en : N) : N :=
  N.lor (if has_opt en OptElemhide then N.lor CosCSS CosGenericCSS else 0)
  (N.lor (if has_opt en OptGenerichide then CosGenericCSS else 0)
         (if has_opt en OptJsinject then CosJS else 0)).

Definition subset (a b : N) : Prop := N.land a b = a.

Lemma exact en : get_cosmetic_option (Some (true, en)) = N.ldiff CosAll (disabled_by en).
Proof.
  unfold get_cosmetic_option, disabled_by. cbn [negb].
  destruct (has_opt en OptElemhide), (has_opt en OptGenerichide), (has_opt en OptJsinject); reflexivity.
Qed.

Lemma non_exception en : get_cosmetic_option (Some (false, en)) = CosAll.
Proof. reflexivity. Qed.
Lemma absent : get_cosmetic_option None = CosAll.
Proof. reflexivity. Qed.

Lemma never_enables b : subset (get_cosmetic_option b) CosAll.
Proof.
  destruct b as [[[|] en]|]; try reflexivity.
  unfold subset, get_cosmetic_option. cbn [negb].
  destruct (has_opt en OptElemhide), (has_opt en OptGenerichide), (has_opt en OptJsinject); reflexivity.
Qed.

Lemma has_opt_mono en en' o : subset en en' -> has_opt en o = true -> has_opt en' o = true.
Proof.
  unfold subset, has_opt. rewrite !N.eqb_eq. intros Hs Ho.
  apply N.bits_inj. intro n.
  apply (f_equal (fun x => N.testbit x n)) in Hs, Ho.
  rewrite N.land_spec in *.
  destruct (N.testbit en n), (N.testbit en' n), (N.testbit o n); cbn in *; congruence.
Qed.

Lemma monotone en en' : subset en en' ->
  subset (get_cosmetic_option (Some (true, en'))) (get_cosmetic_option (Some (true, en))).
Proof.
  intro Hs. unfold get_cosmetic_option. cbn [negb].
  pose proof (has_opt_mono en en' OptElemhide Hs) as H1.
  pose proof (has_opt_mono en en' OptGenerichide Hs) as H2.
  pose proof (has_opt_mono en en' OptJsinject Hs) as H3.
  destruct (has_opt en OptElemhide), (has_opt en OptGenerichide), (has_opt en OptJsinject);
    try rewrite (H1 eq_refl); try rewrite (H2 eq_refl); try rewrite (H3 eq_refl);
    destruct (has_opt en' OptElemhide), (has_opt en' OptGenerichide), (has_opt en' OptJsinject);
    reflexivity.
Qed.

(* union: the options disabled by a union of modifier sets is the union of what each disables *)
Lemma has_opt_bit_lor a b o : (exists k, o = N.pow 2 k) ->
  has_opt (N.lor a b) o = has_opt a o || has_opt b o.
Proof.
  intros [k ->]. unfold has_opt.
  assert (H : forall x, N.eqb (N.land x (2 ^ k)) (2 ^ k) = N.testbit x k).
  { intro x. destruct (N.testbit x k) eqn:E.
    - apply N.eqb_eq. apply N.bits_inj. intro n. rewrite N.land_spec, N.pow2_bits_eqb.
      destruct (N.eqb_spec k n) as [->|]; [now rewrite E | now rewrite andb_false_r].
    - apply N.eqb_neq. intro Hc. apply (f_equal (fun y => N.testbit y k)) in Hc.
      rewrite N.land_spec, N.pow2_bits_true, E in Hc. discriminate. }
  rewrite !H. apply N.lor_spec.
Qed.

Lemma disabled_union a b : disabled_by (N.lor a b) = N.lor (disabled_by a) (disabled_by b).
Proof.
  unfold disabled_by.
  rewrite (has_opt_bit_lor a b OptElemhide) by (exists 4; reflexivity).
  rewrite (has_opt_bit_lor a b OptGenerichide) by (exists 5; reflexivity).
  rewrite (has_opt_bit_lor a b OptJsinject) by (exists 7; reflexivity).
  destruct (has_opt a OptElemhide), (has_opt b OptElemhide), (has_opt a OptGenerichide),
    (has_opt b OptGenerichide), (has_opt a OptJsinject), (has_opt b OptJsinject); reflexivity.
Qed.

(* non-vacuity: $elemhide,generichide (the F01 witness: XOR gave 5) *)
Example elemhide_generichide :
  get_cosmetic_option (Some (true, N.lor OptElemhide OptGenerichide)) = CosJS.
Proof. reflexivity. Qed.

(* ---- text level: all 2^9 subsets of the nine modifiers on an exception rule, through the parser ---- *)
Definition c16_mods : list (bytes * N) :=
  [($"elemhide", N.lor CosCSS CosGenericCSS); ($"generichide", CosGenericCSS); ($"jsinject", CosJS);
   ($"document", CosAll); ($"urlblock", 0); ($"genericblock", 0); ($"content", 0); ($"extension", 0);
   ($"important", 0)].
Fixpoint select_mask {A} (mask : nat) (l : list A) : list A :=
  match l with
  | [] => []
  | x :: l' => if Nat.odd mask then x :: select_mask (Nat.div2 mask) l' else select_mask (Nat.div2 mask) l'
  end.
Definition subset_text (sel : list (bytes * N)) : bytes :=
  $"@@||example.org^" ++ (if isnil sel then [] else $"$" ++ join $"," (map fst sel)).
Definition subset_expected (sel : list (bytes * N)) : N :=
  N.ldiff CosAll (fold_right N.lor 0 (map snd sel)).
Definition subset_ok (mask : nat) : bool :=
  let sel := select_mask mask c16_mods in
  match new_network_rule (subset_text sel) 1%Z with
  | Ok r => N.eqb (get_cosmetic_option (Some (nr_whitelist r, nr_enabled r))) (subset_expected sel)
  | _ => false
  end.
Lemma all_subsets_text_level : forallb subset_ok (seq 0 512) = true.
Proof. vm_compute. reflexivity. Qed.
Theorem subsets_text_level mask : (mask < 512)%nat -> subset_ok mask = true.
Proof.
  intro H. pose proof all_subsets_text_level as Hall. rewrite forallb_forall in Hall.
  apply Hall. apply in_seq. lia.
Qed.
