(* The state-passing engines of Model/Session.v return the pure functions of Model/Engines.v evaluated
   on the current "view" of the storage; the view is the backing lists while they are readable and the
   cache afterwards.  Consequences: C13 (answers do not depend on the history) and C19 (after the lists
   become unreadable the answers are those of the cached sub-storage). *)
From Coq Require Import List Arith NArith ZArith Bool Lia.
From Coq Require Import Strings.Byte.
From UF Require Import Base.Lit Base.Bytes Model.Options Model.Netip Model.Domain Model.NetRule Model.Rule
  Model.Regex Model.Mask Model.Request Model.Match Model.Result Model.Engines Model.Session
  Proofs.EqLemmas Proofs.C01Proofs.
Import ListNotations.

Lemma obj_eqb_eq a b : obj_eqb a b = true <-> a = b.
Proof.
  destruct a as [i|t n], b as [j|u m]; cbn; try (split; discriminate).
  - rewrite Z.eqb_eq. split; congruence.
  - rewrite andb_true_iff, !Nat.eqb_eq. split; [intros [-> ->]; reflexivity | intro H; inversion H; auto].
Qed.
Lemma obj_eqb_refl a : obj_eqb a a = true. Proof. now apply obj_eqb_eq. Qed.

(* NetworkRule.Match = the stateless conjuncts, then matchPattern *)
Lemma rule_match_split psl f r :
  rule_match psl f r = match before_pattern psl f r with Ok true => match_pattern f r | x => x end.
Proof.
  unfold rule_match, before_pattern.
  destruct (negb (match_shortcut f r)); [reflexivity|].
  destruct (_ && negb (rq_third_party r)); [reflexivity|]. destruct (_ && rq_third_party r); [reflexivity|].
  destruct (negb (match_request_type f (rq_type r))); [reflexivity|].
  destruct (match_request_domain psl f (rq_hostname r) (rq_is_hostname r)) as [rd| | |]; cbn [rbind]; try reflexivity.
  destruct (negb rd); [reflexivity|].
  destruct (negb (match_source_domain psl f (rq_source_hostname r))); [reflexivity|].
  destruct (negb (match_dns_type f (rq_dnstype r))); [reflexivity|].
  destruct (negb (match_client_tags f (rq_tags r))); [reflexivity|].
  destruct (negb (match_client f (rq_client_name r) (rq_client_ip r))); reflexivity.
Qed.
Lemma match_pattern_apply f r :
  match_pattern f r = do pp <- prepare_pattern (nr_pattern f) (is_opt_enabled f OptMatchCase); apply_prepared f r pp.
Proof. reflexivity. Qed.

(* a pooled request object is completely overwritten *)
Theorem fill_from_pool_pure psl stale hostname cn ip tags t :
  fill_from_pool psl stale hostname cn ip tags t = new_hostname_request psl hostname cn ip tags t.
Proof. reflexivity. Qed.

Lemma fold_left_acc {A B} (g : B -> list A) l : forall a, fold_left (fun acc x => acc ++ g x) l a = a ++ flat_map g l.
Proof.
  induction l as [|x l IH]; intro a; cbn [fold_left flat_map]; [now rewrite app_nil_r|].
  now rewrite IH, app_assoc.
Qed.

Lemma match_shortcuts_eq' hash psl retr e q : match_shortcuts hash psl retr e q =
  fold_left (w_step hash psl retr q (ne_shortcuts e)) (windows (rq_url_lower q)) [].
Proof. reflexivity. Qed.

Section Proofs.
Variable hash : bytes -> N.
Variable psl : bytes -> bytes * bool.
Variable backing : Z -> option rule.
Variable ne : net_engine.
Variable de : dns_engine.

Definition view (s : sstate) (idx : Z) : option rule :=
  match assoc_idx idx (ss_cache s) with
  | Some r => Some r
  | None => if ss_readable s then backing idx else None
  end.
Definition vnet (V : Z -> option rule) (idx : Z) : option net_rule :=
  match V idx with Some (RNet f) => Some f | _ => None end.
Definition vhost (V : Z -> option rule) (idx : Z) : option host_rule :=
  match V idx with Some (RHost h) => Some h | _ => None end.

(* which rule an object holds *)
Definition holds (o : obj) (f : net_rule) : Prop :=
  match o with
  | OCache idx => backing idx = Some (RNet f)
  | OSeq 0 n => nth_error (ne_seq ne) n = Some f
  | OSeq 1 n => nth_error (ne_seq (de_net de)) n = Some f
  | OSeq 2 n => nth_error (ne_seq ne) n = Some f          (* the network engine the web Engine owns: same tables *)
  | OSeq _ _ => False
  end.
Lemma holds_fun o f f' : holds o f -> holds o f' -> f = f'.
Proof. destruct o as [idx|[|[|[|t]]] n]; cbn; try tauto; congruence. Qed.

Definition Inv (s : sstate) : Prop :=
  (forall idx r, assoc_idx idx (ss_cache s) = Some r -> backing idx = Some r) /\
  (forall o pp, assoc_obj o (ss_memo s) = Some pp ->
     exists f, holds o f /\ prepare_pattern (nr_pattern f) (is_opt_enabled f OptMatchCase) = Ok pp).

Definition grows (s s' : sstate) : Prop :=
  (forall idx r, assoc_idx idx (ss_cache s) = Some r -> assoc_idx idx (ss_cache s') = Some r) /\
  ss_readable s' = ss_readable s.
Lemma grows_refl s : grows s s. Proof. split; auto. Qed.
Lemma grows_trans a b c : grows a b -> grows b c -> grows a c.
Proof. intros [A1 A2] [B1 B2]. split; [auto | congruence]. Qed.

Section View.
Variable V : Z -> option rule.
Hypothesis Vsound : forall idx r, V idx = Some r -> backing idx = Some r.

Definition St (s : sstate) : Prop := Inv s /\ forall idx, view s idx = V idx.
Definition Pure {A} (m : M A) (v : A) : Prop :=
  forall s, St s -> St (fst (m s)) /\ snd (m s) = v /\ grows s (fst (m s)).
Definition Neutral {A} (m : M A) : Prop := forall s, St s -> St (fst (m s)) /\ grows s (fst (m s)).

Ltac same_st :=
  cbn [fst snd]; split; [first [assumption | split; [split; assumption | assumption]] |
                         split; [first [reflexivity | assumption | idtac] | apply grows_refl]].
Lemma pure_ret {A} (a : A) : Pure (ret a) a.
Proof. intros s Hs. unfold ret. same_st. Qed.
Lemma pure_bind {A B} (m : M A) (k : A -> M B) v w : Pure m v -> Pure (k v) w -> Pure (bind m k) w.
Proof.
  intros Hm Hk s Hs. unfold bind. destruct (Hm s Hs) as (H1 & H2 & H3). destruct (m s) as [s1 a]. cbn [fst snd] in *. subst a.
  destruct (Hk s1 H1) as (K1 & K2 & K3). split; [exact K1 | split; [exact K2 | eapply grows_trans; eauto]].
Qed.
Lemma neutral_bind {A B} (m : M A) (k : A -> M B) w : Neutral m -> (forall a, Pure (k a) w) -> Pure (bind m k) w.
Proof.
  intros Hm Hk s Hs. unfold bind. destruct (Hm s Hs) as (H1 & H3). destruct (m s) as [s1 a]. cbn [fst snd] in *.
  destruct (Hk a s1 H1) as (K1 & K2 & K3). split; [exact K1 | split; [exact K2 | eapply grows_trans; eauto]].
Qed.
Lemma pure_eq {A} (m : M A) v v' : Pure m v -> v = v' -> Pure m v'.
Proof. now intros H <-. Qed.
Lemma pure_foldM {A B} (f : A -> B -> M A) (g : A -> B -> A) :
  (forall a x, Pure (f a x) (g a x)) -> forall l a, Pure (foldM f l a) (fold_left g l a).
Proof.
  intros Hf l. induction l as [|x l IH]; intro a; cbn [foldM fold_left]; [apply pure_ret|].
  eapply pure_bind; [apply Hf | apply IH].
Qed.

(* ---- storage ---- *)
Lemma pure_retrieve idx : Pure (retrieve backing idx) (V idx).
Proof.
  intros s [[I1 I2] Hv]. unfold retrieve. pose proof (Hv idx) as Hvi. unfold view in Hvi.
  destruct (assoc_idx idx (ss_cache s)) as [r|] eqn:Ec.
  - same_st.
  - destruct (ss_readable s) eqn:Er; [|same_st].
    destruct (backing idx) as [r|] eqn:Eb; [|same_st].
    cbn [fst snd]. split; [|split; [exact Hvi|]].
    + split; [split|].
      * cbn [ss_cache]. intros i r0. cbn [assoc_idx]. destruct (Z.eqb_spec i idx) as [->|Hne].
        -- intro H; inversion H; subst. exact Eb.
        -- apply I1.
      * exact I2.
      * intro i. unfold view. cbn [ss_cache ss_readable assoc_idx]. destruct (Z.eqb_spec i idx) as [->|Hne].
        -- congruence.
        -- rewrite <- Hv. unfold view. now rewrite Er.
    + split; [|cbn [ss_readable]; now rewrite Er]. cbn [ss_cache]. intros i r0 Hi. cbn [assoc_idx].
      destruct (Z.eqb_spec i idx) as [->|Hne]; [congruence | exact Hi].
Qed.
Lemma pure_retrieve_net idx : Pure (retrieve_net backing idx) (vnet V idx).
Proof. eapply pure_bind; [apply pure_retrieve | apply pure_ret]. Qed.
Lemma pure_retrieve_host idx : Pure (retrieve_host backing idx) (vhost V idx).
Proof. eapply pure_bind; [apply pure_retrieve | apply pure_ret]. Qed.
Lemma vnet_holds idx f : vnet V idx = Some f -> holds (OCache idx) f.
Proof.
  unfold vnet. destruct (V idx) as [[g|h|c]|] eqn:E; try discriminate. intro H; inversion H; subst.
  cbn. now apply Vsound.
Qed.

(* ---- lazy compilation ---- *)
Lemma pure_match_pattern o f r : holds o f -> Pure (match_pattern_st o f r) (match_pattern f r).
Proof.
  intros Ho s [[I1 I2] Hv]. unfold match_pattern_st. rewrite match_pattern_apply.
  destruct (assoc_obj o (ss_memo s)) as [pp|] eqn:Em.
  - destruct (I2 _ _ Em) as (f' & Hf' & Hp). rewrite (holds_fun _ _ _ Ho Hf'), Hp. cbn [rbind fst snd].
    rewrite <- (holds_fun _ _ _ Ho Hf'). same_st.
  - destruct (prepare_pattern (nr_pattern f) (is_opt_enabled f OptMatchCase)) as [pp| | |] eqn:Ep; cbn [rbind];
      try same_st.
    assert (Hst : St {| ss_cache := ss_cache s; ss_readable := ss_readable s; ss_memo := (o, pp) :: ss_memo s;
                        ss_pool := ss_pool s |}).
    { split; [split|]; [exact I1 | | exact Hv]. cbn [ss_memo]. intros o' pp'. cbn [assoc_obj].
      destruct (obj_eqb o' o) eqn:Eo.
      - apply obj_eqb_eq in Eo. subst. intro H; inversion H; subst. now exists f.
      - apply I2. }
    destruct pp; cbn [fst snd]; (split; [first [exact Hst | split; [split; assumption | assumption]] | split; [reflexivity | first [apply grows_refl | split; [auto | reflexivity]]]]).
Qed.
Lemma pure_rule_match o f r : holds o f -> Pure (rule_match_st psl o f r) (rule_match psl f r).
Proof.
  intro Ho. unfold rule_match_st. rewrite rule_match_split.
  destruct (before_pattern psl f r) as [[|]| | |]; try apply pure_ret. now apply pure_match_pattern.
Qed.
Lemma pure_rmatch o f r : holds o f -> Pure (rmatch_st psl o f r) (rmatch psl f r).
Proof. intro Ho. eapply pure_bind; [now apply pure_rule_match | apply pure_ret]. Qed.

(* ---- tables ---- *)
Lemma pure_sc_step q res idx : Pure (sc_step_st psl backing q res idx) (sc_step psl (vnet V) q res idx).
Proof.
  unfold sc_step_st, sc_step. eapply pure_bind; [apply pure_retrieve_net|].
  destruct (vnet V idx) as [f|] eqn:E; [|apply pure_ret].
  destruct (existsb _ res); cbn [orb]; [apply pure_ret|].
  eapply pure_bind; [apply pure_rmatch; now apply vnet_holds|].
  destruct (rmatch psl f q); apply pure_ret.
Qed.
Lemma pure_match_shortcuts e q :
  Pure (match_shortcuts_st hash psl backing e q) (match_shortcuts hash psl (vnet V) e q).
Proof.
  unfold match_shortcuts_st. rewrite match_shortcuts_eq'.
  apply pure_foldM. intros res w. unfold w_step. apply pure_foldM. intros. apply pure_sc_step.
Qed.

Definition dom_step (q : request) (res : list net_rule) (idx : Z) : list net_rule :=
  res ++ match vnet V idx with Some f => if rmatch psl f q then [f] else [] | None => [] end.
Lemma pure_dom_step q res idx : Pure (dom_step_st psl backing q res idx) (dom_step q res idx).
Proof.
  unfold dom_step_st, dom_step. eapply pure_bind; [apply pure_retrieve_net|].
  destruct (vnet V idx) as [f|] eqn:E; [|apply pure_eq with (v := res); [apply pure_ret | now rewrite app_nil_r]].
  eapply pure_bind; [apply pure_rmatch; now apply vnet_holds|].
  destruct (rmatch psl f q); [apply pure_ret|]. apply pure_eq with (v := res); [apply pure_ret | now rewrite app_nil_r].
Qed.
Lemma pure_match_domains e q :
  Pure (match_domains_st hash psl backing e q) (match_domains hash psl (vnet V) e q).
Proof.
  unfold match_domains_st, match_domains. destruct (isnil (rq_source_hostname q)); [apply pure_ret|].
  eapply pure_eq.
  - apply pure_foldM. intros res d. apply pure_foldM. intros. apply pure_dom_step.
  - cbn beta. unfold dom_step.
    assert (H : forall ds a, fold_left (fun res d => fold_left (fun res idx => res ++
                 match vnet V idx with Some f => if rmatch psl f q then [f] else [] | None => [] end)
                 (bucket (ne_domains e) (hash d)) res) ds a =
               a ++ flat_map (fun d => flat_map (fun idx => match vnet V idx with
                                                            | Some f => if rmatch psl f q then [f] else []
                                                            | None => [] end) (bucket (ne_domains e) (hash d))) ds).
    { induction ds as [|d ds IH]; intro a; cbn [fold_left flat_map]; [now rewrite app_nil_r|].
      rewrite IH, fold_left_acc, app_assoc. reflexivity. }
    apply H.
Qed.

Lemma pure_seq_fold tag q (seqtbl : list net_rule) :
  (forall n f, nth_error seqtbl n = Some f -> holds (OSeq tag n) f) ->
  forall l pre acc, seqtbl = pre ++ l ->
  Pure (foldM (seq_step_st psl tag q) l (length pre, acc))
       (length pre + length l, acc ++ filter (fun f => rmatch psl f q) l).
Proof.
  intros Hh l. induction l as [|f l IH]; intros pre acc Hs; cbn [foldM].
  - apply pure_eq with (v := (length pre, acc)); [apply pure_ret|]. cbn. now rewrite Nat.add_0_r, app_nil_r.
  - eapply pure_bind.
    + unfold seq_step_st. cbn [fst snd]. eapply pure_bind; [apply pure_rmatch | apply pure_ret].
      apply Hh. rewrite Hs, nth_error_app2, Nat.sub_diag by lia. reflexivity.
    + cbn beta. replace (S (length pre)) with (length (pre ++ [f])) by (rewrite app_length; cbn; lia).
      eapply pure_eq; [apply IH; now rewrite <- app_assoc|].
      rewrite app_length. cbn [length filter]. f_equal; [lia|].
      destruct (rmatch psl f q); [now rewrite <- app_assoc | reflexivity].
Qed.

Lemma pure_match_all tag e q :
  (forall n f, nth_error (ne_seq e) n = Some f -> holds (OSeq tag n) f) ->
  Pure (match_all_st hash psl backing tag e q) (match_all hash psl (vnet V) e q).
Proof.
  intro Hh. unfold match_all_st, match_all.
  eapply pure_bind; [apply pure_match_shortcuts|].
  eapply pure_bind; [apply pure_match_domains|].
  eapply pure_bind.
  - unfold match_seq_st. eapply pure_bind; [apply (pure_seq_fold tag q (ne_seq e) Hh (ne_seq e) [] []); reflexivity | apply pure_ret].
  - cbn [snd app]. apply pure_ret.
Qed.

(* ---- the request pool ---- *)
Lemma neutral_pool_get : Neutral pool_get.
Proof.
  intros s [[I1 I2] Hv]. unfold pool_get. destruct (ss_pool s); cbn [fst].
  - split; [split; [split|]; assumption | apply grows_refl].
  - split; [split; [split|]; assumption | split; auto].
Qed.
Lemma pure_pool_put r : Pure (pool_put r) tt.
Proof. intros s [[I1 I2] Hv]. unfold pool_put. cbn [fst snd]. split; [split; [split|]; assumption | split; [reflexivity | split; auto]]. Qed.

Definition host_step (hostname : bytes) (acc : list host_rule) (idx : Z) : list host_rule :=
  acc ++ match vhost V idx with Some h => if host_match h hostname then [h] else [] | None => [] end.
Lemma pure_host_step hostname acc idx : Pure (host_step_st backing hostname acc idx) (host_step hostname acc idx).
Proof.
  unfold host_step_st, host_step. eapply pure_bind; [apply pure_retrieve_host|].
  eapply pure_eq; [apply pure_ret|]. destruct (vhost V idx) as [h|]; [|now rewrite app_nil_r].
  destruct (host_match h hostname); [reflexivity | now rewrite app_nil_r].
Qed.

Theorem pure_dns_match hostname cn ip tags t :
  Pure (dns_match_st hash psl backing de hostname cn ip tags t)
       (dns_match hash psl (vnet V) (vhost V) de hostname (new_hostname_request psl hostname cn ip tags t)).
Proof.
  unfold dns_match_st, dns_match. destruct (isnil hostname); [apply pure_ret|].
  apply neutral_bind; [apply neutral_pool_get|]. intro stale. rewrite fill_from_pool_pure.
  eapply pure_bind; [apply pure_match_all; intros n f H; exact H|].
  destruct (get_dns_basic_rule _).
  - eapply pure_bind; [apply pure_pool_put | apply pure_ret].
  - eapply pure_bind.
    + eapply pure_eq; [apply pure_foldM; intros; apply pure_host_step|].
      unfold host_step. rewrite fold_left_acc. reflexivity.
    + cbn [app]. eapply pure_bind; [apply pure_pool_put|]. destruct (isnil _); apply pure_ret.
Qed.

(* ---- one operation, a history ---- *)
Definition pure_answer (o : op) : answer :=
  match o with
  | QNet q => ANet (match_all hash psl (vnet V) ne q)
  | QWeb q => AWeb (engine_match_request hash psl (vnet V) ne q)
  | QDns h cn ip tags t =>
    let r := dns_match hash psl (vnet V) (vhost V) de h (new_hostname_request psl h cn ip tags t) in ADns (fst r) (snd r)
  | OpClose => ANone
  end.
Lemma pure_step o : o <> OpClose -> Pure (step hash psl backing ne de o) (pure_answer o).
Proof.
  intro Ho. destruct o as [q|q|h cn ip tags t|]; [| | |congruence]; cbn [step pure_answer].
  - eapply pure_bind; [apply pure_match_all; intros n f H; exact H | apply pure_ret].
  - unfold engine_match_request. eapply pure_bind; [apply pure_match_all; intros n f H; exact H|].
    destruct (isnil (rq_source_url q)); [apply pure_ret|].
    eapply pure_bind; [apply pure_match_all; intros n f H; exact H | apply pure_ret].
  - eapply pure_bind; [apply pure_dns_match | apply pure_ret].
Qed.
(* once the lists are unreadable, closing again changes nothing *)
Lemma pure_close_closed : forall s, St s -> ss_readable s = false ->
  St (fst (close_storage s)) /\ grows s (fst (close_storage s)).
Proof.
  intros s [[I1 I2] Hv] Hr. unfold close_storage. cbn [fst]. split.
  - split; [split; assumption|]. intro idx. rewrite <- Hv. unfold view. cbn [ss_cache ss_readable]. now rewrite Hr.
  - split; [auto | cbn; now rewrite Hr].
Qed.

Lemma run_pure ops : Forall (fun o => o <> OpClose) ops -> forall s, St s ->
  snd (run hash psl backing ne de ops s) = map pure_answer ops /\
  St (fst (run hash psl backing ne de ops s)) /\ grows s (fst (run hash psl backing ne de ops s)).
Proof.
  induction 1 as [|o ops Ho _ IH]; intros s Hs; cbn [run map].
  - split; [reflexivity | split; [exact Hs | apply grows_refl]].
  - destruct (pure_step o Ho s Hs) as (H1 & H2 & H3). destruct (step hash psl backing ne de o s) as [s1 a]. cbn [fst snd] in *.
    destruct (IH s1 H1) as (K1 & K2 & K3). destruct (run hash psl backing ne de ops s1) as [s2 l]. cbn [fst snd] in *.
    subst. split; [reflexivity | split; [exact K2 | eapply grows_trans; eauto]].
Qed.
Lemma run_closed ops : forall s, St s -> ss_readable s = false ->
  snd (run hash psl backing ne de ops s) = map pure_answer ops /\
  St (fst (run hash psl backing ne de ops s)) /\ grows s (fst (run hash psl backing ne de ops s)).
Proof.
  induction ops as [|o ops IH]; intros s Hs Hr; cbn [run map].
  - split; [reflexivity | split; [exact Hs | apply grows_refl]].
  - assert (H : St (fst (step hash psl backing ne de o s)) /\ snd (step hash psl backing ne de o s) = pure_answer o /\
                grows s (fst (step hash psl backing ne de o s))).
    { destruct o as [q|q|h cn ip tags t|]; try (apply pure_step; [discriminate | exact Hs]).
      cbn [step pure_answer]. unfold bind. destruct (pure_close_closed s Hs Hr) as [A B].
      destruct (close_storage s) as [s1 u]. cbn [fst snd ret] in *. auto. }
    destruct H as (H1 & H2 & H3). destruct (step hash psl backing ne de o s) as [s1 a]. cbn [fst snd] in *.
    assert (Hr1 : ss_readable s1 = false) by (destruct H3 as [_ E]; congruence).
    destruct (IH s1 H1 Hr1) as (K1 & K2 & K3). destruct (run hash psl backing ne de ops s1) as [s2 l]. cbn [fst snd] in *.
    subst. split; [reflexivity | split; [exact K2 | eapply grows_trans; eauto]].
Qed.
End View.
End Proofs.

(* ================= what a query materialises ================= *)
Section Materialised.
Variable hash : bytes -> N.
Variable psl : bytes -> bytes * bool.
Variable backing : Z -> option rule.
Variable ne : net_engine.
Variable de : dns_engine.
Variable V : Z -> option rule.
Hypothesis Vsound : forall idx r, V idx = Some r -> backing idx = Some r.
Notation St := (St backing ne de V).

Definition cached (s : sstate) (idx : Z) (r : rule) : Prop := assoc_idx idx (ss_cache s) = Some r.

(* a successful retrieval leaves the rule in the cache *)
Lemma retrieve_caches idx s r : snd (retrieve backing idx s) = Some r -> cached (fst (retrieve backing idx s)) idx r.
Proof.
  unfold retrieve, cached. destruct (assoc_idx idx (ss_cache s)) as [r0|] eqn:E; cbn [fst snd].
  - intro H; inversion H; subst. exact E.
  - destruct (ss_readable s); [|discriminate]. destruct (backing idx) as [r0|]; [|discriminate].
    cbn [fst snd ss_cache assoc_idx]. intro H; inversion H; subst. now rewrite Z.eqb_refl.
Qed.

(* generic invariant rule for foldM *)
Lemma foldM_inv {A B} (f : A -> B -> M A) (I : sstate -> A -> Prop) :
  (forall a x s, I s a -> I (fst (f a x s)) (snd (f a x s))) ->
  forall l a s, I s a -> I (fst (foldM f l a s)) (snd (foldM f l a s)).
Proof.
  intros Hf l. induction l as [|x l IH]; intros a s Hi; cbn [foldM]; [exact Hi|].
  unfold bind. specialize (Hf a x s Hi). destruct (f a x s) as [s1 a1]. cbn [fst snd] in Hf. now apply IH.
Qed.

(* every (index, rule) pair the shortcut table returns is in the cache afterwards *)
Definition AllC (tbl : list (N * Z)) (s : sstate) (res : list (Z * net_rule)) : Prop :=
  St s /\ forall x, In x res -> cached s (fst x) (RNet (snd x)) /\ exists h, In (h, fst x) tbl.

Lemma sc_step_allc tbl q res idx s : (exists h, In (h, idx) tbl) -> AllC tbl s res ->
  AllC tbl (fst (sc_step_st psl backing q res idx s)) (snd (sc_step_st psl backing q res idx s)).
Proof.
  intros Hin [Hs Hc]. unfold sc_step_st, bind, retrieve_net, bind, ret.
  destruct (pure_retrieve backing ne de V idx s Hs) as (Hs1 & Hv & [G1 _]).
  pose proof (retrieve_caches idx s) as Hrc.
  destruct (retrieve backing idx s) as [s1 r]. cbn [fst snd] in *.
  assert (Hold : forall x, In x res -> cached s1 (fst x) (RNet (snd x)) /\ exists h, In (h, fst x) tbl).
  { intros x Hx. destruct (Hc x Hx) as [A B]. split; [now apply G1 | exact B]. }
  destruct r as [[f|h|c]|]; try (split; assumption).
  destruct (existsb _ res); [split; assumption|].
  assert (Hh : holds backing ne de (OCache idx) f).
  { cbn. apply Vsound. congruence. }
  destruct (pure_rmatch psl backing ne de V (OCache idx) f q Hh s1 Hs1) as (Hs2 & _ & [G2 _]).
  destruct (rmatch_st psl (OCache idx) f q s1) as [s2 b]. cbn [fst snd] in *.
  split; [exact Hs2|]. intros x Hx.
  assert (Hx' : In x res \/ (b = true /\ x = (idx, f))).
  { destruct b; [apply in_app_or in Hx as [Hx|[<-|[]]]; auto | auto]. }
  destruct Hx' as [Hx'|[_ ->]].
  - destruct (Hold x Hx') as [A B]. split; [now apply G2 | exact B].
  - cbn [fst snd]. split; [apply G2; now apply Hrc | exact Hin].
Qed.

Theorem shortcuts_materialised e q s : St s ->
  AllC (ne_shortcuts e) (fst (match_shortcuts_st hash psl backing e q s)) (snd (match_shortcuts_st hash psl backing e q s)).
Proof.
  intro Hs. unfold match_shortcuts_st.
  apply (foldM_inv _ (fun s res => AllC (ne_shortcuts e) s res)).
  - intros res w s0 H0.
    assert (Hb : forall l, (forall idx, In idx l -> exists h, In (h, idx) (ne_shortcuts e)) ->
              forall res0 s1, AllC (ne_shortcuts e) s1 res0 ->
              AllC (ne_shortcuts e) (fst (foldM (sc_step_st psl backing q) l res0 s1)) (snd (foldM (sc_step_st psl backing q) l res0 s1))).
    { induction l as [|i l IH]; intros Hl res0 s1 H1; cbn [foldM]; [exact H1|]. unfold bind.
      pose proof (sc_step_allc (ne_shortcuts e) q res0 i s1 (Hl i (or_introl eq_refl)) H1) as H2.
      destruct (sc_step_st psl backing q res0 i s1) as [s2 r2]. cbn [fst snd] in H2.
      apply IH; [intros j Hj; apply Hl; now right | exact H2]. }
    apply Hb; [|exact H0]. intros idx Hi. exists (hash w). now apply bucket_in.
  - split; [exact Hs | intros x []].
Qed.
End Materialised.

(* ================= consequences ================= *)
Section Consequences.
Variable hash : bytes -> N.
Variable psl : bytes -> bytes * bool.
Variable backing : Z -> option rule.
Variable ne : net_engine.
Variable de : dns_engine.

Lemma init_St : St backing ne de backing ss_init.
Proof.
  split; [split|].
  - cbn. discriminate.
  - cbn. discriminate.
  - intro idx. reflexivity.
Qed.

(* C13: on readable lists, the answers of ANY history are the pure answers, one by one: an answer does not
   depend on what was asked before (cache, compiled patterns, pooled request objects are invisible) *)
Theorem history_independent ops : Forall (fun o => o <> OpClose) ops ->
  snd (run hash psl backing ne de ops ss_init) = map (pure_answer hash psl ne de backing) ops.
Proof.
  intro H. apply (run_pure hash psl backing ne de backing (fun _ _ E => E) ops H ss_init init_St).
Qed.
Corollary same_as_fresh h o : Forall (fun o => o <> OpClose) h -> o <> OpClose ->
  last (snd (run hash psl backing ne de (h ++ [o]) ss_init)) ANone = last (snd (run hash psl backing ne de [o] ss_init)) ANone.
Proof.
  intros Hh Ho. rewrite !history_independent.
  - rewrite map_app. cbn [map]. now rewrite last_last.
  - constructor; [exact Ho | constructor].
  - apply Forall_app. split; [exact Hh | constructor; [exact Ho | constructor]].
Qed.

(* C19: after the lists become unreadable at ANY point of a history, every later answer is the pure answer
   over the cached sub-storage, which hands out a subset of what the lists hold *)
Definition cached_view (s : sstate) (idx : Z) : option rule := assoc_idx idx (ss_cache s).

Theorem after_close h1 h2 : Forall (fun o => o <> OpClose) h1 ->
  let s1 := fst (run hash psl backing ne de h1 ss_init) in
  (forall idx r, cached_view s1 idx = Some r -> backing idx = Some r) /\
  snd (run hash psl backing ne de h2 (fst (close_storage s1))) = map (pure_answer hash psl ne de (cached_view s1)) h2.
Proof.
  intros H1 s1.
  destruct (run_pure hash psl backing ne de backing (fun _ _ E => E) h1 H1 ss_init init_St) as (_ & [[I1 I2] Hv] & _).
  fold s1 in I1, I2, Hv. split; [exact I1|].
  apply (run_closed hash psl backing ne de (cached_view s1) I1 h2).
  - unfold close_storage. cbn [fst]. split; [split; assumption|]. intro idx. unfold view, cached_view. cbn [ss_cache ss_readable].
    destruct (assoc_idx idx (ss_cache s1)); reflexivity.
  - reflexivity.
Qed.

(* the cached sub-storage answers with a subset of the fault-free answer, and only with rules that match *)
Theorem degraded_subset V q : (forall idx r, V idx = Some r -> backing idx = Some r) ->
  incl (match_all hash psl (vnet V) ne q) (match_all hash psl (vnet backing) ne q) /\
  forall f, In f (match_all hash psl (vnet V) ne q) -> rmatch psl f q = true.
Proof.
  intro HV. split.
  - apply match_all_mono. intros idx f. unfold vnet. destruct (V idx) as [[g|h|c]|] eqn:E; try discriminate.
    intro H; inversion H; subst. now rewrite (HV _ _ E).
  - intros f. apply match_all_true.
Qed.

(* rules materialised before the fault continue to be served: a cached rule of the engine's list that
   matches is still reported (by itself when it lives in the shortcut or domains table) *)
Theorem still_served rules V q f idx :
  V idx = Some (RNet f) -> pdomains_ok f -> text_coherent psl rules q ->
  In (f, idx) rules -> rmatch psl f q = true ->
  exists f', In f' (match_all hash psl (vnet V) (build_net hash rules) q) /\ nr_text f' = nr_text f /\
             (rule_shortcuts f <> [] \/ (nr_pdomains f <> [] /\ no_wild f = true) -> f' = f).
Proof.
  intros HV. apply match_all_complete_at. unfold vnet. now rewrite HV.
Qed.

(* cached entries are never lost, whatever happens later (including the fault) *)
Theorem cache_monotone V ops s : (forall idx r, V idx = Some r -> backing idx = Some r) ->
  St backing ne de V s -> Forall (fun o => o <> OpClose) ops ->
  forall idx r, cached_view s idx = Some r -> cached_view (fst (run hash psl backing ne de ops s)) idx = Some r.
Proof.
  intros HV Hs Hops idx r Hc. destruct (run_pure hash psl backing ne de V HV ops Hops s Hs) as (_ & _ & [G _]).
  now apply G.
Qed.

(* a cached entry found under an index of the shortcut table is the rule the list files under that index *)
Theorem materialised_is_listed rules V s idx f h :
  (forall f0 i, In (f0, i) rules -> backing i = Some (RNet f0)) ->
  St backing ne de V s -> In (h, idx) (ne_shortcuts (build_net hash rules)) ->
  cached s idx (RNet f) -> In (f, idx) rules.
Proof.
  intros Hb [[I1 _] _] Hin Hc. destruct (build_from hash rules) as (F1 & _ & _).
  destruct (F1 _ _ Hin) as [f0 H0]. apply I1 in Hc. rewrite (Hb _ _ H0) in Hc. inversion Hc; subst. exact H0.
Qed.

(* the chain "returned before the fault => materialised => still returned after it", for rules of the shortcut
   table: if a query returned (idx, f) on readable lists, then after ANY further fault-free queries and the
   fault, every query that f matches still returns f *)
Theorem served_before_served_after rules q1 q2 ops s idx f :
  (forall f0 i, In (f0, i) rules -> backing i = Some (RNet f0)) -> parsed rules ->
  St backing ne de backing s -> Forall (fun o => o <> OpClose) ops ->
  In (idx, f) (snd (match_shortcuts_st hash psl backing (build_net hash rules) q1 s)) ->
  rmatch psl f q2 = true ->
  let s1 := fst (match_shortcuts_st hash psl backing (build_net hash rules) q1 s) in
  let s2 := fst (run hash psl backing ne de ops s1) in
  exists f', In f' (match_all hash psl (vnet (cached_view s2)) (build_net hash rules) q2) /\ nr_text f' = nr_text f.
Proof.
  intros Hb Hp Hs Hops Hin M s1 s2.
  destruct (shortcuts_materialised hash psl backing ne de backing (fun _ _ E => E) (build_net hash rules) q1 s Hs) as [Hs1 Hc].
  fold s1 in Hs1, Hc. destruct (Hc _ Hin) as [Hcached [h Ht]]. cbn [fst snd] in Hcached, Ht.
  assert (Hlisted : In (f, idx) rules) by (eapply materialised_is_listed; eauto).
  assert (Hc2 : cached_view s2 idx = Some (RNet f)).
  { apply (cache_monotone backing ops s1 (fun _ _ E => E) Hs1 Hops). exact Hcached. }
  destruct (still_served rules (cached_view s2) q2 f idx Hc2) as (f' & Hf' & Ht' & _); auto.
  - eapply parsed_pdomains_ok; eauto.
  - now apply parsed_text_coherent.
  - now exists f'.
Qed.
End Consequences.
