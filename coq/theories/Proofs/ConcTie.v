From Coq Require Import List Arith NArith ZArith Bool.
From UF Require Import Base.Bytes Model.NetRule Model.Rule Model.Request Model.Match Model.Engines Model.Conc Model.ConcQuery
  Proofs.C01Proofs Proofs.ConcQueryProofs.
Import ListNotations.

Section Tie.
Variable hash : bytes -> N.
Variable psl : bytes -> bytes * bool.
Variable retr : Z -> option net_rule.
Variable cval : Type.
Variable cof : nat * nat -> cval.
(* storage index <-> (list, position): filterlist/storage.go storageIdxToRuleListIdx (injective: C11_pack_injective) *)
Variable dec : Z -> nat * nat.
Hypothesis dec_inj : forall a b, dec a = dec b -> a = b.
Variable content : nat -> nat -> option net_rule.
Hypothesis content_dec : forall idx, content (fst (dec idx)) (snd (dec idx)) = retr idx.
Variable e : net_engine.
Variable q : request.

Definition walk : list Z := flat_map (fun w => bucket (ne_shortcuts e) (hash w)) (windows (rq_url_lower q)).
Definition qmatches (f : net_rule) (_ : cval) : bool := rmatch psl f q.

Definition sc_inner (res : list (Z * net_rule)) (idx : Z) : list (Z * net_rule) :=
  match retr idx with
  | None => res
  | Some f => if existsb (fun x => Z.eqb (fst x) idx) res || negb (rmatch psl f q) then res else res ++ [(idx, f)]
  end.

Lemma walk_fold ws : forall res,
  fold_left (fun res w => fold_left sc_inner (bucket (ne_shortcuts e) (hash w)) res) ws res =
  fold_left sc_inner (flat_map (fun w => bucket (ne_shortcuts e) (hash w)) ws) res.
Proof.
  induction ws as [|w ws IH]; intro res; cbn [fold_left flat_map]; [reflexivity|]. rewrite fold_left_app. apply IH.
Qed.
Lemma match_shortcuts_walk : match_shortcuts hash psl retr e q = fold_left sc_inner walk [].
Proof. unfold match_shortcuts, walk. apply (walk_fold (windows (rq_url_lower q)) []). Qed.

Definition enc_acc (res : list (Z * net_rule)) : list ((nat * nat) * net_rule) := map (fun x => (dec (fst x), snd x)) res.

Lemma seen_dec res idx : existsb (idx_eqb (dec idx)) (map fst (enc_acc res)) = existsb (fun x => Z.eqb (fst x) idx) res.
Proof.
  induction res as [|[j f] res IH]; [reflexivity|]. unfold enc_acc in *. cbn [map existsb fst snd]. rewrite IH. f_equal.
  destruct (Z.eqb_spec j idx) as [->|Hne].
  - unfold idx_eqb. now rewrite !Nat.eqb_refl.
  - destruct (idx_eqb (dec idx) (dec j)) eqn:E; [|reflexivity].
    unfold idx_eqb in E. apply andb_true_iff in E as [E1 E2]. apply Nat.eqb_eq in E1, E2.
    exfalso. apply Hne. symmetry. apply dec_inj. destruct (dec idx), (dec j); cbn in *; congruence.
Qed.

Lemma table_spec_walk L : forall res,
  table_spec net_rule cval content cof qmatches (map dec L) (enc_acc res) = map snd (fold_left sc_inner L res).
Proof.
  induction L as [|idx L IH]; intro res; cbn [map fold_left ConcQuery.table_spec].
  - unfold enc_acc. rewrite map_map. reflexivity.
  - rewrite content_dec. unfold sc_inner at 2. destruct (retr idx) as [f|]; [|apply IH].
    rewrite seen_dec. destruct (existsb _ res); cbn [orb]; [apply IH|].
    unfold qmatches. destruct (rmatch psl f q); cbn [negb].
    + rewrite <- IH. unfold enc_acc. rewrite map_app. reflexivity.
    + apply IH.
Qed.

(* the reference answer of the concurrent table walk IS the shortcut-table lookup of the engine model (Engines.v),
   whose meaning C01 gives *)
Theorem table_spec_is_match_shortcuts :
  table_spec net_rule cval content cof qmatches (map dec walk) [] = map snd (match_shortcuts hash psl retr e q).
Proof. rewrite match_shortcuts_walk. apply (table_spec_walk walk []). Qed.
End Tie.

(* any number of goroutines look up the shortcut table of ONE engine, each for its own request, on a cold cache: whatever
   the interleaving, a completed lookup returned what the engine model's [match_shortcuts] returns for that request *)
Section ConcurrentShortcuts.
Variable hash : bytes -> N.
Variable psl : bytes -> bytes * bool.
Variable retr : Z -> option net_rule.
Variable cval : Type.
Variable cof : nat * nat -> cval.
Variable dec : Z -> nat * nat.
Hypothesis dec_inj : forall a b, dec a = dec b -> a = b.
Variable content : nat -> nat -> option net_rule.
Hypothesis content_dec : forall idx, content (fst (dec idx)) (snd (dec idx)) = retr idx.
Variable e : net_engine.
Variable idx_of : nat -> nat * nat.
Variable obj0 : nat * nat -> nat.
Hypothesis idx_obj0 : forall i, idx_of (obj0 i) = i.
Variable alloc : tid -> nat * nat -> nat.
Hypothesis alloc_tagged : forall t i, idx_of (alloc t i) = i.
Variable qs : tid -> request.                      (* each goroutine's request *)
Variable sched : list tid.

Theorem concurrent_match_shortcuts t a :
  let matches := fun t => qmatches psl cval (qs t) in
  let bucket_of := fun t => map dec (walk hash e (qs t)) in
  qresult net_rule cval (tq net_rule cval alloc matches bucket_of t)
    (hist (th (run elk elk_eq_dec (ecomp net_rule cval) (eout net_rule cval)
                 (init elk (ecomp net_rule cval) (eout net_rule cval) (cold net_rule cval)
                       (tq_progs net_rule cval content cof idx_of alloc matches bucket_of)) sched) t)) = Some a ->
  a = map snd (match_shortcuts hash psl retr e (qs t)).
Proof.
  intros matches bucket_of H.
  rewrite (all_table_queries net_rule cval content cof idx_of obj0 idx_obj0 alloc alloc_tagged matches bucket_of sched t a H).
  apply (table_spec_is_match_shortcuts hash psl retr cval cof dec dec_inj content content_dec e (qs t)).
Qed.
End ConcurrentShortcuts.
