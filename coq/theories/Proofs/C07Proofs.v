(* C07: rule priority is a strict weak order induced by a key; the selected rule is maximal. *)
From Coq Require Import List Arith NArith ZArith Bool Lia Permutation.
From UF Require Import Base.Lit Base.Bytes Model.Options Model.NetRule Model.Result.
Import ListNotations.

(* Specification: the documented criteria as a key, compared lexicographically.
   class: important exception 3 > important block 2 > exception 1 > block 0;
   then $redirect, then domain-specific over generic, then the number of modifiers. *)
Definition cls (r : net_rule) : nat :=
  match nr_whitelist r, is_opt_enabled r OptImportant with
  | true, true => 3 | false, true => 2 | true, false => 1 | false, false => 0
  end.
Definition key_hi (r : net_rule) : nat :=
  cls r * 4 + (if is_opt_enabled r OptRedirect then 2 else 0) + (if is_generic r then 0 else 1).
Definition key (r : net_rule) : nat * nat := (key_hi r, modifier_count r).
Definition lex_lt (a b : nat * nat) : Prop := fst a < fst b \/ (fst a = fst b /\ snd a < snd b).
Definition lex_ltb (a b : nat * nat) : bool := (fst a <? fst b) || ((fst a =? fst b) && (snd a <? snd b)).

Lemma lex_ltb_spec a b : lex_ltb a b = true <-> lex_lt a b.
Proof.
  unfold lex_ltb, lex_lt. rewrite orb_true_iff, andb_true_iff, !Nat.ltb_lt, Nat.eqb_eq. tauto.
Qed.

Lemma higher_is_key a b : is_higher_priority a b = lex_ltb (key b) (key a).
Proof.
  unfold is_higher_priority, lex_ltb, key, key_hi, cls, fst, snd.
  destruct (nr_whitelist a), (is_opt_enabled a OptImportant), (nr_whitelist b), (is_opt_enabled b OptImportant),
    (is_opt_enabled a OptRedirect), (is_opt_enabled b OptRedirect), (is_generic a), (is_generic b);
    cbn [andb negb orb Bool.eqb Nat.mul Nat.add Nat.ltb Nat.leb Nat.eqb]; try reflexivity.
Qed.

Theorem key_characterises a b : is_higher_priority a b = true <-> lex_lt (key b) (key a).
Proof. rewrite higher_is_key. apply lex_ltb_spec. Qed.

Lemma irreflexive a : is_higher_priority a a = false.
Proof. apply not_true_is_false. rewrite key_characterises. unfold lex_lt. lia. Qed.
Lemma asymmetric a b : is_higher_priority a b = true -> is_higher_priority b a = false.
Proof. intro H. apply not_true_is_false. rewrite key_characterises in *. unfold lex_lt in *. lia. Qed.
Lemma transitive a b c : is_higher_priority a b = true -> is_higher_priority b c = true ->
  is_higher_priority a c = true.
Proof. rewrite !key_characterises. unfold lex_lt. lia. Qed.
(* ties (incomparability) are transitive *)
Definition tie (a b : net_rule) : Prop := is_higher_priority a b = false /\ is_higher_priority b a = false.
Lemma tie_is_key_eq a b : tie a b <-> key a = key b.
Proof.
  unfold tie. split.
  - intros [H1 H2]. apply not_true_iff_false in H1, H2. rewrite key_characterises in H1, H2.
    unfold lex_lt in *. destruct (key a), (key b); cbn in *. f_equal; lia.
  - intro E. split; apply not_true_is_false; rewrite key_characterises, E; unfold lex_lt; lia.
Qed.
Lemma tie_transitive a b c : tie a b -> tie b c -> tie a c.
Proof. rewrite !tie_is_key_eq. congruence. Qed.

(* ---- selection: the scan "if cur == nil || rule.IsHigherPriority(cur) { cur = rule }" ---- *)
Definition select (l : list net_rule) : option net_rule := fold_left pick_higher l None.

Definition le_key (x w : net_rule) : Prop := is_higher_priority x w = false.

Lemma pick_higher_some cur r : exists w, pick_higher cur r = Some w.
Proof. destruct cur as [c|]; cbn; [destruct (is_higher_priority r c)|]; eauto. Qed.

Lemma fold_pick_inv l : forall cur w,
  fold_left pick_higher l cur = Some w ->
  (In w l \/ cur = Some w) /\
  (forall x, In x l -> le_key x w) /\
  (forall c, cur = Some c -> le_key c w).
Proof.
  induction l as [|r l IH]; intros cur w H; cbn [fold_left] in H.
  - subst. split; [now right|]. split; [intros x []|]. intros c Hc; inversion Hc; subst. apply irreflexive.
  - apply IH in H. destruct H as (Hin & Hall & Hcur).
    assert (Hr : le_key r w /\ forall c, cur = Some c -> le_key c w).
    { destruct cur as [c|]; cbn [pick_higher] in *.
      - destruct (is_higher_priority r c) eqn:E.
        + split; [now apply Hcur|]. intros c' Hc'; inversion Hc'; subst c'.
          specialize (Hcur r eq_refl). unfold le_key in *.
          apply not_true_is_false. intro Hc. rewrite key_characterises in *.
          apply not_true_iff_false in Hcur. rewrite key_characterises in Hcur. unfold lex_lt in *. lia.
        + specialize (Hcur c eq_refl). split; [|intros c' Hc'; inversion Hc'; subst; exact Hcur].
          unfold le_key in *. apply not_true_is_false. intro Hc.
          apply not_true_iff_false in E, Hcur. rewrite key_characterises in *. unfold lex_lt in *. lia.
      - split; [now apply Hcur | discriminate]. }
    destruct Hr as [Hr Hc]. split; [|split].
    + destruct Hin as [Hin|Hin]; [left; now right|].
      destruct cur as [c|]; cbn [pick_higher] in Hin.
      * destruct (is_higher_priority r c); inversion Hin; subst; [left; now left | now right].
      * inversion Hin; subst. left; now left.
    + intros x [->|Hx]; [exact Hr | now apply Hall].
    + exact Hc.
Qed.

Theorem select_maximal l w : select l = Some w ->
  In w l /\ forall x, In x l -> is_higher_priority x w = false.
Proof.
  intro H. apply fold_pick_inv in H. destruct H as ([Hin|Hc] & Hall & _); [|discriminate]. split; assumption.
Qed.

Lemma fold_pick_some l : forall c, exists w, fold_left pick_higher l (Some c) = Some w.
Proof.
  induction l as [|x l IH]; intros c; cbn [fold_left]; [eauto|].
  destruct (pick_higher_some (Some c) x) as [w Hw]. rewrite Hw. apply IH.
Qed.

(* the same, up to ties, for every ordering of the candidates *)
Theorem select_perm l l' w w' : Permutation l l' -> select l = Some w -> select l' = Some w' ->
  key w = key w'.
Proof.
  intros HP H H'. apply select_maximal in H, H'. destruct H as [Hin Hmax], H' as [Hin' Hmax'].
  apply tie_is_key_eq. split.
  - apply Hmax'. eapply Permutation_in; eauto.
  - apply Hmax. eapply Permutation_in; [apply Permutation_sym|]; eauto.
Qed.

(* ---- adding a modifier raises the priority ---- *)
(* list-valued modifiers: adding $dnstype / $ctag / $client / $denyallow to a rule without it *)
Lemma add_denyallow r d : nr_denyallow r = [] -> d <> [] ->
  is_higher_priority (set_denyallow r d) r = true.
Proof.
  intros Hn Hd. rewrite key_characterises. unfold lex_lt, key, key_hi, cls, modifier_count, is_generic, is_opt_enabled.
  cbn. rewrite Hn. destruct d; [congruence|]. cbn. right. split; lia.
Qed.
Lemma add_dnstype r p q : nr_pdns r = [] -> nr_rdns r = [] -> (p <> [] \/ q <> []) ->
  is_higher_priority (set_dnstypes r p q) r = true.
Proof.
  intros H1 H2 Hd. rewrite key_characterises. unfold lex_lt, key, key_hi, cls, modifier_count, is_generic, is_opt_enabled.
  cbn. rewrite H1, H2. right. split; [lia|]. destruct p, q; cbn; try lia. destruct Hd; congruence.
Qed.
Lemma add_ctag r p q : nr_ptags r = [] -> nr_rtags r = [] -> (p <> [] \/ q <> []) ->
  is_higher_priority (set_tags r p q) r = true.
Proof.
  intros H1 H2 Hd. rewrite key_characterises. unfold lex_lt, key, key_hi, cls, modifier_count, is_generic, is_opt_enabled.
  cbn. rewrite H1, H2. right. split; [lia|]. destruct p, q; cbn; try lia. destruct Hd; congruence.
Qed.
Lemma add_client r p q : clients_len (nr_pclients r) = 0 -> clients_len (nr_rclients r) = 0 ->
  (clients_len p <> 0 \/ clients_len q <> 0) ->
  is_higher_priority (set_clients r p q) r = true.
Proof.
  intros H1 H2 Hd. rewrite key_characterises. unfold lex_lt, key, key_hi, cls, modifier_count, is_generic, is_opt_enabled.
  cbn. rewrite H1, H2. right. split; [lia|]. cbn.
  destruct (clients_len p) eqn:Ep, (clients_len q) eqn:Eq; cbn; try lia.
Qed.
(* $domain: a generic rule becomes specific, or gets one more counted modifier *)
Lemma add_domain r p q : nr_pdomains r = [] -> nr_rdomains r = [] -> (p <> [] \/ q <> []) ->
  is_higher_priority (set_domains r p q) r = true.
Proof.
  intros H1 H2 Hd. rewrite key_characterises. unfold lex_lt, key, key_hi, cls, modifier_count, is_generic, is_opt_enabled.
  cbn. rewrite H1, H2. cbn. destruct p as [|x p]; cbn.
  - right. split; [lia|]. destruct q; cbn; try lia. destruct Hd; congruence.
  - left. lia.
Qed.

(* option and content-type bits: setting one more bit *)
Fixpoint pow2p (k : nat) : positive := match k with O => xH | S k' => xO (pow2p k') end.
Lemma popcount_pow2p k : popcount_pos (pow2p k) = 1.
Proof. induction k; cbn; auto. Qed.
Lemma popcount_lor_bit : forall k p, Pos.testbit_nat p k = false ->
  popcount_pos (Pos.lor p (pow2p k)) = S (popcount_pos p).
Proof.
  induction k as [|k IH]; intros p H.
  - destruct p; cbn in *; try discriminate. reflexivity.
  - destruct p as [p|p|]; cbn in *.
    + rewrite IH; auto.
    + rewrite IH; auto.
    + now rewrite popcount_pow2p.
Qed.
Lemma popcount_set_bit n k : N.testbit_nat n k = false ->
  popcount (N.lor n (Npos (pow2p k))) = S (popcount n).
Proof.
  destruct n as [|p]; cbn; intro H; [apply popcount_pow2p | now apply popcount_lor_bit].
Qed.

Lemma has_opt_lor_mono en o x : has_opt en x = true -> has_opt (N.lor en o) x = true.
Proof.
  unfold has_opt. rewrite !N.eqb_eq. intro H. apply N.bits_inj. intro n.
  apply (f_equal (fun y => N.testbit y n)) in H. rewrite N.land_spec in *. rewrite N.lor_spec.
  destruct (N.testbit en n), (N.testbit o n), (N.testbit x n); cbn in *; congruence.
Qed.

Lemma add_option r k : N.testbit_nat (nr_enabled r) k = false ->
  is_higher_priority (set_enabled r (N.lor (nr_enabled r) (Npos (pow2p k)))) r = true.
Proof.
  intro H. rewrite key_characterises.
  set (r' := set_enabled r _).
  assert (Hc : modifier_count r' = S (modifier_count r)).
  { unfold modifier_count, r'. cbn. rewrite popcount_set_bit by exact H. lia. }
  assert (Hk : key_hi r <= key_hi r').
  { unfold key_hi, cls, is_generic, is_opt_enabled, r'. cbn.
    pose proof (has_opt_lor_mono (nr_enabled r) (Npos (pow2p k)) OptImportant) as HI.
    pose proof (has_opt_lor_mono (nr_enabled r) (Npos (pow2p k)) OptRedirect) as HR.
    destruct (has_opt (nr_enabled r) OptImportant); [rewrite (HI eq_refl)|];
    (destruct (has_opt (nr_enabled r) OptRedirect); [rewrite (HR eq_refl)|]);
    destruct (nr_whitelist r), (isnil (nr_pdomains r));
    try destruct (has_opt (N.lor _ _) OptImportant); try destruct (has_opt (N.lor _ _) OptRedirect); cbn; lia. }
  unfold lex_lt, key. cbn [fst snd]. lia.
Qed.

(* content types: $script, ~image, ... *)
Lemma add_request_type r k : N.testbit_nat (nr_ptypes r) k = false ->
  is_higher_priority (set_types r (N.lor (nr_ptypes r) (Npos (pow2p k))) (nr_rtypes r)) r = true.
Proof.
  intro H. rewrite key_characterises. unfold lex_lt, key. cbn [fst snd]. right. split; [reflexivity|].
  unfold modifier_count. cbn. rewrite popcount_set_bit by exact H. lia.
Qed.
Lemma add_restricted_type r k : N.testbit_nat (nr_rtypes r) k = false ->
  is_higher_priority (set_types r (nr_ptypes r) (N.lor (nr_rtypes r) (Npos (pow2p k)))) r = true.
Proof.
  intro H. rewrite key_characterises. unfold lex_lt, key. cbn [fst snd]. right. split; [reflexivity|].
  unfold modifier_count. cbn. rewrite popcount_set_bit by exact H. lia.
Qed.

(* non-vacuity *)
Example ex_client_vs_denyallow :
  exists a b, new_network_rule $"||a.org^$client=1.2.3.4" 1%Z = Ok a /\
              new_network_rule $"||a.org^$denyallow=x.com" 1%Z = Ok b /\
              is_higher_priority a b = false /\ is_higher_priority b a = false /\
              is_higher_priority a a = false.
Proof. do 2 eexists. repeat split; vm_compute; reflexivity. Qed.
