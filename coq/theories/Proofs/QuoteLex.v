(* The \Q...\E extension of the lexer (regexp/syntax/parse.go, case 'Q'): the quoted text is a run of one-byte
   literals whatever it contains (operators, brackets, braces lose their meaning), the lexer is back in its normal
   state after \E, and an unterminated quotation extends to the end of the pattern. *)
From Coq Require Import List Arith NArith Bool.
From Coq Require Import Strings.Byte.
From UF Require Import Base.Lit Base.Bytes Model.Regex.
Import ListNotations.

Definition bsl : byte := "\"%byte.

Lemma beq_refl_true c : beq c c = true.
Proof. destruct c; reflexivity. Qed.

Lemma lex_quote_body s : forall out, (forall c, In c s -> beq c bsl = false) ->
  lex_from (LQuote, out) s = (LQuote, rev (map lit_tok s) ++ out).
Proof.
  induction s as [|c s IH]; intros out H; [reflexivity|].
  unfold lex_from in *. cbn [fold_left lex_step]. fold bsl. rewrite (H c (or_introl eq_refl)).
  rewrite IH by (intros x Hx; apply H; now right). cbn [map rev]. now rewrite <- app_assoc.
Qed.

Lemma lex_from_app st a b : lex_from st (a ++ b) = lex_from (lex_from st a) b.
Proof. apply fold_left_app. Qed.
Lemma lex_open_quote out : lex_from (LNormal, out) [bsl; "Q"%byte] = (LQuote, out).
Proof. reflexivity. Qed.
Lemma lex_close_quote out : lex_from (LQuote, out) [bsl; "E"%byte] = (LNormal, out).
Proof. reflexivity. Qed.

(* \Q s \E with no backslash in s *)
Theorem lex_quoted s out : (forall c, In c s -> beq c bsl = false) ->
  lex_from (LNormal, out) ([bsl; "Q"%byte] ++ s ++ [bsl; "E"%byte]) = (LNormal, rev (map lit_tok s) ++ out).
Proof.
  intro H. rewrite !lex_from_app, lex_open_quote, lex_quote_body by exact H. apply lex_close_quote.
Qed.

(* an unterminated quotation is literal to the end *)
Theorem lex_quoted_open s : (forall c, In c s -> beq c bsl = false) ->
  lex ([bsl; "Q"%byte] ++ s) = Ok (map lit_tok s).
Proof.
  intro H. unfold lex. rewrite lex_from_app, lex_open_quote, lex_quote_body by exact H.
  rewrite app_nil_r. unfold rev'. rewrite <- rev_alt. now rewrite rev_involutive.
Qed.

(* a repetition operator after \E applies to the last quoted byte alone *)
Example ex_quote_star :
  parse_re $"\Qab.\E*c" = Ok (RCat [RCls false [("a"%byte,"a"%byte)]; RCls false [("b"%byte,"b"%byte)];
                                    RStar (RCls false [("."%byte,"."%byte)]); RCls false [("c"%byte,"c"%byte)]]).
Proof. vm_compute. reflexivity. Qed.
