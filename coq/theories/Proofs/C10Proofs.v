(* C10: every successfully parsed $dnsrewrite value has the published shape. *)
From Coq Require Import List Arith NArith ZArith Bool Lia.
From Coq Require Import Strings.Byte.
From UF Require Import Base.Lit Base.Bytes Base.Codec Model.Options Model.Netip Model.DnsTables
  Model.DNSRewrite Model.NetRule.
Import ListNotations.
Local Open Scope N_scope.

(* The published contract (rules/dnsrewrite.go:21-48), as a boolean predicate. *)
Definition ends_with_dot (s : bytes) : bool :=
  match last_byte s with Some c => beq c "."%byte | None => false end.
Definition value_matches_type (rr : N) (v : rrvalue) : bool :=
  if N.eqb rr TypeA then match v with VAddr a => is4 a | _ => false end
  else if N.eqb rr TypeAAAA then match v with VAddr a => negb (is4 a) | _ => false end
  else if N.eqb rr TypeMX then match v with VMX _ _ => true | _ => false end
  else if N.eqb rr TypeSRV then match v with VSRV _ _ _ _ => true | _ => false end
  else if N.eqb rr TypeHTTPS || N.eqb rr TypeSVCB then match v with VSVCB _ _ _ => true | _ => false end
  else if N.eqb rr TypePTR then match v with VStr s => ends_with_dot s | _ => false end
  else if N.eqb rr TypeTXT then match v with VStr _ => true | _ => false end
  else match v with VNone => true | _ => false end.
Definition shapeb (d : dnsrewrite) : bool :=
  (isnil (dr_cname d) || (N.eqb (dr_rcode d) 0 && N.eqb (dr_rrtype d) 0
                          && match dr_value d with VNone => true | _ => false end))
  && (N.eqb (dr_rrtype d) 0 || N.eqb (dr_rcode d) RcodeSuccess)
  && value_matches_type (dr_rrtype d) (dr_value d).

Lemma last_byte_app_dot v : last_byte (v ++ $".") = Some "."%byte.
Proof. unfold last_byte. rewrite rev'_eq, rev_app_distr. reflexivity. Qed.

Lemma shape_rcode_only rc : shapeb (dr_rcode_only rc) = true.
Proof. reflexivity. Qed.
Lemma shape_cname_only h : shapeb (dr_cname_only h) = true.
Proof. unfold shapeb. cbn. now rewrite orb_true_r. Qed.

Lemma short_shape s d : load_dnsrewrite_short s = Ok d -> shapeb d = true.
Proof.
  unfold load_dnsrewrite_short.
  destruct (isnil s); [intro H; inversion H; reflexivity|].
  destruct (all_upper_ascii s).
  { destruct (_ || _); [|discriminate].
    destruct (string_to_rcode s); [|discriminate]. intro H; inversion H. apply shape_rcode_only. }
  destruct (is_probably_ip s).
  - destruct (parse_addr s) as [a| | |].
    + intro H; inversion H. unfold shapeb, dr_mk; cbn. destruct (is4 a) eqn:E; cbn; now rewrite ?E.
    + destruct (validate_host s); [|discriminate]. intro H; inversion H. apply shape_cname_only.
    + destruct (validate_host s); [|discriminate]. intro H; inversion H. apply shape_cname_only.
    + discriminate.
  - destruct (validate_host s); [|discriminate]. intro H; inversion H. apply shape_cname_only.
Qed.

(* every handler builds a shaped record when called with rcode = success *)
Lemma handler_shape rr v r d : rr_handler RcodeSuccess rr v = Some r -> r = Ok d -> shapeb d = true.
Proof.
  unfold rr_handler.
  destruct (N.eqb rr TypeA) eqn:EA.
  { apply N.eqb_eq in EA; subst rr. intros H; inversion H; clear H; subst r.
    destruct (is_probably_ip v); [|discriminate]. cbn [negb].
    destruct (parse_addr v) as [a| | |]; try discriminate.
    destruct (is4 a) eqn:E; [|discriminate]. intro H; inversion H. unfold shapeb; cbn. now rewrite E. }
  destruct (N.eqb rr TypeAAAA) eqn:EAAAA.
  { apply N.eqb_eq in EAAAA; subst rr. intros H; inversion H; clear H; subst r.
    destruct (is_probably_ip v); [|discriminate]. cbn [negb].
    destruct (parse_addr v) as [a| | |]; try discriminate.
    destruct (is4 a) eqn:E; [discriminate|]. intro H; inversion H. unfold shapeb; cbn. now rewrite E. }
  destruct (N.eqb rr TypeCNAME) eqn:EC.
  { intros H; inversion H; clear H; subst r. destruct (validate_host v); [|discriminate].
    intro H; inversion H. apply shape_cname_only. }
  destruct (N.eqb rr TypeMX) eqn:EMX.
  { apply N.eqb_eq in EMX; subst rr. intros H; inversion H; clear H; subst r.
    destruct (splitn_byte _ _ v) as [|p [|exch [|? ?]]]; try discriminate.
    destruct (parse_uint16 p); [|discriminate]. destruct (validate_host exch); [|discriminate].
    intro H; inversion H. reflexivity. }
  destruct (N.eqb rr TypePTR) eqn:EP.
  { apply N.eqb_eq in EP; subst rr. intros H; inversion H; clear H; subst r.
    destruct (last_byte v) as [c|] eqn:EL.
    - destruct (beq c "."%byte) eqn:Ec.
      + destruct (validate_host _); [|discriminate]. intro H; inversion H.
        unfold shapeb; cbn. unfold ends_with_dot. now rewrite EL, Ec.
      + destruct (validate_host _); [|discriminate]. intro H; inversion H.
        unfold shapeb; cbn. unfold ends_with_dot. now rewrite last_byte_app_dot.
    - destruct (validate_host _); [|discriminate]. intro H; inversion H.
      unfold shapeb; cbn. unfold ends_with_dot. now rewrite last_byte_app_dot. }
  destruct (N.eqb rr TypeTXT) eqn:ET.
  { apply N.eqb_eq in ET; subst rr. intros H; inversion H; clear H; subst r.
    intro H; inversion H. reflexivity. }
  destruct (N.eqb rr TypeHTTPS || N.eqb rr TypeSVCB) eqn:ES.
  { intros H; inversion H; clear H; subst r.
    destruct (split_byte _ v) as [|p [|target rest]]; try discriminate.
    destruct (parse_uint16 p); [|discriminate]. destruct (target_ok target); [|discriminate]. cbn [negb].
    match goal with |- context [match ?g with Some _ => _ | None => _ end] => destruct g end; [|discriminate].
    intro H; inversion H. unfold shapeb, dr_mk; cbn [dr_cname dr_rcode dr_rrtype dr_value isnil orb andb].
    unfold value_matches_type. rewrite EA, EAAAA, EMX. 
    destruct (N.eqb rr TypeSRV) eqn:ESRV.
    { apply N.eqb_eq in ESRV; subst rr. discriminate. }
    rewrite ES. now rewrite orb_true_r. }
  destruct (N.eqb rr TypeSRV) eqn:ESRV.
  { apply N.eqb_eq in ESRV; subst rr. intros H; inversion H; clear H; subst r.
    destruct (split_byte _ v) as [|p [|w [|o [|target rest]]]]; try discriminate.
    destruct (parse_uint16 p); [|discriminate]. destruct (parse_uint16 w); [|discriminate].
    destruct (parse_uint16 o); [|discriminate]. destruct (target_ok target); [|discriminate].
    intro H; inversion H. reflexivity. }
  discriminate.
Qed.

Lemma no_handler_shape rr v : rr_handler RcodeSuccess rr v = None ->
  shapeb (dr_mk RcodeSuccess rr VNone) = true.
Proof.
  unfold rr_handler, shapeb, value_matches_type. cbn [dr_mk dr_cname dr_rcode dr_rrtype dr_value isnil orb].
  destruct (N.eqb rr TypeA); [discriminate|]. destruct (N.eqb rr TypeAAAA); [discriminate|].
  destruct (N.eqb rr TypeCNAME); [discriminate|]. destruct (N.eqb rr TypeMX); [discriminate|].
  destruct (N.eqb rr TypePTR); [discriminate|]. destruct (N.eqb rr TypeTXT); [discriminate|].
  destruct (N.eqb rr TypeHTTPS || N.eqb rr TypeSVCB); [discriminate|].
  destruct (N.eqb rr TypeSRV); [discriminate|]. intros _. now rewrite orb_true_r.
Qed.

Lemma normal_shape a b c d : load_dnsrewrite_normal a b c = Ok d -> shapeb d = true.
Proof.
  unfold load_dnsrewrite_normal.
  destruct (string_to_rcode (to_upper a)) as [rcode|]; [|discriminate].
  destruct (negb (N.eqb rcode RcodeSuccess) || _) eqn:E.
  { intro H; inversion H. apply shape_rcode_only. }
  apply orb_false_iff in E as [E _]. apply negb_false_iff, N.eqb_eq in E. subst rcode.
  destruct (str_to_rrtype b) as [rr|]; [|discriminate].
  destruct (rr_handler RcodeSuccess rr c) as [r|] eqn:EH.
  - intro H. eapply handler_shape; eauto.
  - intro H; inversion H. eapply no_handler_shape; eauto.
Qed.

Theorem load_dnsrewrite_shape v d : load_dnsrewrite v = Ok d -> shapeb d = true.
Proof.
  unfold load_dnsrewrite.
  destruct (splitn_byte _ 3 v) as [|a [|b [|c [|? ?]]]]; try discriminate.
  - apply short_shape.
  - apply normal_shape.
Qed.

(* the parser never panics (the model has no Crash path here) *)
Theorem load_dnsrewrite_no_crash v : load_dnsrewrite v <> Crash.
Proof.
  unfold load_dnsrewrite.
  destruct (splitn_byte _ 3 v) as [|a [|b [|c [|? ?]]]]; try discriminate.
  - unfold load_dnsrewrite_short.
    destruct (isnil v); [discriminate|]. destruct (all_upper_ascii v).
    { destruct (_ || _); [|discriminate]. destruct (string_to_rcode v); discriminate. }
    destruct (is_probably_ip v); [destruct (parse_addr v)|]; try discriminate;
      destruct (validate_host v); discriminate.
  - unfold load_dnsrewrite_normal.
    destruct (string_to_rcode _); [|discriminate]. destruct (_ || _); [discriminate|].
    destruct (str_to_rrtype b) as [rr|]; [|discriminate].
    destruct (rr_handler n rr c) as [r|] eqn:EH; [|discriminate].
    unfold rr_handler in EH.
    repeat match type of EH with
           | (if ?x then _ else _) = _ => destruct x
           end; inversion EH; subst r; clear EH.
    + destruct (negb _); [discriminate|]. destruct (parse_addr c) as [a0| | |]; try discriminate. destruct (is4 a0); discriminate.
    + destruct (negb _); [discriminate|]. destruct (parse_addr c) as [a0| | |]; try discriminate. destruct (negb (is4 a0)); discriminate.
    + destruct (validate_host c); discriminate.
    + destruct (splitn_byte _ _ c) as [|p [|exch [|? ?]]]; try discriminate.
      destruct (parse_uint16 p); [|discriminate]. destruct (validate_host exch); discriminate.
    + destruct (last_byte c) as [x|]; [destruct (beq x _)|]; destruct (validate_host _); discriminate.
    + discriminate.
    + destruct (split_byte _ c) as [|p [|target rest]]; try discriminate.
      destruct (parse_uint16 p); [|discriminate]. destruct (negb _); [discriminate|].
      match goal with |- context [match ?g with Some _ => _ | None => _ end] => destruct g end; discriminate.
    + destruct (split_byte _ c) as [|p [|w [|o [|target rest]]]]; try discriminate.
      destruct (parse_uint16 p); [|discriminate]. destruct (parse_uint16 w); [|discriminate].
      destruct (parse_uint16 o); [|discriminate]. destruct (target_ok target); discriminate.
Qed.

(* ---- through NewNetworkRule: the rewrite of an accepted rule is shaped ---- *)
Definition rw_ok (r : net_rule) : Prop :=
  match nr_dnsrewrite r with Some d => shapeb d = true | None => True end.

Lemma set_option_enabled_rw r o e r' : set_option_enabled r o e = Ok r' -> nr_dnsrewrite r' = nr_dnsrewrite r.
Proof.
  unfold set_option_enabled. destruct (_ && _); [discriminate|]. destruct (_ && _); [discriminate|].
  destruct e; intro H; inversion H; reflexivity.
Qed.
Lemma set_option_ignore_rw r o : nr_dnsrewrite (set_option_ignore r o) = nr_dnsrewrite r.
Proof.
  unfold set_option_ignore. destruct (set_option_enabled r o true) eqn:E; try reflexivity.
  now apply set_option_enabled_rw in E.
Qed.

Lemma load_option_rw r name value r' : rw_ok r -> load_option r name value = Ok r' -> rw_ok r'.
Proof.
  intros Hr. unfold load_option.
  destruct (assoc_bytes name simple_options) as [[o en]|].
  { intro H. apply set_option_enabled_rw in H. unfold rw_ok. now rewrite H. }
  destruct (bytes_eqb name $"dnstype").
  { destruct (load_dnstypes value) as [[p q]|]; [|discriminate]. intro H; inversion H. exact Hr. }
  destruct (bytes_eqb name $"dnsrewrite").
  { destruct (load_dnsrewrite value) as [d| | |] eqn:E; try discriminate.
    cbn [rbind]. intro H; inversion H. unfold rw_ok; cbn. eapply load_dnsrewrite_shape; eauto. }
  destruct (bytes_eqb name $"domain").
  { destruct (load_domains value _) as [[p q]|]; [|discriminate]. intro H; inversion H. exact Hr. }
  destruct (bytes_eqb name $"denyallow").
  { destruct (load_domains value _) as [[p q]|]; [|discriminate].
    destruct (_ || _); [discriminate|]. intro H; inversion H. exact Hr. }
  destruct (bytes_eqb name $"ctag").
  { destruct (load_ctags value) as [[p q]|]; [|discriminate]. intro H; inversion H. exact Hr. }
  destruct (bytes_eqb name $"client").
  { destruct (load_clients value) as [pq| | |]; try discriminate. cbn [rbind]. intro H; inversion H. exact Hr. }
  destruct (bytes_eqb name $"~extension").
  { intro H; inversion H. exact Hr. }
  destruct (bytes_eqb name $"document").
  { destruct (set_option_enabled r OptElemhide true) as [r1| | |] eqn:E; try discriminate.
    intro H; inversion H. unfold rw_ok. rewrite !set_option_ignore_rw.
    apply set_option_enabled_rw in E. now rewrite E. }
  destruct (strip_tilde name) as [neg base].
  destruct (assoc_bytes base request_type_names); [|discriminate].
  destruct neg; intro H; inversion H; exact Hr.
Qed.

Lemma load_option_list_rw l : forall r r', rw_ok r -> load_option_list r l = Ok r' -> rw_ok r'.
Proof.
  induction l as [|o l IH]; intros r r' Hr; cbn [load_option_list].
  - intro H; inversion H; subst; exact Hr.
  - match goal with |- rbind ?s _ = _ -> _ => destruct s as [r1| | |] eqn:E end; try discriminate.
    cbn [rbind]. intro H. eapply IH; [|exact H].
    destruct (index_byte _ o) as [[|i]|]; eapply load_option_rw; eauto.
Qed.

Theorem new_network_rule_shape text id r d :
  new_network_rule text id = Ok r -> nr_dnsrewrite r = Some d -> shapeb d = true.
Proof.
  unfold new_network_rule. destruct (_ || _); [discriminate|].
  destruct (parse_rule_text text) as [[[pattern options] wl]| | |]; try discriminate. cbn [rbind].
  destruct (load_options _ options) as [r0| | |] eqn:E; try discriminate. cbn [rbind].
  assert (H0 : rw_ok r0).
  { unfold load_options in E. destruct (isnil options).
    - inversion E. exact I.
    - destruct (load_option_list _ _) as [r1| | |] eqn:E1; try discriminate. cbn [rbind] in E.
      assert (rw_ok r1) by (eapply load_option_list_rw; [|exact E1]; exact I).
      destruct (existsb _ _); inversion E; subst; unfold rw_ok in *; cbn; assumption. }
  destruct (_ && _); [discriminate|]. intro H; inversion H; subst r. cbn. intro Hd.
  unfold rw_ok in H0. now rewrite Hd in H0.
Qed.

(* non-vacuity: concrete accepted values of several shapes *)
Example ex_mx : exists d, load_dnsrewrite $"NOERROR;MX;10 mail.example.org" = Ok d /\ dr_rrtype d = TypeMX.
Proof. eexists; split; reflexivity. Qed.
Example ex_ptr : exists d, load_dnsrewrite $"NOERROR;PTR;host.example.org" = Ok d
                           /\ dr_value d = VStr $"host.example.org.".
Proof. eexists; split; reflexivity. Qed.
Example ex_rule : exists r d, new_network_rule $"||h^$dnsrewrite=1.2.3.4" 1%Z = Ok r /\ nr_dnsrewrite r = Some d
                              /\ dr_rrtype d = TypeA.
Proof. do 2 eexists; repeat split; reflexivity. Qed.
