(* Closing the loop between the storage (C11) and the engines (C01, C02): the retrieval functions the engine
   theorems assume are the storage's own, and the rules the engines are built from are the scanner's. *)
From Coq Require Import List Arith NArith ZArith Bool Lia.
From Coq Require Import Strings.Byte.
From UF Require Import Base.Lit Base.Bytes Model.Netip Model.NetRule Model.Rule Model.Request Model.Match Model.Result
  Model.Storage Model.Engines Proofs.EqLemmas Proofs.C11Proofs Proofs.C12Proofs Proofs.C01Proofs Proofs.C02Proofs.
Import ListNotations.

(* the domain of the storage index: distinct 32-bit list ids, lists shorter than 2 GiB *)
Definition storage_ok (s : storage) : Prop :=
  NoDup (map rl_id s) /\ forall l, In l s -> int32_range (rl_id l) /\ (Z.of_nat (length (rl_content l)) < two31)%Z.

Lemma find_list_in s l : NoDup (map rl_id s) -> In l s -> find_list s (rl_id l) = Some l.
Proof.
  induction s as [|l0 s IH]; [intros _ []|]. cbn [map find_list]. intros Hnd [->|Hin].
  - now rewrite Z.eqb_refl.
  - inversion Hnd as [|x xs Hx Hnd']; subst. destruct (Z.eqb_spec (rl_id l0) (rl_id l)) as [E|_].
    + exfalso. apply Hx. rewrite E. now apply in_map.
    + now apply IH.
Qed.

Lemma storage_scan_in s : forall out r idx, storage_scan s = Ok out -> In (r, idx) out ->
  exists l o here, In l s /\ scan_list l = Ok here /\ In (r, o) here /\ idx = pack (rl_id l) (Z.of_nat o).
Proof.
  induction s as [|l s IH]; intros out r idx; cbn [storage_scan].
  - intro H; inversion H; subst. intros [].
  - destruct (scan_list l) as [here| | |] eqn:Eh; cbn [rbind]; try discriminate.
    destruct (storage_scan s) as [rest| | |] eqn:Er; cbn [rbind]; try discriminate.
    intro H; inversion H; subst; clear H. intro Hin. apply in_app_or in Hin as [Hin|Hin].
    + apply in_map_iff in Hin as ([r0 o] & E & Hin). inversion E; subst. exists l, o, here. repeat split; auto. now left.
    + destruct (IH rest r idx eq_refl Hin) as (l' & o & here' & H1 & H2 & H3 & H4).
      exists l', o, here'. repeat split; auto. now right.
Qed.

(* C11 at the level of the storage: every scanned rule is retrieved again through its storage index *)
Theorem storage_retrieve_scanned s out r idx : storage_ok s -> storage_scan s = Ok out -> In (r, idx) out ->
  storage_retrieve s idx = Ok (Some r).
Proof.
  intros [Hnd Hdom] Hs Hin. destruct (storage_scan_in s out r idx Hs Hin) as (l & o & here & Hl & Hh & Ho & ->).
  destruct (Hdom l Hl) as [Hid Hlen].
  destruct (scanned_retrievable l here r o Hh Ho) as [Hr _].
  assert (Hlt : (Z.of_nat o < Z.of_nat (length (rl_content l)))%Z).
  { unfold retrieve_string in Hr. destruct (Z.leb_spec (Z.of_nat (length (rl_content l))) (Z.of_nat o)) as [H|H]; [|exact H].
    rewrite orb_true_r in Hr. discriminate. }
  unfold storage_retrieve. destruct (pack_unpack (rl_id l) (Z.of_nat o) Hid) as [Hu _]; [lia|].
  rewrite Hu, (find_list_in s l Hnd Hl). exact Hr.
Qed.
(* hence the index identifies the rule *)
Corollary storage_index_injective s out r1 r2 idx : storage_ok s -> storage_scan s = Ok out ->
  In (r1, idx) out -> In (r2, idx) out -> r1 = r2.
Proof.
  intros Hok Hs H1 H2. pose proof (storage_retrieve_scanned s out r1 idx Hok Hs H1) as E1.
  pose proof (storage_retrieve_scanned s out r2 idx Hok Hs H2) as E2. congruence.
Qed.

(* what the scanner yields as a network rule is the parser's output for its own text and list id *)
Lemma new_rule_net line id f : new_rule line id = Ok (Some (RNet f)) -> new_network_rule (nr_text f) (nr_list f) = Ok f.
Proof.
  unfold new_rule. destruct (go_trim_space line) as [l| | |]; cbn [rbind]; try discriminate.
  destruct (isnil l || is_comment l); [discriminate|].
  destruct (is_cosmetic l).
  { destruct (new_cosmetic_rule l id); cbn [rbind]; discriminate. }
  destruct (new_host_rule l id); try discriminate.
  destruct (new_network_rule l id) as [r| | |] eqn:E; cbn [rbind]; try discriminate.
  intro H; inversion H; subst. destruct (new_network_rule_text _ _ _ E) as [-> ->]. exact E.
Qed.
Theorem scanned_parsed s out f idx : storage_scan s = Ok out -> In (RNet f, idx) out ->
  new_network_rule (nr_text f) (nr_list f) = Ok f.
Proof.
  intros Hs Hin. destruct (storage_scan_in s out _ idx Hs Hin) as (l & o & here & _ & Hh & Ho & _).
  unfold scan_list in Hh. destruct (yielded_in l _ here _ o Hh Ho) as [H _].
  unfold scan_lines in H. apply in_map_iff in H as ([o' line] & E & _). cbn [fst snd] in E. injection E as E1 E2.
  now apply (new_rule_net line (rl_id l)).
Qed.

(* the retrieval functions of the engines, as the code has them *)
Definition retr_net_of (s : storage) (idx : Z) : option net_rule :=
  match storage_retrieve s idx with Ok (Some (RNet f)) => Some f | _ => None end.
Definition retr_host_of (s : storage) (idx : Z) : option host_rule :=
  match storage_retrieve s idx with Ok (Some (RHost h)) => Some h | _ => None end.
Definition net_rules_of (l : list (rule * Z)) : list (net_rule * Z) :=
  flat_map (fun ri => match fst ri with RNet f => [(f, snd ri)] | _ => [] end) l.
Lemma net_rules_of_in l f idx : In (f, idx) (net_rules_of l) <-> In (RNet f, idx) l.
Proof.
  unfold net_rules_of. rewrite in_flat_map. split.
  - intros ([r i] & Hin & H). cbn [fst snd] in H. destruct r as [g|h|c]; [|destruct H|destruct H]. destruct H as [H|[]]. inversion H; subst. exact Hin.
  - intro H. exists (RNet f, idx). split; [exact H | now left].
Qed.

(* ---- C01, end to end: storage -> scanner -> engine -> lookup, no assumption left but the index domain ---- *)
Theorem network_engine_end_to_end hash psl s scanned q t :
  storage_ok s -> storage_scan s = Ok scanned ->
  let rules := net_rules_of scanned in
  (In t (map nr_text (match_all hash psl (retr_net_of s) (build_net hash rules) q)) <->
   exists f, In f (map fst rules) /\ rmatch psl f q = true /\ nr_text f = t).
Proof.
  intros Hok Hs rules. apply engine_equals_scan.
  - intros f idx H. apply net_rules_of_in in H. now apply (scanned_parsed s scanned f idx).
  - intros f idx H. apply net_rules_of_in in H. unfold retr_net_of. now rewrite (storage_retrieve_scanned s scanned _ idx Hok Hs H).
Qed.

(* ---- C02, end to end ---- *)
Theorem dns_storage_intact s scanned : storage_ok s -> storage_scan s = Ok scanned ->
  storage_intact (retr_net_of s) (retr_host_of s) scanned.
Proof.
  intros Hok Hs. split; [|split].
  - intros f idx H. unfold retr_net_of. now rewrite (storage_retrieve_scanned s scanned _ idx Hok Hs H).
  - intros h idx H. unfold retr_host_of. now rewrite (storage_retrieve_scanned s scanned _ idx Hok Hs H).
  - intros f idx H. now apply (scanned_parsed s scanned f idx).
Qed.

(* ---- the web verdict, end to end: storage -> engine -> lookup -> NewMatchingResult -> GetBasicResult ---- *)
From UF Require Import Model.Options Proofs.C06Proofs Proofs.C06Set.

Lemma nodup_map_inj {A B} (g : A -> B) l a b : NoDup (map g l) -> In a l -> In b l -> g a = g b -> a = b.
Proof.
  induction l as [|x l IH]; [intros _ []|]. cbn [map]. intro Hnd. inversion Hnd as [|y ys Hy Hnd']; subst.
  intros [->|Ha] [->|Hb] E; auto.
  - exfalso. apply Hy. rewrite E. now apply in_map.
  - exfalso. apply Hy. rewrite <- E. now apply in_map.
Qed.

(* with an intact storage, parsed rules and no rule text occurring twice, MatchAll reports exactly the matching
   rules (as a set of rule objects, not only of texts) *)
Lemma match_all_same_set hash psl retr rules q :
  parsed rules -> (forall f idx, In (f, idx) rules -> retr idx = Some f) ->
  NoDup (map (fun ri => nr_text (fst ri)) rules) ->
  same_set (match_all hash psl retr (build_net hash rules) q) (filter (fun f => rmatch psl f q) (map fst rules)).
Proof.
  intros P HR Hnd f. rewrite filter_In.
  assert (RS : retr_sound retr rules).
  { intros idx g H [g0 H0]. rewrite (HR _ _ H0) in H. inversion H; subst. exact H0. }
  split.
  - intro H. destruct (match_all_sound hash psl retr rules q f RS H) as [M Hin]. auto.
  - intros [Hin M]. apply in_map_iff in Hin as ([f0 idx] & E & Hin). cbn [fst] in E. subst f0.
    destruct (match_all_complete hash psl retr rules q f idx HR (parsed_pdomains_ok rules f idx P Hin)
                (parsed_text_coherent psl rules q P) Hin M) as (f' & Hf' & Ht & _).
    destruct (match_all_sound hash psl retr rules q f' RS Hf') as [_ Hin'].
    apply in_map_iff in Hin' as ([f1 idx'] & E & Hin'). cbn [fst] in E. subst f1.
    assert (Epair : (f', idx') = (f, idx)) by (apply (nodup_map_inj (fun ri => nr_text (fst ri)) rules); auto).
    inversion Epair; subst. exact Hf'.
Qed.

(* Engine.MatchRequest + GetBasicResult = the order-free verdict over the rules of the lists that match the
   request, and over those that match the referrer as a document request *)
Theorem web_verdict_end_to_end hash psl s scanned q :
  storage_ok s -> storage_scan s = Ok scanned ->
  let rules := net_rules_of scanned in
  NoDup (map (fun ri => nr_text (fst ri)) rules) ->
  verdict_of (get_basic_result (engine_match_request hash psl (retr_net_of s) (build_net hash rules) q)) =
  spec_web_verdict (filter (fun f => rmatch psl f q) (map fst rules))
                   (if isnil (rq_source_url q) then []
                    else filter (fun f => rmatch psl f (new_request psl (rq_source_url q) [] TypeDocument)) (map fst rules)).
Proof.
  intros Hok Hs rules Hnd. unfold engine_match_request. rewrite web_verdict.
  assert (P : parsed rules) by (intros f idx H; apply net_rules_of_in in H; now apply (scanned_parsed s scanned f idx)).
  assert (HR : forall f idx, In (f, idx) rules -> retr_net_of s idx = Some f).
  { intros f idx H. apply net_rules_of_in in H. unfold retr_net_of. now rewrite (storage_retrieve_scanned s scanned _ idx Hok Hs H). }
  apply web_verdict_same_set.
  - now apply match_all_same_set.
  - destruct (isnil (rq_source_url q)); [intro x; tauto | now apply match_all_same_set].
Qed.

(* ---- the DNS verdict, end to end ---- *)
Theorem dns_verdict_end_to_end hash psl s scanned hostname q :
  storage_ok s -> storage_scan s = Ok scanned -> hostname <> [] ->
  NoDup (map (fun ri => nr_text (fst ri)) (hl_of scanned)) ->
  let res := fst (dns_match hash psl (retr_net_of s) (retr_host_of s) (build_dns hash scanned) hostname q) in
  verdict_of (dr_network_rule res) =
  spec_dns_verdict (filter (fun f => rmatch psl f q) (map fst (hl_of scanned))).
Proof.
  intros Hok Hs Hne Hnd res. unfold res. rewrite dns_basic_rule by exact Hne. rewrite dns_verdict.
  apply dns_verdict_same_set.
  assert (Hnrs : dr_network_rules (fst (dns_match hash psl (retr_net_of s) (retr_host_of s) (build_dns hash scanned) hostname q))
                 = match_all hash psl (retr_net_of s) (build_net hash (hl_of scanned)) q).
  { unfold dns_match. destruct hostname; [congruence|]. cbn [isnil].
    destruct (build_dns_tables hash scanned) as [_ Hn]. rewrite Hn.
    destruct (get_dns_basic_rule _); [reflexivity|]. destruct (isnil _); reflexivity. }
  rewrite Hnrs. apply match_all_same_set.
  - intros f idx H. apply hl_of_in in H as [H _]. now apply (scanned_parsed s scanned f idx).
  - intros f idx H. apply hl_of_in in H as [H _]. unfold retr_net_of. now rewrite (storage_retrieve_scanned s scanned _ idx Hok Hs H).
  - exact Hnd.
Qed.
