(* String facts shared by the engine proofs (C01, C02, C15, C19): prefixes, suffixes, substring search,
   the 5-byte windows of the shortcut table, dot-suffixes of host names. *)
From Coq Require Import List Arith NArith ZArith Bool Lia.
From Coq Require Import Strings.Byte.
From UF Require Import Base.Lit Base.Bytes Proofs.EqLemmas.
Import ListNotations.

Lemma has_prefix_iff p s : has_prefix p s = true <-> exists t, s = p ++ t.
Proof.
  revert s. induction p as [|a p IH]; intro s; cbn.
  - split; [intros _; now exists s | reflexivity].
  - destruct s as [|b s].
    + split; [discriminate | intros [t H]; discriminate].
    + rewrite andb_true_iff, beq_eq, IH. split.
      * intros [-> [t ->]]. now exists t.
      * intros [t H]. inversion H. split; [reflexivity | now exists t].
Qed.

Lemma has_suffix_iff p s : has_suffix p s = true <-> exists x, s = x ++ p.
Proof.
  unfold has_suffix. rewrite andb_true_iff, Nat.leb_le, bytes_eqb_eq. split.
  - intros [Hl He]. exists (firstn (length s - length p) s).
    rewrite <- (firstn_skipn (length s - length p) s) at 1. now rewrite <- He.
  - intros [x ->]. rewrite app_length. split; [lia|].
    replace (length x + length p - length p) with (length x) by lia.
    clear. induction x; cbn; auto.
Qed.

Lemma contains_iff sub s : contains sub s = true <-> exists a b, s = a ++ sub ++ b.
Proof.
  induction s as [|c s IH]; cbn [contains]; rewrite orb_true_iff, has_prefix_iff.
  - split.
    + intros [[t H]|H]; [|discriminate]. exists [], t. exact H.
    + intros (a & b & H). left. destruct a; [|discriminate]. cbn in H. now exists b.
  - rewrite IH. split.
    + intros [[t H]|(a & b & ->)]; [exists [], t; exact H | exists (c :: a), b; reflexivity].
    + intros (a & b & H). destruct a as [|x a]; [left; now exists b|].
      right. inversion H. now exists a, b.
Qed.

(* ---- windows of a fixed length ---- *)
Section Windows.
Variable n : nat.
Fixpoint windows_n (s : bytes) : list bytes :=
  match s with
  | [] => []
  | _ :: s' => if (n <=? length s)%nat then firstn n s :: windows_n s' else []
  end.

Lemma windows_n_iff (Hn : 0 < n) s w :
  In w (windows_n s) <-> length w = n /\ exists a b, s = a ++ w ++ b.
Proof.
  induction s as [|c s IH]; cbn [windows_n].
  - split; [intros []|]. intros [Hl (a & b & H)]. destruct a; [destruct w; [cbn in Hl; lia | discriminate] | discriminate].
  - destruct (Nat.leb_spec n (length (c :: s))) as [Hle|Hgt].
    + cbn [In]. rewrite IH. split.
      * intros [<-|[Hl (a & b & ->)]].
        -- split; [now apply firstn_length_le|]. exists [], (skipn n (c :: s)). cbn [app]. now rewrite firstn_skipn.
        -- split; [exact Hl|]. now exists (c :: a), b.
      * intros [Hl (a & b & H)]. destruct a as [|x a].
        -- left. cbn [app] in H. rewrite H, <- Hl. clear. induction w; cbn; [now destruct b | now f_equal].
        -- right. inversion H. split; [exact Hl | now exists a, b].
    + split; [intros []|]. intros [Hl (a & b & H)]. apply (f_equal (@length _)) in H.
      rewrite !app_length in H. lia.
Qed.

(* every window of a substring is a window of the string *)
Lemma windows_n_sub (Hn : 0 < n) sub s w : contains sub s = true -> In w (windows_n sub) -> In w (windows_n s).
Proof.
  rewrite contains_iff, !windows_n_iff by exact Hn. intros (a & b & ->) [Hl (a' & b' & ->)].
  split; [exact Hl|]. exists (a ++ a'), (b' ++ b). now rewrite <- !app_assoc.
Qed.
End Windows.

(* ---- bytes before the first occurrence ---- *)
Lemma index_byte_none (c : byte) (s : bytes) : index_byte c s = None <-> ~ In c s.
Proof.
  induction s as [|x s IH]; cbn; [tauto|].
  destruct (beq x c) eqn:E.
  - apply beq_eq in E. subst. split; [discriminate | intro H; exfalso; apply H; now left].
  - apply beq_neq in E. destruct (index_byte c s); cbn.
    + split; [discriminate|]. intro H. exfalso. apply H. right.
      destruct IH as [_ IH2]. destruct (in_dec Byte.byte_eq_dec c s) as [i|ni]; [exact i|]. now specialize (IH2 ni).
    + split; [|reflexivity]. intros _ [->|Hin]; [congruence|]. now apply IH.
Qed.

Lemma index_byte_app (c : byte) (x rest : bytes) : ~ In c x -> index_byte c (x ++ c :: rest) = Some (length x).
Proof.
  induction x as [|y x IH]; intro H; cbn.
  - now rewrite beq_refl.
  - destruct (beq y c) eqn:E; [apply beq_eq in E; subst; exfalso; apply H; now left|].
    rewrite IH; [reflexivity|]. intro Hi. apply H. now right.
Qed.

(* split at the first occurrence of a byte *)
Lemma split_first (c : byte) (s : bytes) : In c s -> exists x rest, s = x ++ c :: rest /\ ~ In c x.
Proof.
  induction s as [|y s IH]; [intros []|]. intro H.
  destruct (Byte.byte_eq_dec y c) as [->|Hne].
  - exists [], s. split; [reflexivity | intros []].
  - destruct H as [->|H]; [congruence|]. destruct (IH H) as (x & rest & -> & Hx).
    exists (y :: x), rest. split; [reflexivity|]. intros [->|Hi]; [congruence | now apply Hx].
Qed.
