(* C18: hosts-file lines yield exactly the listed names with the given address. *)
From Coq Require Import List Arith NArith ZArith Bool Lia.
From Coq Require Import Strings.Byte.
From UF Require Import Base.Lit Base.Bytes Model.Netip Model.Domain Model.NetRule Model.Rule Proofs.EqLemmas.
Import ListNotations.

(* the grammar of the property *)
Definition blanks (s : bytes) : Prop := forall c, In c s -> is_blank c = true.
Definition token (t : bytes) : Prop :=
  t <> [] /\ forall c, In c t -> is_blank c = false /\ beq c "#"%byte = false.
(* a separator run followed by a name *)
Definition sep_name (p : bytes * bytes) : Prop := fst p <> [] /\ blanks (fst p) /\ token (snd p).
Definition flat (pairs : list (bytes * bytes)) : bytes := flat_map (fun p => fst p ++ snd p) pairs.
(* optional comment: nothing, or '#' followed by anything *)
Definition comment (c : bytes) : Prop := c = [] \/ exists any, c = "#"%byte :: any.

Lemma skip_blank_blanks s r : blanks s -> skip_blank (s ++ r) = skip_blank r.
Proof.
  induction s as [|c s IH]; intro H; [reflexivity|]. cbn. rewrite (H c (or_introl eq_refl)).
  apply IH. intros x Hx. apply H. now right.
Qed.
Lemma skip_blank_token t r : token t -> skip_blank (t ++ r) = t ++ r.
Proof.
  intros [Hne H]. destruct t as [|c t]; [congruence|]. cbn.
  destruct (H c (or_introl eq_refl)) as [Hb _]. now rewrite Hb.
Qed.
Lemma skip_blank_all s : blanks s -> skip_blank s = [].
Proof. intro H. rewrite <- (app_nil_r s). rewrite skip_blank_blanks by exact H. reflexivity. Qed.

(* the rest after a token is empty or starts with a blank *)
Definition stops (r : bytes) : Prop := r = [] \/ exists c r', r = c :: r' /\ is_blank c = true.
Lemma take_token_token t r : (forall c, In c t -> is_blank c = false) -> stops r -> take_token (t ++ r) = (t, r).
Proof.
  intros H Hr. induction t as [|c t IH]; cbn.
  - destruct Hr as [->|(c & r' & -> & Hc)]; [reflexivity|]. cbn. now rewrite Hc.
  - rewrite (H c (or_introl eq_refl)). rewrite IH by (intros x Hx; apply H; now right). reflexivity.
Qed.

Lemma split_next_token t r : token t -> stops r -> split_next (t ++ r) = (t, skip_blank r).
Proof.
  intros Ht Hr. unfold split_next. rewrite skip_blank_token by exact Ht.
  rewrite take_token_token; [reflexivity | | exact Hr]. intros c Hc. now apply (proj2 Ht).
Qed.

Lemma stops_flat pairs trail : Forall sep_name pairs -> blanks trail -> stops (flat pairs ++ trail).
Proof.
  intros Hp Ht. destruct pairs as [|[s n] pairs].
  - cbn. destruct trail as [|c trail]; [now left|]. right. exists c, trail. split; [reflexivity|]. apply Ht. now left.
  - inversion Hp as [|? ? (Hne & Hb & _) _]; subst. cbn in *. destruct s as [|c s]; [congruence|].
    right. exists c, (s ++ n ++ flat pairs ++ trail). split; [now rewrite <- !app_assoc|]. apply Hb. now left.
Qed.

(* the names loop returns exactly the listed names *)
Lemma skip_blank_le s : length (skip_blank s) <= length s.
Proof. induction s as [|b s IH]; cbn; [lia|]. destruct (is_blank b); cbn; lia. Qed.

Lemma host_names_flat pairs : forall trail fuel, Forall sep_name pairs -> blanks trail ->
  length (skip_blank (flat pairs ++ trail)) <= fuel ->
  host_names fuel (skip_blank (flat pairs ++ trail)) = map snd pairs.
Proof.
  induction pairs as [|[s n] pairs IH]; intros trail fuel Hp Ht Hf.
  - cbn [flat flat_map app map]. rewrite skip_blank_all by exact Ht. destruct fuel; reflexivity.
  - inversion Hp as [|? ? (Hne & Hb & Hn) Hp']; subst. cbn [fst snd] in *.
    cbn [flat flat_map map fst snd] in *. fold (flat pairs) in *. rewrite <- !app_assoc in *.
    rewrite skip_blank_blanks in * by exact Hb. rewrite skip_blank_token in * by exact Hn.
    assert (Hnl : 0 < length n) by (destruct n; [destruct Hn; congruence | cbn; lia]).
    destruct fuel as [|fuel]; [rewrite app_length in Hf; lia|].
    cbn [host_names].
    assert (Hnil : isnil (n ++ flat pairs ++ trail) = false) by (destruct n; [destruct Hn; congruence | reflexivity]).
    rewrite Hnil. rewrite split_next_token; [| exact Hn | now apply stops_flat].
    f_equal. apply IH; auto.
    pose proof (skip_blank_le (flat pairs ++ trail)). rewrite app_length in Hf. lia.
Qed.

(* '#' handling: the comment is cut exactly at the first '#' *)
Lemma index_byte_none x : (forall c, In c x -> beq c "#"%byte = false) -> index_byte "#"%byte x = None.
Proof.
  induction x as [|c x IH]; intro H; [reflexivity|]. cbn. rewrite (H c (or_introl eq_refl)).
  rewrite IH by (intros y Hy; apply H; now right). reflexivity.
Qed.
Lemma index_byte_hash x any : (forall c, In c x -> beq c "#"%byte = false) ->
  index_byte "#"%byte (x ++ "#"%byte :: any) = Some (length x).
Proof.
  induction x as [|c x IH]; intro H; [reflexivity|]. cbn. rewrite (H c (or_introl eq_refl)).
  rewrite IH by (intros y Hy; apply H; now right). reflexivity.
Qed.

Lemma blank_not_hash c : is_blank c = true -> beq c "#"%byte = false.
Proof.
  unfold is_blank. rewrite orb_true_iff, !beq_eq. intros [->| ->]; reflexivity.
Qed.

Lemma no_hash_flat pairs : Forall sep_name pairs -> forall c, In c (flat pairs) -> beq c "#"%byte = false.
Proof.
  induction 1 as [|[s n] pairs (Hne & Hb & Hn) _ IH]; intros c Hc; [destruct Hc|].
  cbn [flat flat_map fst snd] in Hc. fold (flat pairs) in Hc. cbn [fst snd] in *.
  rewrite !in_app_iff in Hc. destruct Hc as [[Hc|Hc]|Hc].
  - apply blank_not_hash. now apply Hb.
  - now apply (proj2 Hn).
  - now apply IH.
Qed.

Lemma firstn_app_exact {A} (a b : list A) : firstn (length a) (a ++ b) = a.
Proof. induction a; cbn; [now destruct b | now f_equal]. Qed.

(* the line without its comment *)
Lemma strip_comment (x c : bytes) : x <> [] -> (forall b, In b x -> beq b "#"%byte = false) -> comment c ->
  match index_byte "#"%byte (x ++ c) return bytes with Some (S i) => firstn (S i) (x ++ c) | _ => x ++ c end = x.
Proof.
  intros Hne Hx [->|(any & ->)].
  - rewrite app_nil_r, index_byte_none by exact Hx. reflexivity.
  - rewrite index_byte_hash by exact Hx. destruct x as [|b x]; [congruence|].
    cbn [length]. change (S (length x)) with (length (b :: x)). apply firstn_app_exact.
Qed.

(* ---- main theorems ---- *)
(* address, one or more names, optional trailing blanks, optional comment *)
Theorem hosts_line a ip pairs trail c id :
  token a -> parse_addr a = Ok ip -> pairs <> [] -> Forall sep_name pairs -> blanks trail -> comment c ->
  new_host_rule (a ++ flat pairs ++ trail ++ c) id =
  Ok {| hr_text := a ++ flat pairs ++ trail ++ c; hr_list := id; hr_ip := ip; hr_names := map snd pairs |}.
Proof.
  intros Ha Hip Hne Hp Ht Hc. unfold new_host_rule.
  set (x := a ++ flat pairs ++ trail).
  assert (Hx : forall b, In b x -> beq b "#"%byte = false).
  { intros b Hb. unfold x in Hb. rewrite !in_app_iff in Hb. destruct Hb as [Hb|[Hb|Hb]].
    - now apply (proj2 Ha). - now apply (no_hash_flat pairs Hp). - apply blank_not_hash. now apply Ht. }
  assert (Hxne : x <> []) by (unfold x; destruct a; [destruct Ha; congruence | discriminate]).
  replace (a ++ flat pairs ++ trail ++ c) with (x ++ c) by (unfold x; now rewrite <- !app_assoc).
  rewrite (strip_comment x c Hxne Hx Hc). unfold x.
  rewrite split_next_token; [| exact Ha | now apply stops_flat].
  assert (Hrest : skip_blank (flat pairs ++ trail) <> []).
  { destruct pairs as [|[s n] pairs]; [congruence|]. inversion Hp as [|? ? (Hs & Hb & Hn) _]; subst. cbn [fst snd] in *.
    cbn [flat flat_map fst snd]. rewrite <- !app_assoc. rewrite skip_blank_blanks by exact Hb.
    rewrite skip_blank_token by exact Hn. destruct n; [destruct Hn; congruence | discriminate]. }
  destruct (skip_blank (flat pairs ++ trail)) as [|r0 rest] eqn:Er; [congruence|]. cbn [isnil].
  rewrite Hip. cbn [rbind]. rewrite <- Er. f_equal. f_equal.
  apply host_names_flat; auto.
Qed.

(* a bare domain name, optional trailing blanks, optional comment: 0.0.0.0 *)
Theorem bare_domain n trail c id :
  token n -> is_domain_name n = true -> blanks trail -> comment c ->
  new_host_rule (n ++ trail ++ c) id =
  Ok {| hr_text := n ++ trail ++ c; hr_list := id; hr_ip := A4 0; hr_names := [n] |}.
Proof.
  intros Hn Hd Ht Hc. unfold new_host_rule.
  set (x := n ++ trail).
  assert (Hx : forall b, In b x -> beq b "#"%byte = false).
  { intros b Hb. unfold x in Hb. rewrite in_app_iff in Hb. destruct Hb as [Hb|Hb].
    - now apply (proj2 Hn). - apply blank_not_hash. now apply Ht. }
  assert (Hxne : x <> []) by (unfold x; destruct n; [destruct Hn; congruence | discriminate]).
  replace (n ++ trail ++ c) with (x ++ c) by (unfold x; now rewrite <- !app_assoc).
  rewrite (strip_comment x c Hxne Hx Hc). unfold x.
  rewrite split_next_token; [| exact Hn |].
  - rewrite skip_blank_all by exact Ht. cbn [isnil]. now rewrite Hd.
  - destruct trail as [|b t]; [now left|]. right. exists b, t. split; [reflexivity|]. apply Ht. now left.
Qed.

(* text after the comment sign never changes the names *)
Corollary comment_irrelevant a ip pairs trail c c' id :
  token a -> parse_addr a = Ok ip -> pairs <> [] -> Forall sep_name pairs -> blanks trail -> comment c -> comment c' ->
  option_map hr_names (match new_host_rule (a ++ flat pairs ++ trail ++ c) id with Ok h => Some h | _ => None end) =
  option_map hr_names (match new_host_rule (a ++ flat pairs ++ trail ++ c') id with Ok h => Some h | _ => None end).
Proof. intros. rewrite !(hosts_line a ip pairs trail) by assumption. reflexivity. Qed.

(* a host rule matches a queried name iff it is one of its names *)
Theorem host_match_iff h x : host_match h x = true <-> In x (hr_names h).
Proof.
  unfold host_match. rewrite existsb_exists. split.
  - intros (y & Hy & E). apply bytes_eqb_eq in E. now subst.
  - intro H. exists x. split; [assumption | apply bytes_eqb_refl].
Qed.

(* through NewRule: the trimmed line is not a comment and not element-hiding syntax *)
Theorem new_rule_hosts_line line l h id :
  go_trim_space line = Ok l -> l <> [] -> is_comment l = false -> is_cosmetic l = false ->
  new_host_rule l id = Ok h -> new_rule line id = Ok (Some (RHost h)).
Proof.
  intros Ht Hne Hc Hcos Hh. unfold new_rule. rewrite Ht. cbn [rbind].
  destruct l; [congruence|]. cbn [isnil orb]. rewrite Hc, Hcos, Hh. reflexivity.
Qed.

(* non-vacuity: the F02 witness and a grammar instance *)
Example ex_comment_without_blank :
  exists h, new_rule $"0.0.0.0 example.org#note" 1%Z = Ok (Some (RHost h)) /\ hr_names h = [$"example.org"].
Proof. eexists. split; vm_compute; reflexivity. Qed.
