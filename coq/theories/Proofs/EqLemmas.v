(* Boolean equality tests of the model reflect Leibniz equality. *)
From Coq Require Import List Arith NArith ZArith Bool Lia.
From Coq Require Import Strings.Byte.
From UF Require Import Base.Lit Base.Bytes Model.Netip Model.DNSRewrite Model.NetRule.
Import ListNotations.

Lemma beq_eq a b : beq a b = true <-> a = b.
Proof.
  unfold beq, b2n. rewrite N.eqb_eq. split; [|congruence]. intro H.
  apply (f_equal Byte.of_N) in H. rewrite !Byte.of_to_N in H. congruence.
Qed.
Lemma beq_refl a : beq a a = true. Proof. now apply beq_eq. Qed.
Lemma beq_neq a b : beq a b = false <-> a <> b.
Proof. rewrite <- beq_eq. destruct (beq a b); split; congruence. Qed.

Lemma list_eqb_spec {A} (eq : A -> A -> bool) :
  (forall x y, eq x y = true <-> x = y) -> forall a b, list_eqb eq a b = true <-> a = b.
Proof.
  intros He. induction a as [|x a IH]; destruct b as [|y b]; cbn; split; try congruence; try discriminate.
  - intro H. apply andb_prop in H as [H1 H2]. apply He in H1. apply IH in H2. congruence.
  - intro H. inversion H; subst. apply andb_true_intro. split; [now apply He | now apply IH].
Qed.

Lemma bytes_eqb_eq a b : bytes_eqb a b = true <-> a = b.
Proof.
  revert b. induction a as [|x a IH]; destruct b as [|y b]; cbn; split; try congruence; try discriminate.
  - intro H. apply andb_prop in H as [H1 H2]. apply beq_eq in H1. apply IH in H2. congruence.
  - intro H. inversion H; subst. apply andb_true_intro. split; [apply beq_refl | now apply IH].
Qed.
Lemma bytes_eqb_refl a : bytes_eqb a a = true. Proof. now apply bytes_eqb_eq. Qed.

Lemma addr_eqb_eq a b : addr_eqb a b = true <-> a = b.
Proof. destruct a, b; cbn; rewrite ?N.eqb_eq; split; congruence. Qed.
Lemma prefix_eqb_eq a b : prefix_eqb a b = true <-> a = b.
Proof.
  destruct a as [a n], b as [b m]. unfold prefix_eqb; cbn. rewrite andb_true_iff, addr_eqb_eq, N.eqb_eq.
  split; [intros [-> ->]; reflexivity | intro H; inversion H; auto].
Qed.

Lemma params_eqb_eq a b : params_eqb a b = true <-> a = b.
Proof.
  apply list_eqb_spec. intros [k v] [k' v']; cbn. rewrite andb_true_iff, !bytes_eqb_eq.
  split; [intros [-> ->]; reflexivity | intro H; inversion H; auto].
Qed.

Lemma rrvalue_eqb_eq a b : rrvalue_eqb a b = true <-> a = b.
Proof.
  destruct a, b; cbn; try (split; [discriminate | congruence]); try tauto;
    rewrite ?andb_true_iff, ?addr_eqb_eq, ?bytes_eqb_eq, ?N.eqb_eq, ?params_eqb_eq.
  - split; congruence.
  - split; congruence.
  - split; [intros [-> ->]; reflexivity | intro H; inversion H; auto].
  - split; [intros [[[-> ->] ->] ->]; reflexivity | intro H; inversion H; auto].
  - split; [intros [[-> ->] ->]; reflexivity | intro H; inversion H; auto].
Qed.

Lemma dnsrewrite_eqb_eq a b : dnsrewrite_eqb a b = true <-> a = b.
Proof.
  destruct a, b. unfold dnsrewrite_eqb; cbn.
  rewrite !andb_true_iff, rrvalue_eqb_eq, bytes_eqb_eq, !N.eqb_eq.
  split; [intros [[[-> ->] ->] ->]; reflexivity | intro H; inversion H; auto].
Qed.

Lemma clients_eqb_eq a b : clients_eqb a b = true <-> a = b.
Proof.
  destruct a as [[h n]|], b as [[h' n']|]; cbn; try (split; [discriminate | congruence]); try tauto.
  rewrite andb_true_iff, (list_eqb_spec bytes_eqb bytes_eqb_eq), (list_eqb_spec prefix_eqb prefix_eqb_eq).
  split; [intros [-> ->]; reflexivity | intro H; inversion H; auto].
Qed.
