(* C09: effective DNS rewrites apply every matching exception, in any order. *)
From Coq Require Import List Arith NArith ZArith Bool Lia Permutation.
From UF Require Import Base.Lit Base.Bytes Model.Options Model.DnsTables Model.DNSRewrite Model.NetRule
  Model.Result Proofs.EqLemmas Proofs.C08Proofs.
Import ListNotations.

Definition is_imp (r : net_rule) : bool := is_opt_enabled r OptImportant.

(* Specification: exception [exc] disables rewrite [nr]. *)
Definition disables (exc nr : net_rule) : bool :=
  match nr_dnsrewrite exc with
  | None => false
  | Some e => if dnsrewrite_eqb e dr_empty then is_imp exc || negb (is_imp nr)
              else match_exception nr exc (is_imp exc)
  end.

(* the effective rewrites of the list [all] of $dnsrewrite rules: the non-exception rules not
   disabled by any exception of the list, in their original order *)
Definition spec_rewrites (all : list net_rule) : list net_rule :=
  filter (fun nr => negb (nr_whitelist nr)
                    && negb (existsb (fun exc => nr_whitelist exc && disables exc nr) all)) all.

(* what DNSRewrites computes from DNSRewritesAll *)
Definition rewrites_of_all (all : list net_rule) : list net_rule :=
  fold_left remove_matching_exception (filter nr_whitelist all) (filter (fun r => negb (nr_whitelist r)) all).

Lemma dns_rewrites_unfold rs : dns_rewrites rs = rewrites_of_all (dns_rewrites_all rs).
Proof. reflexivity. Qed.

Lemma remove_matching_is_filter l exc :
  remove_matching_exception l exc = filter (fun nr => negb (disables exc nr)) l.
Proof.
  unfold remove_matching_exception, disables. fold (is_imp exc).
  destruct (nr_dnsrewrite exc) as [e|].
  - destruct (dnsrewrite_eqb e dr_empty).
    + destruct (is_imp exc); cbn [orb negb].
      * induction l as [|x l IH]; [reflexivity | exact IH].
      * apply filter_ext. intro nr. fold (is_imp nr). now rewrite negb_involutive.
    + reflexivity.
  - symmetry. apply filter_id. reflexivity.
Qed.

Lemma fold_filters {A B} (P : B -> A -> bool) (es : list B) : forall l,
  fold_left (fun l e => filter (P e) l) es l = filter (fun x => forallb (fun e => P e x) es) l.
Proof.
  induction es as [|e es IH]; intro l; cbn [fold_left forallb].
  - symmetry. apply filter_id. reflexivity.
  - rewrite IH. clear IH. induction l as [|x l IHl]; [reflexivity|]. cbn [filter].
    destruct (P e x); cbn [andb filter]; [destruct (forallb _ es); [f_equal|]; exact IHl | exact IHl].
Qed.

Lemma fold_ext {A B} (f g : A -> B -> A) l : (forall a b, f a b = g a b) -> forall a, fold_left f l a = fold_left g l a.
Proof. intro H. induction l as [|x l IH]; intro a; cbn; [reflexivity|]. now rewrite H, IH. Qed.

Lemma forallb_filter_existsb (all : list net_rule) nr :
  forallb (fun e => negb (disables e nr)) (filter nr_whitelist all)
  = negb (existsb (fun exc => nr_whitelist exc && disables exc nr) all).
Proof.
  induction all as [|e all IH]; [reflexivity|]. cbn [filter existsb].
  destruct (nr_whitelist e); cbn [forallb andb orb]; rewrite IH; [now rewrite negb_orb | reflexivity].
Qed.

Lemma filter_filter {A} (f g : A -> bool) l : filter f (filter g l) = filter (fun x => g x && f x) l.
Proof.
  induction l as [|x l IH]; [reflexivity|]. cbn [filter]. destruct (g x); cbn [filter andb]; [destruct (f x)|]; now rewrite IH.
Qed.

Theorem rewrites_of_all_spec all : rewrites_of_all all = spec_rewrites all.
Proof.
  unfold rewrites_of_all, spec_rewrites.
  rewrite (fold_ext _ (fun l e => filter (fun nr => negb (disables e nr)) l)) by (intros; apply remove_matching_is_filter).
  rewrite (fold_filters (fun e nr => negb (disables e nr))), filter_filter.
  apply filter_ext. intro nr. now rewrite forallb_filter_existsb.
Qed.

Theorem dns_rewrites_spec rs : dns_rewrites rs = spec_rewrites (dns_rewrites_all rs).
Proof. rewrite dns_rewrites_unfold. apply rewrites_of_all_spec. Qed.

(* ---- consequences named in the property ---- *)
Theorem exceptions_never_returned rs r : In r (dns_rewrites rs) -> nr_whitelist r = false.
Proof.
  rewrite dns_rewrites_spec. unfold spec_rewrites. rewrite filter_In, andb_true_iff, negb_true_iff. tauto.
Qed.

Theorem survivor_iff rs r : In r (dns_rewrites rs) <->
  In r (dns_rewrites_all rs) /\ nr_whitelist r = false /\
  forall exc, In exc (dns_rewrites_all rs) -> nr_whitelist exc = true -> disables exc r = false.
Proof.
  rewrite dns_rewrites_spec. unfold spec_rewrites. rewrite filter_In, andb_true_iff, !negb_true_iff. split.
  - intros (Hin & Hw & He). repeat split; auto. intros exc Hexc Hwl.
    apply not_true_is_false. intro Hd.
    assert (existsb (fun exc0 => nr_whitelist exc0 && disables exc0 r) (dns_rewrites_all rs) = true).
    { apply existsb_exists. exists exc. rewrite Hwl, Hd. auto. }
    congruence.
  - intros (Hin & Hw & Hall). repeat split; auto. apply not_true_is_false. intro Hc.
    apply existsb_exists in Hc as (exc & Hexc & Hd). apply andb_prop in Hd as [Hwl Hd].
    rewrite (Hall exc Hexc Hwl) in Hd. discriminate.
Qed.

(* non-important exceptions never disable important rewrites *)
Theorem important_protected exc nr : is_imp exc = false -> is_imp nr = true -> disables exc nr = false.
Proof.
  intros He Hn. unfold disables. destruct (nr_dnsrewrite exc) as [e|]; [|reflexivity].
  destruct (dnsrewrite_eqb e dr_empty); [now rewrite He, Hn|].
  unfold match_exception. rewrite He. fold (is_imp nr). now rewrite Hn.
Qed.

(* what "disables" means, in the words of the property *)
Theorem disables_meaning exc nr e n : nr_dnsrewrite exc = Some e -> nr_dnsrewrite nr = Some n ->
  disables exc nr = true <->
  (is_imp exc = true \/ is_imp nr = false) /\
  (e = dr_empty \/
   (e <> dr_empty /\
    ((dr_cname e <> [] /\ dr_cname n = dr_cname e) \/
     (dr_cname e = [] /\ dr_rcode n = dr_rcode e /\
      (dr_rcode e <> RcodeSuccess \/ (dr_rrtype n = dr_rrtype e /\ dr_value n = dr_value e)))))).
Proof.
  intros He Hn. unfold disables. rewrite He.
  destruct (dnsrewrite_eqb e dr_empty) eqn:Ee.
  - apply dnsrewrite_eqb_eq in Ee. rewrite orb_true_iff, negb_true_iff. intuition.
  - assert (Hne : e <> dr_empty) by (intro Hc; apply dnsrewrite_eqb_eq in Hc; congruence).
    unfold match_exception. rewrite Hn, He. fold (is_imp nr).
    destruct (is_imp exc) eqn:Ei, (is_imp nr) eqn:Ein; cbn [negb andb];
    try (destruct (dr_cname e) as [|c0 cs] eqn:Ec; cbn [isnil negb];
     [ destruct (N.eqb_spec (dr_rcode n) (dr_rcode e)) as [Er|Er];
       [ destruct (N.eqb_spec (dr_rcode e) RcodeSuccess) as [Es|Es]; cbn [negb];
         [ rewrite andb_true_iff, N.eqb_eq, rrvalue_eqb_eq | ] | ]
     | rewrite bytes_eqb_eq ]);
    intuition (try congruence; try discriminate).
Qed.

(* surviving rules keep their relative order: the result is a filter of the input *)
Theorem order_preserved rs : exists keep, dns_rewrites rs = filter keep (dns_rewrites_all rs).
Proof. rewrite dns_rewrites_spec. unfold spec_rewrites. eexists. reflexivity. Qed.

(* the outcome does not depend on where the exceptions sit *)
Lemma existsb_perm {A} (f : A -> bool) l l' : Permutation l l' -> existsb f l = existsb f l'.
Proof.
  induction 1; cbn; try congruence.
  - destruct (f y), (f x); reflexivity.
Qed.
Lemma existsb_split_wl (all : list net_rule) nr :
  existsb (fun exc => nr_whitelist exc && disables exc nr) all
  = existsb (fun exc => disables exc nr) (filter nr_whitelist all).
Proof.
  induction all as [|e all IH]; [reflexivity|]. cbn [existsb filter].
  destruct (nr_whitelist e); cbn [existsb andb orb]; now rewrite IH.
Qed.

Theorem exception_positions_irrelevant all all' :
  filter (fun r => negb (nr_whitelist r)) all = filter (fun r => negb (nr_whitelist r)) all' ->
  Permutation (filter nr_whitelist all) (filter nr_whitelist all') ->
  rewrites_of_all all = rewrites_of_all all'.
Proof.
  intros Hn Hp. rewrite !rewrites_of_all_spec. unfold spec_rewrites.
  assert (E : forall l, filter (fun nr => negb (nr_whitelist nr) && negb (existsb (fun exc => nr_whitelist exc && disables exc nr) l)) l
              = filter (fun nr => negb (existsb (fun exc => disables exc nr) (filter nr_whitelist l)))
                       (filter (fun r => negb (nr_whitelist r)) l)).
  { intro l. rewrite filter_filter. apply filter_ext. intro nr. now rewrite existsb_split_wl. }
  rewrite !E, Hn. apply filter_ext. intro nr. f_equal. now apply existsb_perm.
Qed.

(* without exceptions everything is returned *)
Theorem no_exceptions all : (forall r, In r all -> nr_whitelist r = false) -> rewrites_of_all all = all.
Proof.
  intro H. rewrite rewrites_of_all_spec. unfold spec_rewrites. apply filter_id. intros x Hx.
  rewrite (H x Hx). cbn. apply negb_true_iff, not_true_is_false. intro Hc.
  apply existsb_exists in Hc as (e & He & Hd). rewrite (H e He) in Hd. discriminate.
Qed.

(* non-vacuity: the F11 shape (an exception directly after another) and the F12 shape (MX value) *)
Example ex_adjacent_exceptions :
  exists a b e1 e2, new_network_rule $"||h^$dnsrewrite=1.2.3.4" 1%Z = Ok a /\
    new_network_rule $"||h^$dnsrewrite=1.2.3.5" 1%Z = Ok b /\
    new_network_rule $"@@||h^$dnsrewrite=1.2.3.4" 1%Z = Ok e1 /\
    new_network_rule $"@@||h^$dnsrewrite=1.2.3.5" 1%Z = Ok e2 /\
    dns_rewrites [a; e1; e2; b] = [] /\ dns_rewrites [a; b; e1] = [b].
Proof. do 4 eexists. repeat split; vm_compute; reflexivity. Qed.
Example ex_mx_exception :
  exists a e, new_network_rule $"||h^$dnsrewrite=NOERROR;MX;10 m.org" 1%Z = Ok a /\
    new_network_rule $"@@||h^$dnsrewrite=NOERROR;MX;10 m.org" 1%Z = Ok e /\ dns_rewrites [a; e] = [].
Proof. do 2 eexists. repeat split; vm_compute; reflexivity. Qed.
