(* C11: every scanned rule can be retrieved by its index from any backing store. *)
From Coq Require Import List Arith NArith ZArith Bool Lia.
From Coq Require Import Strings.Byte.
From UF Require Import Base.Lit Base.Bytes Model.NetRule Model.Rule Model.Storage Proofs.EqLemmas Proofs.C12Proofs.
Import ListNotations.

(* ---------- the packed index ---------- *)
Section Pack.
Local Open Scope Z_scope.

Lemma land_mask x : Z.land x 4294967295 = x mod two32.
Proof. change 4294967295 with (Z.ones 32). apply Z.land_ones. lia. Qed.

Lemma lor_add a b : 0 <= b < two32 -> Z.lor (Z.shiftl a 32) b = a * two32 + b.
Proof.
  unfold two32. intro Hb. rewrite Z.shiftl_mul_pow2 by lia. change (2 ^ 32) with 4294967296.
  rewrite <- Z.lxor_lor, <- Z.add_nocarry_lxor; try reflexivity.
  all: apply Z.bits_inj'; intros n Hn; rewrite Z.land_spec, Z.bits_0;
    destruct (Z.ltb_spec n 32) as [Hlt|Hge].
  all: try (change 4294967296 with (2 ^ 32); rewrite Z.mul_pow2_bits_low by lia; reflexivity).
  all: rewrite (Z.bits_above_log2 b n); [apply Bool.andb_false_r | lia |].
  all: destruct (Z.eq_dec b 0) as [->|Hnz]; [cbn; lia|];
    apply Z.log2_lt_pow2; [lia|]; apply Z.lt_le_trans with (2^32); [lia|];
    apply Z.pow_le_mono_r; lia.
Qed.

Definition int32_range (z : Z) : Prop := - two31 <= z < two31.

Lemma to_int32_id z : int32_range z -> to_int32 z = z.
Proof. unfold int32_range, to_int32, two31, two32. intro H. rewrite Z.mod_small; lia. Qed.

Theorem pack_unpack id off : int32_range id -> 0 <= off < two31 ->
  unpack (pack id off) = (id, off) /\ - two63 <= pack id off < two63.
Proof.
  intros Hid Hoff. unfold pack, unpack.
  rewrite (to_int32_id id Hid), (to_int32_id off) by (unfold int32_range, two31 in *; lia).
  unfold int32_range, two31 in *.
  rewrite land_mask, Z.mod_small by (unfold two32; lia).
  rewrite lor_add by (unfold two32; lia).
  assert (Hr : - two63 <= id * two32 + off < two63) by (unfold two63, two32; lia).
  assert (E64 : to_int64 (id * two32 + off) = id * two32 + off).
  { unfold to_int64. rewrite Z.mod_small; unfold two63 in *; lia. }
  rewrite E64. split; [|exact Hr].
  rewrite Z.shiftr_div_pow2 by lia. change (2 ^ 32) with two32.
  replace ((id * two32 + off) / two32) with id by (apply Z.div_unique with off; unfold two32; lia).
  unfold to_int32. f_equal.
  - rewrite Z.mod_small; unfold two31, two32; lia.
  - replace (id * two32 + off + two31) with (off + two31 + id * two32) by lia.
    rewrite Z.mod_add by (unfold two32; lia). rewrite Z.mod_small; unfold two31, two32; lia.
Qed.

Theorem pack_injective id1 off1 id2 off2 :
  int32_range id1 -> 0 <= off1 < two31 -> int32_range id2 -> 0 <= off2 < two31 ->
  pack id1 off1 = pack id2 off2 -> id1 = id2 /\ off1 = off2.
Proof.
  intros H1 H2 H3 H4 E.
  destruct (pack_unpack id1 off1 H1 H2) as [E1 _]. destruct (pack_unpack id2 off2 H3 H4) as [E2 _].
  rewrite E in E1. rewrite E1 in E2. now inversion E2.
Qed.
End Pack.

(* ---------- lines ---------- *)
Definition no_lf (s : bytes) : Prop := forall c, In c s -> beq c LF = false.
(* a line is a body closed by a line feed, or the unterminated non-empty tail of the content *)
Definition line_shape (l post : bytes) : Prop :=
  (exists body, l = body ++ [LF] /\ no_lf body) \/ (post = [] /\ l <> [] /\ no_lf l).

Lemma no_lf_rev s : no_lf s -> no_lf (rev s).
Proof. intros H c Hc. apply H. now apply in_rev. Qed.

Lemma split_lines_spec s : forall cur start off, off = start + length cur -> no_lf cur ->
  forall o l, In (o, l) (split_lines_aux s cur start off) ->
  exists pre post, rev cur ++ s = pre ++ l ++ post /\ o = start + length pre /\ line_shape l post.
Proof.
  induction s as [|c s IH]; intros cur start off Hoff Hcur o l Hin; cbn [split_lines_aux] in Hin.
  - destruct (isnil cur) eqn:E; [destruct Hin|]. destruct Hin as [Hin|[]]. inversion Hin; subst.
    exists [], []. rewrite rev'_eq, !app_nil_r. cbn. repeat split; [lia|].
    right. repeat split; [|now apply no_lf_rev]. destruct cur; [discriminate|]. cbn. intro Hc. apply app_eq_nil in Hc as [_ Hc]. discriminate.
  - destruct (beq c LF) eqn:Ec.
    + apply beq_eq in Ec. subst c. destruct Hin as [Hin|Hin].
      * inversion Hin; subst. exists [], s. rewrite rev'_eq. cbn [rev app]. rewrite <- app_assoc. cbn.
        repeat split; [lia|]. left. exists (rev cur). split; [reflexivity | now apply no_lf_rev].
      * apply (IH [] (S off) (S off)) in Hin; [| cbn; lia | intros x []].
        destruct Hin as (pre & post & E & Ho & Hs). cbn [rev app] in E.
        exists (rev cur ++ LF :: pre), post. repeat split; [| | exact Hs].
        -- rewrite E, <- !app_assoc. reflexivity.
        -- rewrite app_length, rev_length. cbn. lia.
    + apply (IH (c :: cur) start (S off)) in Hin.
      * destruct Hin as (pre & post & E & Ho & Hs). exists pre, post. repeat split; try assumption.
        rewrite <- E. cbn [rev]. now rewrite <- app_assoc.
      * cbn. lia.
      * intros x [<-|Hx]; [exact Ec | now apply Hcur].
Qed.

Corollary lines_spec content o l : In (o, l) (lines_with_offsets content) ->
  exists pre post, content = pre ++ l ++ post /\ o = length pre /\ line_shape l post.
Proof.
  intro H. apply (split_lines_spec content [] 0 0) in H; [| reflexivity | intros x []].
  destruct H as (pre & post & E & Ho & Hs). exists pre, post. repeat split; assumption.
Qed.

(* the lines partition the content: scanning reads every byte exactly once *)
Lemma split_lines_concat s : forall cur start off,
  concat (map snd (split_lines_aux s cur start off)) = rev cur ++ s.
Proof.
  induction s as [|c s IH]; intros cur start off; cbn [split_lines_aux].
  - destruct cur as [|b cur']; [reflexivity|]. cbn [isnil map snd concat]. now rewrite rev'_eq.
  - destruct (beq c LF); cbn [map snd concat].
    + rewrite IH, rev'_eq. cbn [rev app]. now rewrite <- app_assoc.
    + rewrite IH. cbn [rev app]. now rewrite <- app_assoc.
Qed.
Theorem lines_partition content : concat (map snd (lines_with_offsets content)) = content.
Proof. apply (split_lines_concat content [] 0 0). Qed.

(* ---------- reading a line from a file, for every chunking of the reads ---------- *)
Lemma take_until_lf_app a b : no_lf a -> take_until_lf (a ++ b) = a ++ take_until_lf b.
Proof.
  induction a as [|c a IH]; intro H; [reflexivity|]. cbn. rewrite (H c (or_introl eq_refl)).
  f_equal. apply IH. intros x Hx. apply H. now right.
Qed.
Lemma take_until_lf_stop a b : no_lf a -> take_until_lf (a ++ LF :: b) = a.
Proof. intro H. rewrite take_until_lf_app by exact H. cbn [take_until_lf]. rewrite beq_refl. apply app_nil_r. Qed.

Lemma index_byte_none_no_lf s : index_byte LF s = None -> no_lf s.
Proof.
  induction s as [|c s IH]; cbn; [intros _ x []|]. destruct (beq c LF) eqn:E; [discriminate|].
  destruct (index_byte LF s); [discriminate|]. intros _ x [<-|Hx]; [exact E | now apply IH].
Qed.
Lemma index_byte_some_split s i : index_byte LF s = Some i ->
  exists b, s = firstn i s ++ LF :: b /\ no_lf (firstn i s).
Proof.
  revert i. induction s as [|c s IH]; intro i; cbn [index_byte]; [discriminate|].
  destruct (beq c LF) eqn:E.
  - intro H; inversion H; subst. apply beq_eq in E. subst. exists s. split; [reflexivity | intros x []].
  - destruct (index_byte LF s) as [j|]; [|discriminate]. cbn. intro H; inversion H; subst.
    destruct (IH j eq_refl) as (b & Es & Hn). exists b. cbn [firstn]. split; [cbn; now rewrite <- Es|].
    intros x [<-|Hx]; [exact E | now apply Hn].
Qed.

Theorem read_line_spec : forall fuel rest chunks acc, length rest < fuel ->
  read_line fuel rest chunks acc = acc ++ take_until_lf rest.
Proof.
  induction fuel as [|fuel IH]; intros rest chunks acc Hf; [lia|]. cbn [read_line].
  destruct rest as [|r0 rest']; [now rewrite app_nil_r|].
  set (rest := r0 :: rest') in *.
  set (n := match chunks with c :: _ => clamp c | [] => buffer_size end).
  assert (Hn : 1 <= n) by (unfold n, clamp, buffer_size; destruct chunks; lia).
  destruct (index_byte LF (firstn n rest)) as [i|] eqn:Ei.
  - apply index_byte_some_split in Ei as (b & Eb & Hno). f_equal.
    remember (firstn i (firstn n rest)) as a eqn:Ea. symmetry.
    rewrite <- (firstn_skipn n rest), Eb, <- app_assoc. cbn [app]. now apply take_until_lf_stop.
  - apply index_byte_none_no_lf in Ei. rewrite IH.
    + rewrite <- app_assoc. f_equal. rewrite <- (firstn_skipn n rest) at 3. symmetry. now apply take_until_lf_app.
    + rewrite skipn_length. unfold rest in *. cbn [length] in *. lia.
Qed.

(* ---------- TrimSpace is idempotent ---------- *)
Lemma trim_left_head s : trim_left s = [] \/ exists c t, trim_left s = c :: t /\ is_space c = false.
Proof.
  induction s as [|c s IH]; [now left|]. cbn. destruct (is_space c) eqn:E; [exact IH|]. right. eauto.
Qed.
Lemma trim_left_fix c t : is_space c = false -> trim_left (c :: t) = c :: t.
Proof. intro H. cbn. now rewrite H. Qed.
Lemma trim_left_snoc a c : is_space c = false -> trim_left (a ++ [c]) = trim_left a ++ [c].
Proof.
  intro Hc. induction a as [|x a IH]; cbn; [now rewrite Hc|]. destruct (is_space x); [exact IH | reflexivity].
Qed.
Lemma trim_right_keeps_head c t : is_space c = false -> exists t', trim_right (c :: t) = c :: t'.
Proof.
  intro Hc. unfold trim_right. rewrite !rev'_eq. cbn [rev]. rewrite trim_left_snoc by exact Hc.
  rewrite rev_app_distr. cbn. eauto.
Qed.
Lemma trim_right_fix x : (x = [] \/ exists a c, x = a ++ [c] /\ is_space c = false) -> trim_right x = x.
Proof.
  intros [->|(a & c & -> & Hc)]; [reflexivity|]. unfold trim_right. rewrite !rev'_eq, rev_app_distr. cbn [rev app].
  rewrite trim_left_fix by exact Hc. cbn [rev]. now rewrite rev_involutive.
Qed.
Lemma trim_right_tail y : trim_right y = [] \/ exists a c, trim_right y = a ++ [c] /\ is_space c = false.
Proof.
  unfold trim_right. rewrite !rev'_eq. destruct (trim_left_head (rev y)) as [E|(c & t & E & Hc)].
  - left. now rewrite E.
  - right. rewrite E. cbn [rev]. eauto.
Qed.

Theorem trim_space_idempotent s : trim_space (trim_space s) = trim_space s.
Proof.
  unfold trim_space. destruct (trim_left_head s) as [E|(c & t & E & Hc)].
  - rewrite E. reflexivity.
  - rewrite E. destruct (trim_right_keeps_head c t Hc) as (t' & Et). rewrite Et.
    rewrite trim_left_fix by exact Hc. rewrite <- Et. apply trim_right_fix. apply trim_right_tail.
Qed.

Lemma go_trim_space_idem s t : go_trim_space s = Ok t -> go_trim_space t = Ok t.
Proof.
  unfold go_trim_space. destruct (existsb _ _) eqn:E; [discriminate|]. intro H; inversion H; subst.
  rewrite trim_space_idempotent, E. reflexivity.
Qed.

(* ---------- retrieval returns the scanned rule ---------- *)
Lemma rule_of_line_scanned body line id r :
  go_trim_space body = go_trim_space line -> new_rule line id = Ok (Some r) -> rule_of_line body id = Ok (Some r).
Proof.
  intros Ht Hn. unfold rule_of_line. rewrite Ht. unfold new_rule in Hn.
  destruct (go_trim_space line) as [t| | |] eqn:Et; cbn [rbind] in *; try discriminate.
  destruct (isnil t) eqn:En; [cbn [orb] in Hn; discriminate|].
  unfold new_rule. rewrite (go_trim_space_idem _ _ Et). cbn [rbind]. rewrite En. exact Hn.
Qed.

Theorem retrieve_scanned l o line r :
  In (o, line) (lines_with_offsets (rl_content l)) -> new_rule line (rl_id l) = Ok (Some r) ->
  retrieve_string l (Z.of_nat o) = Ok (Some r) /\
  forall chunks, retrieve_file l (Z.of_nat o) chunks = Ok (Some r).
Proof.
  intros Hin Hn. apply lines_spec in Hin. destruct Hin as (pre & post & Ec & Ho & Hs).
  assert (Hsk : skipn o (rl_content l) = line ++ post).
  { rewrite Ec, Ho. clear. induction pre; cbn; auto. }
  assert (Hne : line <> []).
  { destruct Hs as [(body & -> & _)|(_ & H & _)]; [destruct body; discriminate | exact H]. }
  assert (Hlt : o < length (rl_content l)).
  { rewrite Ec, !app_length, Ho. destruct line; [congruence|]. cbn. lia. }
  assert (Htake : exists body, take_until_lf (line ++ post) = body /\ go_trim_space body = go_trim_space line).
  { destruct Hs as [(body & -> & Hb)|(-> & _ & Hl)].
    - exists body. split; [rewrite <- app_assoc; now apply take_until_lf_stop|].
      unfold go_trim_space. now rewrite trim_space_trailing by reflexivity.
    - exists line. split; [|reflexivity]. rewrite app_nil_r. rewrite <- (app_nil_r line) at 1.
      rewrite take_until_lf_app by exact Hl. apply app_nil_r. }
  destruct Htake as (body & Eb & Etrim).
  split.
  - unfold retrieve_string.
    replace (Z.of_nat o <? 0)%Z with false by (symmetry; apply Z.ltb_ge; lia).
    replace (Z.of_nat (length (rl_content l)) <=? Z.of_nat o)%Z with false by (symmetry; apply Z.leb_gt; lia).
    cbn [orb]. rewrite Nat2Z.id, Hsk, Eb. eapply rule_of_line_scanned; eauto.
  - intro chunks. unfold retrieve_file.
    replace (Z.of_nat o <? 0)%Z with false by (symmetry; apply Z.ltb_ge; lia).
    rewrite Nat2Z.id, Hsk. rewrite read_line_spec by lia. cbn [app]. rewrite Eb.
    eapply rule_of_line_scanned; eauto.
Qed.

(* an in-memory list and a file with the same content retrieve the same, whatever the read sizes *)
Theorem string_file_same l off chunks : (0 <= off < Z.of_nat (length (rl_content l)))%Z ->
  retrieve_file l off chunks = retrieve_string l off.
Proof.
  intro H. unfold retrieve_file, retrieve_string.
  replace (off <? 0)%Z with false by (symmetry; apply Z.ltb_ge; lia).
  replace (Z.of_nat (length (rl_content l)) <=? off)%Z with false by (symmetry; apply Z.leb_gt; lia).
  cbn [orb]. now rewrite read_line_spec by lia.
Qed.

(* what a scanner yields is exactly the line-by-line parse of the content *)
Lemma yielded_in l ls : forall out r o, yielded l ls = Ok out -> In (r, o) out ->
  In (o, Ok (Some r)) ls /\ is_ignored l r = false.
Proof.
  induction ls as [|[off res] ls IH]; intros out r o H Hin; cbn [yielded] in H.
  - inversion H; subst. destruct Hin.
  - destruct res as [[r0|]| | |]; try discriminate.
    + destruct (yielded l ls) as [rest| | |] eqn:E; cbn [rbind] in H; try discriminate. inversion H; subst; clear H.
      destruct (is_ignored l r0) eqn:Ei.
      * destruct (IH rest r o eq_refl Hin) as [H1 H2]. split; [now right | exact H2].
      * destruct Hin as [Hin|Hin].
        -- inversion Hin; subst. split; [now left | exact Ei].
        -- destruct (IH rest r o eq_refl Hin) as [H1 H2]. split; [now right | exact H2].
    + destruct (IH out r o H Hin) as [H1 H2]. split; [now right | exact H2].
    + destruct (IH out r o H Hin) as [H1 H2]. split; [now right | exact H2].
Qed.

Theorem scanned_retrievable l out r o : scan_list l = Ok out -> In (r, o) out ->
  retrieve_string l (Z.of_nat o) = Ok (Some r) /\ forall chunks, retrieve_file l (Z.of_nat o) chunks = Ok (Some r).
Proof.
  intros Hs Hin. unfold scan_list in Hs. destruct (yielded_in l _ out r o Hs Hin) as [H _].
  unfold scan_lines in H. apply in_map_iff in H as ([o' line] & E & Hl). cbn [fst snd] in E.
  assert (Ho : o' = o /\ new_rule line (rl_id l) = Ok (Some r)) by (inversion E; auto).
  destruct Ho as [-> Hn]. now apply (retrieve_scanned l o line r).
Qed.

(* non-vacuity *)
Example ex_scan :
  let l := {| rl_id := (-5)%Z; rl_content := $"! c" ++ [x0d; x0a] ++ $"||a.org^" ++ [x0a] ++ $"bad$$" ++ [x0a] ++ $"b.org##.x";
              rl_ignore_cosmetic := false |} in
  exists r1 r2, scan_list l = Ok [(r1, 5); (r2, 20)] /\ rule_text r1 = $"||a.org^" /\ rule_text r2 = $"b.org##.x"
    /\ retrieve_string l 20 = Ok (Some r2) /\ unpack (pack (-5) 20) = ((-5)%Z, 20%Z).
Proof. do 2 eexists. repeat split; vm_compute; reflexivity. Qed.
