(* C16 at the level of the result object: MatchingResult.GetCosmeticOption on what NewMatchingResult builds from
   the rules matching the request and the rules matching the page.  The option is derived from the selected
   basic rule alone; rules of the page decide WHICH rules compete (C07Winner), never the option itself. *)
From Coq Require Import List Arith NArith ZArith Bool Permutation.
From UF Require Import Base.Lit Base.Bytes Model.Options Model.NetRule Model.Result
  Proofs.C07Proofs Proofs.C08Proofs Proofs.C09Proofs Proofs.C06Proofs Proofs.C07Winner Proofs.C16Proofs.
Import ListNotations.
Local Open Scope N_scope.

Theorem result_only_shrinks rs src : subset (result_cosmetic_option (new_matching_result rs src)) CosAll.
Proof. apply never_enables. Qed.

(* an exception verdict: All minus the union of what its modifiers disable *)
Theorem result_exception rs src w : mr_basic (new_matching_result rs src) = Some w -> nr_whitelist w = true ->
  result_cosmetic_option (new_matching_result rs src) = N.ldiff CosAll (disabled_by (nr_enabled w)).
Proof. intros H Hw. unfold result_cosmetic_option. rewrite H. cbn [option_map]. rewrite Hw. apply exact. Qed.

(* no exception verdict: everything enabled *)
Theorem result_not_exception rs src :
  (forall w, mr_basic (new_matching_result rs src) = Some w -> nr_whitelist w = false) ->
  result_cosmetic_option (new_matching_result rs src) = CosAll.
Proof.
  intro H. unfold result_cosmetic_option. destruct (mr_basic (new_matching_result rs src)) as [w|]; [|reflexivity].
  cbn [option_map]. now rewrite (H w eq_refl).
Qed.

(* the page is covered by a $urlblock exception — whichever of the page's document-level exceptions carries it, in
   whatever position: blocking rules do not compete, so whenever some exception matches the request, the option is
   the one of an exception matching the request *)
Lemma urlblock_candidates_are_exceptions src r : basic_allowed src = false -> candidate src r = true -> nr_whitelist r = true.
Proof.
  intros Hb Hc. unfold candidate in Hc. rewrite Hb in Hc. cbn [andb] in Hc. rewrite orb_false_r in Hc.
  now apply andb_prop in Hc as [_ Hc].
Qed.

Theorem result_under_urlblock rs src x : basic_allowed src = false -> In x (candidates rs src) ->
  exists w, mr_basic (new_matching_result rs src) = Some w /\ In w (eff rs) /\ nr_whitelist w = true /\
            result_cosmetic_option (new_matching_result rs src) = N.ldiff CosAll (disabled_by (nr_enabled w)).
Proof.
  intros Hb Hx. destruct (web_winner_exists rs src x Hx) as [w Hw]. exists w.
  destruct (web_winner_enabled rs src w Hw) as [Hin Hc].
  pose proof (urlblock_candidates_are_exceptions src w Hb Hc) as Hwl.
  repeat split; auto. now apply result_exception.
Qed.

(* basic_allowed / generic_allowed do not depend on the order of the page's rules *)
Theorem page_flags_perm src src' : Permutation src src' ->
  basic_allowed src = basic_allowed src' /\ generic_allowed src = generic_allowed src'.
Proof.
  intro Hs. pose proof (eff_perm _ _ Hs) as Es. unfold basic_allowed, generic_allowed.
  now rewrite (existsb_perm _ _ _ Es), (existsb_perm (fun r0 => is_document_whitelist r0 && is_opt_enabled r0 OptGenericblock) _ _ Es).
Qed.

(* with a single exception matching the request under a $urlblock page, the option is that exception's own, for every
   ordering of both lists and whatever else matches *)
Theorem result_single_exception rs src e : basic_allowed src = false ->
  In e (candidates rs src) -> (forall x, In x (candidates rs src) -> x = e) ->
  result_cosmetic_option (new_matching_result rs src) = N.ldiff CosAll (disabled_by (nr_enabled e)).
Proof.
  intros Hb He Hall. destruct (result_under_urlblock rs src e Hb He) as (w & Hw & _ & _ & Ho).
  apply web_winner_maximal in Hw as [Hin _]. now rewrite <- (Hall w Hin).
Qed.

(* non-vacuity: the C16-8 shape *)
Example ex_two_page_exceptions :
  exists blk e hi u, new_network_rule $"||example.org^$important,domain=a.org" 1%Z = Ok blk /\
    new_network_rule $"@@||example.org^$elemhide" 1%Z = Ok e /\
    new_network_rule $"@@||a.org^$genericblock,content" 1%Z = Ok hi /\
    new_network_rule $"@@||a.org^$urlblock" 1%Z = Ok u /\
    basic_allowed [hi; u] = false /\ candidates [blk; e] [hi; u] = [e] /\
    result_cosmetic_option (new_matching_result [blk; e] [hi; u]) = CosJS /\
    result_cosmetic_option (new_matching_result [blk; e] [u; hi]) = CosJS /\
    result_cosmetic_option (new_matching_result [e; blk] [hi]) = CosAll.
Proof. do 4 eexists. repeat split; vm_compute; reflexivity. Qed.
