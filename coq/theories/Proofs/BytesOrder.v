(* bytes_cmp is a total order; insertion sort yields sorted lists; sorted search lemmas. *)
From Coq Require Import List Arith NArith ZArith Bool Lia Sorting.Sorted Permutation.
From Coq Require Import Strings.Byte.
From UF Require Import Base.Lit Base.Bytes Proofs.EqLemmas.
Import ListNotations.

Lemma b2n_inj a b : b2n a = b2n b -> a = b.
Proof. intro H. apply beq_eq. unfold beq. now apply N.eqb_eq. Qed.

Lemma bytes_cmp_eq a : forall b, bytes_cmp a b = Eq <-> a = b.
Proof.
  induction a as [|x a IH]; destruct b as [|y b]; cbn; try (split; [discriminate|congruence]); try tauto.
  destruct (N.compare_spec (b2n x) (b2n y)) as [E|E|E].
  - apply b2n_inj in E. subst. rewrite IH. split; congruence.
  - split; [discriminate|]. intro H; inversion H; subst. lia.
  - split; [discriminate|]. intro H; inversion H; subst. lia.
Qed.
Lemma bytes_cmp_refl a : bytes_cmp a a = Eq. Proof. now apply bytes_cmp_eq. Qed.

Lemma bytes_cmp_antisym a : forall b, bytes_cmp b a = CompOpp (bytes_cmp a b).
Proof.
  induction a as [|x a IH]; destruct b as [|y b]; cbn; try reflexivity.
  rewrite (N.compare_antisym (b2n x) (b2n y)).
  destruct (N.compare (b2n x) (b2n y)); cbn; auto.
Qed.

Lemma bytes_cmp_lt_trans a : forall b c, bytes_cmp a b = Lt -> bytes_cmp b c = Lt -> bytes_cmp a c = Lt.
Proof.
  induction a as [|x a IH]; destruct b as [|y b], c as [|z c]; cbn; try congruence; try discriminate.
  destruct (N.compare_spec (b2n x) (b2n y)) as [E1|E1|E1]; try discriminate;
  destruct (N.compare_spec (b2n y) (b2n z)) as [E2|E2|E2]; try discriminate; intros H1 H2.
  - apply b2n_inj in E1, E2. subst. rewrite N.compare_refl. eapply IH; eauto.
  - rewrite E1. now apply N.compare_lt_iff in E2 as ->.
  - rewrite <- E2. now apply N.compare_lt_iff in E1 as ->.
  - assert (b2n x < b2n z)%N by lia. now apply N.compare_lt_iff in H as ->.
Qed.

Definition ble (a b : bytes) : Prop := bytes_leb a b = true.
Lemma ble_iff a b : ble a b <-> bytes_cmp a b <> Gt.
Proof. unfold ble, bytes_leb. destruct (bytes_cmp a b); split; congruence. Qed.
Lemma ble_refl a : ble a a.
Proof. apply ble_iff. rewrite bytes_cmp_refl. discriminate. Qed.
Lemma ble_total a b : ble a b \/ ble b a.
Proof.
  rewrite !ble_iff, (bytes_cmp_antisym a b). destruct (bytes_cmp a b); cbn; [left|left|right]; discriminate.
Qed.
Lemma ble_trans a b c : ble a b -> ble b c -> ble a c.
Proof.
  rewrite !ble_iff. intros H1 H2.
  destruct (bytes_cmp a b) eqn:E1; [|clear H1|congruence].
  - apply bytes_cmp_eq in E1. now subst.
  - destruct (bytes_cmp b c) eqn:E2; [|clear H2|congruence].
    + apply bytes_cmp_eq in E2. subst. rewrite E1. discriminate.
    + rewrite (bytes_cmp_lt_trans _ _ _ E1 E2). discriminate.
Qed.
Lemma ble_antisym a b : ble a b -> ble b a -> a = b.
Proof.
  rewrite !ble_iff, (bytes_cmp_antisym a b). destruct (bytes_cmp a b) eqn:E; cbn; try congruence.
  intros _ _. now apply bytes_cmp_eq.
Qed.
Lemma not_ble a b : bytes_leb a b = false -> ble b a.
Proof. intro H. destruct (ble_total a b) as [H'|H']; [unfold ble in H'; congruence | assumption]. Qed.

(* ---- generic insertion sort facts ---- *)
Section Sort.
  Context {A : Type} (le : A -> A -> bool).
  Hypothesis le_total : forall a b, le a b = true \/ le b a = true.
  Hypothesis le_trans : forall a b c, le a b = true -> le b c = true -> le a c = true.
  Let R a b := le a b = true.

  Lemma insert_perm x l : Permutation (x :: l) (insert_sorted le x l).
  Proof.
    induction l as [|y l IH]; cbn; [apply Permutation_refl|].
    destruct (le x y); [apply Permutation_refl|].
    eapply Permutation_trans; [apply perm_swap|]. now constructor.
  Qed.
  Lemma sort_perm l : Permutation l (sort_by le l).
  Proof.
    induction l as [|x l IH]; cbn; [constructor|].
    eapply Permutation_trans; [|apply insert_perm]. now constructor.
  Qed.

  Lemma insert_sorted_ok x l : StronglySorted R l -> StronglySorted R (insert_sorted le x l).
  Proof.
    induction 1 as [|y l Hs IH Hall]; cbn.
    - constructor; constructor.
    - destruct (le x y) eqn:E.
      + constructor; [constructor; assumption|]. constructor; [exact E|].
        eapply Forall_impl; [|exact Hall]. intros z Hz. eapply le_trans; eauto.
      + constructor; [exact IH|].
        assert (Hyx : R y x) by (destruct (le_total x y) as [H'|H']; [congruence | exact H']).
        eapply Permutation_Forall; [apply insert_perm|]. constructor; assumption.
  Qed.
  Lemma sort_sorted l : StronglySorted R (sort_by le l).
  Proof. induction l as [|x l IH]; cbn; [constructor | now apply insert_sorted_ok]. Qed.

  (* a sorted list is determined by its elements (for an antisymmetric order) *)
  Hypothesis le_antisym : forall a b, le a b = true -> le b a = true -> a = b.
  Lemma sorted_perm_eq l : forall l', StronglySorted R l -> StronglySorted R l' -> Permutation l l' -> l = l'.
  Proof.
    induction l as [|x l IH]; intros l' Hs Hs' Hp.
    - apply Permutation_nil in Hp. now subst.
    - destruct l' as [|y l']; [apply Permutation_sym, Permutation_nil in Hp; discriminate|].
      inversion Hs as [|? ? Hs1 Hall1]; inversion Hs' as [|? ? Hs2 Hall2]; subst.
      assert (x = y).
      { assert (Hx : In x (y :: l')) by (eapply Permutation_in; [exact Hp | now left]).
        assert (Hy : In y (x :: l)) by (eapply Permutation_in; [apply Permutation_sym; exact Hp | now left]).
        destruct Hx as [->|Hx]; [reflexivity|]. destruct Hy as [->|Hy]; [reflexivity|].
        rewrite Forall_forall in Hall1, Hall2. apply le_antisym; [now apply Hall1 | now apply Hall2]. }
      subst y. f_equal. apply IH; auto. eapply Permutation_cons_inv; eauto.
  Qed.
  Theorem sort_canonical l l' : Permutation l l' -> sort_by le l = sort_by le l'.
  Proof.
    intro H. apply sorted_perm_eq; try apply sort_sorted.
    eapply Permutation_trans; [apply Permutation_sym, sort_perm|].
    eapply Permutation_trans; [exact H | apply sort_perm].
  Qed.
End Sort.

Definition sorted_bytes (l : list bytes) : Prop := StronglySorted ble l.
Lemma sort_bytes_sorted l : sorted_bytes (sort_by bytes_leb l).
Proof. apply (sort_sorted bytes_leb ble_total ble_trans). Qed.
