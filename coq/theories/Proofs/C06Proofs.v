(* C06: the verdict follows the documented precedence, whatever the rule order. *)
From Coq Require Import List Arith NArith ZArith Bool Lia Permutation.
From UF Require Import Base.Lit Base.Bytes Model.Options Model.DNSRewrite Model.NetRule Model.Result
  Proofs.EqLemmas Proofs.C07Proofs Proofs.C08Proofs Proofs.C09Proofs.
Import ListNotations.

Inductive verdict := VNone | VBlock | VAllow.
Definition verdict_of (o : option net_rule) : verdict :=
  match o with None => VNone | Some r => if nr_whitelist r then VAllow else VBlock end.

(* ---- order-free specification ---- *)
Definition eff (rs : list net_rule) : list net_rule := remove_dnsrewrite (remove_badfilter rs).

Definition is_cookie r := is_opt_enabled r OptCookie.
Definition is_replace r := is_opt_enabled r OptReplace.
Definition is_csp r := is_opt_enabled r OptCsp.
Definition is_stealth r := is_opt_enabled r OptStealth.
Definition special (r : net_rule) : bool := is_cookie r || is_replace r || is_csp r || is_stealth r.

Definition basic_allowed (src : list net_rule) : bool :=
  negb (existsb (fun r => is_document_whitelist r && is_opt_enabled r OptUrlblock) (eff src)).
Definition generic_allowed (src : list net_rule) : bool :=
  negb (existsb (fun r => is_document_whitelist r && is_opt_enabled r OptGenericblock) (eff src)).

(* the rules that compete for the basic result *)
Definition candidate (src : list net_rule) (r : net_rule) : bool :=
  negb (special r) &&
  (nr_whitelist r || (basic_allowed src && (generic_allowed src || negb (is_generic r)))).
Definition candidates (rs src : list net_rule) : list net_rule := filter (candidate src) (eff rs).

Definition max_cls (l : list net_rule) : option nat :=
  fold_right (fun r acc => match acc with None => Some (cls r) | Some m => Some (Nat.max (cls r) m) end) None l.

(* class 3 = important exception, 2 = important block, 1 = exception, 0 = block *)
Definition verdict_of_cls (c : nat) : verdict := if Nat.odd c then VAllow else VBlock.

Definition has_replace (rs : list net_rule) : bool :=
  existsb (fun r => negb (is_cookie r) && is_replace r) (eff rs).

Definition spec_web_verdict (rs src : list net_rule) : verdict :=
  if has_replace rs then VNone else
  match max_cls (candidates rs src) with
  | Some c => verdict_of_cls c
  | None => if existsb is_document_whitelist (eff src) then VAllow else VNone
  end.

Definition dns_candidates (rs : list net_rule) : list net_rule :=
  filter (fun r => negb (is_cookie r || is_csp r || is_stealth r)) (eff rs).
Definition spec_dns_verdict (rs : list net_rule) : verdict :=
  if existsb is_replace (eff rs) then VNone else
  match max_cls (dns_candidates rs) with Some c => verdict_of_cls c | None => VNone end.

(* ---- the scan computes the selection over the filtered candidates ---- *)
Lemma fold_pick_filter (P : net_rule -> bool) l : forall cur,
  fold_left (fun d r => if P r then pick_higher d r else d) l cur = fold_left pick_higher (filter P l) cur.
Proof.
  induction l as [|r l IH]; intro cur; [reflexivity|]. cbn [fold_left filter].
  destruct (P r); cbn [fold_left]; apply IH.
Qed.

(* projections of the second loop of NewMatchingResult *)
Section SecondLoop.
  Variables (ba ga : bool).
  Definition step2 (m : matching_result) (rule : net_rule) : matching_result :=
    if is_opt_enabled rule OptCookie then
      {| mr_basic := mr_basic m; mr_document := mr_document m; mr_stealth := mr_stealth m;
         mr_csp := mr_csp m; mr_cookie := mr_cookie m ++ [rule]; mr_replace := mr_replace m |}
    else if is_opt_enabled rule OptReplace then
      {| mr_basic := mr_basic m; mr_document := mr_document m; mr_stealth := mr_stealth m;
         mr_csp := mr_csp m; mr_cookie := mr_cookie m; mr_replace := mr_replace m ++ [rule] |}
    else if is_opt_enabled rule OptCsp then
      {| mr_basic := mr_basic m; mr_document := mr_document m; mr_stealth := mr_stealth m;
         mr_csp := mr_csp m ++ [rule]; mr_cookie := mr_cookie m; mr_replace := mr_replace m |}
    else if is_opt_enabled rule OptStealth then
      {| mr_basic := mr_basic m; mr_document := mr_document m; mr_stealth := Some rule;
         mr_csp := mr_csp m; mr_cookie := mr_cookie m; mr_replace := mr_replace m |}
    else if negb (nr_whitelist rule) && (negb ba || (negb ga && is_generic rule)) then m
    else
      {| mr_basic := pick_higher (mr_basic m) rule; mr_document := mr_document m; mr_stealth := mr_stealth m;
         mr_csp := mr_csp m; mr_cookie := mr_cookie m; mr_replace := mr_replace m |}.

  Definition cand2 (r : net_rule) : bool :=
    negb (special r) && (nr_whitelist r || (ba && (ga || negb (is_generic r)))).

  Lemma step2_basic m r : mr_basic (step2 m r) = if cand2 r then pick_higher (mr_basic m) r else mr_basic m.
  Proof.
    unfold step2, cand2, special, is_cookie, is_replace, is_csp, is_stealth.
    destruct (is_opt_enabled r OptCookie); [reflexivity|].
    destruct (is_opt_enabled r OptReplace); [reflexivity|].
    destruct (is_opt_enabled r OptCsp); [reflexivity|].
    destruct (is_opt_enabled r OptStealth); [reflexivity|].
    destruct (nr_whitelist r), ba, ga, (is_generic r); reflexivity.
  Qed.
  Lemma step2_document m r : mr_document (step2 m r) = mr_document m.
  Proof.
    unfold step2. repeat match goal with |- context [if ?b then _ else _] => destruct b end; reflexivity.
  Qed.
  Lemma step2_replace m r : mr_replace (step2 m r) =
    if negb (is_cookie r) && is_replace r then mr_replace m ++ [r] else mr_replace m.
  Proof.
    unfold step2, is_cookie, is_replace.
    destruct (is_opt_enabled r OptCookie); [reflexivity|].
    destruct (is_opt_enabled r OptReplace); [reflexivity|].
    cbn [negb andb]. repeat match goal with |- context [if ?b then _ else _] => destruct b end; reflexivity.
  Qed.

  Lemma fold2_basic l : forall m,
    mr_basic (fold_left step2 l m) = fold_left pick_higher (filter cand2 l) (mr_basic m).
  Proof.
    induction l as [|r l IH]; intro m; [reflexivity|]. cbn [fold_left filter]. rewrite IH, step2_basic.
    destruct (cand2 r); reflexivity.
  Qed.
  Lemma fold2_document l : forall m, mr_document (fold_left step2 l m) = mr_document m.
  Proof. induction l as [|r l IH]; intro m; [reflexivity|]. cbn [fold_left]. now rewrite IH, step2_document. Qed.
  Lemma fold2_replace_nil l : forall m,
    isnil (mr_replace (fold_left step2 l m)) =
    isnil (mr_replace m) && negb (existsb (fun r => negb (is_cookie r) && is_replace r) l).
  Proof.
    induction l as [|r l IH]; intro m; cbn [fold_left existsb].
    - now rewrite andb_true_r.
    - rewrite IH, step2_replace. destruct (negb (is_cookie r) && is_replace r); cbn [orb negb].
      + destruct (mr_replace m); cbn; now rewrite ?andb_false_r.
      + reflexivity.
  Qed.
End SecondLoop.

Lemma new_matching_result_unfold rs src :
  new_matching_result rs src =
  fold_left (step2 (basic_allowed src) (generic_allowed src)) (eff rs)
    {| mr_basic := None;
       mr_document := fold_left (fun d r => if is_document_whitelist r then pick_higher d r else d) (eff src) None;
       mr_stealth := fold_left (fun s r => if is_opt_enabled r OptStealth then Some r else s) (eff src) None;
       mr_csp := []; mr_cookie := []; mr_replace := [] |}.
Proof. reflexivity. Qed.

Lemma basic_is_select rs src :
  mr_basic (new_matching_result rs src) = select (candidates rs src).
Proof. rewrite new_matching_result_unfold, fold2_basic. reflexivity. Qed.
Lemma document_is_select rs src :
  mr_document (new_matching_result rs src) = select (filter is_document_whitelist (eff src)).
Proof. rewrite new_matching_result_unfold, fold2_document. cbn [mr_document]. apply fold_pick_filter. Qed.
Lemma replace_nil rs src :
  isnil (mr_replace (new_matching_result rs src)) = negb (has_replace rs).
Proof. rewrite new_matching_result_unfold, fold2_replace_nil. reflexivity. Qed.

(* ---- the winner's class is the maximal class ---- *)
Lemma cls_le_key_hi a b : key_hi a <= key_hi b -> cls a <= cls b.
Proof.
  unfold key_hi. intro H.
  destruct (is_opt_enabled a OptRedirect), (is_generic a), (is_opt_enabled b OptRedirect), (is_generic b); lia.
Qed.
Lemma not_higher_cls x w : is_higher_priority x w = false -> cls x <= cls w.
Proof.
  intro H. apply cls_le_key_hi. apply not_true_iff_false in H. rewrite key_characterises in H.
  unfold lex_lt, key in H. cbn [fst snd] in H. lia.
Qed.

Lemma max_cls_spec l : forall m, max_cls l = Some m <->
  (exists w, In w l /\ cls w = m) /\ forall x, In x l -> cls x <= m.
Proof.
  induction l as [|r l IH]; intro m; cbn [max_cls fold_right].
  - split; [discriminate|]. intros [(w & [] & _) _].
  - fold (max_cls l). destruct (max_cls l) as [m'|] eqn:E.
    + destruct (proj1 (IH m') eq_refl) as [(w & Hw & Hc) Hall]. subst m'. split.
      * intro H; inversion H; subst m; clear H. split.
        -- destruct (Nat.max_spec (cls r) (cls w)) as [[_ Hm]|[_ Hm]]; rewrite Hm.
           ++ exists w. split; [now right | reflexivity].
           ++ exists r. split; [now left | reflexivity].
        -- intros x [->|Hx]; [lia|]. specialize (Hall x Hx). lia.
      * intros [(w' & Hw' & Hc') Hall']. f_equal.
        assert (cls r <= m) by (apply Hall'; now left).
        assert (cls w <= m) by (apply Hall'; now right).
        destruct Hw' as [->|Hw']; [lia|]. specialize (Hall w' Hw'). lia.
    + assert (Hl : l = []).
      { destruct l as [|y l']; [reflexivity|]. cbn [max_cls fold_right] in E. destruct (fold_right _ None l'); discriminate. }
      subst l. split.
      * intro H; inversion H; subst. split; [exists r; split; [now left|reflexivity]|]. intros x [->|[]]. lia.
      * intros [(w & [->|[]] & Hc) _]. now subst.
Qed.

Lemma max_cls_none l : max_cls l = None <-> l = [].
Proof.
  destruct l as [|r l]; cbn; [tauto|]. split; [|discriminate].
  destruct (fold_right _ None l); discriminate.
Qed.

Lemma select_none l : select l = None <-> l = [].
Proof.
  destruct l as [|r l]; [cbn; tauto|]. split; [|discriminate]. unfold select. cbn [fold_left pick_higher].
  destruct (fold_pick_some l r) as [w Hw]. rewrite Hw. discriminate.
Qed.

Lemma select_cls l w : select l = Some w -> max_cls l = Some (cls w).
Proof.
  intro H. apply select_maximal in H as [Hin Hmax]. apply max_cls_spec. split.
  - exists w. auto.
  - intros x Hx. apply not_higher_cls. now apply Hmax.
Qed.

Lemma verdict_of_cls_spec w : verdict_of (Some w) = verdict_of_cls (cls w).
Proof. unfold verdict_of, verdict_of_cls, cls. destruct (nr_whitelist w), (is_opt_enabled w OptImportant); reflexivity. Qed.

(* ---- main theorems ---- *)
Theorem web_verdict rs src :
  verdict_of (get_basic_result (new_matching_result rs src)) = spec_web_verdict rs src.
Proof.
  unfold get_basic_result, spec_web_verdict. rewrite replace_nil, negb_involutive.
  destruct (has_replace rs); [reflexivity|].
  rewrite basic_is_select, document_is_select.
  destruct (select (candidates rs src)) as [w|] eqn:E.
  - rewrite (select_cls _ _ E). apply verdict_of_cls_spec.
  - apply select_none in E. rewrite E. cbn [max_cls fold_right].
    destruct (select (filter is_document_whitelist (eff src))) as [d|] eqn:Ed.
    + apply select_maximal in Ed as [Hin _]. apply filter_In in Hin as [Hin Hd].
      replace (existsb is_document_whitelist (eff src)) with true
        by (symmetry; apply existsb_exists; eauto).
      unfold verdict_of. unfold is_document_whitelist in Hd. apply andb_prop in Hd as [-> _]. reflexivity.
    + apply select_none in Ed.
      replace (existsb is_document_whitelist (eff src)) with false; [reflexivity|].
      symmetry. apply not_true_is_false. intro Hc. apply existsb_exists in Hc as (x & Hx & Hd).
      assert (In x (filter is_document_whitelist (eff src))) by (apply filter_In; auto).
      rewrite Ed in H. destruct H.
Qed.

Lemma dns_loop_spec l : forall cur,
  dns_basic_loop l cur =
  if existsb is_replace l then None
  else fold_left pick_higher (filter (fun r => negb (is_cookie r || is_csp r || is_stealth r)) l) cur.
Proof.
  induction l as [|r l IH]; intro cur; [reflexivity|]. cbn [dns_basic_loop existsb filter].
  unfold is_replace at 1. destruct (is_opt_enabled r OptReplace); [reflexivity|]. cbn [orb].
  unfold is_cookie, is_csp, is_stealth.
  destruct (is_opt_enabled r OptCookie || is_opt_enabled r OptCsp || is_opt_enabled r OptStealth); cbn [negb fold_left]; apply IH.
Qed.

Theorem dns_verdict rs : verdict_of (get_dns_basic_rule rs) = spec_dns_verdict rs.
Proof.
  unfold get_dns_basic_rule, spec_dns_verdict. rewrite dns_loop_spec. fold (eff rs).
  destruct (existsb is_replace (eff rs)); [reflexivity|].
  fold (dns_candidates rs). fold (select (dns_candidates rs)).
  destruct (select (dns_candidates rs)) as [w|] eqn:E.
  - rewrite (select_cls _ _ E). apply verdict_of_cls_spec.
  - apply select_none in E. now rewrite E.
Qed.

(* rewrite rules, rules disabled by badfilter and special-purpose rules never become the result *)
Theorem basic_never_special rs src b : get_basic_result (new_matching_result rs src) = Some b ->
  (In b (candidates rs src) \/ (In b (eff src) /\ is_document_whitelist b = true)) .
Proof.
  unfold get_basic_result. destruct (negb _); [discriminate|].
  rewrite basic_is_select, document_is_select.
  destruct (select (candidates rs src)) as [w|] eqn:E.
  - intro H; inversion H; subst. left. now apply select_maximal in E as [Hin _].
  - intro H. right. apply select_maximal in H as [Hin _]. now apply filter_In in Hin.
Qed.
Lemma in_eff rs r : In r (eff rs) -> In r rs /\ nr_dnsrewrite r = None /\ is_bad r = false
  /\ forall b, In b rs -> is_bad b = true -> ~ twin b r.
Proof.
  unfold eff, remove_dnsrewrite. rewrite filter_In. intros [H Hd]. apply effective_iff in H as (H1 & H2 & H3).
  repeat split; auto. destruct (nr_dnsrewrite r); [discriminate|reflexivity].
Qed.
Theorem candidate_properties rs src b : In b (candidates rs src) ->
  In b rs /\ nr_dnsrewrite b = None /\ is_bad b = false /\ special b = false
  /\ (forall bf, In bf rs -> is_bad bf = true -> ~ twin bf b).
Proof.
  unfold candidates. rewrite filter_In. intros [H Hc]. apply in_eff in H as (H1 & H2 & H3 & H4).
  unfold candidate in Hc. apply andb_prop in Hc as [Hs _]. apply negb_true_iff in Hs. tauto.
Qed.

(* ---- independence of the rule order and of the split into lists ---- *)
Lemma disabled_in_perm l l' r : Permutation l l' -> disabled_in l r = disabled_in l' r.
Proof. intro H. unfold disabled_in. now apply existsb_perm. Qed.

Lemma filter_perm {A} (f : A -> bool) l l' : Permutation l l' -> Permutation (filter f l) (filter f l').
Proof.
  induction 1; cbn.
  - constructor.
  - destruct (f x); [now constructor | assumption].
  - destruct (f x), (f y); try apply perm_swap; try constructor; apply Permutation_refl.
  - eapply Permutation_trans; eauto.
Qed.

Lemma eff_perm l l' : Permutation l l' -> Permutation (eff l) (eff l').
Proof.
  intro H. unfold eff, remove_dnsrewrite. apply filter_perm.
  rewrite !remove_badfilter_spec. unfold spec_effective.
  rewrite (filter_ext _ (fun r => negb (is_bad r) && negb (disabled_in l' r)))
    by (intro r; now rewrite (disabled_in_perm l l' r H)).
  now apply filter_perm.
Qed.

Lemma max_cls_perm l l' : Permutation l l' -> max_cls l = max_cls l'.
Proof.
  intro H. destruct (max_cls l) as [m|] eqn:E.
  - symmetry. apply max_cls_spec. apply max_cls_spec in E as [(w & Hw & Hc) Hall]. split.
    + exists w. split; [eapply Permutation_in; eauto | assumption].
    + intros x Hx. apply Hall. eapply Permutation_in; [apply Permutation_sym|]; eauto.
  - apply max_cls_none in E. subst. apply Permutation_nil in H. subst. reflexivity.
Qed.

Theorem web_verdict_perm rs rs' src src' : Permutation rs rs' -> Permutation src src' ->
  spec_web_verdict rs src = spec_web_verdict rs' src'.
Proof.
  intros Hr Hs. unfold spec_web_verdict, has_replace, candidates.
  pose proof (eff_perm _ _ Hr) as Er. pose proof (eff_perm _ _ Hs) as Es.
  rewrite (existsb_perm _ _ _ Er).
  assert (Hc : forall r, candidate src r = candidate src' r).
  { intro r. unfold candidate, basic_allowed, generic_allowed.
    now rewrite (existsb_perm _ _ _ Es), (existsb_perm (fun r0 => is_document_whitelist r0 && is_opt_enabled r0 OptGenericblock) _ _ Es). }
  rewrite (filter_ext _ _ Hc (eff rs)).
  rewrite (max_cls_perm _ _ (filter_perm (candidate src') _ _ Er)).
  now rewrite (existsb_perm _ _ _ Es).
Qed.

Corollary web_perm rs rs' src src' : Permutation rs rs' -> Permutation src src' ->
  verdict_of (get_basic_result (new_matching_result rs src)) =
  verdict_of (get_basic_result (new_matching_result rs' src')).
Proof. intros. rewrite !web_verdict. now apply web_verdict_perm. Qed.

Theorem dns_perm rs rs' : Permutation rs rs' ->
  verdict_of (get_dns_basic_rule rs) = verdict_of (get_dns_basic_rule rs').
Proof.
  intro H. rewrite !dns_verdict. unfold spec_dns_verdict, dns_candidates.
  pose proof (eff_perm _ _ H) as E. rewrite (existsb_perm _ _ _ E).
  now rewrite (max_cls_perm _ _ (filter_perm _ _ _ E)).
Qed.

(* splitting the rules across lists only permutes the matched rules *)
Corollary web_split a b src :
  verdict_of (get_basic_result (new_matching_result (a ++ b) src)) =
  verdict_of (get_basic_result (new_matching_result (b ++ a) src)).
Proof. apply web_perm; [apply Permutation_app_comm | apply Permutation_refl]. Qed.

(* ---- the precedence itself ---- *)
(* a referrer-level urlblock exception suppresses every blocking rule *)
Theorem urlblock_suppresses_blocking rs src d :
  In d (eff src) -> is_document_whitelist d = true -> is_opt_enabled d OptUrlblock = true ->
  spec_web_verdict rs src <> VBlock.
Proof.
  intros Hd Hdoc Hu. unfold spec_web_verdict. destruct (has_replace rs); [discriminate|].
  assert (Hba : basic_allowed src = false).
  { unfold basic_allowed. apply negb_false_iff, existsb_exists. exists d. now rewrite Hdoc, Hu. }
  destruct (max_cls (candidates rs src)) as [c|] eqn:E.
  - apply max_cls_spec in E as [(w & Hw & Hc) _]. unfold candidates in Hw. apply filter_In in Hw as [_ Hcand].
    unfold candidate in Hcand. rewrite Hba in Hcand. cbn [andb orb] in Hcand. rewrite orb_false_r in Hcand.
    apply andb_prop in Hcand as [_ Hwl]. subst c. unfold verdict_of_cls, cls. rewrite Hwl.
    destruct (is_opt_enabled w OptImportant); discriminate.
  - replace (existsb is_document_whitelist (eff src)) with true; [discriminate|].
    symmetry. apply existsb_exists. eauto.
Qed.

(* important exception > important block > exception > block *)
Theorem precedence rs src w : has_replace rs = false -> In w (candidates rs src) ->
  (forall x, In x (candidates rs src) -> cls x <= cls w) ->
  spec_web_verdict rs src = verdict_of_cls (cls w).
Proof.
  intros Hr Hw Hmax. unfold spec_web_verdict. rewrite Hr.
  replace (max_cls (candidates rs src)) with (Some (cls w)); [reflexivity|].
  symmetry. apply max_cls_spec. split; [exists w; auto | assumption].
Qed.

(* non-vacuity: the F10 shape — the referrer is matched by a $genericblock and a $urlblock exception *)
Example ex_two_document_rules :
  exists blk g u, new_network_rule $"||ads.org^$domain=a.org" 1%Z = Ok blk /\
    new_network_rule $"@@||a.org^$genericblock,important" 1%Z = Ok g /\
    new_network_rule $"@@||a.org^$urlblock" 1%Z = Ok u /\
    verdict_of (get_basic_result (new_matching_result [blk] [g; u])) = VAllow /\
    verdict_of (get_basic_result (new_matching_result [blk] [u; g])) = VAllow /\
    verdict_of (get_basic_result (new_matching_result [blk] [g])) = VBlock.
Proof. do 3 eexists. repeat split; vm_compute; reflexivity. Qed.
