(* C03 (semantic half): the regular expression a basic pattern compiles to accepts exactly the
   documented mask language, stated without regular expressions. *)
From Coq Require Import List Arith NArith Bool Lia.
From Coq Require Import Strings.Byte.
From UF Require Import Base.Lit Base.Bytes Model.Regex Model.Mask Proofs.EqLemmas Proofs.MaskTextProofs
  Proofs.MatcherProofs Proofs.ParseProofs.
Import ListNotations.

Section Sem.
Variable ci : bool.   (* true unless $match-case *)
Notation M := (M ci).

(* ---------- inversion lemmas for the relational semantics ---------- *)
Lemma M_cat_nil_inv prev s rest : M (RCat []) prev s rest <-> s = [].
Proof. split; [intro H; now inversion H | intros ->; constructor]. Qed.
Lemma M_cat_cons_inv r l prev s rest : M (RCat (r :: l)) prev s rest <->
  exists s1 s2, s = s1 ++ s2 /\ M r prev s1 (s2 ++ rest) /\ M (RCat l) (adv prev s1) s2 rest.
Proof.
  split.
  - intro H. inversion H; subst. eauto.
  - intros (s1 & s2 & -> & H1 & H2). now constructor.
Qed.
Lemma M_cat_app l1 : forall l2 prev s rest, M (RCat (l1 ++ l2)) prev s rest <->
  exists s1 s2, s = s1 ++ s2 /\ M (RCat l1) prev s1 (s2 ++ rest) /\ M (RCat l2) (adv prev s1) s2 rest.
Proof.
  induction l1 as [|r l1 IH]; intros l2 prev s rest; cbn [app].
  - split.
    + intro H. exists [], s. repeat split; [constructor | exact H].
    + intros (s1 & s2 & -> & H1 & H2). apply M_cat_nil_inv in H1. subst. exact H2.
  - rewrite M_cat_cons_inv. split.
    + intros (a & b & -> & Ha & Hb). apply IH in Hb. destruct Hb as (c & d & -> & Hc & Hd).
      exists (a ++ c), d. rewrite app_assoc. repeat split.
      * apply M_cat_cons_inv. exists a, c. repeat split; [now rewrite app_assoc | exact Hc].
      * now rewrite adv_app.
    + intros (s1 & s2 & -> & H1 & H2). apply M_cat_cons_inv in H1. destruct H1 as (a & c & -> & Ha & Hc).
      exists a, (c ++ s2). rewrite <- app_assoc. repeat split; [now rewrite <- app_assoc|].
      apply IH. exists c, s2. repeat split; [exact Hc | now rewrite adv_app in H2].
Qed.
Lemma M_alt_inv l prev s rest : M (RAlt l) prev s rest <-> exists r, In r l /\ M r prev s rest.
Proof.
  induction l as [|x l IH].
  - split; [intro H; inversion H | intros (r & [] & _)].
  - split.
    + intro H. inversion H; subst; [exists x; split; [now left | assumption]|].
      apply IH in H5. destruct H5 as (r & Hr & Hm). exists r. split; [now right | assumption].
    + intros (r & [->|Hr] & Hm); [now apply M_alt_hd | apply M_alt_tl, IH; eauto].
Qed.
Lemma M_opt_inv r prev s rest : M (ROpt r) prev s rest <-> M r prev s rest \/ s = [].
Proof.
  split.
  - intro H. inversion H; subst; auto.
  - intros [H| ->]; [now apply M_opt_some | apply M_opt_none].
Qed.
Lemma M_plus_inv r prev s rest : M (RPlus r) prev s rest <->
  exists s1 s2, s = s1 ++ s2 /\ M r prev s1 (s2 ++ rest) /\ M (RStar r) (adv prev s1) s2 rest.
Proof.
  split.
  - intro H. inversion H; subst. eauto.
  - intros (s1 & s2 & -> & H1 & H2). now constructor.
Qed.

(* expressions that consume exactly one byte satisfying a predicate *)
Definition one_byte (r : re) (P : byte -> bool) : Prop :=
  forall prev s rest, M r prev s rest <-> exists b, s = [b] /\ P b = true.

Lemma one_byte_cls neg rs : one_byte (RCls neg rs) (match_cls ci neg rs).
Proof.
  intros prev s rest. split.
  - intro H. inversion H; subst. eauto.
  - intros (b & -> & Hb). now constructor.
Qed.
Lemma one_byte_any : one_byte RAny (fun b => negb (beq b x0a)).
Proof.
  intros prev s rest. split.
  - intro H. inversion H; subst. exists c. split; [reflexivity | now apply negb_true_iff].
  - intros (b & -> & Hb). constructor. now apply negb_true_iff.
Qed.

Lemma M_star_one r P : one_byte r P -> forall prev s rest,
  M (RStar r) prev s rest <-> forallb P s = true.
Proof.
  intros Hr prev s rest. split.
  - intro H. remember (RStar r) as rs eqn:E. induction H; try discriminate E; inversion E; subst.
    + reflexivity.
    + apply Hr in H0. destruct H0 as (b & -> & Hb). cbn. rewrite Hb. now apply IHM2.
  - revert prev. induction s as [|b s IH]; intros prev H; [constructor|].
    cbn in H. apply andb_prop in H as [Hb Hs].
    change (b :: s) with ([b] ++ s). apply M_star_S; [discriminate | apply Hr; eauto | now apply IH].
Qed.
Lemma M_plus_one r P : one_byte r P -> forall prev s rest,
  M (RPlus r) prev s rest <-> s <> [] /\ forallb P s = true.
Proof.
  intros Hr prev s rest. rewrite M_plus_inv. split.
  - intros (s1 & s2 & -> & H1 & H2). apply Hr in H1. destruct H1 as (b & -> & Hb).
    apply (M_star_one r P Hr) in H2. split; [discriminate|]. cbn. now rewrite Hb.
  - intros [Hne H]. destruct s as [|b s]; [congruence|]. cbn in H. apply andb_prop in H as [Hb Hs].
    exists [b], s. repeat split; [apply Hr; eauto | now apply (M_star_one r P Hr)].
Qed.

(* a literal string: byte-wise comparison, up to ASCII case unless match-case *)
Definition lit_match (c b : byte) : bool := match_cls ci false [(c, c)] b.
Lemma lit_match_colon b : lit_match ":"%byte b = true -> b = ":"%byte.
Proof.
  unfold lit_match, match_cls. destruct b; cbn; rewrite ?andb_false_r, ?orb_false_r; intro H; try discriminate H; reflexivity.
Qed.
Lemma lit_match_slash b : lit_match "/"%byte b = true -> b = "/"%byte.
Proof.
  unfold lit_match, match_cls. destruct b; cbn; rewrite ?andb_false_r, ?orb_false_r; intro H; try discriminate H; reflexivity.
Qed.
Lemma lit_match_dot b : lit_match "."%byte b = true -> b = "."%byte.
Proof.
  unfold lit_match, match_cls. destruct b; cbn; rewrite ?andb_false_r, ?orb_false_r; intro H; try discriminate H; reflexivity.
Qed.
Fixpoint lits_match (w s : bytes) : bool :=
  match w, s with
  | [], [] => true
  | c :: w', b :: s' => lit_match c b && lits_match w' s'
  | _, _ => false
  end.
Lemma M_lits w : forall prev s rest, M (RCat (map lit w)) prev s rest <-> lits_match w s = true.
Proof.
  induction w as [|c w IH]; intros prev s rest; cbn [map].
  - rewrite M_cat_nil_inv. destruct s; cbn; split; congruence.
  - rewrite M_cat_cons_inv. split.
    + intros (s1 & s2 & -> & H1 & H2). apply one_byte_cls in H1. destruct H1 as (b & -> & Hb).
      apply IH in H2. cbn [app lits_match]. unfold lit_match. now rewrite Hb, H2.
    + destruct s as [|b s]; [discriminate|]. cbn [lits_match]. intro H. apply andb_prop in H as [Hb Hs].
      exists [b], s. repeat split; [apply one_byte_cls; eauto | now apply IH].
Qed.

(* ---------- the documented mask language ---------- *)
Definition sep_ranges : list (byte * byte) :=
  [(" "%byte, " "%byte); ("a"%byte, "z"%byte); ("A"%byte, "Z"%byte); ("0"%byte, "9"%byte);
   ("."%byte, "."%byte); ("%"%byte, "%"%byte); ("_"%byte, "_"%byte); ("-"%byte, "-"%byte)].
(* a separator: any byte but a letter, a digit, or one of  space . % _ -  *)
Definition is_separator (b : byte) : bool := match_cls ci true sep_ranges b.
Definition host_ranges : list (byte * byte) :=
  [("a"%byte, "z"%byte); ("0"%byte, "9"%byte); ("-"%byte, "-"%byte); ("_"%byte, "_"%byte); ("."%byte, "."%byte)].
Definition is_host_byte (b : byte) : bool := match_cls ci false host_ranges b.
Definition schemes : list bytes := [$"http"; $"https"; $"ws"; $"wss"].

(* what one token accepts: [s] is consumed, [prev] is the byte before it, [rest] follows *)
Definition tok_accepts (t : tok) (prev : option byte) (s rest : bytes) : Prop :=
  match t with
  | Lit c => exists b, s = [b] /\ lit_match c b = true
  | Star => forallb (fun b => negb (beq b x0a)) s = true            (* any string (within a line) *)
  | Sep => (exists b, s = [b] /\ is_separator b = true) \/ (s = [] /\ rest = [])
  | Eol => s = [] /\ rest = []
  | Bol => s = [] /\ prev = None
  | StartURL =>
      prev = None /\
      exists sch sub, s = sch ++ $"://" ++ sub /\
        (exists w, In w schemes /\ lits_match w sch = true) /\
        (sub = [] \/ exists lbl, sub = lbl ++ $"." /\ lbl <> [] /\ forallb is_host_byte lbl = true)
  end.

Fixpoint toks_accept (toks : list tok) (prev : option byte) (s rest : bytes) : Prop :=
  match toks with
  | [] => s = []
  | t :: toks' => exists s1 s2, s = s1 ++ s2 /\ tok_accepts t prev s1 (s2 ++ rest)
                                /\ toks_accept toks' (adv prev s1) s2 rest
  end.

(* ---------- per-token equivalence ---------- *)
Lemma SEP_RE_eq : SEP_RE = RAlt [RCat [RCls true sep_ranges]; RCat [REol]].
Proof. reflexivity. Qed.
Lemma STARTURL_RES_eq : STARTURL_RES =
  [RBol; RAlt (map (fun w => RCat (map lit w)) schemes)] ++ map lit $"://" ++
  [ROpt (RCat [RPlus (RCls false host_ranges); lit "."%byte])].
Proof. reflexivity. Qed.

Lemma M_single r prev s rest : M (RCat [r]) prev s rest <-> M r prev s rest.
Proof.
  rewrite M_cat_cons_inv. split.
  - intros (s1 & s2 & -> & H1 & H2). apply M_cat_nil_inv in H2. subst. now rewrite !app_nil_r in *.
  - intro H. exists s, []. rewrite app_nil_r. repeat split; [assumption | constructor].
Qed.

Lemma tok_equiv t prev s rest : M (RCat (re_of t)) prev s rest <-> tok_accepts t prev s rest.
Proof.
  destruct t as [| | | | |c]; cbn [re_of tok_accepts].
  - (* StartURL *)
    rewrite STARTURL_RES_eq. rewrite M_cat_app. split.
    + intros (s1 & s2 & -> & H1 & H2).
      apply M_cat_cons_inv in H1. destruct H1 as (a & b & -> & Ha & Hb). inversion Ha; subst. cbn [app adv fold_left] in *.
      apply (proj1 (M_single _ _ _ _)) in Hb. apply M_alt_inv in Hb. destruct Hb as (r & Hr & Hm). apply in_map_iff in Hr as (w & <- & Hw).
      apply M_lits in Hm.
      apply M_cat_app in H2. destruct H2 as (c & d & -> & Hc & Hd). apply M_lits in Hc.
      apply (proj1 (M_single _ _ _ _)) in Hd. apply M_opt_inv in Hd.
      assert (Ec : c = $"://").
      { change ($"://") with [":"%byte; "/"%byte; "/"%byte] in Hc.
        destruct c as [|c1 [|c2 [|c3 [|? ?]]]]; cbn [lits_match map] in Hc; rewrite ?andb_false_r in Hc; try discriminate Hc.
        apply andb_prop in Hc as [H1 Hc]. apply andb_prop in Hc as [H2 Hc]. apply andb_prop in Hc as [H3 _].
        apply lit_match_colon in H1. apply lit_match_slash in H2. apply lit_match_slash in H3. now subst. }
      subst c. split; [reflexivity|]. exists b, d. split; [reflexivity|]. split; [eauto|].
      destruct Hd as [Hd| ->]; [|now left]. right.
      apply M_cat_cons_inv in Hd. destruct Hd as (l & e & -> & Hl & He).
      apply (M_plus_one _ _ (one_byte_cls false host_ranges)) in Hl. destruct Hl as [Hne Hl].
      apply (proj1 (M_single _ _ _ _)) in He. apply one_byte_cls in He. destruct He as (x & -> & Hx).
      exists l. split; [|split; assumption]. f_equal.
      apply lit_match_dot in Hx. now subst.
    + intros (-> & sch & sub & -> & (w & Hw & Hsch) & Hsub).
      exists sch, ($"://" ++ sub). split; [reflexivity|]. split.
      * apply M_cat_cons_inv. exists [], sch. repeat split; [constructor|]. cbn [adv fold_left].
        apply M_single, M_alt_inv. exists (RCat (map lit w)). split; [apply (in_map (fun w => RCat (map lit w))); exact Hw | now apply M_lits].
      * apply M_cat_app. exists $"://", sub. repeat split; [now apply M_lits|].
        apply M_single, M_opt_inv. destruct Hsub as [->|(lbl & -> & Hne & Hl)]; [now right|]. left.
        apply M_cat_cons_inv. exists lbl, $".". repeat split.
        -- apply (M_plus_one _ _ (one_byte_cls false host_ranges)). split; assumption.
        -- apply M_single, one_byte_cls. exists "."%byte. split; [reflexivity|]. unfold match_cls. cbn. reflexivity.
  - (* Bol *) rewrite M_single. split; [intro H; inversion H; subst; split; reflexivity | intros [-> ->]; constructor].
  - (* Eol *) rewrite M_single. split; [intro H; inversion H; subst; split; reflexivity | intros [-> ->]; constructor].
  - (* Star *) rewrite M_single. apply (M_star_one RAny _ one_byte_any).
  - (* Sep *) rewrite M_single, SEP_RE_eq, M_alt_inv. split.
    + intros (r & [<-|[<-|[]]] & Hm).
      * left. apply (proj1 (M_single _ _ _ _)) in Hm. apply one_byte_cls in Hm. exact Hm.
      * right. apply (proj1 (M_single _ _ _ _)) in Hm. inversion Hm; subst; split; reflexivity.
    + intros [(b & -> & Hb) | [-> ->]].
      * exists (RCat [RCls true sep_ranges]). split; [now left|]. apply M_single, one_byte_cls. eauto.
      * exists (RCat [REol]). split; [right; now left|]. apply M_single. constructor.
  - (* Lit *) rewrite M_single. apply one_byte_cls.
Qed.

Lemma toks_equiv toks : forall prev s rest,
  M (RCat (flat_map re_of toks)) prev s rest <-> toks_accept toks prev s rest.
Proof.
  induction toks as [|t toks IH]; intros prev s rest; cbn [flat_map toks_accept].
  - apply M_cat_nil_inv.
  - rewrite M_cat_app. split.
    + intros (s1 & s2 & -> & H1 & H2). exists s1, s2. repeat split; [now apply tok_equiv | now apply IH].
    + intros (s1 & s2 & -> & H1 & H2). exists s1, s2. repeat split; [now apply tok_equiv | now apply IH].
Qed.
End Sem.

(* ---------- the main theorem of C03 ---------- *)
(* For every basic (non-regex) pattern p, with or without $match-case, and every subject u: the
   compiled matcher accepts u iff some substring of u is accepted by the token sequence of p under
   the documented mask semantics. *)
Theorem mask_language p mc u : is_early p = false -> is_regex_pat p = false ->
  match prepare_pattern p mc with
  | Ok PAny => True
  | Ok (PRe _ cr) =>
      match_string cr u = true <->
      exists pre mid post, u = pre ++ mid ++ post /\
        toks_accept (negb mc) (tokenize p) (adv None pre) mid post
  | _ => False
  end.
Proof.
  intros He Hr. rewrite (prepare_mask p mc He Hr). cbv zeta.
  destruct (bytes_eqb (emit (tokenize p)) ANY); [exact I|].
  unfold match_string. cbn [fst snd]. rewrite search_spec.
  split; intros (pre & mid & post & E & H); exists pre, mid, post; (split; [exact E|]); now apply toks_equiv.
Qed.

(* never a crash and never an invalid expression: every basic pattern compiles *)
Corollary mask_always_compiles p mc : is_early p = false -> is_regex_pat p = false ->
  exists pp, prepare_pattern p mc = Ok pp /\ pp <> PInvalid.
Proof.
  intros He Hr. rewrite (prepare_mask p mc He Hr). cbv zeta.
  destruct (bytes_eqb _ ANY); eexists; split; try reflexivity; discriminate.
Qed.

(* non-vacuity *)
Example ex_mask : exists t cr, prepare_pattern $"||example.org^" false = Ok (PRe t cr) /\
  match_string cr $"https://sub.example.org/x" = true /\ match_string cr $"https://notexample.org/" = false.
Proof. do 2 eexists. repeat split; vm_compute; reflexivity. Qed.
