(* C01: the network engine lookup (shortcut table, domains table, sequential table) is equivalent to a
   linear scan of all rules — for every hash function, every storage function, every rule list. *)
From Coq Require Import List Arith NArith ZArith Bool Lia.
From Coq Require Import Strings.Byte.
From UF Require Import Base.Lit Base.Bytes Model.Options Model.Netip Model.Domain Model.NetRule Model.Rule
  Model.Request Model.Match Model.Result Model.Engines Proofs.EqLemmas Proofs.StrLemmas Proofs.SplitLemmas Proofs.ParserInv.
Import ListNotations.

Lemma windows_eq s : windows s = windows_n shortcut_length s.
Proof. induction s as [|c s IH]; [reflexivity|]. cbn [windows windows_n]. now rewrite IH. Qed.

Lemma bucket_in {A} (tbl : list (N * A)) h x : In x (bucket tbl h) <-> In (h, x) tbl.
Proof.
  unfold bucket. rewrite in_map_iff. split.
  - intros ([k v] & <- & Hf). apply filter_In in Hf as [Hf Hk]. cbn [fst snd] in *. apply N.eqb_eq in Hk. now subst.
  - intro H. exists (h, x). split; [reflexivity|]. apply filter_In. split; [exact H | apply N.eqb_refl].
Qed.

Section C01.
Variable hash : bytes -> N.
Variable psl : bytes -> bytes * bool.

(* ---- construction ---- *)
Section Pick.
Variable hist : list (N * nat).
Definition pick_step (best : N * option nat) (w : bytes) : N * option nat :=
  let h := hash w in
  let c := hist_get hist h in
  match snd best with
  | Some m => if (c <? m)%nat then (h, Some c) else best
  | None => (h, Some c)
  end.
Lemma pick_fold_inv ws : forall best, snd best <> None ->
  let r := fold_left pick_step ws best in
  snd r <> None /\ (r = best \/ exists w, In w ws /\ fst r = hash w).
Proof.
  induction ws as [|w ws IH]; intros best Hb; cbn [fold_left]; [auto|].
  assert (Hs : snd (pick_step best w) <> None /\ (pick_step best w = best \/ fst (pick_step best w) = hash w)).
  { unfold pick_step. destruct (snd best) as [m|] eqn:E; [|congruence].
    destruct (_ <? m)%nat; cbn; [split; [discriminate | now right] | split; [congruence | now left]]. }
  destruct Hs as [Hs1 Hs2]. destruct (IH _ Hs1) as [H1 H2]. split; [exact H1|].
  destruct H2 as [H2|(w' & Hw' & H2)].
  - destruct Hs2 as [Hs2|Hs2]; [left; congruence | right; exists w; split; [now left | congruence]].
  - right. exists w'. split; [now right | exact H2].
Qed.
Lemma pick_window_in ws : ws <> [] -> exists w, In w ws /\ fst (pick_window hash hist ws) = hash w.
Proof.
  destruct ws as [|w0 ws]; [congruence|]. intros _. unfold pick_window. fold pick_step. cbn [fold_left fst].
  change (pick_step (0%N, None) w0) with (hash w0, Some (hist_get hist (hash w0))).
  destruct (pick_fold_inv ws (hash w0, Some (hist_get hist (hash w0)))) as [_ H]; [discriminate|].
  cbn zeta in H. destruct H as [->|(w & Hw & H)].
  - exists w0. split; [now left | reflexivity].
  - exists w. split; [now right | exact H].
Qed.
End Pick.

Definition no_wild (f : net_rule) : bool := negb (existsb (has_suffix $".*") (nr_pdomains f)).

(* where a rule is filed *)
Definition filed (e : net_engine) (f : net_rule) (idx : Z) : Prop :=
  match rule_shortcuts f with
  | _ :: _ => exists w, In w (rule_shortcuts f) /\ In (hash w, idx) (ne_shortcuts e)
  | [] => if negb (isnil (nr_pdomains f)) && no_wild f
          then forall d, In d (nr_pdomains f) -> In (hash d, idx) (ne_domains e)
          else exists f', In f' (ne_seq e) /\ nr_text f' = nr_text f
  end.
Definition ext (e e' : net_engine) : Prop :=
  incl (ne_shortcuts e) (ne_shortcuts e') /\ incl (ne_domains e) (ne_domains e') /\ incl (ne_seq e) (ne_seq e').
Lemma ext_refl e : ext e e. Proof. repeat split; apply incl_refl. Qed.
Lemma ext_trans a b c : ext a b -> ext b c -> ext a c.
Proof. intros (A1 & A2 & A3) (B1 & B2 & B3). repeat split; eapply incl_tran; eauto. Qed.
Lemma filed_ext e e' f idx : ext e e' -> filed e f idx -> filed e' f idx.
Proof.
  intros (E1 & E2 & E3). unfold filed. destruct (rule_shortcuts f).
  - destruct (_ && _).
    + intros H d Hd. apply E2. now apply H.
    + intros (f' & H1 & H2). exists f'. split; [now apply E3 | exact H2].
  - intros (w & H1 & H2). exists w. split; [exact H1 | now apply E1].
Qed.

Lemma add_ext e f idx : ext e (add_rule hash e f idx).
Proof.
  unfold add_rule. destruct (rule_shortcuts f) as [|w ws].
  - destruct (_ && _); [repeat split; cbn; try apply incl_refl; now apply incl_appl|].
    destruct (existsb _ (ne_seq e)); [apply ext_refl|]. repeat split; cbn; try apply incl_refl. now apply incl_appl.
  - destruct (pick_window hash (ne_hist e) (w :: ws)) as [h c]. repeat split; cbn; try apply incl_refl. now apply incl_appl.
Qed.

Lemma add_filed e f idx : filed (add_rule hash e f idx) f idx.
Proof.
  unfold add_rule, filed, no_wild. destruct (rule_shortcuts f) as [|w ws] eqn:Ers.
  - destruct (negb (isnil (nr_pdomains f)) && negb (existsb (has_suffix $".*") (nr_pdomains f))) eqn:Ed.
    + cbn [ne_domains]. intros d Hd. apply in_or_app. right. apply in_map_iff. now exists d.
    + destruct (existsb _ (ne_seq e)) eqn:Ex.
      * apply existsb_exists in Ex as (f' & H1 & H2). apply bytes_eqb_eq in H2. now exists f'.
      * exists f. split; [cbn; apply in_or_app; right; now left | reflexivity].
  - destruct (pick_window_in (ne_hist e) (w :: ws)) as (w' & Hw' & Hh); [discriminate|].
    destruct (pick_window hash (ne_hist e) (w :: ws)) as [h c]. cbn [fst] in Hh. subst h.
    exists w'. split; [exact Hw'|]. cbn. apply in_or_app. right. now left.
Qed.

Definition add_step (e : net_engine) (ri : net_rule * Z) : net_engine := add_rule hash e (fst ri) (snd ri).

Lemma fold_ext l : forall e, ext e (fold_left add_step l e).
Proof.
  induction l as [|ri l IH]; intro e; cbn [fold_left]; [apply ext_refl|].
  eapply ext_trans; [apply add_ext | apply IH].
Qed.
Lemma fold_filed l : forall e f idx, In (f, idx) l -> filed (fold_left add_step l e) f idx.
Proof.
  induction l as [|ri l IH]; intros e f idx; [intros []|]. cbn [fold_left]. intros [->|H].
  - eapply filed_ext; [apply fold_ext|]. apply add_filed.
  - now apply IH.
Qed.
Theorem build_filed rules f idx : In (f, idx) rules -> filed (build_net hash rules) f idx.
Proof. apply fold_filed. Qed.

(* every table entry comes from a rule of the list *)
Definition from (rules : list (net_rule * Z)) (e : net_engine) : Prop :=
  (forall h idx, In (h, idx) (ne_shortcuts e) -> exists f, In (f, idx) rules) /\
  (forall h idx, In (h, idx) (ne_domains e) -> exists f, In (f, idx) rules) /\
  (forall f, In f (ne_seq e) -> exists idx, In (f, idx) rules).
Lemma add_from rules e f idx : In (f, idx) rules -> from rules e -> from rules (add_rule hash e f idx).
Proof.
  intros Hin (F1 & F2 & F3). unfold add_rule. destruct (rule_shortcuts f) as [|w ws].
  - destruct (_ && _).
    + repeat split; cbn; auto. intros h i H. apply in_app_or in H as [H|H]; [eauto|].
      apply in_map_iff in H as (d & Hd & _). inversion Hd; subst. eauto.
    + destruct (existsb _ (ne_seq e)); [repeat split; auto|]. repeat split; cbn; auto.
      intros g H. apply in_app_or in H as [H|[<-|[]]]; eauto.
  - destruct (pick_window hash (ne_hist e) (w :: ws)) as [h c]. repeat split; cbn; auto.
    intros h' i H. apply in_app_or in H as [H|[H|[]]]; [eauto|]. inversion H; subst. eauto.
Qed.
Lemma fold_from rules l : forall e, incl l rules -> from rules e -> from rules (fold_left add_step l e).
Proof.
  induction l as [|[f idx] l IH]; intros e Hi He; cbn [fold_left]; [exact He|].
  apply IH; [intros x Hx; apply Hi; now right|]. apply add_from; [apply Hi; now left | exact He].
Qed.
Theorem build_from rules : from rules (build_net hash rules).
Proof. apply fold_from; [apply incl_refl|]. repeat split; cbn; intros; contradiction. Qed.

(* ---- lookup ---- *)
Variable retr : Z -> option net_rule.
Variable q : request.
Notation rm := (fun f => rmatch psl f q).

Definition sc_step (res : list (Z * net_rule)) (idx : Z) : list (Z * net_rule) :=
  match retr idx with
  | None => res
  | Some f => if existsb (fun x => Z.eqb (fst x) idx) res || negb (rmatch psl f q) then res else res ++ [(idx, f)]
  end.
Definition good (res : list (Z * net_rule)) : Prop :=
  forall x, In x res -> retr (fst x) = Some (snd x) /\ rmatch psl (snd x) q = true.

Lemma sc_step_mono res idx x : In x res -> In x (sc_step res idx).
Proof. unfold sc_step. destruct (retr idx); [|auto]. destruct (_ || _); [auto|]. intro. apply in_or_app. now left. Qed.
Lemma sc_step_sound res idx x : In x (sc_step res idx) ->
  In x res \/ (fst x = idx /\ retr idx = Some (snd x) /\ rmatch psl (snd x) q = true).
Proof.
  unfold sc_step. destruct (retr idx) as [f|] eqn:R; [|auto].
  destruct (existsb _ res || negb (rmatch psl f q)) eqn:E; [auto|].
  apply orb_false_iff in E as [_ E]. apply negb_false_iff in E.
  intro H. apply in_app_or in H as [H|[<-|[]]]; [now left|]. right. cbn. auto.
Qed.
Lemma sc_fold_mono l : forall res x, In x res -> In x (fold_left sc_step l res).
Proof. induction l as [|i l IH]; intros res x H; cbn [fold_left]; [exact H|]. apply IH. now apply sc_step_mono. Qed.
Lemma sc_fold_sound l : forall res x, In x (fold_left sc_step l res) ->
  In x res \/ (In (fst x) l /\ retr (fst x) = Some (snd x) /\ rmatch psl (snd x) q = true).
Proof.
  induction l as [|i l IH]; intros res x; cbn [fold_left]; [auto|]. intro H.
  apply IH in H as [H|(H1 & H2)]; [|right; split; [now right | exact H2]].
  apply sc_step_sound in H as [H|(H1 & H2 & H3)]; [now left|]. right. subst i. split; [now left | auto].
Qed.
Lemma sc_fold_good l res : good res -> good (fold_left sc_step l res).
Proof. intros G x Hx. apply sc_fold_sound in Hx as [Hx|(_ & H)]; [now apply G | exact H]. Qed.
Lemma sc_fold_complete l : forall res idx f, good res -> In idx l -> retr idx = Some f -> rmatch psl f q = true ->
  In (idx, f) (fold_left sc_step l res).
Proof.
  induction l as [|i l IH]; intros res idx f G; [intros []|]. cbn [fold_left]. intros [->|H] R M.
  - apply sc_fold_mono. unfold sc_step. rewrite R, M. cbn [negb]. rewrite orb_false_r.
    destruct (existsb _ res) eqn:E.
    + apply existsb_exists in E as ([i g] & Hx & Hi). cbn [fst] in Hi. apply Z.eqb_eq in Hi. subst i.
      destruct (G _ Hx) as [Hr _]. cbn [fst snd] in Hr. congruence.
    + apply in_or_app. right. now left.
  - apply IH; auto. intros x Hx. apply sc_step_sound in Hx as [Hx|(H1 & H2 & H3)]; [now apply G | subst i; auto].
Qed.

Variable tbl : list (N * Z).
Definition w_step (res : list (Z * net_rule)) (w : bytes) := fold_left sc_step (bucket tbl (hash w)) res.
Lemma w_fold_mono ws : forall res x, In x res -> In x (fold_left w_step ws res).
Proof. induction ws as [|w ws IH]; intros res x H; cbn [fold_left]; [exact H|]. apply IH. now apply sc_fold_mono. Qed.
Lemma w_fold_sound ws : forall res x, In x (fold_left w_step ws res) ->
  In x res \/ ((exists w, In w ws /\ In (hash w, fst x) tbl) /\ retr (fst x) = Some (snd x) /\ rmatch psl (snd x) q = true).
Proof.
  induction ws as [|w ws IH]; intros res x; cbn [fold_left]; [auto|]. intro H.
  apply IH in H as [H|((w' & H1 & H2) & H3)]; [|right; split; [exists w'; split; [now right | exact H2] | exact H3]].
  apply sc_fold_sound in H as [H|(H1 & H2)]; [now left|]. right. split; [|exact H2].
  exists w. split; [now left | now apply bucket_in].
Qed.
Lemma w_fold_good ws res : good res -> good (fold_left w_step ws res).
Proof. intros G x Hx. apply w_fold_sound in Hx as [Hx|(_ & H)]; [now apply G | exact H]. Qed.
Lemma w_fold_complete ws : forall res w idx f, good res -> In w ws -> In (hash w, idx) tbl ->
  retr idx = Some f -> rmatch psl f q = true -> In (idx, f) (fold_left w_step ws res).
Proof.
  induction ws as [|w0 ws IH]; intros res w idx f G; [intros []|]. cbn [fold_left]. intros [->|H] T R M.
  - apply w_fold_mono. apply sc_fold_complete; auto. now apply bucket_in.
  - apply (IH _ w); auto. now apply sc_fold_good.
Qed.
End C01.

Section Main.
Variable hash : bytes -> N.
Variable psl : bytes -> bytes * bool.
Variable retr : Z -> option net_rule.
Variable rules : list (net_rule * Z).
Let e := build_net hash rules.

Lemma match_shortcuts_eq q : match_shortcuts hash psl retr e q =
  fold_left (w_step hash psl retr q (ne_shortcuts e)) (windows (rq_url_lower q)) [].
Proof. reflexivity. Qed.

(* whatever the storage hands out for an index is a rule of the lists filed under that index *)
Definition retr_sound : Prop :=
  forall idx f, retr idx = Some f -> (exists f0, In (f0, idx) rules) -> In (f, idx) rules.
(* the storage is intact: every scanned rule can be retrieved by its index (C11) *)
Definition retr_complete : Prop := forall f idx, In (f, idx) rules -> retr idx = Some f.

(* ---- soundness: for ANY storage behaviour (including failing retrievals, C19) ---- *)
Theorem match_all_sound q f : retr_sound -> In f (match_all hash psl retr e q) ->
  rmatch psl f q = true /\ In f (map fst rules).
Proof.
  intros RS H. destruct (build_from hash rules) as (F1 & F2 & F3). fold e in F1, F2, F3.
  unfold match_all in H. apply in_app_or in H as [H|H]; [|apply in_app_or in H as [H|H]].
  - apply in_map_iff in H as ([idx g] & <- & H). cbn [snd]. rewrite match_shortcuts_eq in H.
    apply w_fold_sound in H as [[]|((w & _ & Hw) & R & M)]. cbn [fst snd] in *. split; [exact M|].
    apply in_map_iff. exists (g, idx). split; [reflexivity|]. apply RS; [exact R | eauto].
  - unfold match_domains in H. destruct (isnil (rq_source_hostname q)); [destruct H|].
    apply in_flat_map in H as (d & _ & H). apply in_flat_map in H as (idx & Hb & H).
    destruct (retr idx) as [g|] eqn:R; [|destruct H]. destruct (rmatch psl g q) eqn:M; [|destruct H].
    destruct H as [<-|[]]. split; [exact M|]. apply in_map_iff. exists (g, idx). split; [reflexivity|].
    apply RS; [exact R|]. apply bucket_in in Hb. eauto.
  - apply filter_In in H as [H M]. split; [exact M|].
    destruct (F3 _ H) as [idx Hi]. apply in_map_iff. now exists (f, idx).
Qed.

(* ---- completeness ---- *)
(* what the first conjunct of Match gives: the shortcut occurs in the lower-cased URL *)
Lemma rmatch_shortcut f q : rmatch psl f q = true -> contains (nr_shortcut f) (rq_url_lower q) = true.
Proof.
  unfold rmatch, rule_match, match_shortcut. destruct (contains (nr_shortcut f) (rq_url_lower q)); [reflexivity|].
  cbn. discriminate.
Qed.
Lemma rmatch_source f q : rmatch psl f q = true -> match_source_domain psl f (rq_source_hostname q) = true.
Proof.
  unfold rmatch, rule_match. destruct (negb (match_shortcut f q)); [discriminate|].
  destruct (_ && negb (rq_third_party q)); [discriminate|]. destruct (_ && rq_third_party q); [discriminate|].
  destruct (negb (match_request_type f (rq_type q))); [discriminate|].
  destruct (match_request_domain psl f (rq_hostname q) (rq_is_hostname q)) as [rd| | |]; cbn [rbind]; try discriminate.
  destruct (negb rd); [discriminate|].
  destruct (match_source_domain psl f (rq_source_hostname q)); [reflexivity | discriminate].
Qed.

(* a permitted domain without wildcard is a non-empty name that does not end with a dot *)
Definition pdomains_ok (f : net_rule) : Prop :=
  forall d, In d (nr_pdomains f) -> has_suffix $".*" d = false -> dom_ok d.

Lemma source_domain_probe f h : pdomains_ok f -> nr_pdomains f <> [] -> no_wild f = true ->
  match_source_domain psl f h = true ->
  exists d, In d (nr_pdomains f) /\ In d (get_subdomains h) /\ h <> [].
Proof.
  intros Hok Hne Hnw. unfold match_source_domain. destruct (nr_pdomains f) as [|d0 ds] eqn:Ep; [congruence|].
  cbn [isnil andb negb]. destruct (negb (isnil (nr_rdomains f)) && _); [discriminate|].
  unfold is_domain_or_subdomain_of_any. destruct (existsb (domain_matches psl h) (d0 :: ds)) eqn:Ex; [|discriminate].
  intros _. apply existsb_exists in Ex as (d & Hd & Hm). exists d. split; [exact Hd|].
  assert (Hw : has_suffix $".*" d = false).
  { unfold no_wild in Hnw. rewrite Ep in Hnw. apply negb_true_iff in Hnw.
    destruct (has_suffix $".*" d) eqn:E; [|reflexivity].
    assert (existsb (has_suffix $".*") (d0 :: ds) = true) by (apply existsb_exists; now exists d). congruence. }
  assert (Hdo : dom_ok d) by (apply Hok; [now rewrite Ep | exact Hw]).
  unfold domain_matches in Hm. rewrite Hw in Hm. rewrite orb_true_iff, andb_true_iff, bytes_eqb_eq in Hm.
  assert (Hh : h = d \/ exists x, h = x ++ "."%byte :: d).
  { destruct Hm as [->|[_ Hs]]; [now left|]. right. now apply has_suffix_iff in Hs. }
  split; [now apply get_subdomains_complete|].
  destruct Hdo as (d' & z & -> & _). destruct Hh as [->|[x ->]]; [destruct d' | destruct x]; discriminate.
Qed.

(* rules with the same text (the sequential table keeps one of them) agree on the request: true for
   parsed rules, which differ in the list id only (see text_coherent_parsed) *)
Definition text_coherent (q : request) : Prop := forall f f' idx idx',
  In (f, idx) rules -> In (f', idx') rules -> nr_text f' = nr_text f -> rmatch psl f' q = rmatch psl f q.

(* pointwise: it is enough that THIS rule can be retrieved (it is in the cache, say) *)
Theorem match_all_complete_at q f idx :
  retr idx = Some f -> pdomains_ok f -> text_coherent q ->
  In (f, idx) rules -> rmatch psl f q = true ->
  exists f', In f' (match_all hash psl retr e q) /\ nr_text f' = nr_text f /\
             (rule_shortcuts f <> [] \/ (nr_pdomains f <> [] /\ no_wild f = true) -> f' = f).
Proof.
  intros R Hok Hco Hin M. assert (Hf := build_filed hash rules f idx Hin). fold e in Hf. unfold filed in Hf.
  destruct (rule_shortcuts f) as [|w0 ws0] eqn:Ers.
  - destruct (negb (isnil (nr_pdomains f)) && no_wild f) eqn:Ed.
    + apply andb_true_iff in Ed as [Ed1 Ed2].
      assert (Hne : nr_pdomains f <> []) by (destruct (nr_pdomains f); [discriminate | congruence]).
      destruct (source_domain_probe f (rq_source_hostname q) Hok Hne Ed2 (rmatch_source f q M)) as (d & Hd & Hs & Hq).
      exists f. split; [|auto]. unfold match_all. apply in_or_app. right. apply in_or_app. left.
      unfold match_domains. destruct (rq_source_hostname q) eqn:Eh; [congruence|]. cbn [isnil].
      apply in_flat_map. exists d. split; [exact Hs|]. apply in_flat_map. exists idx. split.
      * apply bucket_in. now apply Hf.
      * rewrite R, M. now left.
    + destruct Hf as (f' & Hf' & Ht). exists f'. split; [|split; [exact Ht|]].
      * unfold match_all. apply in_or_app. right. apply in_or_app. right. apply filter_In. split; [exact Hf'|].
        destruct (build_from hash rules) as (_ & _ & F3). destruct (F3 _ Hf') as [idx' Hi'].
        rewrite (Hco f f' idx idx' Hin Hi' Ht). exact M.
      * intros [H|[H1 H2]]; [congruence|]. rewrite H2 in Ed. destruct (nr_pdomains f); [congruence | discriminate].
  - destruct Hf as (w & Hw & Ht). exists f. split; [|auto].
    unfold match_all. apply in_or_app. left. apply in_map_iff. exists (idx, f). split; [reflexivity|].
    rewrite match_shortcuts_eq. apply (w_fold_complete hash psl retr q (ne_shortcuts e) _ [] w); auto.
    + intros x [].
    + rewrite windows_eq. apply (windows_n_sub shortcut_length ltac:(unfold shortcut_length; lia) (nr_shortcut f)).
      * now apply rmatch_shortcut.
      * rewrite <- windows_eq. rewrite <- Ers in Hw. unfold rule_shortcuts in Hw.
        destruct (_ <? _)%nat; [destruct Hw|]. destruct (is_any_url_shortcut _); [destruct Hw|]. exact Hw.
Qed.

Theorem match_all_complete q f idx :
  retr_complete -> pdomains_ok f -> text_coherent q ->
  In (f, idx) rules -> rmatch psl f q = true ->
  exists f', In f' (match_all hash psl retr e q) /\ nr_text f' = nr_text f /\
             (rule_shortcuts f <> [] \/ (nr_pdomains f <> [] /\ no_wild f = true) -> f' = f).
Proof. intros RC Hok Hco Hin M. apply (match_all_complete_at q f idx); auto. Qed.

(* the property as stated: the set of texts reported equals the set of texts of the individually
   matching rules *)
Theorem match_all_texts q t :
  retr_sound -> retr_complete -> (forall f idx, In (f, idx) rules -> pdomains_ok f) -> text_coherent q ->
  (In t (map nr_text (match_all hash psl retr e q)) <->
   exists f, In f (map fst rules) /\ rmatch psl f q = true /\ nr_text f = t).
Proof.
  intros RS RC Hok Hco. rewrite in_map_iff. split.
  - intros (f & Ht & Hf). destruct (match_all_sound q f RS Hf) as [M Hin]. now exists f.
  - intros (f & Hin & M & Ht). apply in_map_iff in Hin as ([f0 idx] & Hf0 & Hin). cbn [fst] in Hf0. subst f0.
    destruct (match_all_complete q f idx RC (Hok _ _ Hin) Hco Hin M) as (f' & H1 & H2 & _).
    exists f'. split; [congruence | exact H1].
Qed.
End Main.

(* ---- for ANY engine value and ANY storage behaviour: every reported rule matches; a storage that
   hands out less (failed retrievals) reports a subset ---- *)
Theorem match_all_true hash psl retr e q f : In f (match_all hash psl retr e q) -> rmatch psl f q = true.
Proof.
  intro H. unfold match_all in H. apply in_app_or in H as [H|H]; [|apply in_app_or in H as [H|H]].
  - apply in_map_iff in H as ([idx g] & <- & H). unfold match_shortcuts in H.
    change (In (idx, g) (fold_left (w_step hash psl retr q (ne_shortcuts e)) (windows (rq_url_lower q)) [])) in H.
    apply w_fold_sound in H as [[]|(_ & _ & M)]. exact M.
  - unfold match_domains in H. destruct (isnil (rq_source_hostname q)); [destruct H|].
    apply in_flat_map in H as (d & _ & H). apply in_flat_map in H as (idx & _ & H).
    destruct (retr idx) as [g|]; [|destruct H]. destruct (rmatch psl g q) eqn:M; [|destruct H].
    destruct H as [<-|[]]. exact M.
  - now apply filter_In in H.
Qed.

Theorem match_all_mono hash psl r1 r2 e q :
  (forall idx f, r1 idx = Some f -> r2 idx = Some f) ->
  incl (match_all hash psl r1 e q) (match_all hash psl r2 e q).
Proof.
  intros Hr f H. unfold match_all in *. apply in_app_or in H as [H|H]; [|apply in_app_or in H as [H|H]].
  - apply in_or_app. left. apply in_map_iff in H as ([idx g] & <- & H). apply in_map_iff. exists (idx, g). split; [reflexivity|].
    unfold match_shortcuts in *.
    change (In (idx, g) (fold_left (w_step hash psl r1 q (ne_shortcuts e)) (windows (rq_url_lower q)) [])) in H.
    change (In (idx, g) (fold_left (w_step hash psl r2 q (ne_shortcuts e)) (windows (rq_url_lower q)) [])).
    apply w_fold_sound in H as [[]|((w & Hw & Ht) & R & M)]. cbn [fst snd] in *.
    apply (w_fold_complete hash psl r2 q (ne_shortcuts e) _ [] w); auto. intros x [].
  - apply in_or_app. right. apply in_or_app. left. unfold match_domains in *.
    destruct (isnil (rq_source_hostname q)); [destruct H|].
    apply in_flat_map in H as (d & Hd & H). apply in_flat_map in H as (idx & Hb & H).
    apply in_flat_map. exists d. split; [exact Hd|]. apply in_flat_map. exists idx. split; [exact Hb|].
    destruct (r1 idx) as [g|] eqn:R; [|destruct H]. now rewrite (Hr _ _ R).
  - apply in_or_app. right. apply in_or_app. now right.
Qed.

(* ---- rules produced by the parser satisfy the two side conditions ---- *)
Definition parsed (rules : list (net_rule * Z)) : Prop :=
  forall f idx, In (f, idx) rules -> new_network_rule (nr_text f) (nr_list f) = Ok f.

Lemma parsed_pdomains_ok rules f idx : parsed rules -> In (f, idx) rules -> pdomains_ok f.
Proof.
  intros P Hin d Hd Hw. destruct (parser_pd _ _ _ (P _ _ Hin) d Hd) as [H|H]; [now apply is_domain_name_ok | congruence].
Qed.
Lemma parsed_text_coherent psl rules q : parsed rules -> text_coherent psl rules q.
Proof.
  intros P f f' idx idx' H H' Ht. unfold rmatch.
  now rewrite (same_text_same_match psl f f' q (P _ _ H) (P _ _ H') Ht).
Qed.

Theorem engine_equals_scan hash psl retr rules q t :
  parsed rules -> (forall f idx, In (f, idx) rules -> retr idx = Some f) ->
  (In t (map nr_text (match_all hash psl retr (build_net hash rules) q)) <->
   exists f, In f (map fst rules) /\ rmatch psl f q = true /\ nr_text f = t).
Proof.
  intros P HR. apply match_all_texts.
  - intros idx f H [f0 H0]. rewrite (HR _ _ H0) in H. inversion H; subst. exact H0.
  - exact HR.
  - intros f idx H. eapply parsed_pdomains_ok; eauto.
  - now apply parsed_text_coherent.
Qed.

(* ---- multiplicity: every storage index is reported at most once by the shortcut table ---- *)
Lemma nodup_snoc {A} (l : list A) (x : A) : NoDup l -> ~ In x l -> NoDup (l ++ [x]).
Proof.
  induction l as [|a l IH]; intros H Hn; cbn; [constructor; [intros []|constructor]|].
  inversion H as [|? ? Ha Hl]; subst. constructor.
  - intro Hin. apply in_app_or in Hin as [Hin|[<-|[]]]; [exact (Ha Hin) | apply Hn; now left].
  - apply IH; [exact Hl | intro Hx; apply Hn; now right].
Qed.

Section NoDupIdx.
Variable hash : bytes -> N.
Variable psl : bytes -> bytes * bool.
Variable retr : Z -> option net_rule.
Variable e : net_engine.
Variable q : request.

Definition sc_in (res : list (Z * net_rule)) (idx : Z) : list (Z * net_rule) :=
  match retr idx with
  | None => res
  | Some f => if existsb (fun x => Z.eqb (fst x) idx) res || negb (rmatch psl f q) then res else res ++ [(idx, f)]
  end.

Lemma sc_in_nodup res idx : NoDup (map fst res) -> NoDup (map fst (sc_in res idx)).
Proof.
  intro H. unfold sc_in. destruct (retr idx) as [f|]; [|exact H].
  destruct (existsb (fun x => Z.eqb (fst x) idx) res) eqn:E; cbn [orb]; [exact H|].
  destruct (negb (rmatch psl f q)); [exact H|].
  rewrite map_app. cbn [map fst]. apply nodup_snoc; [exact H|].
  intro Hin. apply in_map_iff in Hin as ([i g] & Hi & Hg). cbn [fst] in Hi. subst i.
  assert (existsb (fun x => Z.eqb (fst x) idx) res = true) by (apply existsb_exists; exists (idx, g); split; [exact Hg | apply Z.eqb_refl]).
  congruence.
Qed.

(* every storage index is reported at most once by the shortcut table, whatever the URL repeats *)
Theorem match_shortcuts_nodup : NoDup (map fst (match_shortcuts hash psl retr e q)).
Proof.
  unfold match_shortcuts.
  assert (Hin : forall l res, NoDup (map fst res) -> NoDup (map fst (fold_left sc_in l res))).
  { induction l as [|i l IH]; intros res H; cbn [fold_left]; [exact H | apply IH, sc_in_nodup, H]. }
  assert (Hout : forall ws res, NoDup (map fst res) ->
            NoDup (map fst (fold_left (fun res w => fold_left sc_in (bucket (ne_shortcuts e) (hash w)) res) ws res))).
  { induction ws as [|w ws IH]; intros res H; cbn [fold_left]; [exact H | apply IH, Hin, H]. }
  apply (Hout (windows (rq_url_lower q)) []). constructor.
Qed.
End NoDupIdx.
