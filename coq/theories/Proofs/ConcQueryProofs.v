(* C14, whole queries: every query a goroutine runs concurrently with any others returns its meaning over ONE
   fixed virtual store (index -> object), the same store for all goroutines; for the lookup-table query that
   meaning is a function of the lists alone. *)
From Coq Require Import List Arith Bool Lia.
From UF Require Import Model.Conc Model.ConcQuery Proofs.C14Proofs.
Import ListNotations.

(* ---- generic: the committed value of a component is good ---- *)
Section Committed.
Variable lk : Type.
Variable C out : Type.
Variable Good : lk -> C -> Prop.
Variable progs : tid -> list (task lk C out * list out) -> option (task lk C out).
Lemma committed_good s k : Inv lk C out Good progs s -> Good k (committed lk C out s k).
Proof.
  intros HI. unfold committed. destruct (writer s k) as [w|] eqn:E.
  - apply (I_w _ _ _ _ _ _ HI) in E. pose proof (I_a _ _ _ _ _ _ HI w) as Ha.
    destruct (tpc (th s w)) as [|tk|tk c0 d r o]; cbn in E; try contradiction.
    destruct E as [<- _]. cbn in Ha. tauto.
  - now apply (I_g _ _ _ _ _ _ HI).
Qed.
End Committed.

Section QueryProofs.
Variable rule cval : Type.
Variable content : nat -> nat -> option rule.
Variable compile : nat -> cval.
Variable idx_of : nat -> nat * nat.          (* the index an object was materialised for *)
Variable obj0 : nat * nat -> nat.
Hypothesis idx_obj0 : forall i, idx_of (obj0 i) = i.

Notation ecomp := (Conc.ecomp rule cval).
Notation eout := (Conc.eout rule cval).
Notation etask := (task elk ecomp eout).
Notation EGood := (Conc.EGood rule cval content compile).
Notation EExt := (Conc.EExt rule cval).
Notation EValid := (Conc.EValid rule cval).
Notation allowed := (Conc.allowed rule cval content compile).
Notation T_lookup := (Conc.T_lookup rule cval).
Notation T_load := (Conc.T_load rule cval content).
Notation T_insert := (Conc.T_insert rule cval).
Notation T_prepare := (Conc.T_prepare rule cval compile).
Notation qprog := (ConcQuery.qprog rule cval).
Notation head := (ConcQuery.head rule cval content compile).
Notation advance := (ConcQuery.advance rule cval).
Notation after := (ConcQuery.after rule cval).
Notation qstrat := (ConcQuery.qstrat rule cval content compile).
Notation qresult := (ConcQuery.qresult rule cval).
Notation sem := (ConcQuery.sem rule cval compile).
Notation consistent := (C14Proofs.consistent elk ecomp eout).

Variable progs : tid -> list (etask * list eout) -> option etask.
Hypothesis progs_allowed : forall t h tk, consistent progs t h -> progs t h = Some tk -> allowed h tk.
(* an object a goroutine allocates belongs to the index it parsed it for (two allocations are two objects) *)
Hypothesis progs_tagged : forall t h i r x, consistent progs t h -> progs t h = Some (T_insert i r x) -> idx_of x = i.

Definition tagged (k : elk) (c : ecomp) : Prop :=
  match k, c with
  | LCache, CCache m => forall i r x, m i = Some (r, x) -> idx_of x = i
  | _, _ => True
  end.
Definition Good2 (k : elk) (c : ecomp) : Prop := EGood k c /\ tagged k c.

Lemma hist_ok_weaken h : hist_ok elk ecomp eout Good2 h -> hist_ok elk ecomp eout EGood h.
Proof. intros H tk o Hin. destruct (H tk o Hin) as (c & [Hg _] & Ho). eauto. Qed.

Lemma eprogs_ok2 : forall t h tk, consistent progs t h -> hist_ok elk ecomp eout Good2 h ->
  progs t h = Some tk -> tk_ok elk ecomp eout Good2 tk.
Proof.
  intros t h tk Hc Hh Hp.
  destruct (eprogs_ok rule cval content compile progs progs_allowed t h tk Hc (hist_ok_weaken h Hh) Hp) as [H1 H2].
  split; [exact H1|]. intros c [Hg Ht]. split; [now apply H2|].
  destruct (progs_allowed t h tk Hc Hp) as [[i ->]|[[i ->]|[[r ->]|(i & r & x & -> & Hin)]]]; cbn in *.
  - exact Ht.
  - exact I.
  - exact I.
  - destruct c as [m|o|cc]; cbn in Hg; try contradiction. cbn in Ht.
    unfold Conc.cache_insert. destruct (m i) as [v|] eqn:Ei; cbn; [exact Ht|].
    intros j r0 x0. destruct (upd2_cases m i (Some (r, x)) j) as [[-> ->]|[-> _]]; [|apply Ht].
    intro Hr. inversion Hr; subst. eapply progs_tagged; eauto.
Qed.

Variable c0 : elk -> ecomp.
Hypothesis c0_good2 : forall k, Good2 k (c0 k).    (* e.g. the cold cache *)
Variable sched : list tid.
Let s := run elk elk_eq_dec ecomp eout (init elk ecomp eout c0 progs) sched.
Let c0_good : forall k, EGood k (c0 k) := fun k => proj1 (c0_good2 k).

(* ---- the virtual store: what the cache is committed to ---- *)
Definition final_cache : nat * nat -> option (rule * nat) :=
  match committed elk ecomp eout s LCache with CCache m => m | _ => fun _ => None end.
Definition inst (i : nat * nat) : nat := match final_cache i with Some (_, x) => x | None => obj0 i end.
Definition vstore (i : nat * nat) : option (rule * nat) :=
  match content (fst i) (snd i) with Some r => Some (r, inst i) | None => None end.

Lemma inst_tagged i : idx_of (inst i) = i.
Proof.
  unfold inst, final_cache.
  pose proof (committed_good elk ecomp eout Good2 progs s LCache
                (reach_inv elk elk_eq_dec ecomp eout Good2 progs eprogs_ok2 c0 c0_good2 sched)) as [_ Ht].
  destruct (committed elk ecomp eout s LCache) as [m|o|cc]; cbn in Ht; try apply idx_obj0.
  destruct (m i) as [[r x]|] eqn:E; [eapply Ht; eauto | apply idx_obj0].
Qed.
Lemma inst_injective i j : inst i = inst j -> i = j.
Proof. intro H. rewrite <- (inst_tagged i), <- (inst_tagged j). now f_equal. Qed.

(* what a cache region told a goroutine is what the cache is committed to *)
Lemma told_is_final t tk o i r x : In (tk, o) (hist (th s t)) -> t_lock tk = LCache -> In (OInst i (Some (r, x))) o ->
  content (fst i) (snd i) = Some r -> vstore i = Some (r, x).
Proof.
  intros H L I1 Hc.
  pose proof (outputs_stay_valid elk elk_eq_dec ecomp eout EGood progs (eprogs_ok rule cval content compile progs progs_allowed)
                EExt EValid (evalid_stable rule cval) (eprogs_valid rule cval content compile progs progs_allowed)
                c0 sched t tk o c0_good H) as V.
  fold s in V. rewrite L in V. specialize (V L i (r, x) I1).
  unfold vstore, inst, final_cache. rewrite Hc. destruct (committed elk ecomp eout s LCache) as [m|?|?]; try contradiction.
  now rewrite V.
Qed.

(* every completed region of every goroutine, in terms of the virtual store *)
Lemma lookup_fact t i o : In (T_lookup i, o) (hist (th s t)) ->
  o = [OInst i None] \/ exists v, o = [OInst i (Some v)] /\ vstore i = Some v.
Proof.
  intro H. destruct (lookup_returns_content rule cval content compile progs progs_allowed c0 c0_good sched t i o H)
    as [->|(r & x & -> & Hc)]; [now left | right]. fold s in H.
  exists (r, x). split; [reflexivity|]. eapply told_is_final; eauto. now left.
Qed.
Lemma load_fact t i o : In (T_load i, o) (hist (th s t)) -> o = [OUnit; ORule (content (fst i) (snd i))].
Proof. apply (load_returns_content rule cval content compile progs progs_allowed c0 c0_good sched). Qed.
Lemma insert_fact t i r x o : In (T_insert i r x, o) (hist (th s t)) -> exists v, o = [OInst i (Some v)] /\ vstore i = Some v.
Proof.
  intro H. destruct (insert_returns_content rule cval content compile progs progs_allowed c0 c0_good sched t i r x o H)
    as (r' & x' & -> & Hc). fold s in H.
  exists (r', x'). split; [reflexivity|]. eapply told_is_final; eauto. now left.
Qed.
Lemma prepare_fact t r o : In (T_prepare r, o) (hist (th s t)) -> o = [OVal (compile r)].
Proof. apply (prepare_returns_compile rule cval content compile progs progs_allowed c0 c0_good sched). Qed.

(* ---- the strategy of a query follows its program ---- *)
Lemma adv_start {A} i x (k : option (rule * nat) -> qprog A) o :
  (exists j v, o = [OInst j (Some v)] /\ advance (QRetrieve i x k) PStart o = (k (Some v), PStart)) \/
  advance (QRetrieve i x k) PStart o = (QRetrieve i x k, PMissed).
Proof. destruct o as [|[| |j [v|]|] [|]]; cbn; eauto. Qed.
Lemma adv_missed {A} i x (k : option (rule * nat) -> qprog A) o :
  (exists r, o = [OUnit; ORule (Some r)] /\ advance (QRetrieve i x k) PMissed o = (QRetrieve i x k, PLoaded r)) \/
  advance (QRetrieve i x k) PMissed o = (k None, PStart).
Proof. destruct o as [|[| | |] [|[|[r|]| |] [|]]]; cbn; eauto. Qed.
Lemma adv_loaded {A} i x (k : option (rule * nat) -> qprog A) r o :
  exists v, advance (QRetrieve i x k) (PLoaded r) o = (k v, PStart).
Proof. destruct o as [|[| |j v|] [|]]; cbn; eauto. Qed.
Lemma adv_prepare {A} q (k : cval -> qprog A) ph o :
  exists p', advance (QPrepare q k) ph o = (p', PStart).
Proof. destruct o as [|[| | |v] [|]]; cbn; eauto. Qed.

Section OneQuery.
Variable t : tid.
Variable A : Type.
Variable p : qprog A.
Hypothesis t_runs_p : forall h, progs t h = qstrat p h.

(* a pending insert carries what this goroutine itself just loaded *)
Lemma phase_loaded h r : consistent progs t h -> snd (after p h) = PLoaded r ->
  exists i x k, fst (after p h) = QRetrieve i x k /\ In (T_load i, [OUnit; ORule (Some r)]) h.
Proof.
  destruct h as [|[tk o] h']; [discriminate|]. cbn [C14Proofs.consistent ConcQuery.after]. intros [Hp _].
  rewrite t_runs_p in Hp. unfold ConcQuery.qstrat in Hp. destruct (after p h') as [p' ph'].
  destruct p' as [a|i x k|q k]; [discriminate| |].
  - destruct ph' as [| |r'].
    + destruct (adv_start i x k o) as [(j & v & _ & ->)| ->]; discriminate.
    + destruct (adv_missed i x k o) as [(r' & -> & ->)| ->]; [|discriminate]. cbn. intro E. inversion E; subst r'.
      exists i, x, k. split; [reflexivity|]. left. cbn in Hp. inversion Hp. reflexivity.
    + destruct (adv_loaded i x k r' o) as [v ->]. discriminate.
  - destruct (adv_prepare q k ph' o) as [p'' ->]. discriminate.
Qed.

Lemma query_allowed h tk : consistent progs t h -> qstrat p h = Some tk -> allowed h tk.
Proof.
  intros Hc Hq. pose proof (phase_loaded h) as Hph. unfold ConcQuery.qstrat in Hq.
  destruct (after p h) as [p' ph']. cbn [fst snd] in Hph.
  destruct p' as [a|i x k|q k]; [discriminate| |]; cbn in Hq; inversion Hq; subst tk.
  - destruct ph' as [| |r].
    + left. eauto.
    + right. left. eauto.
    + right. right. right. destruct (Hph r Hc eq_refl) as (i' & x' & k' & E & Hin). inversion E; subst. eauto.
  - right. right. left. eauto.
Qed.

(* what the goroutine has seen so far is what the virtual store says *)
Lemma after_sound h : consistent progs t h -> (forall tk o, In (tk, o) h -> In (tk, o) (hist (th s t))) ->
  sem vstore (fst (after p h)) = sem vstore p.
Proof.
  induction h as [|[tk o] h' IH]; [reflexivity|]. cbn [C14Proofs.consistent ConcQuery.after]. intros [Hp Hc] Hin.
  assert (Hin' : forall tk0 o0, In (tk0, o0) h' -> In (tk0, o0) (hist (th s t))) by (intros; apply Hin; now right).
  specialize (IH Hc Hin'). assert (He : In (tk, o) (hist (th s t))) by (apply Hin; now left).
  rewrite t_runs_p in Hp. unfold ConcQuery.qstrat in Hp. destruct (after p h') as [p' ph']. cbn [fst] in IH.
  rewrite <- IH. destruct p' as [a|i x k|q k]; [discriminate| |]; cbn in Hp; inversion Hp; subst tk.
  - destruct ph' as [| |r].
    + destruct (lookup_fact t i o He) as [->|(v & -> & Hv)]; cbn; [reflexivity | now rewrite Hv].
    + rewrite (load_fact t i o He). destruct (content (fst i) (snd i)) as [r|] eqn:Ec; cbn; [reflexivity|].
      unfold vstore. now rewrite Ec.
    + destruct (insert_fact t i r x o He) as (v & -> & Hv). cbn. now rewrite Hv.
  - rewrite (prepare_fact t q o He). reflexivity.
Qed.

(* SEQUENTIAL CONSISTENCY OF A QUERY: whatever the other goroutines do and however the steps interleave, the result
   the query computes is its meaning over the virtual store *)
Theorem query_result a : qresult p (hist (th s t)) = Some a -> a = sem vstore p.
Proof.
  intro H. pose proof (reach_inv elk elk_eq_dec ecomp eout EGood progs (eprogs_ok rule cval content compile progs progs_allowed)
                          c0 c0_good sched) as HI. fold s in HI.
  destruct (I_c _ _ _ _ _ _ HI t) as [Hc _].
  rewrite <- (after_sound (hist (th s t)) Hc (fun _ _ H => H)). unfold ConcQuery.qresult in H.
  destruct (fst (after p (hist (th s t)))); inversion H. reflexivity.
Qed.
(* a finished query has a result *)
Theorem query_finished : finished elk ecomp eout (th s t) -> exists a, qresult p (hist (th s t)) = Some a.
Proof.
  intros [_ Hf]. pose proof (reach_inv elk elk_eq_dec ecomp eout EGood progs (eprogs_ok rule cval content compile progs progs_allowed)
                          c0 c0_good sched) as HI. fold s in HI.
  rewrite (I_p _ _ _ _ _ _ HI t), t_runs_p in Hf. unfold ConcQuery.qstrat, ConcQuery.qresult in *.
  destruct (after p (hist (th s t))) as [p' ph']. destruct p' as [a|i x k|q k]; cbn in *; [exists a; reflexivity | discriminate | discriminate].
Qed.
End OneQuery.

(* ---- the lookup-table query ---- *)
Section TableQuery.
Variable cof : nat * nat -> cval.
Hypothesis compile_cof : forall x, compile x = cof (idx_of x).   (* an object's compilation is that of its rule's pattern *)
Variable alloc : nat * nat -> nat.
Variable matches : rule -> cval -> bool.
Notation table_query := (ConcQuery.table_query rule cval alloc matches).
Notation table_spec := (ConcQuery.table_spec rule cval content cof matches).

Definition objs (acc : list ((nat * nat) * rule)) : list (rule * nat) := map (fun e => (snd e, inst (fst e))) acc.

Lemma idx_eqb_eq i j : idx_eqb i j = true <-> i = j.
Proof.
  unfold idx_eqb. rewrite andb_true_iff, !Nat.eqb_eq. destruct i, j; cbn. split; [intros [-> ->]; reflexivity | intro E; inversion E; auto].
Qed.
Lemma seen_objs i acc : seen rule (inst i) (objs acc) = existsb (idx_eqb i) (map fst acc).
Proof.
  unfold seen, objs. induction acc as [|[j r] acc IH]; [reflexivity|]. cbn. rewrite IH. f_equal.
  destruct (idx_eqb i j) eqn:E.
  - apply idx_eqb_eq in E. subst. apply Nat.eqb_refl.
  - apply Nat.eqb_neq. intro H. apply inst_injective in H. subst. rewrite (proj2 (idx_eqb_eq i i) eq_refl) in E. discriminate.
Qed.

(* over the virtual store, the table query computes the reference answer: identity-based de-duplication is
   de-duplication by index *)
Lemma table_query_sem L : forall acc, sem vstore (table_query L (objs acc)) = table_spec L acc.
Proof.
  induction L as [|i L IH]; intro acc; cbn [ConcQuery.table_query ConcQuery.table_spec ConcQuery.sem].
  - unfold objs. rewrite map_map. reflexivity.
  - assert (Hv : vstore i = match content (fst i) (snd i) with Some r => Some (r, inst i) | None => None end) by reflexivity.
    rewrite Hv. clear Hv. destruct (content (fst i) (snd i)) as [r|]; [|apply IH].
    rewrite seen_objs. destruct (existsb (idx_eqb i) (map fst acc)); [apply IH|].
    cbn [ConcQuery.sem]. rewrite compile_cof, inst_tagged. destruct (matches r (cof i)); [|apply IH].
    rewrite <- IH. unfold objs. rewrite map_app. reflexivity.
Qed.

Theorem table_query_result t L a : (forall h, progs t h = qstrat (table_query L []) h) ->
  qresult (table_query L []) (hist (th s t)) = Some a -> a = table_spec L [].
Proof.
  intros Hp H. rewrite (query_result t _ _ Hp a H). apply (table_query_sem L []).
Qed.
End TableQuery.
End QueryProofs.

(* ---- programs whose allocations are tagged with their index ---- *)
Section Tagged.
Variable rule cval : Type.
Variable content : nat -> nat -> option rule.
Variable compile : nat -> cval.
Variable idx_of : nat -> nat * nat.
Notation qprog := (ConcQuery.qprog rule cval).
Notation eout := (Conc.eout rule cval).
Inductive qtagged {A} : qprog A -> Prop :=
| qt_ret a : qtagged (QRet a)
| qt_retrieve i x k : idx_of x = i -> (forall v, qtagged (k v)) -> qtagged (QRetrieve i x k)
| qt_prepare r k : (forall c, qtagged (k c)) -> qtagged (QPrepare r k).

Lemma advance_tagged {A} (p : qprog A) ph o : qtagged p -> qtagged (fst (advance rule cval p ph o)).
Proof.
  intro H. destruct H as [a|i x k Hx Hk|q k Hk].
  - cbn. constructor.
  - destruct ph as [| |r].
    + destruct (adv_start rule cval i x k o) as [(j & v & _ & ->)| ->]; cbn; [apply Hk | now constructor].
    + destruct (adv_missed rule cval i x k o) as [(r & _ & ->)| ->]; cbn; [now constructor | apply Hk].
    + destruct (adv_loaded rule cval i x k r o) as [v ->]. cbn. apply Hk.
  - destruct o as [|[| | |v] [|]]; cbn; try (now constructor). apply Hk.
Qed.
Lemma after_tagged {A} (p : qprog A) h : qtagged p -> qtagged (fst (after rule cval p h)).
Proof.
  intro H. induction h as [|[tk o] h IH]; cbn; [exact H|]. destruct (after rule cval p h) as [p' ph']. now apply advance_tagged.
Qed.
Lemma T_insert_inj i r x i' r' x' : T_insert rule cval i r x = T_insert rule cval i' r' x' -> i = i' /\ r = r' /\ x = x'.
Proof.
  intro E. apply (f_equal (fun k => t_acts k)) in E. cbn in E. inversion E as [Ea].
  assert (Hp0 := f_equal (fun f => snd (f (CCache (fun _ => None)))) Ea). cbn in Hp0. inversion Hp0. auto.
Qed.
Lemma qstrat_tagged {A} (p : qprog A) h i r x : qtagged p ->
  qstrat rule cval content compile p h = Some (T_insert rule cval i r x) -> idx_of x = i.
Proof.
  intros Ht Hq. pose proof (after_tagged p h Ht) as Ha. unfold ConcQuery.qstrat in Hq.
  destruct (after rule cval p h) as [p' ph']. cbn [fst] in Ha.
  destruct Ha as [a|i' x' k Hx Hk|q k Hk]; cbn in Hq; [discriminate| |].
  - assert (E := f_equal (fun o => match o with Some k => k | None => T_insert rule cval i r x end) Hq). cbv beta iota in E.
    destruct ph' as [| |r'].
    + apply (f_equal (fun k => t_write k)) in E. discriminate.
    + apply (f_equal (fun k => t_lock k)) in E. discriminate.
    + apply T_insert_inj in E as (-> & _ & ->). exact Hx.
  - assert (E := f_equal (fun o => match o with Some k => k | None => T_insert rule cval i r x end) Hq). cbv beta iota in E.
    apply (f_equal (fun k => t_lock k)) in E. discriminate.
Qed.
Lemma table_query_tagged alloc matches L : (forall i, idx_of (alloc i) = i) ->
  forall acc, qtagged (table_query rule cval alloc matches L acc).
Proof.
  intro Ha. induction L as [|i L IH]; intro acc; cbn; constructor; [apply Ha|].
  intros [[r x]|]; [|apply IH]. destruct (seen rule x acc); [apply IH|]. constructor. intro c. destruct (matches r c); apply IH.
Qed.
End Tagged.

(* ---- a closed system: every goroutine runs a table query, each with its own request, bucket and allocator ---- *)
Section AllTableQueries.
Variable rule cval : Type.
Variable content : nat -> nat -> option rule.
Variable cof : nat * nat -> cval.
Variable idx_of : nat -> nat * nat.
Variable obj0 : nat * nat -> nat.
Hypothesis idx_obj0 : forall i, idx_of (obj0 i) = i.
Variable alloc : tid -> nat * nat -> nat.
Hypothesis alloc_tagged : forall t i, idx_of (alloc t i) = i.
Variable matches : tid -> rule -> cval -> bool.
Variable bucket : tid -> list (nat * nat).
Definition ccompile (x : nat) : cval := cof (idx_of x).
Definition tq (t : tid) := table_query rule cval (alloc t) (matches t) (bucket t) [].
Definition tq_progs (t : tid) := qstrat rule cval content ccompile (tq t).
Definition cold (k : elk) : ecomp rule cval :=
  match k with LCache => CCache (fun _ => None) | LFile _ => CFile 0 | LRule _ => CRule None end.

Lemma tq_allowed t h tk : consistent elk (ecomp rule cval) (eout rule cval) tq_progs t h -> tq_progs t h = Some tk ->
  allowed rule cval content ccompile h tk.
Proof. apply (query_allowed rule cval content ccompile tq_progs t _ (tq t)). reflexivity. Qed.
Lemma tq_tagged t h i r x : consistent elk (ecomp rule cval) (eout rule cval) tq_progs t h ->
  tq_progs t h = Some (T_insert rule cval i r x) -> idx_of x = i.
Proof. intros _. apply qstrat_tagged. apply table_query_tagged. apply alloc_tagged. Qed.
Lemma cold_good2 k : Good2 rule cval content ccompile idx_of k (cold k).
Proof. destruct k; cbn; split; cbn; auto; try discriminate. Qed.

Variable sched : list tid.
Let s := run elk elk_eq_dec (ecomp rule cval) (eout rule cval) (init elk (ecomp rule cval) (eout rule cval) cold tq_progs) sched.

(* however the goroutines interleave, a query that has completed computed the reference answer for ITS request *)
Theorem all_table_queries t a : qresult rule cval (tq t) (hist (th s t)) = Some a ->
  a = table_spec rule cval content cof (matches t) (bucket t) [].
Proof.
  apply (table_query_result rule cval content ccompile idx_of obj0 idx_obj0 tq_progs tq_allowed tq_tagged cold cold_good2 sched
           cof (fun _ => eq_refl) (alloc t) (matches t) t (bucket t) a). reflexivity.
Qed.
Theorem all_table_queries_finish t : finished elk (ecomp rule cval) (eout rule cval) (th s t) ->
  exists a, qresult rule cval (tq t) (hist (th s t)) = Some a.
Proof.
  apply (query_finished rule cval content ccompile idx_of tq_progs tq_allowed cold cold_good2 sched t _ (tq t)). reflexivity.
Qed.
End AllTableQueries.

(* ---- non-vacuity: three goroutines walk overlapping buckets (with repeated indexes) on a cold cache under an
   irregular schedule; all complete, with the reference answers ---- *)
From Coq Require Import Cantor.
Section QExample.
Definition qx_content (l off : nat) : option nat := if off <? 5 then Some (l * 100 + off) else None.
Definition qx_cof (i : nat * nat) : nat := fst i * 100 + snd i + 1000.
Definition qx_idx_of (x : nat) : nat * nat := Cantor.of_nat (x / 8).
Definition qx_obj0 (i : nat * nat) : nat := Cantor.to_nat i * 8.
Definition qx_alloc (t : tid) (i : nat * nat) : nat := Cantor.to_nat i * 8 + t mod 8.
Definition qx_matches (t : tid) (r c : nat) : bool := ((c =? r + 1000) && Nat.even (r + t))%bool.
Definition qx_bucket (t : tid) : list (nat * nat) :=
  match t with
  | 0 => [(0, 1); (1, 2); (0, 1); (0, 3); (0, 60); (1, 2); (1, 4)]
  | 1 => [(1, 2); (0, 1); (0, 2); (1, 2); (0, 3); (0, 3)]
  | _ => [(0, 3); (0, 1); (0, 1); (1, 1); (0, 7); (0, 2); (1, 2)]
  end.
Lemma qx_idx_obj0 i : qx_idx_of (qx_obj0 i) = i.
Proof. unfold qx_idx_of, qx_obj0. rewrite Nat.div_mul by discriminate. apply Cantor.cancel_of_to. Qed.
Lemma qx_alloc_tagged t i : qx_idx_of (qx_alloc t i) = i.
Proof.
  unfold qx_idx_of, qx_alloc. rewrite Nat.div_add_l by discriminate.
  rewrite (Nat.div_small (t mod 8) 8) by (apply Nat.mod_upper_bound; discriminate). rewrite Nat.add_0_r. apply Cantor.cancel_of_to.
Qed.
Definition qx_sched : list tid := [1; 0; 1; 2; 0; 0; 2; 0; 1; 2; 0; 2; 0; 0; 0; 1; 1; 0; 0; 0; 2; 1; 0; 2; 0; 0; 2; 2; 2; 0; 2; 2; 1; 0; 0; 0; 2; 0; 1; 1; 0; 2; 0; 2; 1; 2; 2; 0; 0; 2; 2; 2; 0; 1; 0; 2; 2; 0; 2; 0; 2; 0; 1; 2; 2; 1; 1; 1; 2; 1; 1; 1; 0; 0; 2; 0; 0; 2; 1; 2; 1; 1; 2; 1; 1; 2; 0; 0; 2; 1; 0; 1; 0; 1; 1; 0; 2; 0; 2; 2; 1; 1; 2; 1; 2; 1; 2; 1; 0; 0; 1; 1; 2; 2; 0; 0; 2; 2; 1; 2; 2; 2; 1; 1; 2; 1; 2; 1; 0; 1; 1; 0; 2; 0; 1; 0; 0; 1; 0; 2; 0; 1; 1; 1; 0; 0; 1; 1; 2; 1; 0; 1; 2; 1; 2; 1; 1; 2; 1; 0; 0; 0; 0; 0; 0; 2; 0; 0; 1; 2; 0; 1; 1; 0; 0; 1; 2; 1; 2; 2; 1; 0; 2; 2; 2; 2; 2; 2; 0; 1; 2; 2; 1; 1; 1; 1; 0; 1; 2; 1; 0; 0; 0; 0; 1; 0; 0; 1; 2; 0; 0; 0; 2; 0; 2; 0; 1; 2; 0; 0; 0; 2; 1; 0; 2; 1; 1; 2; 1; 1; 0; 0; 1; 1; 1; 1; 1; 0; 0; 0; 2; 1; 2; 1; 1; 2; 0; 2; 0; 0; 2; 1; 0; 2; 2; 0; 2; 1; 2; 0; 0; 1; 2; 0; 1; 2; 0; 1; 2; 0; 1; 2; 0; 1; 2; 0; 1; 2; 0; 1; 2; 0; 1; 2; 0; 1; 2; 0; 1; 2; 0; 1; 2; 0; 1; 2; 0; 1; 2; 0; 1; 2; 0; 1; 2; 0; 1; 2; 0; 1; 2; 0; 1; 2; 0; 1; 2; 0; 1; 2; 0; 1; 2; 0; 1; 2; 0; 1; 2; 0; 1; 2; 0; 1; 2; 0; 1; 2; 0; 1; 2; 0; 1; 2; 0; 1; 2; 0; 1; 2; 0; 1; 2; 0; 1; 2; 0; 1; 2; 0; 1; 2; 0; 1; 2; 0; 1; 2; 0; 1; 2; 0; 1; 2; 0; 1; 2; 0; 1; 2; 0; 1; 2; 0; 1; 2; 0; 1; 2; 0; 1; 2; 0; 1; 2; 0; 1; 2; 0; 1; 2; 0; 1; 2; 0; 1; 2; 0; 1; 2; 0; 1; 2; 0; 1; 2; 0; 1; 2; 0; 1; 2; 0; 1; 2; 0; 1; 2; 0; 1; 2; 0; 1; 2; 0; 1; 2; 0; 1; 2].
Definition qx_final := run elk elk_eq_dec (ecomp nat nat) (eout nat nat)
  (init elk (ecomp nat nat) (eout nat nat) (cold nat nat) (tq_progs nat nat qx_content qx_cof qx_idx_of qx_alloc qx_matches qx_bucket)) qx_sched.
Definition qx_done (T : thread elk (ecomp nat nat) (eout nat nat)) : bool :=
  match tpc T, prog T (hist T) with Idle, None => true | _, _ => false end.
Example qx_runs :
  map (fun t => (qx_done (th qx_final t), qresult nat nat (tq nat nat qx_alloc qx_matches qx_bucket t) (hist (th qx_final t)))) [0; 1; 2] =
  map (fun t => (true, Some (table_spec nat nat qx_content qx_cof (qx_matches t) (qx_bucket t) []))) [0; 1; 2] /\
  map (fun t => table_spec nat nat qx_content qx_cof (qx_matches t) (qx_bucket t) []) [0; 1; 2] = [[102; 104]; [1; 3]; [2; 102]].
Proof. vm_compute. split; reflexivity. Qed.
End QExample.
