(* C03 (parse half): the regular-expression text emitted for a mask pattern is parsed by the RE2
   model into exactly the concatenation of the per-token expressions — no character of a pattern
   is ever read as an operator.  Ported from notes/prototypes/ReParse.v to the full lexer/parser. *)
From Coq Require Import List Arith NArith Bool Lia.
From Coq Require Import Strings.Byte.
From UF Require Import Base.Lit Base.Bytes Model.Regex Model.Mask Proofs.EqLemmas Proofs.MaskTextProofs.
Import ListNotations.

Definition lit (c : byte) : re := RCls false [(c, c)].
Definition SEP_RE : re := Eval vm_compute in
  match parse_re SEP with Ok (RCat [r]) => r | _ => RAny end.
Definition STARTURL_RES : list re := Eval vm_compute in
  match parse_re STARTURL with Ok (RCat l) => l | _ => [] end.

Definition re_of (t : tok) : list re :=
  match t with
  | StartURL => STARTURL_RES | Bol => [RBol] | Eol => [REol] | Star => [RStar RAny] | Sep => [SEP_RE]
  | Lit c => [lit c]
  end.

(* a mask literal is never one of the mask's own specials *)
Definition lit_ok (t : tok) : bool :=
  match t with Lit c => negb (beq c star) && negb (beq c caret) | _ => true end.

Lemma lex_from_app st a b : lex_from st (a ++ b) = lex_from (lex_from st a) b.
Proof. apply fold_left_app. Qed.
Lemma parse_from_app st a b : parse_from st (a ++ b) = parse_from (parse_from st a) b.
Proof. apply fold_left_app. Qed.

Definition lex_tok (t : tok) : list rtok :=
  match lex (emit1 t) with Ok l => l | _ => [] end.

Lemma lex_emit1 t out : lit_ok t = true ->
  lex_from (LNormal, out) (emit1 t) = (LNormal, rev (lex_tok t) ++ out).
Proof.
  intros H. destruct t as [| | | | |c]; try reflexivity.
  destruct c; try discriminate H; reflexivity.
Qed.

Lemma lex_emit toks : forall out, forallb lit_ok toks = true ->
  lex_from (LNormal, out) (emit toks) = (LNormal, rev (flat_map lex_tok toks) ++ out).
Proof.
  induction toks as [|t toks IH]; intros out H; cbn [emit flat_map].
  - reflexivity.
  - cbn [forallb] in H. apply andb_prop in H as [Ht Hr].
    rewrite lex_from_app, lex_emit1 by exact Ht. rewrite IH by exact Hr.
    now rewrite rev_app_distr, app_assoc.
Qed.

(* the repetition flags after a token: only "*" leaves a pending quantifier *)
Definition flag_after (t : tok) : bool := match t with Star | StartURL => true | _ => false end.

Lemma parse_tok t alts cat stack lq lz : lit_ok t = true ->
  parse_from (PS (alts, cat) stack lq lz) (lex_tok t)
  = PS (alts, rev (re_of t) ++ cat) stack (flag_after t) (flag_after t).
Proof.
  intros H. destruct t as [| | | | |c]; try reflexivity.
  destruct c; try discriminate H; reflexivity.
Qed.

Lemma parse_toks toks : forall alts cat stack lq lz, forallb lit_ok toks = true ->
  exists lq' lz', parse_from (PS (alts, cat) stack lq lz) (flat_map lex_tok toks)
  = PS (alts, rev (flat_map re_of toks) ++ cat) stack lq' lz'.
Proof.
  induction toks as [|t toks IH]; intros alts cat stack lq lz H; cbn [flat_map].
  - exists lq, lz. reflexivity.
  - cbn [forallb] in H. apply andb_prop in H as [Ht Hr].
    rewrite parse_from_app, parse_tok by exact Ht.
    destruct (IH alts (rev (re_of t) ++ cat) stack (flag_after t) (flag_after t) Hr) as (lq' & lz' & E).
    exists lq', lz'. rewrite E. now rewrite rev_app_distr, app_assoc.
Qed.

(* no counted repetition is involved, so desugaring is the identity *)
Fixpoint has_rep_list (l : list re) : bool := match l with [] => false | x :: l' => has_rep x || has_rep_list l' end.
Lemma has_rep_cat l : has_rep (RCat l) = has_rep_list l.
Proof. induction l as [|x l IH]; [reflexivity|]. cbn [has_rep has_rep_list] in *. now rewrite <- IH. Qed.
Fixpoint nested_rep_list (l : list re) : bool := match l with [] => false | x :: l' => nested_rep x || nested_rep_list l' end.
Lemma nested_rep_cat l : nested_rep (RCat l) = nested_rep_list l.
Proof. induction l as [|x l IH]; [reflexivity|]. cbn [nested_rep nested_rep_list] in *. now rewrite <- IH. Qed.

Lemma re_of_plain t : nested_rep_list (re_of t) = false /\ map desugar (re_of t) = re_of t.
Proof. destruct t; split; reflexivity. Qed.
Lemma nested_rep_list_app a b : nested_rep_list (a ++ b) = nested_rep_list a || nested_rep_list b.
Proof. induction a as [|x a IH]; [reflexivity|]. cbn. now rewrite IH, orb_assoc. Qed.
Lemma toks_plain toks : nested_rep_list (flat_map re_of toks) = false /\ map desugar (flat_map re_of toks) = flat_map re_of toks.
Proof.
  induction toks as [|t toks [IH1 IH2]]; [split; reflexivity|]. cbn [flat_map].
  destruct (re_of_plain t) as [H1 H2]. split.
  - now rewrite nested_rep_list_app, H1, IH1.
  - now rewrite map_app, H2, IH2.
Qed.

Theorem parse_emit toks : forallb lit_ok toks = true ->
  parse_re (emit toks) = Ok (RCat (flat_map re_of toks)).
Proof.
  intros H. unfold parse_re, lex.
  rewrite lex_emit by exact H. rewrite app_nil_r, rev'_eq, rev_involutive. cbn [rbind].
  destruct (parse_toks toks [] [] [] false false H) as (lq' & lz' & E). rewrite E.
  cbn [close_frame]. rewrite app_nil_r, rev'_eq, rev_involutive.
  destruct (toks_plain toks) as [H1 H2]. rewrite nested_rep_cat, H1. cbn [desugar]. now rewrite H2.
Qed.

(* ---- tokenisation always yields admissible literals ---- *)
Lemma tok_inner_ok c : lit_ok (tok_inner c) = true.
Proof. unfold tok_inner. destruct (beq c star) eqn:E1; [reflexivity|]. destruct (beq c caret) eqn:E2; [reflexivity|]. cbn. now rewrite E1, E2. Qed.
Lemma tok_last_ok c : lit_ok (tok_last c) = true.
Proof. unfold tok_last. destruct (beq c pipe); [reflexivity | apply tok_inner_ok]. Qed.
Lemma body_ok p : forallb lit_ok (body p) = true.
Proof.
  induction p as [|c p IH]; [reflexivity|]. destruct p as [|c' p'].
  - cbn. now rewrite tok_last_ok.
  - change (body (c :: c' :: p')) with (tok_inner c :: body (c' :: p')). cbn [forallb]. now rewrite tok_inner_ok, IH.
Qed.
Lemma tokenize_ok p : forallb lit_ok (tokenize p) = true.
Proof.
  destruct p as [|a [|b r]]; try apply body_ok. cbn [tokenize].
  destruct (beq a pipe && beq b pipe); [cbn [forallb]; apply body_ok|].
  destruct (beq a pipe); [cbn [forallb]; apply body_ok | apply body_ok].
Qed.

(* the emitted text never begins with the "(?i)" flag group *)
Lemma emit_no_flag toks : forallb lit_ok toks = true -> has_prefix $"(?i)" (emit toks) = false.
Proof.
  destruct toks as [|t toks]; [reflexivity|]. intro H. cbn [emit flat_map].
  destruct t as [| | | | |c]; try reflexivity.
  cbn [forallb] in H. apply andb_prop in H as [H _]. destruct c; try discriminate H; reflexivity.
Qed.

(* ---- what a basic pattern compiles to ---- *)
Theorem prepare_mask p mc : is_early p = false -> is_regex_pat p = false ->
  let toks := tokenize p in
  prepare_pattern p mc =
  Ok (if bytes_eqb (emit toks) ANY then PAny
      else PRe (if mc then emit toks else $"(?i)" ++ emit toks) (negb mc, RCat (flat_map re_of toks))).
Proof.
  intros He Hr toks. unfold prepare_pattern. rewrite (C03_text p He Hr). cbn [rbind]. fold toks.
  destruct (bytes_eqb (emit toks) ANY); [reflexivity|].
  assert (Hok : forallb lit_ok toks = true) by apply tokenize_ok.
  destruct mc; cbn [negb].
  - unfold compile. rewrite (emit_no_flag toks Hok), (parse_emit toks Hok). reflexivity.
  - unfold compile. change (has_prefix $"(?i)" ($"(?i)" ++ emit toks)) with true. cbv iota.
    change (skipn 4 ($"(?i)" ++ emit toks)) with (emit toks). rewrite (parse_emit toks Hok). reflexivity.
Qed.
