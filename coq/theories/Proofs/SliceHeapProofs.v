(* C13, aliasing clause: the derived-result functions that build slices never write into an array that
   existed before the call — for every heap, every caller slice (any spare capacity, any sharing) and every
   growth policy. *)
From Coq Require Import List Arith Bool Lia.
From UF Require Import Model.SliceHeap.
Import ListNotations.

Section Proofs.
Variable V : Type.
Variable zero : V.
Variable extra : nat -> nat.
Notation slice := SliceHeap.slice.
Notation heap := (SliceHeap.heap V).
Notation arr := (SliceHeap.arr V).
Notation contents := (SliceHeap.contents V).
Notation append := (SliceHeap.append V zero extra).
Notation append_all := (SliceHeap.append_all V zero extra).

(* ---- lists ---- *)
Lemma set_nth_length {A} (l : list A) i v : length (set_nth l i v) = length l.
Proof. revert i; induction l as [|x l IH]; intros [|i]; cbn; auto. Qed.
Lemma nth_set_nth_same {A} (l : list A) i v d : i < length l -> nth i (set_nth l i v) d = v.
Proof. revert i; induction l as [|x l IH]; intros [|i] H; cbn in *; try lia; auto. apply IH. lia. Qed.
Lemma nth_set_nth_other {A} (l : list A) i j v d : i <> j -> nth j (set_nth l i v) d = nth j l d.
Proof. revert i j; induction l as [|x l IH]; intros [|i] [|j] H; cbn; auto; try lia. Qed.
Lemma skipn_set_nth {A} (l : list A) off k v : skipn off (set_nth l (off + k) v) = set_nth (skipn off l) k v.
Proof.
  revert l; induction off as [|off IH]; intro l; [reflexivity|]. destruct l as [|x l]; [destruct k; reflexivity|].
  cbn. apply IH.
Qed.
Lemma firstn_set_nth {A} (l : list A) k v : k < length l -> firstn (S k) (set_nth l k v) = firstn k l ++ [v].
Proof. revert k; induction l as [|x l IH]; intros [|k] H; cbn in *; try lia; auto. f_equal. apply IH. lia. Qed.

(* ---- heaps ---- *)
Definition wf (h : heap) (s : slice) : Prop :=
  s_len s <= s_cap s /\ (s_cap s = 0 \/ (s_arr s < length h /\ s_off s + s_cap s <= length (arr h (s_arr s)))).
(* the arrays that existed before are untouched *)
Definition frame (n : nat) (h h' : heap) : Prop := forall a, a < n -> arr h' a = arr h a.
Lemma frame_refl n h : frame n h h. Proof. intros a _. reflexivity. Qed.
Lemma frame_trans n a b c : frame n a b -> frame n b c -> frame n a c.
Proof. intros H1 H2 x Hx. now rewrite H2, H1. Qed.

Lemma arr_write_other (h : heap) a i v a' : a' <> a -> arr (write V h a i v) a' = arr h a'.
Proof. intro H. unfold SliceHeap.arr, write. apply nth_set_nth_other. auto. Qed.
Lemma arr_write_same (h : heap) a i v : a < length h -> arr (write V h a i v) a = set_nth (arr h a) i v.
Proof. intro H. unfold SliceHeap.arr, write. now apply nth_set_nth_same. Qed.
Lemma length_write (h : heap) a i v : length (write V h a i v) = length h.
Proof. unfold write. apply set_nth_length. Qed.

Lemma append_spec h s v : wf h s ->
  contents (fst (append h s v)) (snd (append h s v)) = contents h s ++ [v] /\
  wf (fst (append h s v)) (snd (append h s v)) /\ length h <= length (fst (append h s v)).
Proof.
  intros [Hlc Hcap]. unfold SliceHeap.append. destruct (Nat.ltb_spec (s_len s) (s_cap s)) as [Hlt|Hge]; cbn [fst snd].
  - destruct Hcap as [Hz|[Ha Hb]]; [lia|].
    unfold SliceHeap.contents. cbn [s_arr s_off s_len]. rewrite arr_write_same by exact Ha.
    rewrite skipn_set_nth. split; [|split].
    + apply firstn_set_nth. rewrite skipn_length. lia.
    + split; cbn [s_len s_cap s_arr s_off]; [lia|]. right. rewrite length_write, arr_write_same, set_nth_length by exact Ha. auto.
    + rewrite length_write. lia.
  - assert (Hl : length (contents h s) = s_len s).
    { unfold SliceHeap.contents. rewrite firstn_length, skipn_length.
      destruct Hcap as [Hz|[Ha Hb]]; [assert (s_len s = 0) by lia; lia | lia]. }
    split; [|split].
    + unfold SliceHeap.contents at 1. cbn [s_arr s_off s_len]. unfold SliceHeap.arr at 1. rewrite app_nth2, Nat.sub_diag by lia.
      cbn [nth skipn].
      replace (S (s_len s)) with (length (contents h s ++ [v])) by (rewrite app_length; cbn; lia).
      replace (contents h s ++ v :: repeat zero (extra (s_len s))) with ((contents h s ++ [v]) ++ repeat zero (extra (s_len s)))
        by (rewrite <- app_assoc; reflexivity).
      now rewrite firstn_app, Nat.sub_diag, firstn_all, firstn_O, app_nil_r.
    + split; cbn [s_len s_cap s_arr s_off].
      * rewrite app_length. cbn [length]. lia.
      * right. rewrite app_length. cbn [length]. split; [lia|]. unfold SliceHeap.arr. rewrite app_nth2, Nat.sub_diag by lia. cbn. lia.
    + rewrite app_length. lia.
Qed.

(* an append leaves the arrays below n alone when the slice is full (it reallocates) or lives in an array >= n *)
Lemma append_frame n h s v : n <= length h -> (s_len s = s_cap s \/ n <= s_arr s) -> wf h s ->
  frame n h (fst (append h s v)) /\ n <= s_arr (snd (append h s v)) .
Proof.
  intros Hn Hs [Hlc Hcap]. unfold SliceHeap.append. destruct (Nat.ltb_spec (s_len s) (s_cap s)) as [Hlt|Hge]; cbn [fst snd s_arr].
  - destruct Hs as [Hs|Hs]; [lia|]. split; [|exact Hs]. intros a Ha. apply arr_write_other. lia.
  - split; [|exact Hn]. intros a Ha. unfold SliceHeap.arr. apply app_nth1. lia.
Qed.

Lemma append_all_spec n vs : forall h s, n <= length h -> (s_len s = s_cap s \/ n <= s_arr s) -> wf h s ->
  contents (fst (append_all h s vs)) (snd (append_all h s vs)) = contents h s ++ vs /\
  frame n h (fst (append_all h s vs)).
Proof.
  induction vs as [|v vs IH]; intros h s Hn Hs Hw; cbn [SliceHeap.append_all].
  - cbn [fst snd]. rewrite app_nil_r. split; [reflexivity | apply frame_refl].
  - destruct (append_spec h s v Hw) as (Hc & Hw1 & Hl1). destruct (append_frame n h s v Hn Hs Hw) as [Hf1 Ha1].
    destruct (append h s v) as [h1 s1]. cbn [fst snd] in *.
    destruct (IH h1 s1) as [Hc2 Hf2]; [lia | now right | exact Hw1|].
    split; [rewrite Hc2, Hc, <- app_assoc; reflexivity | eapply frame_trans; eauto].
Qed.

(* ---- find_index ---- *)
Lemma find_index_none (p : V -> bool) l : find_index V p l = None -> filter (fun v => negb (p v)) l = l.
Proof.
  induction l as [|x l IH]; cbn; [reflexivity|]. destruct (p x); [discriminate|]. cbn.
  destruct (find_index V p l); [discriminate|]. intros _. now rewrite IH.
Qed.
Lemma find_index_some (p : V -> bool) l : forall i, find_index V p l = Some i ->
  i < length l /\ filter (fun v => negb (p v)) (firstn i l) = firstn i l.
Proof.
  induction l as [|x l IH]; intros i; cbn; [discriminate|]. destruct (p x) eqn:E.
  - intro H; inversion H; subst. cbn. split; [lia | reflexivity].
  - destruct (find_index V p l) as [j|]; cbn; [|discriminate]. intro H; inversion H; subst.
    destruct (IH j eq_refl) as [H1 H2]. cbn. rewrite E. cbn. split; [lia | now rewrite H2].
Qed.

(* ---- removeDNSRewriteRules ---- *)
Theorem remove_rw_spec isrw h s : wf h s ->
  let r := remove_rw V zero extra isrw h s in
  contents (fst r) (snd r) = filter (fun v => negb (isrw v)) (contents h s) /\ frame (length h) h (fst r).
Proof.
  intros Hw. unfold remove_rw. destruct (find_index V isrw (contents h s)) as [i|] eqn:E; cbn zeta.
  - destruct (find_index_some isrw _ i E) as [Hi Hpre].
    assert (Hlen : length (contents h s) <= s_len s) by (unfold SliceHeap.contents; rewrite firstn_length; lia).
    destruct Hw as [Hlc Hcap].
    assert (Hw3 : wf h (reslice3 s 0 i i)).
    { unfold wf, reslice3. cbn [s_len s_cap s_arr s_off]. split; [lia|].
      destruct Hcap as [Hz|[Ha Hb]]; [lia|]. destruct i; [now left | right; split; [exact Ha | lia]]. }
    destruct (append_all_spec (length h) (filter (fun v => negb (isrw v)) (skipn i (contents h s))) h (reslice3 s 0 i i))
      as [Hc Hf]; [lia | left; unfold reslice3; cbn; lia | exact Hw3|].
    split; [|exact Hf]. rewrite Hc.
    assert (Hc0 : contents h (reslice3 s 0 i i) = firstn i (contents h s)).
    { unfold SliceHeap.contents, reslice3. cbn [s_arr s_off s_len]. rewrite Nat.add_0_r, Nat.sub_0_r, firstn_firstn.
      f_equal. lia. }
    rewrite Hc0. rewrite <- (firstn_skipn i (contents h s)) at 3. rewrite filter_app, Hpre. reflexivity.
  - cbn [fst snd]. split; [now rewrite find_index_none | apply frame_refl].
Qed.

(* ---- DNSRewritesAll ---- *)
Theorem select_fresh_spec p h s :
  let r := select_fresh V zero extra p h s in
  contents (fst r) (snd r) = filter p (contents h s) /\ frame (length h) h (fst r).
Proof.
  unfold select_fresh.
  destruct (append_all_spec (length h) (filter p (contents h s)) h (nil_slice)) as [Hc Hf];
    [lia | left; reflexivity | split; cbn; [lia | now left] |].
  cbn zeta. split; [|exact Hf]. rewrite Hc. unfold SliceHeap.contents, nil_slice. cbn. reflexivity.
Qed.
End Proofs.

(* the capacity limit is what makes this true: without it a caller slice with spare capacity is overwritten *)
Example nolimit_overwrites_caller :
  let h := [[1; 2; 3; 4]] in
  let s := {| s_arr := 0; s_off := 0; s_len := 4; s_cap := 4 |} in
  let r := remove_rw_nolimit nat 0 (fun n => n) (Nat.eqb 2) h s in
  SliceHeap.contents nat (fst r) s = [1; 3; 4; 4] /\
  SliceHeap.contents nat (fst (remove_rw nat 0 (fun n => n) (Nat.eqb 2) h s)) s = [1; 2; 3; 4].
Proof. vm_compute. split; reflexivity. Qed.
