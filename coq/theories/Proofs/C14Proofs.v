(* C14: for every number of goroutines, every strategy and every schedule, lock-protected regions are
   atomic (hence every query returns what it returns sequentially), conflicting accesses never overlap,
   and the system never deadlocks; pooled request objects are exclusively owned. *)
From Coq Require Import List Arith Bool Lia.
From UF Require Import Model.Conc.
Import ListNotations.

Lemma updn_same {A} (f : nat -> A) k v : updn f k v k = v.
Proof. unfold updn. now rewrite Nat.eqb_refl. Qed.
Lemma updn_other {A} (f : nat -> A) k v k' : k' <> k -> updn f k v k' = f k'.
Proof. unfold updn. intro H. apply Nat.eqb_neq in H. now rewrite H. Qed.
Lemma in_remove_iff (l : list tid) (t t' : tid) : In t' (remove Nat.eq_dec t l) <-> In t' l /\ t' <> t.
Proof. split; [intro H; apply in_remove in H; tauto | intros [H1 H2]; now apply in_in_remove]. Qed.

Section Regions.
Variable lk : Type.
Variable lk_eq_dec : forall a b : lk, {a = b} + {a <> b}.
Variable C : Type.
Variable out : Type.
Notation task := (task lk C out).
Notation pc := (pc lk C out).
Notation state := (state lk C out).
Notation step := (step lk lk_eq_dec C out).
Notation run := (run lk lk_eq_dec C out).
Notation run_acts := (run_acts C out).
Notation updk := (updk lk lk_eq_dec).

Lemma updk_same {A} (f : lk -> A) k v : updk f k v k = v.
Proof. unfold Conc.updk. destruct (lk_eq_dec k k); congruence. Qed.
Lemma updk_other {A} (f : lk -> A) k v k' : k' <> k -> updk f k v k' = f k'.
Proof. unfold Conc.updk. intro H. destruct (lk_eq_dec k' k); congruence. Qed.

Lemma run_acts_app a b c : run_acts (a ++ b) c =
  let '(c1, o1) := run_acts a c in let '(c2, o2) := run_acts b c1 in (c2, o1 ++ o2).
Proof.
  revert c. induction a as [|x a IH]; intro c; cbn [app Conc.run_acts].
  - destruct (run_acts b c). reflexivity.
  - destruct (x c) as [c1 o]. rewrite IH. destruct (run_acts a c1) as [c2 os]. destruct (run_acts b c2). reflexivity.
Qed.

(* the component invariant, the strategies, and what is required of the regions they choose *)
Variable Good : lk -> C -> Prop.
Variable progs : tid -> list (task * list out) -> option task.

Definition read_only (a : act C out) : Prop := forall c, fst (a c) = c.
Definition tk_ok (tk : task) : Prop :=
  (t_write tk = false -> Forall read_only (t_acts tk)) /\
  (forall c, Good (t_lock tk) c -> Good (t_lock tk) (fst (run_acts (t_acts tk) c))).
(* a history of completed regions each of which ran as if alone, from a good component *)
Definition hist_ok (h : list (task * list out)) : Prop :=
  forall tk o, In (tk, o) h -> exists c0, Good (t_lock tk) c0 /\ o = snd (run_acts (t_acts tk) c0).
(* a history the strategy itself produced: every region in it was chosen by the strategy from what preceded *)
Fixpoint consistent (t : tid) (h : list (task * list out)) : Prop :=
  match h with
  | [] => True
  | (tk, _) :: h' => progs t h' = Some tk /\ consistent t h'
  end.
Hypothesis progs_ok : forall t h tk, consistent t h -> hist_ok h -> progs t h = Some tk -> tk_ok tk.
Definition cons_ok (t : tid) (T : thread lk C out) : Prop :=
  consistent t (hist T) /\
  match tpc T with
  | Waiting tk => progs t (hist T) = Some tk
  | Inside tk _ _ _ _ => progs t (hist T) = Some tk
  | Idle => True
  end.

Definition in_R (p : pc) (k : lk) : Prop :=
  match p with Inside tk _ _ _ _ => t_lock tk = k /\ t_write tk = false | _ => False end.
Definition in_W (p : pc) (k : lk) : Prop :=
  match p with Inside tk _ _ _ _ => t_lock tk = k /\ t_write tk = true | _ => False end.
Definition pc_ok (cp : lk -> C) (p : pc) : Prop :=
  match p with
  | Inside tk c0 d r o =>
    t_acts tk = d ++ r /\ tk_ok tk /\ Good (t_lock tk) c0 /\ run_acts d c0 = (cp (t_lock tk), o)
  | Waiting tk => tk_ok tk
  | Idle => True
  end.

Record Inv (s : state) : Prop := {
  I_r : forall k t, In t (readers s k) <-> in_R (tpc (th s t)) k;
  I_w : forall k t, writer s k = Some t <-> in_W (tpc (th s t)) k;
  I_e : forall k, writer s k <> None -> readers s k = [];
  I_g : forall k, writer s k = None -> Good k (comp s k);
  I_a : forall t, pc_ok (comp s) (tpc (th s t));
  I_h : forall t, hist_ok (hist (th s t));
  I_p : forall t, prog (th s t) = progs t;
  I_c : forall t, cons_ok t (th s t) }.

Lemma inv_init c0 : (forall k, Good k (c0 k)) -> Inv (init lk C out c0 progs).
Proof.
  intro Hg. constructor; cbn; intros; try tauto.
  - split; [discriminate | intros []].
  - apply Hg.
  - intros tk o [].
  - split; exact I.
Qed.

Lemma inv_upd s t rs' wr' cp' T' :
  Inv s ->
  (forall k t', t' <> t -> (In t' (rs' k) <-> In t' (readers s k))) ->
  (forall k, In t (rs' k) <-> in_R (tpc T') k) ->
  (forall k t', t' <> t -> (wr' k = Some t' <-> writer s k = Some t')) ->
  (forall k, wr' k = Some t <-> in_W (tpc T') k) ->
  (forall k, wr' k <> None -> rs' k = []) ->
  (forall k, wr' k = None -> Good k (cp' k)) ->
  (forall t', t' <> t -> pc_ok cp' (tpc (th s t'))) ->
  pc_ok cp' (tpc T') ->
  hist_ok (hist T') -> prog T' = progs t -> cons_ok t T' ->
  Inv {| readers := rs'; writer := wr'; comp := cp'; th := updn (th s) t T' |}.
Proof.
  intros [Ir Iw Ie Ig Ia Ih Ip Ic] H1 H2 H3 H4 H5 H6 H7 H8 H9 H10 H11.
  constructor; cbn.
  - intros k t'. destruct (Nat.eq_dec t' t) as [->|Hne].
    + rewrite updn_same. apply H2.
    + rewrite updn_other by exact Hne. rewrite H1 by exact Hne. apply Ir.
  - intros k t'. destruct (Nat.eq_dec t' t) as [->|Hne].
    + rewrite updn_same. apply H4.
    + rewrite updn_other by exact Hne. rewrite H3 by exact Hne. apply Iw.
  - exact H5.
  - exact H6.
  - intro t'. destruct (Nat.eq_dec t' t) as [->|Hne]; [now rewrite updn_same | rewrite updn_other by exact Hne; now apply H7].
  - intro t'. destruct (Nat.eq_dec t' t) as [->|Hne]; [now rewrite updn_same | rewrite updn_other by exact Hne; apply Ih].
  - intro t'. destruct (Nat.eq_dec t' t) as [->|Hne]; [now rewrite updn_same | rewrite updn_other by exact Hne; apply Ip].
  - intro t'. destruct (Nat.eq_dec t' t) as [->|Hne]; [now rewrite updn_same | rewrite updn_other by exact Hne; apply Ic].
Qed.

(* an access by the lock holder leaves every other thread's view intact *)
Lemma others_ok s t k c' : Inv s ->
  (in_W (tpc (th s t)) k \/ (in_R (tpc (th s t)) k /\ c' = comp s k)) ->
  forall t', t' <> t -> pc_ok (updk (comp s) k c') (tpc (th s t')).
Proof.
  intros [Ir Iw Ie Ig Ia Ih Ip Ic] Hm t' Hne. specialize (Ia t') as Ht'.
  destruct (tpc (th s t')) as [|tk'|tk' c0 d r o] eqn:Ep; cbn [pc_ok] in *; auto.
  destruct Ht' as (A1 & A2 & A3 & A4). split; [exact A1|]. split; [exact A2|]. split; [exact A3|].
  destruct (lk_eq_dec (t_lock tk') k) as [Ek|Ek]; [|now rewrite updk_other].
  rewrite Ek, updk_same. destruct Hm as [Hw|[Hr ->]].
  - (* t holds k exclusively: t' cannot be inside on k *)
    exfalso. assert (Hwt : writer s k = Some t) by now apply Iw.
    destruct (t_write tk') eqn:Ew.
    + assert (writer s k = Some t') by (apply Iw; rewrite Ep; cbn; auto). congruence.
    + assert (Hin : In t' (readers s k)) by (apply Ir; rewrite Ep; cbn; auto).
      rewrite Ie in Hin by congruence. exact Hin.
  - now rewrite <- Ek.
Qed.

Ltac lkcase k k0 := destruct (lk_eq_dec k k0) as [->|?]; rewrite ?updk_same; rewrite ?updk_other by assumption.

Lemma step_inv s t s' : Inv s -> step s t = Some s' -> Inv s'.
Proof.
  intros HI H. pose proof HI as [Ir Iw Ie Ig Ia Ih Ip Ic]. unfold Conc.step in H.
  pose proof (Ia t) as Iat. pose proof (Ih t) as Iht. pose proof (Ip t) as Ipt. pose proof (Ic t) as Ict. unfold cons_ok in Ict.
  assert (IrT : forall k, In t (readers s k) <-> in_R (tpc (th s t)) k) by (intro; apply Ir).
  assert (IwT : forall k, writer s k = Some t <-> in_W (tpc (th s t)) k) by (intro; apply Iw).
  destruct Ict as [Icons Icur].
  destruct (tpc (th s t)) as [|tk|tk c0 d r o] eqn:Epc; cbn [pc_ok in_R in_W] in Iat, IrT, IwT.
  - (* Idle: choose the next region *)
    destruct (prog (th s t) (hist (th s t))) as [tk|] eqn:Eg; [|discriminate].
    inversion H; subst; clear H.
    apply inv_upd; cbn [tpc hist prog set_pc pc_ok in_R in_W];
      [ exact HI | tauto | intro k; rewrite IrT; tauto | tauto | intro k; rewrite IwT; tauto
      | exact Ie | exact Ig | intros; apply Ia | | exact Iht | exact Ipt | ].
    + rewrite Ipt in Eg. eapply progs_ok; eauto.
    + rewrite Ipt in Eg. split; [exact Icons | exact Eg].
  - (* Waiting: acquire *)
    destruct (writer s (t_lock tk)) as [w|] eqn:Ew; [discriminate|].
    destruct (t_write tk) eqn:Em.
    + destruct (readers s (t_lock tk)) as [|x xs] eqn:Er; [|discriminate]. cbn [isnilb] in H.
      inversion H; subst; clear H.
      apply inv_upd; cbn [tpc hist prog set_pc pc_ok in_R in_W];
        [ exact HI | tauto | | | | | | intros; apply Ia | | exact Iht | exact Ipt | split; [exact Icons | exact Icur] ].
      * intro k. rewrite IrT. split; [tauto | intros [_ E]; congruence].
      * intros k t' Hne. lkcase k (t_lock tk); [|tauto]. rewrite Ew. split; [intro E; inversion E; congruence | discriminate].
      * intro k. lkcase k (t_lock tk); [split; auto|]. rewrite IwT. split; [tauto | intros [E _]; congruence].
      * intro k. lkcase k (t_lock tk); [intros _; exact Er | apply Ie].
      * intro k. lkcase k (t_lock tk); [discriminate | apply Ig].
      * split; [reflexivity|]. split; [exact Iat|]. split; [apply Ig; exact Ew | reflexivity].
    + inversion H; subst; clear H.
      apply inv_upd; cbn [tpc hist prog set_pc pc_ok in_R in_W];
        [ exact HI | | | tauto | | | exact Ig | intros; apply Ia | | exact Iht | exact Ipt | split; [exact Icons | exact Icur] ].
      * intros k t' Hne. lkcase k (t_lock tk); [|tauto]. cbn. split; [intros [E|E]; [congruence | exact E] | tauto].
      * intro k. lkcase k (t_lock tk); [cbn; split; auto|]. rewrite IrT. split; [tauto | intros [E _]; congruence].
      * intro k. rewrite IwT. split; [tauto | intros [_ E]; congruence].
      * intros k Hk. lkcase k (t_lock tk); [congruence | now apply Ie].
      * split; [reflexivity|]. split; [exact Iat|]. split; [apply Ig; exact Ew | reflexivity].
  - (* Inside *)
    destruct Iat as (A1 & A2 & A3 & A4).
    destruct r as [|a rest].
    + (* release *)
      inversion H; subst; clear H. rewrite app_nil_r in A1.
      assert (Hho : hist_ok ((tk, o) :: hist (th s t))).
      { intros tk0 o0 [E|E]; [|now apply Iht]. inversion E. subst tk0 o0. exists c0. split; [exact A3|].
        rewrite A1, A4. reflexivity. }
      destruct (t_write tk) eqn:Em.
      * assert (Hwt : writer s (t_lock tk) = Some t) by (apply IwT; auto).
        apply inv_upd; cbn [tpc hist prog set_pc pc_ok in_R in_W];
          [ exact HI | tauto | | | | | | intros; apply Ia | exact I | exact Hho | exact Ipt | split; [split; [exact Icur | exact Icons] | exact I] ].
        -- intro k. rewrite IrT. split; [intros [_ E]; congruence | tauto].
        -- intros k t' Hne. lkcase k (t_lock tk); [|tauto]. rewrite Hwt. split; [discriminate | intro E; inversion E; congruence].
        -- intro k. lkcase k (t_lock tk); [split; [discriminate | tauto]|]. rewrite IwT. split; [intros [E _]; congruence | tauto].
        -- intros k. lkcase k (t_lock tk); intro Hk; [now contradiction Hk | now apply Ie].
        -- intros k. lkcase k (t_lock tk); intro Hk; [|now apply Ig].
           destruct A2 as [_ A2]. specialize (A2 c0 A3). rewrite A1, A4 in A2. exact A2.
      * apply inv_upd; cbn [tpc hist prog set_pc pc_ok in_R in_W];
          [ exact HI | | | tauto | | | exact Ig | intros; apply Ia | exact I | exact Hho | exact Ipt | split; [split; [exact Icur | exact Icons] | exact I] ].
        -- intros k t' Hne. lkcase k (t_lock tk); [|tauto]. rewrite in_remove_iff. tauto.
        -- intro k. lkcase k (t_lock tk); [rewrite in_remove_iff; tauto|]. rewrite IrT. split; [intros [E _]; congruence | tauto].
        -- intro k. rewrite IwT. split; [intros [_ E]; congruence | tauto].
        -- intros k Hk. lkcase k (t_lock tk); [rewrite (Ie _ Hk); reflexivity | now apply Ie].
    + (* one access *)
      destruct (a (comp s (t_lock tk))) as [c' o'] eqn:Ea. inversion H; subst; clear H.
      assert (Hstep : run_acts (d ++ [a]) c0 = (c', o ++ [o'])).
      { rewrite run_acts_app, A4. cbn [Conc.run_acts]. now rewrite Ea. }
      assert (Hpc : pc_ok (updk (comp s) (t_lock tk) c') (Inside tk c0 (d ++ [a]) rest (o ++ [o']))).
      { cbn [pc_ok]. rewrite updk_same. split; [now rewrite <- app_assoc|]. split; [exact A2|]. split; [exact A3 | exact Hstep]. }
      destruct (t_write tk) eqn:Em.
      * assert (Hwt : writer s (t_lock tk) = Some t) by (apply IwT; auto).
        apply inv_upd; cbn [tpc hist prog set_pc in_R in_W];
          [ exact HI | tauto | intro k; rewrite IrT, ?Em; tauto | tauto | intro k; rewrite IwT, ?Em; tauto | exact Ie | | | exact Hpc | exact Iht | exact Ipt | split; [exact Icons | exact Icur] ].
        -- intros k Hk. lkcase k (t_lock tk); [congruence | now apply Ig].
        -- apply others_ok; [exact HI|]. left. rewrite Epc. cbn. auto.
      * (* read mode: the access does not change the component *)
        assert (Hro : c' = comp s (t_lock tk)).
        { destruct A2 as [A2 _]. specialize (A2 Em). rewrite A1 in A2. apply Forall_app in A2 as [_ A2].
          inversion A2 as [|x l Hx _]; subst. specialize (Hx (comp s (t_lock tk))). now rewrite Ea in Hx. }
        apply inv_upd; cbn [tpc hist prog set_pc in_R in_W];
          [ exact HI | tauto | intro k; rewrite IrT, ?Em; tauto | tauto | intro k; rewrite IwT, ?Em; tauto | exact Ie | | | exact Hpc | exact Iht | exact Ipt | split; [exact Icons | exact Icur] ].
        -- intros k Hk. lkcase k (t_lock tk); [rewrite Hro; now apply Ig | now apply Ig].
        -- apply others_ok; [exact HI|]. right. rewrite Epc. cbn. auto.
Qed.

Theorem run_inv sched : forall s, Inv s -> Inv (run s sched).
Proof.
  induction sched as [|t rest IH]; intros s H; cbn [Conc.run]; [exact H|].
  apply IH. destruct (step s t) eqn:E; [eapply step_inv; eassumption | exact H].
Qed.

(* ---- the statements, for every reachable state ---- *)
Section Reachable.
Variable c0 : lk -> C.
Hypothesis c0_good : forall k, Good k (c0 k).
Variable sched : list tid.
Let s := run (init lk C out c0 progs) sched.

Lemma reach_inv : Inv s.
Proof. apply run_inv, inv_init, c0_good. Qed.

(* no two goroutines are ever inside conflicting regions of the same lock *)
Theorem no_conflict t1 t2 k : t1 <> t2 -> in_W (tpc (th s t1)) k ->
  ~ in_R (tpc (th s t2)) k /\ ~ in_W (tpc (th s t2)) k.
Proof.
  destruct reach_inv as [Ir Iw Ie _ _ _ _ _]. intros Hne Hw.
  assert (H1 : writer s k = Some t1) by now apply Iw. split; intro H2.
  - assert (H : In t2 (readers s k)) by now apply Ir. rewrite Ie in H by congruence. exact H.
  - assert (H : writer s k = Some t2) by now apply Iw. congruence.
Qed.

(* atomicity: the outputs of every completed region are those of running it alone from a good component *)
Theorem regions_atomic t tk o : In (tk, o) (hist (th s t)) ->
  exists c, Good (t_lock tk) c /\ o = snd (run_acts (t_acts tk) c).
Proof. destruct reach_inv as [_ _ _ _ _ Ih _ _]. apply Ih. Qed.

(* components are good whenever nobody is writing them *)
Theorem quiescent_good k : writer s k = None -> Good k (comp s k).
Proof. destruct reach_inv as [_ _ _ Ig _ _ _ _]. apply Ig. Qed.

(* no deadlock: while some goroutine is not finished, some goroutine can take a step *)
Definition finished (T : thread lk C out) : Prop := tpc T = Idle /\ prog T (hist T) = None.
Theorem progress t : ~ finished (th s t) -> exists t', step s t' <> None.
Proof.
  destruct reach_inv as [Ir Iw Ie _ _ _ _ _]. intro Hnf.
  destruct (tpc (th s t)) as [|tk|tk cc d r o] eqn:Ep.
  - exists t. unfold Conc.step. rewrite Ep. unfold finished in Hnf.
    destruct (prog (th s t) (hist (th s t))); [discriminate | tauto].
  - destruct (writer s (t_lock tk)) as [w|] eqn:Ew.
    + exists w. assert (Hw : in_W (tpc (th s w)) (t_lock tk)) by now apply Iw.
      unfold Conc.step. destruct (tpc (th s w)) as [| |tk' c' d' [|a r'] o']; cbn in Hw; try tauto; try discriminate.
      destruct (a _). discriminate.
    + destruct (t_write tk) eqn:Em.
      * destruct (readers s (t_lock tk)) as [|x xs] eqn:Er.
        -- exists t. unfold Conc.step. rewrite Ep, Ew, Em, Er. discriminate.
        -- exists x. assert (Hx : in_R (tpc (th s x)) (t_lock tk)) by (apply Ir; rewrite Er; now left).
           unfold Conc.step. destruct (tpc (th s x)) as [| |tk' c' d' [|a r'] o']; cbn in Hx; try tauto; try discriminate.
           destruct (a _). discriminate.
      * exists t. unfold Conc.step. rewrite Ep, Ew, Em. discriminate.
  - exists t. unfold Conc.step. rewrite Ep. destruct r as [|a r']; [discriminate|]. destruct (a _). discriminate.
Qed.
End Reachable.

(* ---- outputs stay valid: what a completed region reported remains true of the protected component ----
   [Ext k c c']  : the component may only evolve from c to c' (e.g. cache entries are never replaced);
   [Valid tk o c]: the outputs o of region tk are consistent with component value c (e.g. "index i holds
                   instance x").  If every region extends the component and reports outputs valid for the
   component it leaves behind, and validity survives extension, then at every reachable state every output
   ever reported by any goroutine is valid for the current COMMITTED value of its component (the value
   before the running writer, if any, entered).  Two outputs about the same thing therefore agree. *)
Section Validity.
Variable Ext : lk -> C -> C -> Prop.
Variable Valid : task -> list out -> C -> Prop.
Hypothesis valid_stable : forall tk o c c', Valid tk o c -> Ext (t_lock tk) c c' -> Valid tk o c'.
Definition tk_valid (tk : task) : Prop :=
  forall c, Good (t_lock tk) c ->
    Ext (t_lock tk) c (fst (run_acts (t_acts tk) c)) /\ Valid tk (snd (run_acts (t_acts tk) c)) (fst (run_acts (t_acts tk) c)).
Hypothesis progs_valid : forall t h tk, consistent t h -> hist_ok h -> progs t h = Some tk -> tk_valid tk.

Definition committed (s : state) (k : lk) : C :=
  match writer s k with
  | Some w => match tpc (th s w) with Inside _ c0 _ _ _ => c0 | _ => comp s k end
  | None => comp s k
  end.
Definition InvV (s : state) : Prop :=
  forall t tk o, In (tk, o) (hist (th s t)) -> Valid tk o (committed s (t_lock tk)).

Lemma committed_eq s s' k :
  writer s' k = writer s k -> comp s' k = comp s k ->
  (forall w, writer s k = Some w -> tpc (th s' w) = tpc (th s w)) -> committed s' k = committed s k.
Proof.
  intros Hw Hc Hp. unfold committed. rewrite Hw, Hc. destruct (writer s k) as [w|]; [|reflexivity]. now rewrite (Hp w eq_refl).
Qed.

Lemma step_invV s t s' : Inv s -> InvV s -> step s t = Some s' -> InvV s'.
Proof.
  intros HI HV H. pose proof HI as [Ir Iw Ie Ig Ia Ih Ip Ic]. unfold Conc.step in H.
  pose proof (Ia t) as Iat. pose proof (Ic t) as Ict. destruct Ict as [Icons Icur].
  assert (IwT : forall k, writer s k = Some t <-> in_W (tpc (th s t)) k) by (intro; apply Iw).
  destruct (tpc (th s t)) as [|tk|tk c0 d r o] eqn:Epc; cbn [pc_ok in_W] in Iat, IwT, Icur.
  - (* choose: nothing protected changes; t holds no lock *)
    destruct (prog (th s t) (hist (th s t))) as [tk|] eqn:Eg; [|discriminate]. inversion H; subst; clear H.
    intros t' tk' o'. cbn [th]. destruct (Nat.eq_dec t' t) as [->|Hne]; [rewrite updn_same | rewrite updn_other by exact Hne];
      cbn [hist set_pc]; intro Hin.
    all: rewrite (committed_eq s _ (t_lock tk')); [now apply (HV _ _ _ Hin) | reflexivity | reflexivity |].
    all: intros w Hw; cbn [th]; destruct (Nat.eq_dec w t) as [->|Hw']; [apply IwT in Hw; destruct Hw | now rewrite updn_other].
  - (* acquire *)
    destruct (writer s (t_lock tk)) as [w0|] eqn:Ew; [discriminate|].
    destruct (t_write tk) eqn:Em.
    + destruct (readers s (t_lock tk)) as [|x xs] eqn:Er; [|discriminate]. cbn [isnilb] in H. inversion H; subst; clear H.
      intros t' tk' o' Hin.
      assert (Hin' : In (tk', o') (hist (th s t'))).
      { cbn [th] in Hin. destruct (Nat.eq_dec t' t) as [->|Hne]; [now rewrite updn_same in Hin | now rewrite updn_other in Hin by exact Hne]. }
      specialize (HV _ _ _ Hin'). unfold committed in *. cbn [writer comp th].
      destruct (lk_eq_dec (t_lock tk') (t_lock tk)) as [Ek|Ek].
      * rewrite Ek, updk_same, updn_same. cbn [tpc set_pc]. rewrite Ek, Ew in HV. exact HV.
      * rewrite updk_other by exact Ek. destruct (writer s (t_lock tk')) as [w|] eqn:Ew'; [|exact HV].
        destruct (Nat.eq_dec w t) as [->|Hw']; [apply IwT in Ew'; destruct Ew' | now rewrite updn_other by exact Hw'].
    + inversion H; subst; clear H. intros t' tk' o' Hin.
      assert (Hin' : In (tk', o') (hist (th s t'))).
      { cbn [th] in Hin. destruct (Nat.eq_dec t' t) as [->|Hne]; [now rewrite updn_same in Hin | now rewrite updn_other in Hin by exact Hne]. }
      rewrite (committed_eq s _ (t_lock tk')); [exact (HV _ _ _ Hin') | reflexivity | reflexivity |].
      intros w Hw; cbn [th]; destruct (Nat.eq_dec w t) as [->|Hw']; [apply IwT in Hw; destruct Hw | now rewrite updn_other].
  - destruct Iat as (A1 & A2 & A3 & A4). destruct r as [|a rest].
    + (* release *)
      inversion H; subst; clear H. rewrite app_nil_r in A1.
      assert (Htv : tk_valid tk) by (eapply progs_valid; eauto).
      destruct (Htv c0 A3) as [Hext Hval]. rewrite A1, A4 in Hext, Hval. cbn [fst snd] in Hext, Hval.
      destruct (t_write tk) eqn:Em.
      * assert (Hwt : writer s (t_lock tk) = Some t) by (apply IwT; auto).
        assert (Hc0 : committed s (t_lock tk) = c0) by (unfold committed; now rewrite Hwt, Epc).
        intros t' tk' o' Hin. unfold committed. cbn [writer comp th].
        destruct (lk_eq_dec (t_lock tk') (t_lock tk)) as [Ek|Ek].
        -- rewrite Ek, updk_same.
           assert (Hold : In (tk', o') (hist (th s t')) -> Valid tk' o' (comp s (t_lock tk))).
           { intro Hi. apply (valid_stable _ _ c0); [|now rewrite Ek]. specialize (HV _ _ _ Hi). now rewrite Ek, Hc0 in HV. }
           cbn [th] in Hin. destruct (Nat.eq_dec t' t) as [->|Hne].
           ++ rewrite updn_same in Hin. cbn [hist] in Hin. destruct Hin as [E|Hi]; [inversion E; subst; exact Hval | now apply Hold].
           ++ rewrite updn_other in Hin by exact Hne. now apply Hold.
        -- rewrite updk_other by exact Ek.
           assert (Hin' : In (tk', o') (hist (th s t'))).
           { cbn [th] in Hin. destruct (Nat.eq_dec t' t) as [->|Hne]; [|now rewrite updn_other in Hin by exact Hne].
             rewrite updn_same in Hin. cbn [hist] in Hin. destruct Hin as [E|Hi]; [inversion E; subst; congruence | exact Hi]. }
           specialize (HV _ _ _ Hin'). unfold committed in HV.
           destruct (writer s (t_lock tk')) as [w|] eqn:Ew'; [|exact HV].
           destruct (Nat.eq_dec w t) as [->|Hw']; [apply IwT in Ew'; destruct Ew' as [E _]; congruence | now rewrite updn_other by exact Hw'].
      * (* read release: the component did not change while reading; no writer on this lock *)
        assert (Hnw : writer s (t_lock tk) = None).
        { destruct (writer s (t_lock tk)) as [w|] eqn:Ew; [|reflexivity]. exfalso.
          assert (Hr : In t (readers s (t_lock tk))) by (apply Ir; rewrite Epc; cbn; auto).
          rewrite Ie in Hr by congruence. exact Hr. }
        intros t' tk' o' Hin.
        assert (Hcm : forall k, committed {| readers := updk (readers s) (t_lock tk) (remove Nat.eq_dec t (readers s (t_lock tk)));
                                      writer := writer s; comp := comp s;
                                      th := updn (th s) t {| tpc := Idle; hist := (tk, o) :: hist (th s t); prog := prog (th s t) |} |} k
                                 = committed s k).
        { intro k. apply committed_eq; [reflexivity | reflexivity|]. intros w Hw. cbn [th].
          destruct (Nat.eq_dec w t) as [->|Hw']; [apply IwT in Hw; destruct Hw; congruence | now rewrite updn_other]. }
        rewrite Hcm. cbn [th] in Hin. destruct (Nat.eq_dec t' t) as [->|Hne].
        -- rewrite updn_same in Hin. cbn [hist] in Hin. destruct Hin as [E|Hi]; [|exact (HV _ _ _ Hi)].
           inversion E; subst. unfold committed. now rewrite Hnw.
        -- rewrite updn_other in Hin by exact Hne. exact (HV _ _ _ Hin).
    + (* one access: the committed value of the lock is the writer's snapshot, or the component is unchanged *)
      destruct (a (comp s (t_lock tk))) as [c' o1] eqn:Ea. inversion H; subst; clear H.
      intros t' tk' o' Hin.
      assert (Hin' : In (tk', o') (hist (th s t'))).
      { cbn [th] in Hin. destruct (Nat.eq_dec t' t) as [->|Hne]; [now rewrite updn_same in Hin | now rewrite updn_other in Hin by exact Hne]. }
      specialize (HV _ _ _ Hin'). unfold committed in *. cbn [writer comp th].
      destruct (writer s (t_lock tk')) as [w|] eqn:Ew'.
      * destruct (Nat.eq_dec w t) as [->|Hw'].
        -- rewrite updn_same. cbn [tpc set_pc]. now rewrite Epc in HV.
        -- rewrite updn_other by exact Hw'. pose proof (proj1 (Iw _ _) Ew') as Hiw.
           destruct (tpc (th s w)); cbn in Hiw; [tauto | tauto | exact HV].
      * destruct (lk_eq_dec (t_lock tk') (t_lock tk)) as [Ek|Ek]; [|now rewrite updk_other].
        rewrite Ek, updk_same.
        (* no writer on this lock: t is a reader, its accesses do not change the component *)
        destruct (t_write tk) eqn:Em; [assert (writer s (t_lock tk) = Some t) by (apply IwT; auto); rewrite Ek in Ew'; congruence|].
        destruct A2 as [A2 _]. specialize (A2 Em). rewrite A1 in A2. apply Forall_app in A2 as [_ A2].
        inversion A2 as [|x l Hx _]; subst. specialize (Hx (comp s (t_lock tk))). rewrite Ea in Hx. cbn [fst] in Hx.
        rewrite Hx. now rewrite Ek in HV.
Qed.

Theorem run_invV sched : forall s, Inv s -> InvV s -> InvV (run s sched).
Proof.
  induction sched as [|t rest IH]; intros s HI HV; cbn [Conc.run]; [exact HV|].
  destruct (step s t) eqn:E; [|now apply IH]. apply IH; [eapply step_inv; eauto | eapply step_invV; eauto].
Qed.

(* at every reachable state, whatever any goroutine was ever told is valid for the committed components *)
Theorem outputs_stay_valid c0 sched t tk o : (forall k, Good k (c0 k)) ->
  In (tk, o) (hist (th (run (init lk C out c0 progs) sched) t)) ->
  Valid tk o (committed (run (init lk C out c0 progs) sched) (t_lock tk)).
Proof.
  intros Hg. apply (run_invV sched); [now apply inv_init | intros t' tk' o' []].
Qed.
End Validity.
End Regions.

(* ================= the request pool ================= *)
Section PoolProofs.
Variable F : Type.
Variable blank : F.
Notation pstep := (pstep F blank).
Notation prun := (prun F blank).

Definition own (p : ppc F) : option nat :=
  match p with PHave o _ _ _ => Some o | PUse o _ _ => Some o | PIdle => None end.
Definition pc_val (objf : nat -> F) (p : ppc F) : Prop :=
  match p with
  | PHave o st j todo => exists done, j = done ++ todo /\ objf o = apply_writes F done st
  | PUse o st j => objf o = apply_writes F j st
  | PIdle => True
  end.

Record PInv (s : pstate F) : Prop := {
  Q1 : forall t o, own (ppc_of (pth s t)) = Some o -> o < fresh s /\ ~ In o (pool s);
  Q2 : forall t1 t2 o, t1 <> t2 -> own (ppc_of (pth s t1)) = Some o -> own (ppc_of (pth s t2)) = Some o -> False;
  Q3 : NoDup (pool s) /\ forall o, In o (pool s) -> o < fresh s;
  Q4 : forall t, pc_val (obj s) (ppc_of (pth s t));
  Q5 : forall t st j seen, In (st, j, seen) (reads (pth s t)) -> seen = apply_writes F j st }.

Lemma pinv_init js : PInv (pinit F blank js).
Proof. constructor; cbn; intros; try discriminate; try tauto. split; [constructor | intros ? []]. Qed.

Lemma remove_nth (l : list nat) c o : NoDup l -> nth_error l c = Some o ->
  NoDup (firstn c l ++ skipn (S c) l) /\ ~ In o (firstn c l ++ skipn (S c) l) /\
  forall x, In x (firstn c l ++ skipn (S c) l) -> In x l.
Proof.
  intros Hnd Hn. destruct (nth_error_split l c Hn) as (l1 & l2 & -> & Hlen).
  assert (E1 : firstn c (l1 ++ o :: l2) = l1) by (rewrite <- Hlen, firstn_app, Nat.sub_diag, firstn_all; cbn; now rewrite app_nil_r).
  assert (E2 : skipn (S c) (l1 ++ o :: l2) = l2).
  { rewrite <- Hlen. replace (l1 ++ o :: l2) with ((l1 ++ [o]) ++ l2) by now rewrite <- app_assoc.
    replace (S (length l1)) with (length (l1 ++ [o])) by (rewrite app_length; cbn; lia).
    rewrite skipn_app, Nat.sub_diag, skipn_all. reflexivity. }
  rewrite E1, E2. split; [now apply NoDup_remove_1 in Hnd|]. split; [now apply NoDup_remove_2 in Hnd|].
  intros x Hx. apply in_or_app. apply in_app_or in Hx as [Hx|Hx]; [now left | right; now right].
Qed.

Lemma apply_writes_snoc ws w f : apply_writes F (ws ++ [w]) f = w (apply_writes F ws f).
Proof. unfold apply_writes. now rewrite fold_left_app. Qed.

Lemma pstep_inv s t c s' : PInv s -> pstep s t c = Some s' -> PInv s'.
Proof.
  intros [H1 H2 H3 H4 H5] H. unfold Conc.pstep in H.
  pose proof (H1 t) as H1t. pose proof (H4 t) as H4t. pose proof (H5 t) as H5t.
  assert (Hoth : forall t' o, t' <> t -> own (ppc_of (pth s t')) = Some o -> own (ppc_of (pth s t)) <> Some o).
  { intros t' o Hne Ho Ht. exact (H2 t' t o Hne Ho Ht). }
  destruct (ppc_of (pth s t)) as [|o st j todo|o st j] eqn:Ep; cbn [own pc_val] in *.
  - destruct (jobs (pth s t)) as [|j rest] eqn:Ej; [discriminate|].
    destruct (nth_error (pool s) c) as [o|] eqn:En; inversion H; subst; clear H.
    + destruct H3 as [Hnd Hlt]. destruct (remove_nth _ _ _ Hnd En) as (R1 & R2 & R3).
      assert (Hin : In o (pool s)) by (eapply nth_error_In; eauto).
      constructor; cbn [pool fresh obj pth].
      * intros t' o'. destruct (Nat.eq_dec t' t) as [->|Hne].
        -- rewrite updn_same. cbn. intro E; inversion E; subst. split; [now apply Hlt | exact R2].
        -- rewrite updn_other by exact Hne. intro Ho. destruct (H1 _ _ Ho) as [A B]. split; [exact A | intro X; apply B; now apply R3].
      * intros t1 t2 o'. destruct (Nat.eq_dec t1 t) as [->|N1]; destruct (Nat.eq_dec t2 t) as [->|N2];
          rewrite ?updn_same, ?updn_other by assumption; cbn [own ppc_of]; try congruence.
        -- intros _ E Ho. inversion E; subst. destruct (H1 _ _ Ho) as [_ B]. now apply B.
        -- intros _ Ho E. inversion E; subst. destruct (H1 _ _ Ho) as [_ B]. now apply B.
        -- apply H2.
      * split; [exact R1 | intros x Hx; apply Hlt; now apply R3].
      * intro t'. destruct (Nat.eq_dec t' t) as [->|Hne]; [rewrite updn_same; cbn; exists []; auto | rewrite updn_other by exact Hne; apply H4].
      * intro t'. destruct (Nat.eq_dec t' t) as [->|Hne]; [rewrite updn_same; cbn; exact H5t | rewrite updn_other by exact Hne; apply H5].
    + destruct H3 as [Hnd Hlt].
      constructor; cbn [pool fresh obj pth].
      * intros t' o'. destruct (Nat.eq_dec t' t) as [->|Hne].
        -- rewrite updn_same. cbn. intro E; inversion E; subst. split; [lia | intro X; apply Hlt in X; lia].
        -- rewrite updn_other by exact Hne. intro Ho. destruct (H1 _ _ Ho) as [A B]. split; [lia | exact B].
      * intros t1 t2 o'. destruct (Nat.eq_dec t1 t) as [->|N1]; destruct (Nat.eq_dec t2 t) as [->|N2];
          rewrite ?updn_same, ?updn_other by assumption; cbn [own ppc_of]; try congruence.
        -- intros _ E Ho. inversion E; subst. destruct (H1 _ _ Ho) as [A _]. lia.
        -- intros _ Ho E. inversion E; subst. destruct (H1 _ _ Ho) as [A _]. lia.
        -- apply H2.
      * split; [exact Hnd | intros x Hx; apply Hlt in Hx; lia].
      * intro t'. destruct (Nat.eq_dec t' t) as [->|Hne].
        -- rewrite updn_same. cbn. exists []. split; [reflexivity|]. now rewrite updn_same.
        -- rewrite updn_other by exact Hne. specialize (H4 t'). specialize (H1 t').
           destruct (ppc_of (pth s t')) as [|o' st' j' todo'|o' st' j']; cbn [pc_val own] in *; auto.
           ++ destruct (H1 o' eq_refl) as [A _]. now rewrite updn_other by lia.
           ++ destruct (H1 o' eq_refl) as [A _]. now rewrite updn_other by lia.
      * intro t'. destruct (Nat.eq_dec t' t) as [->|Hne]; [rewrite updn_same; cbn; exact H5t | rewrite updn_other by exact Hne; apply H5].
  - (* owns o *)
    destruct todo as [|w todo]; inversion H; subst; clear H.
    + (* filled *)
      constructor; cbn [pool fresh obj pth].
      * intros t' o'. destruct (Nat.eq_dec t' t) as [->|Hne]; [rewrite updn_same; cbn; exact (H1t o') | rewrite updn_other by exact Hne; apply H1].
      * intros t1 t2 o'. destruct (Nat.eq_dec t1 t) as [->|N1]; destruct (Nat.eq_dec t2 t) as [->|N2];
          rewrite ?updn_same, ?updn_other by assumption; cbn [own ppc_of]; try congruence.
        -- intros _ E Ho. exact (Hoth _ _ N2 Ho E).
        -- intros _ Ho E. exact (Hoth _ _ N1 Ho E).
        -- apply H2.
      * exact H3.
      * intro t'. destruct (Nat.eq_dec t' t) as [->|Hne]; [|rewrite updn_other by exact Hne; apply H4].
        rewrite updn_same. cbn. destruct H4t as (done & -> & Hv). now rewrite app_nil_r.
      * intro t'. destruct (Nat.eq_dec t' t) as [->|Hne]; [rewrite updn_same; cbn; exact H5t | rewrite updn_other by exact Hne; apply H5].
    + (* one field write *)
      constructor; cbn [pool fresh obj pth].
      * intros t' o'. destruct (Nat.eq_dec t' t) as [->|Hne]; [rewrite updn_same; cbn; exact (H1t o') | rewrite updn_other by exact Hne; apply H1].
      * intros t1 t2 o'. destruct (Nat.eq_dec t1 t) as [->|N1]; destruct (Nat.eq_dec t2 t) as [->|N2];
          rewrite ?updn_same, ?updn_other by assumption; cbn [own ppc_of]; try congruence.
        -- intros _ E Ho. exact (Hoth _ _ N2 Ho E).
        -- intros _ Ho E. exact (Hoth _ _ N1 Ho E).
        -- apply H2.
      * exact H3.
      * intro t'. destruct (Nat.eq_dec t' t) as [->|Hne].
        -- rewrite updn_same. cbn. destruct H4t as (done & -> & Hv). exists (done ++ [w]). split; [now rewrite <- app_assoc|].
           now rewrite updn_same, apply_writes_snoc, Hv.
        -- rewrite updn_other by exact Hne. specialize (H4 t'). pose proof (Hoth t') as Ho.
           destruct (ppc_of (pth s t')) as [|o' st' j' todo'|o' st' j']; cbn [pc_val own] in *; auto.
           ++ assert (o' <> o) by (intro E; subst; exact (Ho o Hne eq_refl eq_refl)). now rewrite updn_other.
           ++ assert (o' <> o) by (intro E; subst; exact (Ho o Hne eq_refl eq_refl)). now rewrite updn_other.
      * intro t'. destruct (Nat.eq_dec t' t) as [->|Hne]; [rewrite updn_same; cbn; exact H5t | rewrite updn_other by exact Hne; apply H5].
  - (* the query reads its object, then Put *)
    inversion H; subst; clear H. destruct (H1t o eq_refl) as [A B]. destruct H3 as [Hnd Hlt].
    constructor; cbn [pool fresh obj pth].
    + intros t' o'. destruct (Nat.eq_dec t' t) as [->|Hne]; [rewrite updn_same; cbn; discriminate|].
      rewrite updn_other by exact Hne. intro Ho. destruct (H1 _ _ Ho) as [A' B']. split; [exact A'|].
      intros [E|X]; [subst; exact (Hoth _ _ Hne Ho eq_refl) | now apply B'].
    + intros t1 t2 o'. destruct (Nat.eq_dec t1 t) as [->|N1]; destruct (Nat.eq_dec t2 t) as [->|N2];
        rewrite ?updn_same, ?updn_other by assumption; cbn [own ppc_of]; try congruence; try discriminate. apply H2.
    + split; [constructor; assumption | intros x [<-|Hx]; [exact A | now apply Hlt]].
    + intro t'. destruct (Nat.eq_dec t' t) as [->|Hne]; [rewrite updn_same; exact I | rewrite updn_other by exact Hne; apply H4].
    + intro t'. destruct (Nat.eq_dec t' t) as [->|Hne]; [|rewrite updn_other by exact Hne; apply H5].
      rewrite updn_same. cbn. intros st' j' seen [E|E]; [inversion E; subst; exact H4t | now apply H5t].
Qed.

Theorem prun_inv sched : forall s, PInv s -> PInv (prun s sched).
Proof.
  induction sched as [|[t c] rest IH]; intros s H; cbn [Conc.prun]; [exact H|].
  apply IH. destruct (pstep s t c) eqn:E; [eapply pstep_inv; eassumption | exact H].
Qed.

(* for every number of goroutines, every list of queries per goroutine, every schedule and every choice the
   pool makes: two goroutines never hold the same request object ... *)
Theorem pool_exclusive js sched t1 t2 o : t1 <> t2 ->
  own (ppc_of (pth (prun (pinit F blank js) sched) t1)) = Some o ->
  own (ppc_of (pth (prun (pinit F blank js) sched) t2)) <> Some o.
Proof. intros Hne H1 H2. exact (Q2 _ (prun_inv sched _ (pinv_init js)) t1 t2 o Hne H1 H2). Qed.
(* ... and every query sees exactly its own field writes applied to whatever the object held before *)
Theorem pool_reads js sched t st j seen :
  In (st, j, seen) (reads (pth (prun (pinit F blank js) sched) t)) -> seen = apply_writes F j st.
Proof. apply (Q5 _ (prun_inv sched _ (pinv_init js))). Qed.
(* hence, when the writes overwrite every field, what the query sees does not depend on the previous owner *)
Corollary pool_no_leak js sched t st j seen v :
  (forall f, apply_writes F j f = v) ->
  In (st, j, seen) (reads (pth (prun (pinit F blank js) sched) t)) -> seen = v.
Proof. intros Hj H. rewrite (pool_reads _ _ _ _ _ _ H). apply Hj. Qed.
End PoolProofs.

(* ================= the engines' locks as an instance ================= *)
Section Engines.
Variable rule : Type.                          (* materialised rules *)
Variable cval : Type.                          (* compiled patterns *)
Variable content : nat -> nat -> option rule.  (* list id -> byte offset -> what the list holds there *)
Variable compile : nat -> cval.                (* rule object -> the compilation of its pattern *)

Notation ecomp := (Conc.ecomp rule cval).
Notation eout := (Conc.eout rule cval).
Notation etask := (task elk ecomp eout).
Notation EGood := (Conc.EGood rule cval content compile).
Notation EExt := (Conc.EExt rule cval).
Notation EValid := (Conc.EValid rule cval).
Notation allowed := (Conc.allowed rule cval content compile).
Notation T_lookup := (Conc.T_lookup rule cval).
Notation T_load := (Conc.T_load rule cval content).
Notation T_insert := (Conc.T_insert rule cval).
Notation T_prepare := (Conc.T_prepare rule cval compile).
Variable progs : tid -> list (etask * list eout) -> option etask.
Hypothesis progs_allowed : forall t h tk, consistent elk ecomp eout progs t h -> progs t h = Some tk -> allowed h tk.

Lemma upd2_same {A} (m : nat * nat -> option A) i v : upd2 m i v i = v.
Proof. unfold upd2. now rewrite !Nat.eqb_refl. Qed.
Lemma upd2_cases {A} (m : nat * nat -> option A) i v j : upd2 m i v j = v /\ j = i \/ upd2 m i v j = m j /\ j <> i.
Proof.
  unfold upd2. destruct (Nat.eqb (fst j) (fst i) && Nat.eqb (snd j) (snd i))%bool eqn:E.
  - apply andb_true_iff in E as [E1 E2]. apply Nat.eqb_eq in E1, E2. left. split; [reflexivity|].
    destruct i, j; cbn in *; congruence.
  - right. split; [reflexivity|]. intros ->. now rewrite !Nat.eqb_refl in E.
Qed.

(* the inserted rule is the output of an atomic load of i *)
Lemma loaded_is_content h i r : hist_ok elk ecomp eout EGood h -> In (T_load i, [OUnit; ORule (Some r)]) h ->
  content (fst i) (snd i) = Some r.
Proof.
  intros Hh Hin. destruct (Hh _ _ Hin) as (c0 & Hg & Ho). cbn in Hg, Ho. destruct c0 as [m0|o0|cc0]; cbn in Hg; try contradiction.
  cbn in Ho. inversion Ho. reflexivity.
Qed.

Lemma eprogs_ok : forall t h tk, consistent elk ecomp eout progs t h -> hist_ok elk ecomp eout EGood h ->
  progs t h = Some tk -> tk_ok elk ecomp eout EGood tk.
Proof.
  intros t h tk Hcons Hh Hp. destruct (progs_allowed t h tk Hcons Hp) as [[i ->]|[[i ->]|[[r ->]|(i & r & x & -> & Hin)]]]; split; cbn.
  - intros _. constructor; [|constructor]. intro c. reflexivity.
  - intros c Hc. exact Hc.
  - discriminate.
  - intros c _. exact I.
  - discriminate.
  - intros c Hc. destruct c as [m|o|[v|]]; cbn in *; auto.
  - discriminate.
  - intros c Hc. destruct c as [m|o|cc]; cbn in *; try contradiction.
    destruct (m i) as [v|] eqn:Ei; cbn; [exact Hc|].
    intros j r0 x0. destruct (upd2_cases m i (Some (r, x)) j) as [[-> ->]|[-> _]]; [|apply Hc].
    intro Hr. inversion Hr; subst. eapply loaded_is_content; eauto.
Qed.

Lemma eprogs_valid : forall t h tk, consistent elk ecomp eout progs t h -> hist_ok elk ecomp eout EGood h ->
  progs t h = Some tk -> tk_valid elk ecomp eout EGood EExt EValid tk.
Proof.
  intros t h tk Hcons Hh Hp c Hc.
  destruct (progs_allowed t h tk Hcons Hp) as [[i ->]|[[i ->]|[[r ->]|(i & r & x & -> & Hin)]]]; cbn in Hc |- *.
  - destruct c as [m|o|cc]; cbn in Hc; try contradiction. split; cbn.
    + auto.
    + intros _ j v [E|[]]. injection E as Ej Hm. subst j. exact Hm.
  - split; [exact I | intro E; discriminate].
  - split; [exact I | intro E; discriminate].
  - destruct c as [m|o|cc]; cbn in Hc; try contradiction. unfold Conc.run_acts, Conc.cache_insert.
    destruct (m i) as [v0|] eqn:Ei; cbn [fst snd].
    + split.
      * cbn. auto.
      * intros _ j v [E|[]]. injection E as Ej Hm. subst j v. exact Ei.
    + split.
      * cbn. intros j v Hj. destruct (upd2_cases m i (Some (r, x)) j) as [[_ ->]|[-> _]]; [congruence | exact Hj].
      * intros _ j v [E|[]]. injection E as Ej Hm. subst j v. apply upd2_same.
Qed.
Lemma evalid_stable : forall tk o c c', EValid tk o c -> EExt (t_lock tk) c c' -> EValid tk o c'.
Proof.
  intros tk o c c' Hv He Hl j v Hin. specialize (Hv Hl j v Hin). rewrite Hl in He.
  destruct c as [m|?|?]; try contradiction. destruct c' as [m'|?|?]; cbn in He; try contradiction. now apply He.
Qed.

Variable c0 : elk -> ecomp.
Hypothesis c0_good : forall k, EGood k (c0 k).
Variable sched : list tid.
Let s := run elk elk_eq_dec ecomp eout (init elk ecomp eout c0 progs) sched.

(* For every number of goroutines, every strategy respecting [allowed], every schedule: *)

(* a completed load returns what the list holds at ITS index, whatever seeks other goroutines performed *)
Theorem load_returns_content t i o : In (T_load i, o) (hist (th s t)) -> o = [OUnit; ORule (content (fst i) (snd i))].
Proof.
  intro H. destruct (regions_atomic elk elk_eq_dec ecomp eout EGood progs eprogs_ok c0 c0_good sched t _ _ H) as (c & Hg & ->).
  cbn in Hg. destruct c as [m|off|cc]; cbn in Hg; try contradiction. reflexivity.
Qed.
(* a completed cache lookup returns nothing or an object holding the rule of the lists at that index *)
Theorem lookup_returns_content t i o : In (T_lookup i, o) (hist (th s t)) ->
  o = [OInst i None] \/ exists r x, o = [OInst i (Some (r, x))] /\ content (fst i) (snd i) = Some r.
Proof.
  intro H. destruct (regions_atomic elk elk_eq_dec ecomp eout EGood progs eprogs_ok c0 c0_good sched t _ _ H) as (c & Hg & ->).
  cbn in Hg. destruct c as [m|off|cc]; cbn in Hg; try contradiction. cbn.
  destruct (m i) as [[r x]|] eqn:E; [right; exists r, x; split; [reflexivity | now apply (Hg i r x)] | now left].
Qed.
(* a completed insert hands back an object holding the rule of the lists at that index *)
Theorem insert_returns_content t i r x o : In (T_insert i r x, o) (hist (th s t)) ->
  exists r' x', o = [OInst i (Some (r', x'))] /\ content (fst i) (snd i) = Some r'.
Proof.
  intro H. assert (Hinv := reach_inv elk elk_eq_dec ecomp eout EGood progs eprogs_ok c0 c0_good sched). fold s in Hinv.
  destruct (regions_atomic elk elk_eq_dec ecomp eout EGood progs eprogs_ok c0 c0_good sched t _ _ H) as (c & Hg & ->).
  cbn in Hg. destruct c as [m|off|cc]; cbn in Hg; try contradiction. cbn.
  destruct (m i) as [[r' x']|] eqn:E; cbn.
  - exists r', x'. split; [reflexivity | now apply (Hg i r' x')].
  - exists r, x. split; [reflexivity|].
    (* the strategy only inserts what it loaded *)
    destruct Hinv as [_ _ _ _ _ Ih _ Ic]. destruct (Ic t) as [Hcons _].
    assert (Hsuf : forall h, consistent elk ecomp eout progs t h -> hist_ok elk ecomp eout EGood h ->
              In (T_insert i r x, [OInst i (Some (r, x))]) h -> content (fst i) (snd i) = Some r).
    { induction h as [|[tk1 o1] h IHh]; [intros _ _ []|]. cbn [consistent]. intros [Hp Hc'] Hok [Eq1|Hin'].
      - inversion Eq1; subst tk1 o1.
        assert (Hok' : hist_ok elk ecomp eout EGood h) by (intros a b Hab; apply Hok; now right).
        destruct (progs_allowed t h _ Hc' Hp) as [[j Ej]|[[j Ej]|[[q Eq]|(j & r1 & x1 & Ej & Hl)]]].
        + apply (f_equal (fun k => t_write k)) in Ej. discriminate.
        + apply (f_equal (fun k => t_lock k)) in Ej. discriminate.
        + apply (f_equal (fun k => t_lock k)) in Eq. discriminate.
        + (* same region: compare the single access on a probe component *)
          assert (Ea : cache_insert rule cval i r x = cache_insert rule cval j r1 x1).
          { apply (f_equal (fun k => t_acts k)) in Ej. cbn in Ej. now inversion Ej. }
          assert (Hp0 := f_equal (fun f => snd (f (CCache (fun _ => None)))) Ea). cbn in Hp0. inversion Hp0; subst.
          eapply loaded_is_content; eauto.
      - apply IHh; auto. intros a b Hab; apply Hok; now right. }
    apply (Hsuf (hist (th s t))); auto.
    clear - H E. cbn in H. rewrite E in H. exact H.
Qed.
(* a completed preparation returns the compilation of that rule's pattern *)
Theorem prepare_returns_compile t r o : In (T_prepare r, o) (hist (th s t)) -> o = [OVal (compile r)].
Proof.
  intro H. destruct (regions_atomic elk elk_eq_dec ecomp eout EGood progs eprogs_ok c0 c0_good sched t _ _ H) as (c & Hg & ->).
  cbn in Hg. destruct c as [m|off|[v|]]; cbn in Hg; try contradiction; cbn.
  - destruct Hg as [Hg|Hg]; [discriminate | inversion Hg; reflexivity].
  - reflexivity.
Qed.
(* conflicting accesses never overlap: while one goroutine is inside a write region of a lock, no other
   goroutine is inside any region of that lock *)
Theorem engines_no_conflict t1 t2 k : t1 <> t2 -> in_W elk ecomp eout (tpc (th s t1)) k ->
  ~ in_R elk ecomp eout (tpc (th s t2)) k /\ ~ in_W elk ecomp eout (tpc (th s t2)) k.
Proof. apply (no_conflict elk elk_eq_dec ecomp eout EGood progs eprogs_ok c0 c0_good sched). Qed.
(* no deadlock *)
Theorem engines_progress t : ~ finished elk ecomp eout (th s t) ->
  exists t', Conc.step elk elk_eq_dec ecomp eout s t' <> None.
Proof. apply (progress elk elk_eq_dec ecomp eout EGood progs eprogs_ok c0 c0_good sched). Qed.
(* the cache holds only rules of the lists whenever no goroutine is writing it *)
Theorem cache_within_lists : writer s LCache = None -> EGood LCache (comp s LCache).
Proof. apply (quiescent_good elk elk_eq_dec ecomp eout EGood progs eprogs_ok c0 c0_good sched). Qed.

(* ONE OBJECT PER INDEX: whatever objects the cache ever handed to any goroutines for one index — by a lookup
   or by an insert, at any time — are the same object.  (The identity-based de-duplication of the lookup tables
   relies on this; the pinned tree overwrote entries and violated it: F17.) *)
Theorem single_instance t1 t2 tk1 tk2 o1 o2 i v1 v2 :
  In (tk1, o1) (hist (th s t1)) -> In (tk2, o2) (hist (th s t2)) ->
  t_lock tk1 = LCache -> t_lock tk2 = LCache ->
  In (OInst i (Some v1)) o1 -> In (OInst i (Some v2)) o2 -> v1 = v2.
Proof.
  intros H1 H2 L1 L2 I1 I2.
  pose proof (outputs_stay_valid elk elk_eq_dec ecomp eout EGood progs eprogs_ok EExt EValid evalid_stable eprogs_valid
                c0 sched t1 tk1 o1 c0_good H1) as V1.
  pose proof (outputs_stay_valid elk elk_eq_dec ecomp eout EGood progs eprogs_ok EExt EValid evalid_stable eprogs_valid
                c0 sched t2 tk2 o2 c0_good H2) as V2.
  fold s in V1, V2. rewrite L1 in V1. rewrite L2 in V2. specialize (V1 L1 i v1 I1). specialize (V2 L2 i v2 I2).
  destruct (committed elk ecomp eout s LCache) as [m|?|?]; try contradiction. congruence.
Qed.
End Engines.

(* ================= a concrete strategy: RetrieveRule followed by preparePattern ================= *)
Section Example.
Definition ex_content (l off : nat) : option nat := if off <? 50 then Some (l * 100 + off) else None.
Definition ex_compile (r : nat) : nat := r + 1000.
Notation xtask := (task elk (ecomp nat nat) (eout nat nat)).
Notation xout := (eout nat nat).

(* the goroutine retrieves index i (cache lookup; on a miss: load from the list, then insert the object it made
   into the cache) and then prepares the pattern of rule object r; [inst] is the identity of the object it
   allocates when it has to parse the rule itself *)
Definition strat (i : nat * nat) (r inst : nat) (h : list (xtask * list xout)) : option xtask :=
  match h with
  | [] => Some (T_lookup nat nat i)
  | [(_, [OInst _ None])] => Some (T_load nat nat ex_content i)
  | [(_, [OInst _ (Some _)])] => Some (T_prepare nat nat ex_compile r)
  | [(_, [OUnit; ORule (Some x)]); (_, [OInst _ None])] => Some (T_insert nat nat i x inst)
  | [(_, [OInst _ (Some _)]); (_, [OUnit; ORule (Some _)]); (_, [OInst _ None])] => Some (T_prepare nat nat ex_compile r)
  | _ => None
  end.
(* goroutines 0 and 2 retrieve the same index *)
Definition ex_progs (t : tid) := strat (1, t mod 2) (t mod 2) (100 + t).

Lemma ex_allowed t h tk : consistent elk (ecomp nat nat) (eout nat nat) ex_progs t h -> ex_progs t h = Some tk ->
  allowed nat nat ex_content ex_compile h tk.
Proof.
  unfold ex_progs. intros Hc H. unfold strat in H.
  repeat match type of H with
         | context [match ?x with _ => _ end] => destruct x; try discriminate
         end.
  all: inversion H; subst; clear H.
  all: try (left; eexists; reflexivity).
  all: try (right; left; eexists; reflexivity).
  all: try (right; right; left; eexists; reflexivity).
  right; right; right. eexists _, _, _. split; [reflexivity|]. left.
  (* the region before was chosen by the strategy after a miss: it is the load *)
  cbn in Hc. destruct Hc as [Hc _]. unfold strat in Hc. inversion Hc. reflexivity.
Qed.

Definition ex_c0 (k : elk) : ecomp nat nat :=
  match k with LCache => CCache (fun _ => None) | LFile _ => CFile 0 | LRule _ => CRule None end.
Lemma ex_c0_good k : EGood nat nat ex_content ex_compile k (ex_c0 k).
Proof. destruct k; cbn; auto. discriminate. Qed.

(* three goroutines, an interleaving in which the loads overlap with each other's seeks and goroutines 0 and 2 both
   miss the cache for index (1,0) before either inserts *)
Definition ex_sched : list tid :=
  [0;1;2; 0;1;2; 0;1;2; 0;1;2; 0;0;1;1;2;2; 0;1;2;0;1;2; 2;1;0;2;1;0; 0;1;2;0;1;2] ++ concat (repeat [0;1;2;2;1;0] 12).
Definition ex_final := run elk elk_eq_dec (ecomp nat nat) (eout nat nat) (init elk (ecomp nat nat) (eout nat nat) ex_c0 ex_progs) ex_sched.
Example ex_runs :
  map (fun t => map snd (hist (th ex_final t))) [0; 1; 2] =
  [ [[OVal 1000]; [OInst (1, 0) (Some (100, 100))]; [OUnit; ORule (Some 100)]; [OInst (1, 0) None]];
    [[OVal 1001]; [OInst (1, 1) (Some (101, 101))]; [OUnit; ORule (Some 101)]; [OInst (1, 1) None]];
    (* goroutine 2 missed the cache as well, parsed the rule into its own object 102, and was handed object 100 *)
    [[OVal 1000]; [OInst (1, 0) (Some (100, 100))]; [OUnit; ORule (Some 100)]; [OInst (1, 0) None]] ].
Proof. vm_compute. reflexivity. Qed.

(* the same goroutines with the insert of the pinned tree (overwrite): two different objects are handed out for
   one index — the situation in which the identity-based de-duplication reports a rule twice (F17) *)
Definition strat_ow (i : nat * nat) (r inst : nat) (h : list (xtask * list xout)) : option xtask :=
  match h with
  | [(_, [OUnit; ORule (Some x)]); (_, [OInst _ None])] => Some (T_overwrite nat nat i x inst)
  | _ => strat i r inst h
  end.
Definition ex_final_ow := run elk elk_eq_dec (ecomp nat nat) (eout nat nat)
  (init elk (ecomp nat nat) (eout nat nat) ex_c0 (fun t => strat_ow (1, t mod 2) (t mod 2) (100 + t))) ex_sched.
Example overwrite_hands_out_two_objects :
  In (OInst (1, 0) (Some (100, 100))) (concat (map snd (hist (th ex_final_ow 0)))) /\
  In (OInst (1, 0) (Some (100, 102))) (concat (map snd (hist (th ex_final_ow 2)))).
Proof. vm_compute. split; tauto. Qed.
End Example.
