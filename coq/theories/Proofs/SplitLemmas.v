(* strings.Split on one byte, strings.Join, and lookup/domainstable.go getSubdomains. *)
From Coq Require Import List Arith NArith ZArith Bool Lia.
From Coq Require Import Strings.Byte.
From UF Require Import Base.Lit Base.Bytes Model.Domain Proofs.EqLemmas Proofs.StrLemmas.
Import ListNotations.

(* a structurally recursive reading of split_byte *)
Fixpoint splitr (c : byte) (s : bytes) : list bytes :=
  match s with
  | [] => [[]]
  | x :: s' => if beq x c then [] :: splitr c s'
               else match splitr c s' with p :: ps => (x :: p) :: ps | [] => [[x]] end
  end.

Lemma splitr_ne c s : splitr c s <> [].
Proof. destruct s as [|x s]; cbn; [discriminate|]. destruct (beq x c); [discriminate|]. destruct (splitr c s); discriminate. Qed.

Lemma split_aux_splitr c s : forall cur,
  split_byte_aux c s cur = match splitr c s with p :: ps => (rev cur ++ p) :: ps | [] => [] end.
Proof.
  induction s as [|x s IH]; intro cur; cbn [split_byte_aux splitr].
  - now rewrite rev'_eq, app_nil_r.
  - destruct (beq x c).
    + rewrite IH. cbn [rev app]. rewrite rev'_eq, app_nil_r.
      destruct (splitr c s) eqn:E; [now apply splitr_ne in E | reflexivity].
    + rewrite IH. destruct (splitr c s) eqn:E; [now apply splitr_ne in E|].
      cbn [rev]. now rewrite <- app_assoc.
Qed.
Lemma split_byte_splitr c s : split_byte c s = splitr c s.
Proof. unfold split_byte. rewrite split_aux_splitr. destruct (splitr c s); reflexivity. Qed.

Lemma splitr_app c x d : splitr c (x ++ c :: d) = splitr c x ++ splitr c d.
Proof.
  induction x as [|y x IH]; cbn [app splitr].
  - now rewrite beq_refl.
  - destruct (beq y c); [now rewrite IH|]. rewrite IH.
    destruct (splitr c x) eqn:E; [now apply splitr_ne in E | reflexivity].
Qed.

Lemma join_cons sep a l : l <> [] -> join sep (a :: l) = a ++ sep ++ join sep l.
Proof. destruct l; [congruence | reflexivity]. Qed.

Lemma join_splitr c s : join [c] (splitr c s) = s.
Proof.
  induction s as [|x s IH]; [reflexivity|]. cbn [splitr]. destruct (beq x c) eqn:E.
  - apply beq_eq in E. subst. rewrite join_cons by apply splitr_ne. now rewrite IH.
  - destruct (splitr c s) as [|p ps] eqn:Es; [now apply splitr_ne in Es|].
    destruct ps as [|q ps]; cbn [join] in *; [now rewrite IH|]. now rewrite <- IH.
Qed.

(* the last part is non-empty when the string does not end with the separator *)
Lemma splitr_last c s z : z <> c -> last (splitr c (s ++ [z])) [] <> [].
Proof.
  intro Hz. induction s as [|y s IH]; cbn [app splitr].
  - destruct (beq z c) eqn:E; [apply beq_eq in E; congruence|]. cbn. discriminate.
  - destruct (beq y c).
    + destruct (splitr c (s ++ [z])) eqn:E; [now apply splitr_ne in E|]. exact IH.
    + destruct (splitr c (s ++ [z])) as [|p ps] eqn:E; [now apply splitr_ne in E|].
      destruct ps; [cbn; discriminate | exact IH].
Qed.

(* ---- getSubdomains ---- *)
Definition sub_step (st : bytes * list bytes) (p : bytes) : bytes * list bytes :=
  let d := if isnil (fst st) then p else p ++ "."%byte :: fst st in (d, snd st ++ [d]).

Lemma get_subdomains_eq h :
  get_subdomains h = snd (fold_right (fun p st => sub_step st p) ([], []) (splitr "."%byte h)).
Proof.
  unfold get_subdomains. rewrite rev'_eq, split_byte_splitr. fold sub_step.
  now rewrite <- fold_left_rev_right, rev_involutive.
Qed.

Lemma sub_fold_mono parts : forall st d, In d (snd st) -> In d (snd (fold_right (fun p st => sub_step st p) st parts)).
Proof.
  induction parts as [|p parts IH]; intros st d H; cbn [fold_right]; [exact H|].
  unfold sub_step at 1. cbn [snd]. apply in_or_app. left. now apply IH.
Qed.

Lemma join_last_ne parts : last parts [] <> [] -> join $"." parts <> [].
Proof.
  induction parts as [|p parts IH]; [cbn; congruence|]. destruct parts as [|q parts].
  - cbn. auto.
  - intro H. rewrite join_cons by discriminate. destruct p; cbn; discriminate.
Qed.

Lemma sub_fold_join parts : last parts [] <> [] ->
  let r := fold_right (fun p st => sub_step st p) ([], []) parts in
  fst r = join $"." parts /\ In (join $"." parts) (snd r).
Proof.
  induction parts as [|p parts IH]; [cbn; congruence|]. destruct parts as [|q parts].
  - intro H. cbn. destruct p; [cbn in H; congruence|]. cbn. auto.
  - intro H. specialize (IH H). cbn zeta in IH. destruct IH as [IH1 IH2].
    change (fold_right (fun p st => sub_step st p) ([], []) (p :: q :: parts))
      with (sub_step (fold_right (fun p st => sub_step st p) ([], []) (q :: parts)) p).
    set (st := fold_right (fun p st => sub_step st p) ([], []) (q :: parts)) in *. unfold sub_step.
    assert (Hne : isnil (fst st) = false).
    { rewrite IH1. destruct (join $"." (q :: parts)) eqn:E; [now apply join_last_ne in E | reflexivity]. }
    rewrite Hne. cbn [fst snd].
    change (join $"." (p :: q :: parts)) with (p ++ "."%byte :: join $"." (q :: parts)). rewrite IH1.
    split; [reflexivity|]. apply in_or_app. right. now left.
Qed.

(* a name that is non-empty and does not end with a dot *)
Definition dom_ok (d : bytes) : Prop := exists d' z, d = d' ++ [z] /\ z <> "."%byte.

(* every name the host is equal to or below (at a label boundary) is probed by the domains table *)
Theorem get_subdomains_complete h d : dom_ok d ->
  (h = d \/ exists x, h = x ++ "."%byte :: d) -> In d (get_subdomains h).
Proof.
  intros (d' & z & -> & Hz) Hh. rewrite get_subdomains_eq.
  assert (Hd : In (d' ++ [z]) (snd (fold_right (fun p st => sub_step st p) ([], []) (splitr "."%byte (d' ++ [z]))))).
  { destruct (sub_fold_join (splitr "."%byte (d' ++ [z])) (splitr_last _ d' z Hz)) as [_ H].
    change $"." with ["."%byte] in H. now rewrite join_splitr in H. }
  destruct Hh as [->|[x ->]].
  - exact Hd.
  - rewrite splitr_app, fold_right_app. apply sub_fold_mono. exact Hd.
Qed.
