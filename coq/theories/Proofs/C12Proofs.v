(* C12: parsing and matching never crash; comments and rejected lines are inert. *)
From Coq Require Import List Arith NArith ZArith Bool Lia.
From Coq Require Import Strings.Byte.
From UF Require Import Base.Lit Base.Bytes Base.Codec Model.Options Model.Netip Model.Domain Model.DnsTables Model.DNSRewrite
  Model.NetRule Model.Regex Model.Mask Model.Request Model.Match Model.Rule
  Proofs.EqLemmas Proofs.C10Proofs Proofs.MaskTextProofs.
Import ListNotations.

(* ---------- no crash ---------- *)
(* In the model a Go panic is the result [Crash]; its only source is a checked slice expression. *)

Lemma parse_addr_no_crash s : parse_addr s <> Crash.
Proof.
  unfold parse_addr. destruct (first_sep s); [|discriminate].
  destruct (beq b "."%byte); [destruct (parse_ipv4 s); discriminate|].
  destruct (beq b ":"%byte); [|discriminate].
  destruct (mem_byte _ s); [discriminate|]. destruct (parse_ipv6 s); discriminate.
Qed.
Lemma parse_prefix_no_crash s : parse_prefix s <> Crash.
Proof.
  unfold parse_prefix. destruct (last_index_byte _ s); [|discriminate].
  pose proof (parse_addr_no_crash (firstn n s)). destruct (parse_addr (firstn n s)); try discriminate; try congruence.
  cbn [rbind]. destruct (skipn (S n) s); [discriminate|]. destruct (_ && _); [discriminate|].
  destruct (N_of_dec _); [|discriminate]. destruct (N.leb _ _); discriminate.
Qed.

Lemma clients_add_no_crash c x : clients_add c x <> Crash.
Proof.
  unfold clients_add. destruct (is_probably_ip x).
  - pose proof (parse_addr_no_crash x). destruct (parse_addr x); try discriminate; try congruence.
  - destruct (mem_byte _ x); [|discriminate].
    pose proof (parse_prefix_no_crash x). destruct (parse_prefix x); try discriminate; try congruence.
Qed.
Lemma load_clients_aux_no_crash l : forall p r, load_clients_aux l p r <> Crash.
Proof.
  induction l as [|s l IH]; intros p r; cbn [load_clients_aux]; [discriminate|].
  destruct (strip_tilde s) as [neg c0]. destruct (isnil _); [discriminate|].
  destruct neg.
  - pose proof (clients_add_no_crash (match r with Some x => x | None => {| c_hosts := []; c_nets := [] |} end) (unquote_client c0)).
    destruct (clients_add _ _); cbn [rbind]; try discriminate; try congruence; apply IH.
  - pose proof (clients_add_no_crash (match p with Some x => x | None => {| c_hosts := []; c_nets := [] |} end) (unquote_client c0)).
    destruct (clients_add _ _); cbn [rbind]; try discriminate; try congruence; apply IH.
Qed.

Lemma set_option_enabled_no_crash r o e : set_option_enabled r o e <> Crash.
Proof.
  unfold set_option_enabled. destruct (_ && _); [discriminate|]. destruct (_ && _); [discriminate|].
  destruct e; discriminate.
Qed.

Lemma load_option_no_crash r name value : load_option r name value <> Crash.
Proof.
  unfold load_option.
  destruct (assoc_bytes name simple_options) as [[o en]|]; [apply set_option_enabled_no_crash|].
  destruct (bytes_eqb name $"dnstype"); [destruct (load_dnstypes value) as [[? ?]|]; discriminate|].
  destruct (bytes_eqb name $"dnsrewrite").
  { pose proof (load_dnsrewrite_no_crash value). destruct (load_dnsrewrite value); cbn [rbind]; try discriminate; try congruence. }
  destruct (bytes_eqb name $"domain"); [destruct (load_domains value _) as [[? ?]|]; discriminate|].
  destruct (bytes_eqb name $"denyallow").
  { destruct (load_domains value _) as [[? ?]|]; [|discriminate]. destruct (_ || _); discriminate. }
  destruct (bytes_eqb name $"ctag"); [destruct (load_ctags value) as [[? ?]|]; discriminate|].
  destruct (bytes_eqb name $"client").
  { unfold load_clients. destruct (isnil value); [discriminate|].
    pose proof (load_clients_aux_no_crash (Domain.split_with_escape value "|"%byte bslash false) None None).
    destruct (load_clients_aux _ _ _); cbn [rbind]; try discriminate; try congruence. }
  destruct (bytes_eqb name $"~extension"); [discriminate|].
  destruct (bytes_eqb name $"document").
  { destruct (set_option_enabled r OptElemhide true); discriminate. }
  destruct (strip_tilde name) as [neg base]. destruct (assoc_bytes base request_type_names); [|discriminate].
  destruct neg; discriminate.
Qed.

Lemma load_option_list_no_crash l : forall r, load_option_list r l <> Crash.
Proof.
  induction l as [|o l IH]; intro r; cbn [load_option_list]; [discriminate|].
  match goal with |- rbind ?s _ <> _ => assert (Hs : s <> Crash) end.
  { destruct (index_byte _ o) as [[|i]|]; apply load_option_no_crash. }
  match goal with |- rbind ?s _ <> _ => destruct s end; cbn [rbind]; try discriminate; try congruence; apply IH.
Qed.

Lemma new_network_rule_no_crash text id : new_network_rule text id <> Crash.
Proof.
  unfold new_network_rule. destruct (_ || _); [discriminate|].
  unfold parse_rule_text. destruct (_ || _); [discriminate|].
  match goal with |- rbind (if ?c then _ else _) _ <> _ => destruct c end.
  - cbn [rbind]. match goal with |- rbind ?s _ <> _ => assert (Hs : s <> Crash) end.
    { unfold load_options. cbn [isnil]. discriminate. }
    match goal with |- rbind ?s _ <> _ => destruct s end; cbn [rbind]; try discriminate; try congruence.
    destruct (_ && _); discriminate.
  - match goal with |- rbind ?s _ <> _ => assert (Hp : exists ppw, s = Ok ppw) end.
    { destruct (rev' _); [eauto|]. destruct (find_delim _ _ _) as [[[? ?] ?]|]; eauto. }
    destruct Hp as ([[pattern options] wl] & ->). cbn [rbind].
    match goal with |- rbind ?s _ <> _ => assert (Hs : s <> Crash) end.
    { unfold load_options. destruct (isnil options); [discriminate|].
      pose proof (load_option_list_no_crash (Domain.split_with_escape options ","%byte bslash false) (nr_blank text id wl pattern)).
      destruct (load_option_list _ _); cbn [rbind]; try discriminate; try congruence. destruct (existsb _ _); discriminate. }
    match goal with |- rbind ?s _ <> _ => destruct s end; cbn [rbind]; try discriminate; try congruence.
    destruct (_ && _); discriminate.
Qed.

Lemma go_trim_space_no_crash s : go_trim_space s <> Crash.
Proof. unfold go_trim_space. destruct (existsb _ _); discriminate. Qed.

Lemma new_cosmetic_rule_no_crash text id : new_cosmetic_rule text id <> Crash.
Proof.
  unfold new_cosmetic_rule. destruct (find_cosmetic_marker text) as [[index m]|]; [|discriminate].
  match goal with |- rbind ?s _ <> _ => assert (Hs : s <> Crash /\ s <> Unsupported \/ True) by now right end. clear Hs.
  match goal with |- rbind ?s _ <> _ => destruct s eqn:E end; cbn [rbind]; try discriminate.
  - pose proof (go_trim_space_no_crash (skipn (index + length m) text)).
    destruct (go_trim_space _); cbn [rbind]; try discriminate; try congruence.
    destruct (isnil a0); [discriminate|]. destruct (bytes_eqb m $"##"); [discriminate|].
    destruct (bytes_eqb m $"#@#"); [|discriminate]. destruct (isnil (fst a)); discriminate.
  - destruct (0 <? index); [destruct (load_domains _ _)|]; discriminate.
Qed.

Lemma new_host_rule_no_crash text id : new_host_rule text id <> Crash.
Proof.
  unfold new_host_rule. destruct (split_next _) as [first rest]. destruct (isnil rest).
  - destruct (is_domain_name first); discriminate.
  - pose proof (parse_addr_no_crash first). destruct (parse_addr first); cbn [rbind]; try discriminate; try congruence.
Qed.

Theorem new_rule_no_crash line id : new_rule line id <> Crash.
Proof.
  unfold new_rule. pose proof (go_trim_space_no_crash line).
  destruct (go_trim_space line) as [l| | |]; cbn [rbind]; try discriminate; try congruence.
  destruct (isnil l || is_comment l); [discriminate|].
  destruct (is_cosmetic l).
  - pose proof (new_cosmetic_rule_no_crash l id). destruct (new_cosmetic_rule l id); cbn [rbind]; try discriminate; try congruence.
  - pose proof (new_host_rule_no_crash l id). destruct (new_host_rule l id); try discriminate; try congruence.
    pose proof (new_network_rule_no_crash l id). destruct (new_network_rule l id); cbn [rbind]; try discriminate; try congruence.
Qed.

(* matching *)
Lemma is_regex_pat_len p : is_regex_pat p = true -> 2 <= length p.
Proof. destruct p as [|a [|b p]]; cbn; try discriminate. lia. Qed.

Theorem pattern_to_regexp_no_crash p : pattern_to_regexp p <> Crash.
Proof.
  destruct (is_early p) eqn:He; [unfold pattern_to_regexp; now rewrite He|].
  destruct (is_regex_pat p) eqn:Hr.
  - unfold pattern_to_regexp. rewrite He, Hr. apply is_regex_pat_len in Hr.
    unfold slice_chk. replace (1 <=? length p - 1) with true by (symmetry; apply Nat.leb_le; lia).
    replace (length p - 1 <=? length p) with true by (symmetry; apply Nat.leb_le; lia). discriminate.
  - rewrite (C03_text p He Hr). discriminate.
Qed.

Lemma lex_no_crash s : lex s <> Crash.
Proof. unfold lex. destruct (lex_from _ s) as [st out]. destruct st; discriminate. Qed.
Lemma parse_re_no_crash s : parse_re s <> Crash.
Proof.
  unfold parse_re. pose proof (lex_no_crash s). destruct (lex s); cbn [rbind]; try discriminate; try congruence.
  destruct (parse_from _ _) as [cur stack lq lz|]; [|discriminate]. destruct stack; [|discriminate].
  destruct (nested_rep _ && _); discriminate.
Qed.
Lemma compile_no_crash t : compile t <> Crash.
Proof.
  unfold compile. destruct (has_prefix _ t).
  - pose proof (parse_re_no_crash (skipn 4 t)). destruct (parse_re _); cbn [rbind]; try discriminate; try congruence.
  - pose proof (parse_re_no_crash t). destruct (parse_re _); cbn [rbind]; try discriminate; try congruence.
Qed.
Lemma prepare_pattern_no_crash p mc : prepare_pattern p mc <> Crash.
Proof.
  unfold prepare_pattern. pose proof (pattern_to_regexp_no_crash p).
  destruct (pattern_to_regexp p) as [text| | |]; cbn [rbind]; try discriminate; try congruence.
  destruct (bytes_eqb text ANY); [discriminate|].
  match goal with |- match compile ?t with _ => _ end <> _ => pose proof (compile_no_crash t); destruct (compile t) end;
    try discriminate; try congruence.
Qed.

Theorem rule_match_no_crash psl f r : rule_match psl f r <> Crash.
Proof.
  unfold rule_match. destruct (negb (match_shortcut f r)); [discriminate|].
  destruct (_ && _); [discriminate|]. destruct (_ && _); [discriminate|]. destruct (negb _); [discriminate|].
  assert (Hd : match_request_domain psl f (rq_hostname r) (rq_is_hostname r) <> Crash).
  { unfold match_request_domain. destruct (isnil _); [discriminate|].
    destruct (_ && _).
    - pose proof (parse_addr_no_crash (rq_hostname r)). destruct (parse_addr _); cbn [rbind]; try discriminate; try congruence.
    - cbn [rbind]. discriminate. }
  destruct (match_request_domain _ _ _ _) as [rd| | |]; cbn [rbind]; try discriminate; try congruence.
  destruct (negb rd); [discriminate|]. destruct (negb _); [discriminate|]. destruct (negb _); [discriminate|].
  destruct (negb _); [discriminate|]. destruct (negb _); [discriminate|].
  unfold match_pattern. pose proof (prepare_pattern_no_crash (nr_pattern f) (is_opt_enabled f OptMatchCase)).
  destruct (prepare_pattern _ _) as [pp| | |]; cbn [rbind]; try discriminate; try congruence.
  destruct pp; try discriminate. destruct (all_ascii _); discriminate.
Qed.

(* ---------- the text of a rule is the trimmed line, its list id the given one ---------- *)
Definition same_id (r r' : net_rule) : Prop := nr_text r' = nr_text r /\ nr_list r' = nr_list r.

Lemma set_option_enabled_id r o e r' : set_option_enabled r o e = Ok r' -> same_id r r'.
Proof.
  unfold set_option_enabled. destruct (_ && _); [discriminate|]. destruct (_ && _); [discriminate|].
  destruct e; intro H; inversion H; split; reflexivity.
Qed.
Lemma set_option_ignore_id r o : same_id r (set_option_ignore r o).
Proof.
  unfold set_option_ignore. destruct (set_option_enabled r o true) eqn:E; try (split; reflexivity).
  now apply set_option_enabled_id in E.
Qed.
Lemma same_id_trans a b c : same_id a b -> same_id b c -> same_id a c.
Proof. unfold same_id. intros [] []. split; congruence. Qed.
Lemma same_id_refl a : same_id a a. Proof. split; reflexivity. Qed.

Lemma load_option_id r name value r' : load_option r name value = Ok r' -> same_id r r'.
Proof.
  unfold load_option.
  destruct (assoc_bytes name simple_options) as [[o en]|]; [apply set_option_enabled_id|].
  destruct (bytes_eqb name $"dnstype").
  { destruct (load_dnstypes value) as [[p q]|]; [|discriminate]. intro H; inversion H; subst; split; reflexivity. }
  destruct (bytes_eqb name $"dnsrewrite").
  { destruct (load_dnsrewrite value); try discriminate. cbn [rbind]. intro H; inversion H; subst; split; reflexivity. }
  destruct (bytes_eqb name $"domain").
  { destruct (load_domains value _) as [[p q]|]; [|discriminate]. intro H; inversion H; subst; split; reflexivity. }
  destruct (bytes_eqb name $"denyallow").
  { destruct (load_domains value _) as [[p q]|]; [|discriminate].
    destruct (_ || _); [discriminate|]. intro H; inversion H; subst; split; reflexivity. }
  destruct (bytes_eqb name $"ctag").
  { destruct (load_ctags value) as [[p q]|]; [|discriminate]. intro H; inversion H; subst; split; reflexivity. }
  destruct (bytes_eqb name $"client").
  { destruct (load_clients value) as [[p q]| | |]; try discriminate. cbn [rbind]. intro H; inversion H; subst; split; reflexivity. }
  destruct (bytes_eqb name $"~extension").
  { intro H; inversion H; subst; split; reflexivity. }
  destruct (bytes_eqb name $"document").
  { destruct (set_option_enabled r OptElemhide true) as [r1| | |] eqn:E; try discriminate.
    intro H; inversion H. apply set_option_enabled_id in E.
    repeat (eapply same_id_trans; [|apply set_option_ignore_id]). exact E. }
  destruct (strip_tilde name) as [neg base].
  destruct (assoc_bytes base request_type_names); [|discriminate].
  destruct neg; intro H; inversion H; subst; split; reflexivity.
Qed.
Lemma load_option_list_id l : forall r r', load_option_list r l = Ok r' -> same_id r r'.
Proof.
  induction l as [|o l IH]; intros r r'; cbn [load_option_list].
  - intro H; inversion H; subst; split; reflexivity.
  - match goal with |- rbind ?s _ = _ -> _ => destruct s as [r1| | |] eqn:E end; try discriminate.
    cbn [rbind]. intro H. eapply same_id_trans; [|eapply IH; exact H].
    destruct (index_byte _ o) as [[|i]|]; eapply load_option_id; eauto.
Qed.

Theorem new_network_rule_text text id r : new_network_rule text id = Ok r -> nr_text r = text /\ nr_list r = id.
Proof.
  unfold new_network_rule. destruct (_ || _); [discriminate|].
  destruct (parse_rule_text text) as [[[pattern options] wl]| | |]; try discriminate. cbn [rbind].
  destruct (load_options _ options) as [r0| | |] eqn:E; try discriminate. cbn [rbind].
  assert (H0 : same_id (nr_blank text id wl pattern) r0).
  { unfold load_options in E. destruct (isnil options).
    - inversion E. apply same_id_refl.
    - destruct (load_option_list _ _) as [r1| | |] eqn:E1; try discriminate. cbn [rbind] in E.
      apply load_option_list_id in E1. destruct (existsb _ _); inversion E; subst; [|exact E1].
      destruct E1. split; assumption. }
  destruct (_ && _); [discriminate|]. intro H; inversion H; subst r. destruct H0. split; assumption.
Qed.

Theorem new_rule_text line id r : new_rule line id = Ok (Some r) ->
  exists l, go_trim_space line = Ok l /\ rule_text r = l /\ rule_list r = id.
Proof.
  unfold new_rule. destruct (go_trim_space line) as [l| | |]; cbn [rbind]; try discriminate.
  destruct (isnil l || is_comment l); [discriminate|]. exists l. split; [reflexivity|].
  destruct (is_cosmetic l).
  - destruct (new_cosmetic_rule l id) as [c| | |] eqn:E; cbn [rbind] in *; try discriminate.
    inversion H; subst. unfold new_cosmetic_rule in E.
    destruct (find_cosmetic_marker l) as [[index m]|]; [|discriminate].
    match type of E with rbind ?s _ = _ => destruct s end; cbn [rbind] in E; try discriminate.
    destruct (go_trim_space _); cbn [rbind] in E; try discriminate.
    destruct (isnil _); [discriminate|]. destruct (bytes_eqb m $"##"); [inversion E; split; reflexivity|].
    destruct (bytes_eqb m $"#@#"); [|discriminate]. destruct (isnil _); [discriminate|]. inversion E; split; reflexivity.
  - destruct (new_host_rule l id) as [h| | |] eqn:E; try discriminate.
    + inversion H; subst. unfold new_host_rule in E. destruct (split_next _) as [first rest]. destruct (isnil rest).
      * destruct (is_domain_name first); [|discriminate]. inversion E; split; reflexivity.
      * destruct (parse_addr first); cbn [rbind] in E; try discriminate. inversion E; split; reflexivity.
    + destruct (new_network_rule l id) as [nr| | |] eqn:En; cbn [rbind] in H; try discriminate.
      inversion H; subst. now apply new_network_rule_text in En.
Qed.

(* ---------- blank, comment and rejected lines are inert ---------- *)
(* what a scanner yields for one line *)
Definition yields (id : Z) (line : bytes) : list rule :=
  match new_rule line id with Ok (Some r) => [r] | _ => [] end.
Definition rules_of (id : Z) (lines : list bytes) : list rule := flat_map (yields id) lines.
Definition inert (id : Z) (line : bytes) : Prop := yields id line = [].

Lemma blank_inert id line : trim_space line = [] -> inert id line.
Proof.
  intro H. unfold inert, yields, new_rule, go_trim_space. rewrite H. cbn. reflexivity.
Qed.
Lemma comment_inert id line l : go_trim_space line = Ok l -> is_comment l = true -> inert id line.
Proof.
  intros Ht Hc. unfold inert, yields, new_rule. rewrite Ht. cbn [rbind]. rewrite Hc, orb_true_r. reflexivity.
Qed.
Lemma rejected_inert id line : new_rule line id = Err -> inert id line.
Proof. intro H. unfold inert, yields. now rewrite H. Qed.

(* lines marked (line, is_noise): inserting inert lines anywhere changes nothing *)
Theorem noise_is_inert id (M : list (bytes * bool)) :
  (forall n, In (n, true) M -> inert id n) ->
  rules_of id (map fst M) = rules_of id (map fst (filter (fun x => negb (snd x)) M)).
Proof.
  induction M as [|[l noise] M IH]; intro H; [reflexivity|].
  cbn [map filter fst snd rules_of flat_map]. fold (rules_of id (map fst M)).
  rewrite IH by (intros n Hn; apply H; now right).
  destruct noise; cbn [negb].
  - rewrite (H l (or_introl eq_refl)). reflexivity.
  - reflexivity.
Qed.

(* switching line endings: a line scanned with CRLF yields what it yields with LF *)
Lemma trim_left_nonspace_app s x : existsb (fun c => negb (is_space c)) s = true -> trim_left (s ++ x) = trim_left s ++ x.
Proof.
  induction s as [|c s IH]; [discriminate|]. cbn. destruct (is_space c); cbn [negb orb]; [exact IH | reflexivity].
Qed.
Lemma trim_left_allspace s : existsb (fun c => negb (is_space c)) s = false -> trim_left s = [].
Proof.
  induction s as [|c s IH]; [reflexivity|]. cbn. destruct (is_space c); cbn [negb orb]; [exact IH | discriminate].
Qed.
Lemma trim_right_space t c : is_space c = true -> trim_right (t ++ [c]) = trim_right t.
Proof.
  intro Hc. unfold trim_right. rewrite !rev'_eq, rev_app_distr. cbn [rev app trim_left]. now rewrite Hc.
Qed.
Lemma trim_space_trailing s c : is_space c = true -> trim_space (s ++ [c]) = trim_space s.
Proof.
  intro Hc. unfold trim_space.
  destruct (existsb (fun c => negb (is_space c)) s) eqn:E.
  - rewrite trim_left_nonspace_app by exact E. now apply trim_right_space.
  - rewrite (trim_left_allspace s E).
    assert (E' : existsb (fun c => negb (is_space c)) (s ++ [c]) = false).
    { rewrite existsb_app, E. cbn. now rewrite Hc. }
    now rewrite (trim_left_allspace _ E').
Qed.

Theorem crlf_same id l : yields id (l ++ [x0d; x0a]) = yields id (l ++ [x0a]).
Proof.
  unfold yields, new_rule, go_trim_space.
  replace (l ++ [x0d; x0a]) with ((l ++ [x0d]) ++ [x0a]) by now rewrite <- app_assoc.
  rewrite !trim_space_trailing by reflexivity. reflexivity.
Qed.
Theorem newline_same id l : yields id (l ++ [x0a]) = yields id l.
Proof. unfold yields, new_rule, go_trim_space. now rewrite trim_space_trailing by reflexivity. Qed.

(* non-vacuity *)
Example ex_one_char_pattern :
  exists r, new_network_rule $"a$domain=example.org" 1%Z = Ok r /\
            pattern_to_regexp (nr_pattern r) = Ok $"a".
Proof. eexists. split; vm_compute; reflexivity. Qed.
Example ex_inert : inert 1%Z $"! comment" /\ inert 1%Z $"   " /\ inert 1%Z $"||a^$unknownmodifier".
Proof. repeat split; vm_compute; reflexivity. Qed.
