(* C02: the DNS engine answer equals the reference resolution over all rules. *)
From Coq Require Import List Arith NArith ZArith Bool Lia.
From Coq Require Import Strings.Byte.
From UF Require Import Base.Lit Base.Bytes Model.Options Model.Netip Model.Domain Model.NetRule Model.Rule
  Model.Request Model.Match Model.Result Model.Engines Proofs.EqLemmas Proofs.StrLemmas Proofs.SplitLemmas
  Proofs.ParserInv Proofs.C01Proofs.
Import ListNotations.

(* ---- IsHostLevelNetworkRule: what the bit formula says ---- *)
Lemma hl_bits e H : N.lor (N.land e H) (N.lxor e H) = H <-> N.ldiff e H = 0%N.
Proof.
  split; intro Hx; apply N.bits_inj; intro n.
  - rewrite N.ldiff_spec, N.bits_0. apply (f_equal (fun x => N.testbit x n)) in Hx.
    rewrite N.lor_spec, N.land_spec, N.lxor_spec in Hx.
    destruct (N.testbit e n), (N.testbit H n); cbn in *; congruence.
  - rewrite N.lor_spec, N.land_spec, N.lxor_spec. apply (f_equal (fun x => N.testbit x n)) in Hx.
    rewrite N.ldiff_spec, N.bits_0 in Hx.
    destruct (N.testbit e n), (N.testbit H n); cbn in *; congruence.
Qed.

(* DNS-applicable: no $domain, not both content-type lists, no disabled option, and no enabled option
   other than $important / $badfilter (the browser-only modifiers) *)
Definition dns_applicable (f : net_rule) : Prop :=
  nr_pdomains f = [] /\ nr_rdomains f = [] /\ (nr_ptypes f = 0%N \/ nr_rtypes f = 0%N) /\
  nr_disabled f = 0%N /\ N.ldiff (nr_enabled f) OptHostLevelRulesOnly = 0%N.

Theorem is_host_level_iff f : is_host_level f = true <-> dns_applicable f.
Proof.
  unfold is_host_level, dns_applicable.
  destruct (nr_pdomains f) as [|d ds]; cbn [isnil negb orb];
    [|split; [discriminate | intros (H & _); discriminate]].
  destruct (nr_rdomains f) as [|d ds]; cbn [isnil negb orb];
    [|split; [discriminate | intros (_ & H & _); discriminate]].
  destruct (N.eqb_spec (nr_ptypes f) 0) as [Ep|Ep]; destruct (N.eqb_spec (nr_rtypes f) 0) as [Er|Er]; cbn [negb andb];
    try (split; [discriminate | intros (_ & _ & [H|H] & _); congruence]).
  all: destruct (N.eqb_spec (nr_disabled f) 0) as [Ed|Ed]; cbn [negb];
    try (split; [discriminate | intros (_ & _ & _ & H & _); congruence]).
  all: destruct (N.eqb_spec (nr_enabled f) 0) as [Ee|Ee]; cbn [negb].
  all: try (rewrite Ee; split; [intros _; repeat split; auto | reflexivity]).
  all: rewrite N.eqb_eq, hl_bits; split; [intro H; repeat split; auto | intros (_ & _ & _ & _ & H); exact H].
Qed.

Section C02.
Variable hash : bytes -> N.
Variable psl : bytes -> bytes * bool.

(* the host-level network rules and the hosts-file rules of a scanned rule list *)
Definition hl_of (l : list (rule * Z)) : list (net_rule * Z) :=
  flat_map (fun ri => match fst ri with
                      | RNet f => if is_host_level f then [(f, snd ri)] else []
                      | _ => [] end) l.
Definition host_tbl (l : list (rule * Z)) : list (N * Z) :=
  flat_map (fun ri => match fst ri with
                      | RHost h => map (fun n => (hash n, snd ri)) (hr_names h)
                      | _ => [] end) l.

Definition dns_step (e : dns_engine) (ri : rule * Z) : dns_engine :=
  match fst ri with
  | RHost h => {| de_hosts := de_hosts e ++ map (fun n => (hash n, snd ri)) (hr_names h); de_net := de_net e |}
  | RNet f => if is_host_level f then {| de_hosts := de_hosts e; de_net := add_rule hash (de_net e) f (snd ri) |} else e
  | RCos _ => e
  end.

Lemma dns_fold l : forall e,
  de_hosts (fold_left dns_step l e) = de_hosts e ++ host_tbl l /\
  de_net (fold_left dns_step l e) = fold_left (add_step hash) (hl_of l) (de_net e).
Proof.
  induction l as [|[r idx] l IH]; intro e; cbn [fold_left host_tbl hl_of flat_map].
  - now rewrite app_nil_r.
  - destruct (IH (dns_step e (r, idx))) as [H1 H2]. rewrite H1, H2. clear IH H1 H2.
    unfold dns_step. cbn [fst snd]. destruct r as [f|h|c]; cbn [app].
    + destruct (is_host_level f); cbn [de_hosts de_net app fold_left]; split; reflexivity.
    + cbn [de_hosts de_net]. rewrite <- app_assoc. split; reflexivity.
    + split; reflexivity.
Qed.

Lemma build_dns_tables rules :
  de_hosts (build_dns hash rules) = host_tbl rules /\ de_net (build_dns hash rules) = build_net hash (hl_of rules).
Proof.
  unfold build_dns. fold dns_step. destruct (dns_fold rules {| de_hosts := []; de_net := ne_empty |}) as [H1 H2].
  cbn in H1, H2. split; assumption.
Qed.

Lemma hl_of_in rules f idx : In (f, idx) (hl_of rules) <-> In (RNet f, idx) rules /\ is_host_level f = true.
Proof.
  unfold hl_of. rewrite in_flat_map. split.
  - intros ([r i] & Hin & H). cbn [fst snd] in H. destruct r as [g|h|c]; try destruct H.
    destruct (is_host_level g) eqn:E; [|destruct H]. destruct H as [H|[]]. inversion H; subst. auto.
  - intros [Hin Hl]. exists (RNet f, idx). split; [exact Hin|]. cbn [fst snd]. rewrite Hl. now left.
Qed.
Lemma host_tbl_in rules h idx : In (h, idx) (host_tbl rules) <->
  exists hr n, In (RHost hr, idx) rules /\ In n (hr_names hr) /\ hash n = h.
Proof.
  unfold host_tbl. rewrite in_flat_map. split.
  - intros ([r i] & Hin & H). cbn [fst snd] in H. destruct r as [g|hr|c]; try destruct H.
    apply in_map_iff in H as (n & Hn & Hi). inversion Hn; subst. now exists hr, n.
  - intros (hr & n & Hin & Hn & <-). exists (RHost hr, idx). split; [exact Hin|]. cbn [fst snd].
    apply in_map_iff. now exists n.
Qed.

Variable retr : Z -> option net_rule.
Variable retr_host : Z -> option host_rule.
Variable rules : list (rule * Z).
(* the storage is intact (C11): an index retrieves exactly the rule scanned with it *)
Hypothesis retr_ok : forall f idx, In (RNet f, idx) rules -> retr idx = Some f.
Hypothesis retr_host_ok : forall h idx, In (RHost h, idx) rules -> retr_host idx = Some h.
(* the network rules come from the parser *)
Hypothesis rules_parsed : forall f idx, In (RNet f, idx) rules -> new_network_rule (nr_text f) (nr_list f) = Ok f.

Variable hostname : bytes.
Variable q : request.
Let e := build_dns hash rules.
Let res := fst (dns_match hash psl retr retr_host e hostname q).
Let matched := snd (dns_match hash psl retr retr_host e hostname q).

Lemma hl_parsed : parsed (hl_of rules).
Proof. intros f idx H. apply hl_of_in in H as [H _]. now apply (rules_parsed f idx). Qed.

(* (1) the reported network rules: exactly the DNS-applicable network rules that match *)
Theorem dns_network_rules t : hostname <> [] ->
  (In t (map nr_text (dr_network_rules res)) <->
   exists f idx, In (RNet f, idx) rules /\ dns_applicable f /\ rmatch psl f q = true /\ nr_text f = t).
Proof.
  intro Hne. assert (Hnrs : dr_network_rules res = match_all hash psl retr (build_net hash (hl_of rules)) q).
  { unfold res, dns_match. destruct hostname; [congruence|]. cbn [isnil].
    destruct (build_dns_tables rules) as [_ Hn]. fold e in Hn. rewrite Hn.
    destruct (get_dns_basic_rule _); [reflexivity|]. destruct (isnil _); reflexivity. }
  rewrite Hnrs. rewrite match_all_texts.
  - split.
    + intros (f & Hin & M & Ht). apply in_map_iff in Hin as ([f0 idx] & Hf & Hin). cbn [fst] in Hf. subst f0.
      apply hl_of_in in Hin as [Hin Hl]. exists f, idx. split; [exact Hin|]. split; [now apply is_host_level_iff|]. split; assumption.
    + intros (f & idx & Hin & Ha & M & Ht). exists f. split; [|split; assumption]. apply in_map_iff. exists (f, idx).
      split; [reflexivity|]. apply hl_of_in. split; [exact Hin | now apply is_host_level_iff].
  - intros idx f R [f0 H0]. apply hl_of_in in H0 as [H0 Hl0]. rewrite (retr_ok _ _ H0) in R. inversion R; subst.
    apply hl_of_in. split; [exact H0 | exact Hl0].
  - intros f idx H. apply hl_of_in in H as [H _]. now apply retr_ok.
  - intros f idx H. eapply parsed_pdomains_ok; [apply hl_parsed | exact H].
  - apply parsed_text_coherent. apply hl_parsed.
Qed.

(* (2) the basic rule is what GetDNSBasicRule selects among them (C06/C07 say which one that is) *)
Theorem dns_basic_rule : hostname <> [] -> dr_network_rule res = get_dns_basic_rule (dr_network_rules res).
Proof.
  intro Hne. unfold res, dns_match. destruct hostname; [congruence|]. cbn [isnil].
  destruct (get_dns_basic_rule _) eqn:E; cbn [fst dr_network_rule dr_network_rules]; [now rewrite E|].
  destruct (isnil _); cbn [fst dr_network_rule dr_network_rules]; now rewrite E.
Qed.

(* (3) with a basic rule the hosts-file rules are not consulted *)
Theorem dns_basic_wins b : dr_network_rule res = Some b -> dr_v4 res = [] /\ dr_v6 res = [] /\ matched = true.
Proof.
  unfold res, matched, dns_match. destruct (isnil hostname); [discriminate|].
  destruct (get_dns_basic_rule _) eqn:E; cbn; [auto|]. destruct (isnil _); cbn; discriminate.
Qed.

(* (4) without one: exactly the hosts-file entries naming the hostname, split by address family *)
Definition host_entry (h : host_rule) : Prop := exists idx, In (RHost h, idx) rules /\ host_match h hostname = true.

Lemma host_hits h :
  In h (flat_map (fun idx => match retr_host idx with
                             | Some h => if host_match h hostname then [h] else []
                             | None => [] end) (bucket (de_hosts e) (hash hostname))) <-> host_entry h.
Proof.
  destruct (build_dns_tables rules) as [Hh _]. fold e in Hh. rewrite Hh. rewrite in_flat_map. split.
  - intros (idx & Hb & H). destruct (retr_host idx) as [h'|] eqn:R; [|destruct H].
    destruct (host_match h' hostname) eqn:M; [|destruct H]. destruct H as [<-|[]].
    apply bucket_in, host_tbl_in in Hb as (hr & n & Hin & _ & _). rewrite (retr_host_ok _ _ Hin) in R. inversion R; subst.
    exists idx. split; [exact Hin | exact M].
  - intros (idx & Hin & M). exists idx. split.
    + apply bucket_in. apply host_tbl_in. exists h, hostname. split; [exact Hin|]. split; [|reflexivity].
      unfold host_match in M. apply existsb_exists in M as (n & Hn & He). apply bytes_eqb_eq in He. now subst.
    + rewrite (retr_host_ok _ _ Hin), M. now left.
Qed.

Theorem dns_hosts : hostname <> [] -> dr_network_rule res = None ->
  (forall h, In h (dr_v4 res) <-> host_entry h /\ is4 (hr_ip h) = true) /\
  (forall h, In h (dr_v6 res) <-> host_entry h /\ is4 (hr_ip h) = false) /\
  (matched = true <-> exists h, host_entry h).
Proof.
  intros Hne. unfold res, matched, dns_match. destruct hostname as [|c0 hn] eqn:Eh; [congruence|]. cbn [isnil].
  rewrite <- Eh in *. destruct (get_dns_basic_rule _); cbn [fst snd dr_network_rule]; [discriminate|]. intros _.
  set (hs := flat_map _ (bucket (de_hosts e) (hash hostname))).
  assert (Hhs : forall h, In h hs <-> host_entry h) by (intro h; apply host_hits).
  destruct (isnil hs) eqn:En; cbn [fst snd dr_v4 dr_v6].
  - destruct hs; [|discriminate]. split; [|split].
    + intro h. split; [intros [] | intros [He _]; now apply Hhs in He].
    + intro h. split; [intros [] | intros [He _]; now apply Hhs in He].
    + split; [discriminate | intros [h He]; now apply Hhs in He].
  - split; [|split].
    + intro h. rewrite filter_In, Hhs. reflexivity.
    + intro h. rewrite filter_In, Hhs, negb_true_iff. reflexivity.
    + split; [|reflexivity]. intros _. destruct hs as [|h hs']; [discriminate|]. exists h. apply Hhs. now left.
Qed.

(* an empty hostname is never matched *)
Theorem dns_empty : hostname = [] -> matched = false /\ dr_network_rules res = [] /\ dr_network_rule res = None
  /\ dr_v4 res = [] /\ dr_v6 res = [].
Proof. intros E. unfold res, matched, dns_match. rewrite E. cbn. auto. Qed.
End C02.

(* the storage is intact (C11) and the network rules come from the parser *)
Definition storage_intact (retr : Z -> option net_rule) (retr_host : Z -> option host_rule) (rules : list (rule * Z)) : Prop :=
  (forall f idx, In (RNet f, idx) rules -> retr idx = Some f) /\
  (forall h idx, In (RHost h, idx) rules -> retr_host idx = Some h) /\
  (forall f idx, In (RNet f, idx) rules -> new_network_rule (nr_text f) (nr_list f) = Ok f).

Theorem dns_network_rules' hash psl retr retr_host rules hostname q t :
  storage_intact retr retr_host rules -> hostname <> [] ->
  (In t (map nr_text (dr_network_rules (fst (dns_match hash psl retr retr_host (build_dns hash rules) hostname q)))) <->
   exists f idx, In (RNet f, idx) rules /\ dns_applicable f /\ rmatch psl f q = true /\ nr_text f = t).
Proof. intros (H1 & H2 & H3). now apply dns_network_rules. Qed.

Theorem dns_hosts' hash psl retr retr_host rules hostname q :
  storage_intact retr retr_host rules -> hostname <> [] ->
  let r := dns_match hash psl retr retr_host (build_dns hash rules) hostname q in
  dr_network_rule (fst r) = None ->
  (forall h, In h (dr_v4 (fst r)) <-> host_entry rules hostname h /\ is4 (hr_ip h) = true) /\
  (forall h, In h (dr_v6 (fst r)) <-> host_entry rules hostname h /\ is4 (hr_ip h) = false) /\
  (snd r = true <-> exists h, host_entry rules hostname h).
Proof. intros (H1 & H2 & H3). now apply dns_hosts. Qed.
