(* C17: request fields agree with the standard URL parser and the Public Suffix List. *)
From Coq Require Import List Arith NArith ZArith Bool Lia.
From Coq Require Import Strings.Byte.
From UF Require Import Base.Lit Base.Bytes Model.Options Model.Domain Model.Request Proofs.EqLemmas.
Import ListNotations.

(* ---- string search lemmas ---- *)
Lemma has_prefix_app p s : has_prefix p (p ++ s) = true.
Proof. induction p as [|a p IH]; cbn; [reflexivity|]. now rewrite beq_refl. Qed.

Lemma has_prefix_cons_false a p b s : beq a b = false -> has_prefix (a :: p) (b :: s) = false.
Proof. intro H. cbn. now rewrite H. Qed.

(* no byte of [s] is a slash: then "//" first occurs in [s ++ "://" ++ t] right after the colon *)
Definition no_slash (s : bytes) : Prop := forall c, In c s -> beq c "/"%byte = false.

Lemma index_of_dslash s t : no_slash s ->
  index_of $"//" (s ++ $"://" ++ t) = Some (length s + 1).
Proof.
  induction s as [|c s IH]; intro Hs.
  - reflexivity.
  - cbn [app length index_of].
    assert (Hc : beq c "/"%byte = false) by (apply Hs; now left).
    replace (has_prefix $"//" (c :: s ++ $"://" ++ t)) with false.
    + rewrite IH by (intros x Hx; apply Hs; now right). reflexivity.
    + symmetry. apply (has_prefix_cons_false "/"%byte). unfold beq in *. now rewrite N.eqb_sym.
Qed.

Definition is_delim (c : byte) : bool := mem_byte c $"/:?".
Definition no_delims (s : bytes) : Prop := forall c, In c s -> is_delim c = false.

Lemma index_any_host host rest : no_delims host ->
  (rest = [] \/ exists c r, rest = c :: r /\ is_delim c = true) ->
  index_any $"/:?" (host ++ rest) = match rest with [] => None | _ => Some (length host) end.
Proof.
  intros Hh Hr. induction host as [|c host IH]; cbn [app length].
  - destruct Hr as [->|(c & r & -> & Hc)]; [reflexivity|]. cbn [index_any]. unfold is_delim, mem_byte in Hc. now rewrite Hc.
  - cbn [index_any]. assert (Hc : is_delim c = false) by (apply Hh; now left).
    unfold is_delim, mem_byte in Hc. rewrite Hc.
    rewrite IH by (intros x Hx; apply Hh; now right). destruct rest; reflexivity.
Qed.

Lemma skipn_app_len {A} (a b : list A) : skipn (length a) (a ++ b) = b.
Proof. induction a; cbn; auto. Qed.
Lemma firstn_app_len {A} (a b : list A) : firstn (length a) (a ++ b) = a.
Proof. induction a; cbn; [now destruct b | now f_equal]. Qed.

(* For every URL  scheme "://" host rest  where the scheme has no slash, the host is non-empty and
   free of "/", ":", "?", and rest is empty or starts with one of them (a port, a path or a query),
   the extracted hostname is exactly the host — what net/url reports for such URLs. *)
Theorem extract_hostname_host scheme host rest :
  no_slash scheme -> no_delims host -> host <> [] ->
  (rest = [] \/ exists c r, rest = c :: r /\ is_delim c = true) ->
  extract_hostname (scheme ++ $"://" ++ host ++ rest) = host.
Proof.
  intros Hs Hh Hne Hr. unfold extract_hostname.
  rewrite index_of_dslash by exact Hs.
  set (url := scheme ++ $"://" ++ host ++ rest).
  assert (Hsk : skipn (length scheme + 1 + 2) url = host ++ rest).
  { unfold url. replace (scheme ++ $"://" ++ host ++ rest) with ((scheme ++ $"://") ++ host ++ rest)
      by now rewrite <- app_assoc.
    replace (length scheme + 1 + 2) with (length (scheme ++ $"://")) by (rewrite app_length; cbn; lia).
    apply skipn_app_len. }
  rewrite Hsk, (index_any_host host rest Hh Hr).
  assert (Hlen : length url = length scheme + 3 + length host + length rest).
  { unfold url. rewrite !app_length. cbn. lia. }
  assert (Hhost : 0 < length host) by (destruct host; [congruence | cbn; lia]).
  destruct rest as [|c r].
  - replace (length url <=? length scheme + 1 + 2) with false by (symmetry; apply Nat.leb_gt; cbn in Hlen; lia).
    unfold slice. rewrite Hsk, app_nil_r. apply firstn_all2. cbn in Hlen. lia.
  - replace (length host + (length scheme + 1 + 2) <=? length scheme + 1 + 2) with false
      by (symmetry; apply Nat.leb_gt; lia).
    unfold slice. rewrite Hsk.
    replace (length host + (length scheme + 1 + 2) - (length scheme + 1 + 2)) with (length host) by lia.
    apply firstn_app_len.
Qed.

(* ---- eTLD+1: the fast version agrees with the library's for every PSL function ---- *)
Section PSL.
Variable psl : bytes -> bytes * bool.

(* golang.org/x/net/publicsuffix EffectiveTLDPlusOne, transcribed; [] stands for the error result *)
Definition etld_plus_one_lib (domain : bytes) : bytes :=
  if has_prefix $"." domain || has_suffix $"." domain || contains $".." domain then [] else
  let suffix := fst (psl domain) in
  if (length domain <=? length suffix)%nat then [] else
  let i := (length domain - length suffix - 1)%nat in
  match nth_error domain i with
  | Some c => if beq c "."%byte then
                match last_index_byte "."%byte (firstn i domain) with
                | Some j => skipn (S j) domain
                | None => domain
                end
              else []
  | None => []
  end.

Lemma has_suffix_dot s : has_suffix $"." s = match last_byte s with Some c => beq c "."%byte | None => false end.
Proof.
  unfold has_suffix, last_byte. induction s as [|a s _] using rev_ind; [reflexivity|].
  rewrite rev'_eq, rev_app_distr. cbn [rev app].
  change (length $".") with 1. rewrite app_length. cbn [length].
  replace (1 <=? length s + 1) with true by (symmetry; apply Nat.leb_le; lia).
  replace (length s + 1 - 1) with (length s) by lia. rewrite skipn_app_len.
  cbn. unfold beq. rewrite N.eqb_sym. now rewrite andb_true_r.
Qed.

Theorem etld_fast_is_lib h : contains $".." h = false -> etld_plus_one psl h = etld_plus_one_lib h.
Proof.
  intro Hdd. unfold etld_plus_one, etld_plus_one_lib. rewrite Hdd, orb_false_r, has_suffix_dot.
  destruct h as [|c0 h']; [reflexivity|]. set (h := c0 :: h').
  replace (has_prefix $"." h) with (beq c0 "."%byte).
  2:{ unfold h. cbn. unfold beq. now rewrite N.eqb_sym, andb_true_r. }
  destruct (beq c0 "."%byte || _); [reflexivity|].
  destruct (length h <=? length (fst (psl h))) eqn:E.
  - apply Nat.leb_le in E. replace (length h <? length (fst (psl h)) + 1) with true; [reflexivity|].
    symmetry. apply Nat.ltb_lt. lia.
  - apply Nat.leb_gt in E. replace (length h <? length (fst (psl h)) + 1) with false; [reflexivity|].
    symmetry. apply Nat.ltb_ge. lia.
Qed.

(* the registrable domain of a request: eTLD+1, or the hostname itself when there is none *)
Theorem request_domain url src t :
  rq_domain (new_request psl url src t) =
  let h := rq_hostname (new_request psl url src t) in
  if isnil (etld_plus_one psl h) then h else etld_plus_one psl h.
Proof. reflexivity. Qed.

(* third-party iff it has a source whose registrable domain differs from its own *)
Theorem third_party_def url src t :
  rq_third_party (new_request psl url src t) =
  negb (isnil (rq_source_domain (new_request psl url src t)))
  && negb (bytes_eqb (rq_source_domain (new_request psl url src t)) (rq_domain (new_request psl url src t))).
Proof. reflexivity. Qed.

Lemma bytes_eqb_sym a b : bytes_eqb a b = bytes_eqb b a.
Proof.
  destruct (bytes_eqb a b) eqn:E.
  - apply bytes_eqb_eq in E. subst. symmetry. apply bytes_eqb_refl.
  - symmetry. apply not_true_is_false. intro H. apply bytes_eqb_eq in H. subst. rewrite bytes_eqb_refl in E. discriminate.
Qed.

(* third-party is symmetric in (url, source) when both registrable domains are non-empty *)
Theorem third_party_symmetric u s t t' :
  (length u <= max_url_length)%nat -> (length s <= max_url_length)%nat ->
  rq_domain (new_request psl u s t) <> [] -> rq_source_domain (new_request psl u s t) <> [] ->
  rq_third_party (new_request psl u s t) = rq_third_party (new_request psl s u t').
Proof.
  intros Hu Hs. unfold new_request. 
  replace (max_url_length <? length u) with false by (symmetry; apply Nat.ltb_ge; exact Hu).
  replace (max_url_length <? length s) with false by (symmetry; apply Nat.ltb_ge; exact Hs).
  cbn [rq_domain rq_source_domain rq_third_party].
  intros H1 H2. rewrite (bytes_eqb_sym (domain_or_host psl (extract_hostname u))).
  destruct (domain_or_host psl (extract_hostname u)); [congruence|].
  destruct (domain_or_host psl (extract_hostname s)); [congruence|]. reflexivity.
Qed.

(* the lower-cased URL is the lower-casing of the length-capped URL *)
Theorem url_lower_def url src t :
  rq_url_lower (new_request psl url src t) = to_lower (rq_url (new_request psl url src t))
  /\ rq_url (new_request psl url src t) = (if (max_url_length <? length url)%nat then firstn max_url_length url else url).
Proof. split; reflexivity. Qed.
End PSL.

(* non-vacuity *)
Example ex_extract : extract_hostname $"https://sub.example.org:8080/a/b?c=d" = $"sub.example.org".
Proof. reflexivity. Qed.
Example ex_hyp : no_slash $"https" /\ no_delims $"sub.example.org" /\
  (exists c r, $":8080/a" = c :: r /\ is_delim c = true).
Proof.
  split; [|split].
  - intros c H. repeat (destruct H as [<-|H]; [reflexivity|]). destruct H.
  - intros c H. repeat (destruct H as [<-|H]; [reflexivity|]). destruct H.
  - do 2 eexists. split; reflexivity.
Qed.
