(* C07, second half at the two call sites: the rule NewMatchingResult / GetDNSBasicRule select is one of the
   candidates that compete (the effective, non-special rules the page's $urlblock / $genericblock exceptions leave
   enabled) and no competing candidate outranks it; under any reordering of the lists the winner has the same key. *)
From Coq Require Import List Arith NArith ZArith Bool Permutation.
From UF Require Import Base.Bytes Model.Options Model.NetRule Model.Result
  Base.Lit Proofs.C07Proofs Proofs.C08Proofs Proofs.C09Proofs Proofs.C06Proofs.
Import ListNotations.

Theorem web_winner_maximal rs src w : mr_basic (new_matching_result rs src) = Some w ->
  In w (candidates rs src) /\ forall x, In x (candidates rs src) -> is_higher_priority x w = false.
Proof. rewrite basic_is_select. apply select_maximal. Qed.

(* the winner is itself enabled: an exception, or a blocking rule the page's exceptions do not switch off *)
Theorem web_winner_enabled rs src w : mr_basic (new_matching_result rs src) = Some w ->
  In w (eff rs) /\ candidate src w = true.
Proof. intro H. apply web_winner_maximal in H as [H _]. unfold candidates in H. now apply filter_In in H. Qed.

(* some candidate competes => some rule is selected: a disabled rule never hides the enabled ones *)
Theorem web_winner_exists rs src x : In x (candidates rs src) ->
  exists w, mr_basic (new_matching_result rs src) = Some w.
Proof.
  intro Hx. rewrite basic_is_select. destruct (select (candidates rs src)) as [w|] eqn:E; [now exists w|].
  apply select_none in E. rewrite E in Hx. destruct Hx.
Qed.

Lemma candidate_perm src src' r : Permutation src src' -> candidate src r = candidate src' r.
Proof.
  intro Hs. pose proof (eff_perm _ _ Hs) as Es. unfold candidate, basic_allowed, generic_allowed.
  now rewrite (existsb_perm _ _ _ Es), (existsb_perm (fun r0 => is_document_whitelist r0 && is_opt_enabled r0 OptGenericblock) _ _ Es).
Qed.

Theorem web_winner_perm rs rs' src src' w w' : Permutation rs rs' -> Permutation src src' ->
  mr_basic (new_matching_result rs src) = Some w -> mr_basic (new_matching_result rs' src') = Some w' ->
  key w = key w'.
Proof.
  intros Hr Hs. rewrite !basic_is_select. apply select_perm. unfold candidates.
  rewrite (filter_ext _ _ (fun r => candidate_perm src src' r Hs) (eff rs)).
  apply filter_perm. now apply eff_perm.
Qed.

Theorem dns_winner_maximal rs w : get_dns_basic_rule rs = Some w ->
  In w (dns_candidates rs) /\ forall x, In x (dns_candidates rs) -> is_higher_priority x w = false.
Proof.
  unfold get_dns_basic_rule. rewrite dns_loop_spec. fold (eff rs).
  destruct (existsb is_replace (eff rs)); [discriminate|].
  fold (dns_candidates rs). fold (select (dns_candidates rs)). apply select_maximal.
Qed.

(* non-vacuity: a page under @@..$genericblock, an $important generic block (disabled) and a specific block (enabled) *)
Example ex_disabled_important_does_not_hide :
  exists imp blk g, new_network_rule $"||ads.org^$important" 1%Z = Ok imp /\
    new_network_rule $"||ads.org^$domain=a.org" 1%Z = Ok blk /\
    new_network_rule $"@@||a.org^$genericblock" 1%Z = Ok g /\
    candidate [g] imp = false /\ candidate [g] blk = true /\
    mr_basic (new_matching_result [imp; blk] [g]) = Some blk /\
    mr_basic (new_matching_result [blk; imp] [g]) = Some blk /\
    mr_basic (new_matching_result [imp; blk] []) = Some imp.
Proof. do 3 eexists. repeat split; vm_compute; reflexivity. Qed.
