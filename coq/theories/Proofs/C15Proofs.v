(* C15: the cosmetic engine returns exactly the applicable, non-excepted selectors. *)
From Coq Require Import List Arith NArith ZArith Bool Lia.
From Coq Require Import Strings.Byte.
From UF Require Import Base.Lit Base.Bytes Model.Netip Model.Domain Model.NetRule Model.Rule Model.Engines
  Proofs.EqLemmas Proofs.StrLemmas.
Import ListNotations.

(* ---- the declarative reference (no tables, no order): CosmeticRule.Match over all rules ---- *)
Section Spec.
Variable psl : bytes -> bytes * bool.
Variable rules : list cos_rule.
Variable host : bytes.

(* an exception rule with the same selector applies to the hostname *)
Definition cancelled (f : cos_rule) : Prop :=
  exists w, In w rules /\ cr_whitelist w = true /\ cr_content w = cr_content f /\ cos_match psl w host = true.
(* a non-exception rule of the lists that applies to the hostname and is not cancelled *)
Definition applicable (f : cos_rule) : Prop :=
  In f rules /\ cr_whitelist f = false /\ cos_match psl f host = true /\ ~ cancelled f.
End Spec.

(* ---- the tables of build_cos, described without the fold ---- *)
Fixpoint indexed (k : nat) (l : list cos_rule) : list (nat * cos_rule) :=
  match l with [] => [] | f :: l' => (k, f) :: indexed (S k) l' end.

Lemma indexed_app k a b : indexed k (a ++ b) = indexed k a ++ indexed (k + length a) b.
Proof.
  revert k; induction a as [|f a IH]; intro k; cbn.
  - now rewrite Nat.add_0_r.
  - rewrite IH. now rewrite Nat.add_succ_r.
Qed.
Lemma indexed_in k l n f : In (n, f) (indexed k l) -> In f l /\ nth_error l (n - k) = Some f /\ k <= n.
Proof.
  revert k; induction l as [|g l IH]; intro k; cbn; [intros []|].
  intros [H|H].
  - inversion H; subst. rewrite Nat.sub_diag. auto.
  - destruct (IH _ H) as (Hi & Hn & Hk). repeat split; [now right | | lia].
    replace (n - k) with (S (n - S k)) by lia. exact Hn.
Qed.
Lemma indexed_fun k l n f f' : In (n, f) (indexed k l) -> In (n, f') (indexed k l) -> f = f'.
Proof.
  intros H1 H2. apply indexed_in in H1 as (_ & H1 & _). apply indexed_in in H2 as (_ & H2 & _). congruence.
Qed.
Lemma indexed_has k l f : In f l -> exists n, In (n, f) (indexed k l).
Proof.
  revert k; induction l as [|g l IH]; intro k; [intros []|]. intros [->|H].
  - exists k. now left.
  - destruct (IH (S k) H) as [n Hn]. exists n. now right.
Qed.

Definition is_wild (d : bytes) : bool := has_suffix $".*" d.
Definition is_specific (f : cos_rule) : bool := negb (cr_whitelist f) && negb (isnil (cr_pdomains f)).

Definition tbl_by (il : list (nat * cos_rule)) : list (bytes * (nat * cos_rule)) :=
  flat_map (fun nf => if is_specific (snd nf)
                      then map (fun d => (d, nf)) (filter (fun d => negb (is_wild d)) (cr_pdomains (snd nf)))
                      else []) il.
Definition tbl_wl (il : list (nat * cos_rule)) : list (bytes * cos_rule) :=
  flat_map (fun nf => if cr_whitelist (snd nf) then [(cr_content (snd nf), snd nf)] else []) il.
Definition tbl_gen (il : list (nat * cos_rule)) : list cos_rule :=
  flat_map (fun nf => if negb (cr_whitelist (snd nf)) && isnil (cr_pdomains (snd nf)) then [snd nf] else []) il.
Definition tbl_wild (il : list (nat * cos_rule)) : list (nat * cos_rule) :=
  flat_map (fun nf => if is_specific (snd nf) && existsb is_wild (cr_pdomains (snd nf)) then [nf] else []) il.

Definition cos_step (st : nat * cos_engine) (f : cos_rule) : nat * cos_engine :=
  (S (fst st), cos_add (snd st) (fst st) f).

Lemma build_fold l : forall k e,
  fst (fold_left cos_step l (k, e)) = k + length l /\
  ce_by_hostname (snd (fold_left cos_step l (k, e))) = ce_by_hostname e ++ tbl_by (indexed k l) /\
  ce_whitelist (snd (fold_left cos_step l (k, e))) = ce_whitelist e ++ tbl_wl (indexed k l) /\
  ce_generic (snd (fold_left cos_step l (k, e))) = ce_generic e ++ tbl_gen (indexed k l) /\
  ce_wildcard (snd (fold_left cos_step l (k, e))) = ce_wildcard e ++ tbl_wild (indexed k l).
Proof.
  induction l as [|f l IH]; intros k e; cbn [fold_left indexed].
  - cbn. rewrite !app_nil_r. repeat split; lia.
  - change (cos_step (k, e) f) with (S k, cos_add e k f).
    destruct (IH (S k) (cos_add e k f)) as (H1 & H2 & H3 & H4 & H5).
    rewrite H1, H2, H3, H4, H5. clear H1 H2 H3 H4 H5 IH.
    unfold tbl_by, tbl_wl, tbl_gen, tbl_wild, is_specific. cbn [flat_map snd length].
    unfold cos_add.
    destruct (cr_whitelist f); cbn [negb andb ce_by_hostname ce_whitelist ce_generic ce_wildcard app].
    + rewrite <- !app_assoc. cbn [app]. repeat split; lia.
    + destruct (isnil (cr_pdomains f)); cbn [negb andb ce_by_hostname ce_whitelist ce_generic ce_wildcard app].
      * rewrite <- !app_assoc. cbn [app]. repeat split; lia.
      * unfold is_wild. destruct (existsb _ (cr_pdomains f));
          cbn [ce_by_hostname ce_whitelist ce_generic ce_wildcard app]; rewrite <- ?app_assoc; cbn [app];
          repeat split; lia.
Qed.

Lemma build_cos_tables rules :
  let e := build_cos rules in
  ce_by_hostname e = tbl_by (indexed 0 rules) /\ ce_whitelist e = tbl_wl (indexed 0 rules) /\
  ce_generic e = tbl_gen (indexed 0 rules) /\ ce_wildcard e = tbl_wild (indexed 0 rules).
Proof.
  unfold build_cos. fold cos_step.
  destruct (build_fold rules 0 {| ce_by_hostname := []; ce_whitelist := []; ce_generic := []; ce_wildcard := [] |})
    as (_ & H2 & H3 & H4 & H5). cbn in *. auto.
Qed.

(* ---- parents: the hostname and every dot-suffix of it ---- *)
Lemma parents_self fuel d : In d (parents fuel d).
Proof. destruct fuel; cbn; now left. Qed.

Lemma skipn_S_app (x : bytes) c rest : skipn (S (length x)) (x ++ c :: rest) = rest.
Proof. induction x; cbn; auto. Qed.

Lemma parents_suffix : forall fuel d x dd, length d <= fuel -> d = x ++ "."%byte :: dd -> In dd (parents fuel d).
Proof.
  induction fuel as [|fuel IH]; intros d x dd Hl Hd.
  - subst. rewrite app_length in Hl. cbn in Hl. lia.
  - cbn [parents]. right.
    destruct (in_dec Byte.byte_eq_dec "."%byte x) as [Hin|Hnin].
    + destruct (split_first _ _ Hin) as (x1 & x2 & -> & Hx1).
      subst d. rewrite <- app_assoc. cbn [app]. rewrite index_byte_app by exact Hx1.
      rewrite skipn_S_app. apply (IH _ x2 dd); [|reflexivity].
      rewrite <- app_assoc, app_length in Hl. cbn in Hl. cbn. lia.
    + subst d. rewrite index_byte_app by exact Hnin. rewrite skipn_S_app. apply parents_self.
Qed.

(* every element of parents is the name itself or a dot-suffix *)
Lemma parents_sound : forall fuel d p, In p (parents fuel d) -> p = d \/ exists x, d = x ++ "."%byte :: p.
Proof.
  induction fuel as [|fuel IH]; intros d p; cbn [parents].
  - intros [<-|[]]. now left.
  - intros [<-|H]; [now left|]. right.
    destruct (index_byte "."%byte d) as [i|] eqn:E; [|destruct H].
    assert (Hd : d = firstn i d ++ "."%byte :: skipn (S i) d).
    { clear -E. revert i E. induction d as [|c d IHd]; intros i; cbn; [discriminate|].
      destruct (beq c "."%byte) eqn:B.
      - intro H; inversion H; subst. apply beq_eq in B. subst. reflexivity.
      - destruct (index_byte "."%byte d) as [j|]; cbn; [|discriminate]. intro H; inversion H; subst.
        cbn. f_equal. now apply IHd. }
    destruct (IH _ _ H) as [->|[x Hx]].
    + now exists (firstn i d).
    + exists (firstn i d ++ "."%byte :: x). rewrite <- app_assoc. cbn [app]. now rewrite <- Hx.
Qed.

Section Engine.
Variable psl : bytes -> bytes * bool.
Variable e : cos_engine.
Variable host : bytes.

Definition pass (nf : nat * cos_rule) : bool :=
  cos_match psl (snd nf) host && negb (is_whitelisted psl e host (snd nf)).

Lemma append_matching_eq res nf :
  append_matching psl e host res nf =
  if pass nf then (if existsb (fun x => Nat.eqb (fst x) (fst nf)) res then res else res ++ [nf]) else res.
Proof. unfold append_matching, pass. destruct (cos_match _ _ _), (is_whitelisted _ _ _ _); reflexivity. Qed.

Notation am := (append_matching psl e host).

Lemma fold_am_sound l : forall res x, In x (fold_left am l res) -> In x res \/ (In x l /\ pass x = true).
Proof.
  induction l as [|a l IH]; intros res x; cbn [fold_left]; [auto|].
  intro H. apply IH in H as [H|[H1 H2]]; [|right; split; [now right | exact H2]].
  rewrite append_matching_eq in H. destruct (pass a) eqn:Pa; [|now left].
  destruct (existsb _ res); [now left|]. apply in_app_or in H as [H|[<-|[]]]; [now left|].
  right. split; [now left | exact Pa].
Qed.
Lemma am_mono res a x : In x res -> In x (am res a).
Proof.
  rewrite append_matching_eq. destruct (pass a); [|auto]. destruct (existsb _ res); [auto|].
  intro. apply in_or_app. now left.
Qed.
Lemma fold_am_mono l : forall res x, In x res -> In x (fold_left am l res).
Proof. induction l as [|a l IH]; intros res x H; cbn [fold_left]; [exact H|]. apply IH. now apply am_mono. Qed.
Lemma fold_am_complete l : forall res x, In x l -> pass x = true ->
  exists y, In y (fold_left am l res) /\ fst y = fst x.
Proof.
  induction l as [|a l IH]; intros res x; [intros []|]. cbn [fold_left]. intros [->|H] Px.
  - assert (Hy : exists y, In y (am res x) /\ fst y = fst x).
    { rewrite append_matching_eq, Px. destruct (existsb _ res) eqn:Ex.
      - apply existsb_exists in Ex as (y & Hy & Hf). apply Nat.eqb_eq in Hf. now exists y.
      - exists x. split; [apply in_or_app; right; now left | reflexivity]. }
    destruct Hy as (y & Hy & Hf). exists y. split; [now apply fold_am_mono | exact Hf].
  - now apply IH.
Qed.

(* the nested loop over the parent domains *)
Variable sel : bytes -> list (nat * cos_rule).
Definition inner (res : list (nat * cos_rule)) (d : bytes) := fold_left am (sel d) res.

Lemma outer_sound ds : forall res x, In x (fold_left inner ds res) ->
  In x res \/ exists d, In d ds /\ In x (sel d) /\ pass x = true.
Proof.
  induction ds as [|d ds IH]; intros res x; cbn [fold_left]; [auto|].
  intro H. apply IH in H as [H|(d' & H1 & H2)]; [|right; exists d'; split; [now right | exact H2]].
  apply fold_am_sound in H as [H|[H1 H2]]; [now left|]. right. exists d. split; [now left | auto].
Qed.
Lemma outer_mono ds : forall res x, In x res -> In x (fold_left inner ds res).
Proof. induction ds as [|d ds IH]; intros res x H; cbn [fold_left]; [exact H|]. apply IH. now apply fold_am_mono. Qed.
Lemma outer_complete ds : forall res d x, In d ds -> In x (sel d) -> pass x = true ->
  exists y, In y (fold_left inner ds res) /\ fst y = fst x.
Proof.
  induction ds as [|d0 ds IH]; intros res d x; [intros []|]. cbn [fold_left]. intros [->|H] Hs Px.
  - destruct (fold_am_complete (sel d) res x Hs Px) as (y & Hy & Hf). exists y. split; [now apply outer_mono | exact Hf].
  - now apply (IH _ d).
Qed.
End Engine.

Section Main.
Variable psl : bytes -> bytes * bool.
Variable rules : list cos_rule.
Variable host : bytes.
Let e := build_cos rules.
Let il := indexed 0 rules.

Lemma whitelisted_iff f : is_whitelisted psl e host f = true <-> cancelled psl rules host f.
Proof.
  unfold is_whitelisted, cancelled. rewrite existsb_exists.
  destruct (build_cos_tables rules) as (_ & Hw & _ & _). fold e in Hw. rewrite Hw. unfold tbl_wl. split.
  - intros (w & Hin & Hb). apply in_flat_map in Hin as ([n g] & Hg & Hin). cbn [snd] in Hin.
    destruct (cr_whitelist g) eqn:Wg; [|destruct Hin]. destruct Hin as [<-|[]]. cbn [fst snd] in Hb.
    apply andb_true_iff in Hb as [Hc Hm]. apply bytes_eqb_eq in Hc.
    exists g. apply indexed_in in Hg as (Hg & _). auto.
  - intros (w & Hin & Ww & Hc & Hm). destruct (indexed_has 0 _ _ Hin) as [n Hn].
    exists (cr_content w, w). split.
    + apply in_flat_map. exists (n, w). split; [exact Hn|]. cbn [snd]. rewrite Ww. now left.
    + cbn [fst snd]. rewrite Hm, Hc, bytes_eqb_refl. reflexivity.
Qed.

Lemma pass_iff nf : In (snd nf) rules -> cr_whitelist (snd nf) = false ->
  (pass psl e host nf = true <-> applicable psl rules host (snd nf)).
Proof.
  intros Hin Hw. unfold pass, applicable. rewrite andb_true_iff, negb_true_iff. split.
  - intros [Hm Hnw]. repeat split; auto. intro Hc. apply whitelisted_iff in Hc. congruence.
  - intros (_ & _ & Hm & Hc). split; [exact Hm|]. destruct (is_whitelisted psl e host (snd nf)) eqn:E; [|reflexivity].
    exfalso. apply Hc. now apply whitelisted_iff.
Qed.

Definition sel_by (d : bytes) : list (nat * cos_rule) :=
  map snd (filter (fun kv => bytes_eqb (fst kv) d) (ce_by_hostname e)).

Lemma sel_by_iff d nf : In nf (sel_by d) <->
  In nf il /\ is_specific (snd nf) = true /\ In d (cr_pdomains (snd nf)) /\ is_wild d = false.
Proof.
  unfold sel_by. destruct (build_cos_tables rules) as (Hb & _). fold e in Hb. rewrite Hb. unfold tbl_by.
  rewrite in_map_iff. split.
  - intros ([k v] & <- & Hf). apply filter_In in Hf as [Hf Hk]. cbn [fst snd] in *. apply bytes_eqb_eq in Hk. subst k.
    apply in_flat_map in Hf as (nf & Hnf & Hf). destruct (is_specific (snd nf)) eqn:Sp; [|destruct Hf].
    apply in_map_iff in Hf as (d' & Heq & Hd'). inversion Heq; subst. apply filter_In in Hd' as [Hd' Hwd].
    apply negb_true_iff in Hwd. auto.
  - intros (Hnf & Sp & Hd & Hwd). exists (d, nf). split; [reflexivity|]. apply filter_In. split.
    + apply in_flat_map. exists nf. split; [exact Hnf|]. rewrite Sp. apply (in_map (fun d0 => (d0, nf))). apply filter_In. split; [exact Hd|].
      now rewrite Hwd.
    + cbn [fst]. apply bytes_eqb_refl.
Qed.

Lemma wild_iff nf : In nf (ce_wildcard e) <->
  In nf il /\ is_specific (snd nf) = true /\ existsb is_wild (cr_pdomains (snd nf)) = true.
Proof.
  destruct (build_cos_tables rules) as (_ & _ & _ & Hw). fold e in Hw. rewrite Hw. unfold tbl_wild.
  rewrite in_flat_map. split.
  - intros (x & Hx & Hin). destruct (is_specific (snd x) && existsb is_wild (cr_pdomains (snd x))) eqn:E; [|destruct Hin].
    destruct Hin as [<-|[]]. apply andb_true_iff in E as [E1 E2]. auto.
  - intros (H1 & H2 & H3). exists nf. split; [exact H1|]. rewrite H2, H3. now left.
Qed.

Lemma find_by_hostname_eq :
  find_by_hostname psl e host =
  fold_left (append_matching psl e host) (ce_wildcard e)
    (fold_left (inner psl e host sel_by) (parents (length host) host) []).
Proof. reflexivity. Qed.

(* a domain-restricted rule applies only if the hostname is one of its listed domains or below one *)
Lemma specific_match_domain f : cr_pdomains f <> [] -> cos_match psl f host = true ->
  exists d, In d (cr_pdomains f) /\ domain_matches psl host d = true.
Proof.
  intros Hne. unfold cos_match. destruct (cr_pdomains f) as [|d0 ds] eqn:Ep; [congruence|].
  cbn [isnil andb negb]. destruct (negb (isnil (cr_rdomains f)) && _); [discriminate|].
  unfold is_domain_or_subdomain_of_any.
  destruct (existsb (domain_matches psl host) (d0 :: ds)) eqn:Ex; [|discriminate].
  intros _. apply existsb_exists in Ex. exact Ex.
Qed.

Lemma nonwild_match_parent d : is_wild d = false -> domain_matches psl host d = true ->
  In d (parents (length host) host).
Proof.
  unfold is_wild, domain_matches. intros ->. rewrite orb_true_iff, andb_true_iff, bytes_eqb_eq. intros [->|[_ H]].
  - apply parents_self.
  - apply has_suffix_iff in H as [x ->]. apply (parents_suffix _ _ x); [lia | reflexivity].
Qed.

(* findByHostname: exactly the applicable domain-restricted rules (each once per instance) *)
Theorem find_by_hostname_spec f :
  In f (map snd (find_by_hostname psl e host)) <->
  applicable psl rules host f /\ cr_pdomains f <> [].
Proof.
  rewrite find_by_hostname_eq, in_map_iff. split.
  - intros ([n g] & <- & H). cbn [snd].
    assert (Hg : In (n, g) il /\ is_specific g = true /\ pass psl e host (n, g) = true).
    { apply fold_am_sound in H as [H|[H P]].
      - apply outer_sound in H as [[]|(d & _ & Hs & P)]. apply sel_by_iff in Hs as (H1 & H2 & _). auto.
      - apply wild_iff in H as (H1 & H2 & _). auto. }
    destruct Hg as (Hil & Sp & P). apply indexed_in in Hil as (Hin & _).
    unfold is_specific in Sp. apply andb_true_iff in Sp as [Sw Sd]. apply negb_true_iff in Sw.
    split.
    + apply (pass_iff (n, g)); auto.
    + destruct (cr_pdomains g); [discriminate | congruence].
  - intros [Ha Hne]. assert (Ha' := Ha). destruct Ha as (Hin & Hw & Hm & _).
    destruct (indexed_has 0 _ _ Hin) as [n Hn]. fold il in Hn.
    assert (Sp : is_specific f = true).
    { unfold is_specific. rewrite Hw. destruct (cr_pdomains f); [congruence | reflexivity]. }
    assert (P : pass psl e host (n, f) = true) by (apply pass_iff; auto).
    destruct (specific_match_domain f Hne Hm) as (d & Hd & Hdm).
    assert (Hy : exists y, In y (find_by_hostname psl e host) /\ fst y = n).
    { rewrite find_by_hostname_eq. destruct (is_wild d) eqn:Wd.
      - apply (fold_am_complete psl e host _ _ (n, f)); [|exact P].
        apply wild_iff. repeat split; auto. apply existsb_exists. now exists d.
      - destruct (outer_complete psl e host sel_by (parents (length host) host) [] d (n, f)) as (y & Hy & Hf).
        + now apply nonwild_match_parent.
        + apply sel_by_iff. auto.
        + exact P.
        + exists y. split; [now apply fold_am_mono | exact Hf]. }
    destruct Hy as ([n' g] & Hy & Hf). cbn [fst] in Hf. subst n'. exists (n, g). split; [|exact Hy].
    cbn [snd]. rewrite find_by_hostname_eq in Hy.
    assert (Hg : In (n, g) il).
    { apply fold_am_sound in Hy as [Hy|[Hy _]].
      - apply outer_sound in Hy as [[]|(d' & _ & Hs & _)]. now apply sel_by_iff in Hs.
      - now apply wild_iff in Hy. }
    exact (indexed_fun 0 rules n g f Hg Hn).
Qed.

Lemma generic_iff f : In f (ce_generic e) <-> In f rules /\ cr_whitelist f = false /\ cr_pdomains f = [].
Proof.
  destruct (build_cos_tables rules) as (_ & _ & Hg & _). fold e in Hg. rewrite Hg. unfold tbl_gen.
  rewrite in_flat_map. split.
  - intros ([n g] & Hin & H). cbn [snd] in H.
    destruct (negb (cr_whitelist g) && isnil (cr_pdomains g)) eqn:E; [|destruct H]. destruct H as [<-|[]].
    apply andb_true_iff in E as [E1 E2]. apply negb_true_iff in E1. apply indexed_in in Hin as (Hin & _).
    destruct (cr_pdomains g); [auto | discriminate].
  - intros (Hin & Hw & Hp). destruct (indexed_has 0 _ _ Hin) as [n Hn]. exists (n, f). split; [exact Hn|].
    cbn [snd]. rewrite Hw, Hp. now left.
Qed.

(* the two selector lists of CosmeticEngine.Match *)
Theorem generic_selectors css js gen s :
  In s (fst (cos_engine_match psl e host css js gen)) <->
  css = true /\ gen = true /\ exists f, applicable psl rules host f /\ cr_pdomains f = [] /\ cr_content f = s.
Proof.
  unfold cos_engine_match. destruct css; cbn [negb fst]; [|split; [intros [] | intros [? _]; discriminate]].
  rewrite in_map_iff. split.
  - intros (f & <- & Hf). apply filter_In in Hf as [Hf Hg].
    assert (Hp : cr_pdomains f = []) by (destruct (cr_pdomains f); [reflexivity | discriminate]).
    apply in_app_or in Hf as [Hf|Hf].
    + destruct gen; [|destruct Hf]. apply filter_In in Hf as [Hf Hb]. apply andb_true_iff in Hb as [Hb1 Hb2].
      apply generic_iff in Hf as (Hin & Hw & _). repeat split; auto. exists f. repeat split; auto.
      intro Hc. apply whitelisted_iff in Hc. rewrite Hc in Hb1. discriminate.
    + apply find_by_hostname_spec in Hf as [_ Hne]. congruence.
  - intros (_ & -> & f & (Hin & Hw & Hm & Hc) & Hp & <-). exists f. split; [reflexivity|].
    apply filter_In. split; [|now rewrite Hp]. apply in_or_app. left. apply filter_In. split.
    + apply generic_iff. auto.
    + rewrite Hm, andb_true_r, negb_true_iff. destruct (is_whitelisted psl e host f) eqn:E; [|reflexivity].
      exfalso. apply Hc. now apply whitelisted_iff.
Qed.

Theorem specific_selectors css js gen s :
  In s (snd (cos_engine_match psl e host css js gen)) <->
  css = true /\ exists f, applicable psl rules host f /\ cr_pdomains f <> [] /\ cr_content f = s.
Proof.
  unfold cos_engine_match. destruct css; cbn [negb snd]; [|split; [intros [] | intros [? _]; discriminate]].
  rewrite in_map_iff. split.
  - intros (f & <- & Hf). apply filter_In in Hf as [Hf Hg].
    assert (Hp : cr_pdomains f <> []) by (destruct (cr_pdomains f); [discriminate | congruence]).
    apply in_app_or in Hf as [Hf|Hf].
    + exfalso. assert (Hf' : In f (ce_generic e)) by (destruct gen; [now apply filter_In in Hf | destruct Hf]).
      apply generic_iff in Hf' as (_ & _ & Hn). congruence.
    + apply find_by_hostname_spec in Hf as [Ha _]. split; [reflexivity|]. now exists f.
  - intros (_ & f & Ha & Hp & <-). exists f. split; [reflexivity|]. apply filter_In. split.
    + apply in_or_app. right. now apply find_by_hostname_spec.
    + destruct (cr_pdomains f); [congruence | reflexivity].
Qed.
End Main.

(* ---- the meaning of "applies to the hostname" for a listed domain (after the F09/F13 repairs):
   the domain itself or a name below it at a label boundary ---- *)
Lemma domain_matches_plain psl hostname d : is_wild d = false ->
  (domain_matches psl hostname d = true <-> hostname = d \/ exists x, hostname = x ++ "."%byte :: d).
Proof.
  unfold is_wild, domain_matches. intros ->. rewrite orb_true_iff, andb_true_iff, bytes_eqb_eq, !has_suffix_iff. split.
  - intros [->|[_ [x ->]]]; [now left | right; now exists x].
  - intros [->|[x ->]]; [now left|]. right. split; [exists (x ++ ["."%byte]); now rewrite <- app_assoc | now exists x].
Qed.
