(* C20: the proxy's HTML injection inserts one tag before the first head marker of the inspected
   prefix and preserves every original byte. *)
From Coq Require Import List Arith NArith Bool Lia.
From Coq Require Import Strings.Byte.
From UF Require Import Base.Lit Base.Bytes Model.Html Proofs.EqLemmas.
Import ListNotations.

(* ---- the reference, on the ORIGINAL bytes ---- *)
Definition width (c : byte) : nat := if is_ascii c then 1 else 2.
(* length of the transcoded text of a byte string = its length + number of high bytes *)
Definition ulen (s : bytes) : nat := length (latin1_decode s).

(* first position whose transcoded offset lies inside the window and where a marker starts *)
Fixpoint spec_find (b : bytes) (budget : nat) {struct b} : option nat :=
  match budget with
  | O => None
  | S _ =>
    if marker_here b then Some 0
    else match b with
         | [] => None
         | c :: b' => option_map S (spec_find b' (budget - width c))
         end
  end.

Definition spec_filter (body tagb : bytes) : bytes :=
  match spec_find body head_buffer_size with
  | Some j => firstn j body ++ tagb ++ skipn j body
  | None => body
  end.

(* ---- transcoding lemmas ---- *)
Lemma dec1_ascii y : is_ascii y = true -> dec1 y = [y].
Proof. unfold dec1. now intros ->. Qed.
Lemma dec1_high y : is_ascii y = false ->
  exists l c, dec1 y = [l; c] /\ is_ascii l = false /\ is_ascii c = false.
Proof. intro H. destruct y; try discriminate H; (do 2 eexists; split; [reflexivity | split; reflexivity]). Qed.

Lemma encode_dec1 y rest : latin1_encode (dec1 y ++ rest) = do r <- latin1_encode rest; Ok (y :: r).
Proof. destruct y; reflexivity. Qed.

Lemma decode_cons y b : latin1_decode (y :: b) = dec1 y ++ latin1_decode b.
Proof. reflexivity. Qed.
Lemma decode_app a b : latin1_decode (a ++ b) = latin1_decode a ++ latin1_decode b.
Proof. unfold latin1_decode. apply flat_map_app. Qed.

Lemma encode_decode_app p t : latin1_encode (latin1_decode p ++ t) = do r <- latin1_encode t; Ok (p ++ r).
Proof.
  induction p as [|y p IH]; cbn [latin1_decode flat_map app].
  - destruct (latin1_encode t); reflexivity.
  - rewrite <- app_assoc, encode_dec1. fold (latin1_decode p). rewrite IH. destruct (latin1_encode t); reflexivity.
Qed.
(* every byte string survives the round trip *)
Theorem encode_decode b : latin1_encode (latin1_decode b) = Ok b.
Proof. rewrite <- (app_nil_r (latin1_decode b)), encode_decode_app. cbn. now rewrite app_nil_r. Qed.

Lemma encode_app : forall n a x t, length a <= n -> latin1_encode a = Ok x ->
  latin1_encode (a ++ t) = do y <- latin1_encode t; Ok (x ++ y).
Proof.
  induction n as [|n IH]; intros a x t Hl He.
  - destruct a; [|cbn in Hl; lia]. cbn in He. inversion He. cbn. destruct (latin1_encode t); reflexivity.
  - destruct a as [|a0 a1].
    { cbn in He. inversion He. cbn. destruct (latin1_encode t); reflexivity. }
    cbn [latin1_encode app] in *. destruct (is_ascii a0).
    + destruct (latin1_encode a1) as [r| | |] eqn:E1; cbn [rbind] in He; try discriminate. inversion He; subst.
      rewrite (IH a1 r t) by (cbn in Hl; try lia; auto). destruct (latin1_encode t); reflexivity.
    + destruct (_ || _); [|discriminate]. destruct a1 as [|c a2]; [discriminate|]. cbn [app].
      destruct (in_range 128 191 c); [|discriminate].
      destruct (latin1_encode a2) as [r| | |] eqn:E2; cbn [rbind] in He; try discriminate. inversion He; subst.
      rewrite (IH a2 r t) by (cbn in Hl; try lia; auto). destruct (latin1_encode t); reflexivity.
Qed.

(* ---- markers survive transcoding; high bytes never start or continue a marker ---- *)
Lemma high_ne_ascii y x : is_ascii y = false -> is_ascii x = true -> beq (lower_b y) x = false.
Proof.
  unfold is_ascii, beq, lower_b, is_upper, in_range. intros Hy Hx.
  apply N.ltb_ge in Hy. apply N.ltb_lt in Hx.
  destruct (N.leb_spec 65 (b2n y)); destruct (N.leb_spec (b2n y) 90); cbn [andb]; try lia; apply N.eqb_neq; lia.
Qed.

Lemma prefix_fold_decode m : forallb is_ascii m = true -> forall b, prefix_fold m (latin1_decode b) = prefix_fold m b.
Proof.
  induction m as [|x m IH]; intros Hm b; [reflexivity|]. cbn [forallb] in Hm. apply andb_true_iff in Hm as [Hx Hm].
  destruct b as [|y b]; [reflexivity|]. rewrite decode_cons. destruct (is_ascii y) eqn:Ey.
  - rewrite dec1_ascii by exact Ey. cbn [app prefix_fold]. now rewrite IH.
  - destruct (dec1_high y Ey) as (l & c & -> & Hl & _). cbn [app prefix_fold].
    now rewrite (high_ne_ascii l x Hl Hx), (high_ne_ascii y x Ey Hx).
Qed.
Lemma markers_ascii : forallb (forallb is_ascii) markers = true. Proof. reflexivity. Qed.
Lemma marker_decode b : marker_here (latin1_decode b) = marker_here b.
Proof.
  unfold marker_here. assert (H := markers_ascii). induction markers as [|m ms IH]; [reflexivity|].
  cbn [forallb] in H. apply andb_true_iff in H as [Hm Hms]. cbn [existsb].
  rewrite prefix_fold_decode by exact Hm. now rewrite IH.
Qed.
Lemma marker_high c s : is_ascii c = false -> marker_here (c :: s) = false.
Proof.
  intro Hc. unfold marker_here.
  assert (H : forallb (fun m => match m with x :: _ => is_ascii x | [] => false end) markers = true) by reflexivity.
  induction markers as [|m ms IH]; [reflexivity|]. cbn [forallb] in H. apply andb_true_iff in H as [Hm Hms].
  cbn [existsb]. rewrite IH by exact Hms. destruct m as [|x m]; [discriminate|]. cbn [prefix_fold].
  now rewrite (high_ne_ascii c x Hc Hm).
Qed.
Lemma marker_nil : marker_here [] = false. Proof. reflexivity. Qed.

(* ---- the scan over the transcoded text finds the transcoded offset of the reference position ---- *)
Lemma find_decode b : forall budget,
  find_injection (latin1_decode b) budget = option_map (fun j => ulen (firstn j b)) (spec_find b budget).
Proof.
  induction b as [|y b IH]; intros [|k]; cbn [find_injection spec_find]; try reflexivity.
  rewrite marker_decode. destruct (marker_here (y :: b)) eqn:Em; [reflexivity|].
  rewrite decode_cons. unfold width. destruct (is_ascii y) eqn:Ey.
  - rewrite dec1_ascii by exact Ey. cbn [app]. rewrite IH. replace (S k - 1) with k by lia.
      destruct (spec_find b k) as [j|]; cbn [option_map]; [|reflexivity].
    unfold ulen. cbn [firstn]. rewrite decode_cons, dec1_ascii by exact Ey. reflexivity.
  - destruct (dec1_high y Ey) as (l & c & Hd & Hl & Hc). rewrite Hd. cbn [app].
    destruct k as [|k'].
    + cbn [find_injection option_map]. replace (1 - 2) with 0 by lia. destruct b; reflexivity.
    + cbn [find_injection]. rewrite (marker_high c _ Hc). rewrite IH. replace (S (S k') - 2) with k' by lia.
        destruct (spec_find b k') as [j|]; cbn [option_map]; [|reflexivity].
        unfold ulen. cbn [firstn]. rewrite decode_cons, Hd. reflexivity.
Qed.

(* ---- main theorem ---- *)
Theorem filter_html_spec body tag tagb : latin1_encode tag = Ok tagb ->
  filter_html body tag = Ok (spec_filter body tagb).
Proof.
  intro Ht. unfold filter_html, spec_filter. rewrite find_decode.
  destruct (spec_find body head_buffer_size) as [j|]; cbn [option_map]; [|apply encode_decode].
  set (p := firstn j body). set (s := skipn j body).
  assert (Hb : latin1_decode body = latin1_decode p ++ latin1_decode s).
  { rewrite <- decode_app. unfold p, s. now rewrite firstn_skipn. }
  unfold ulen. rewrite Hb.
  rewrite firstn_app, Nat.sub_diag, firstn_all, firstn_O, app_nil_r.
  rewrite skipn_app, Nat.sub_diag, skipn_all, skipn_O. cbn [app].
  rewrite encode_decode_app. rewrite (encode_app (length tag) tag tagb _ (le_n _) Ht).
  rewrite encode_decode. reflexivity.
Qed.

(* ---- what the reference position is ---- *)
Lemma ulen_cons c b : ulen (c :: b) = width c + ulen b.
Proof. unfold ulen, width. rewrite decode_cons, app_length. destruct (is_ascii c) eqn:E.
  - now rewrite dec1_ascii. - destruct (dec1_high c E) as (l & c' & -> & _). reflexivity. Qed.

Lemma spec_find_some b : forall budget j, spec_find b budget = Some j <->
  j <= length b /\ marker_here (skipn j b) = true /\ ulen (firstn j b) < budget /\
  (forall j', j' < j -> marker_here (skipn j' b) = false).
Proof.
  induction b as [|c b IH]; intros budget j.
  - destruct budget; cbn [spec_find]; (split; [discriminate|]); intros (Hj & Hm & Hb & _).
    + lia.
    + destruct j; cbn in Hm; discriminate.
  - destruct budget as [|k]; cbn [spec_find].
    { split; [discriminate | intros (_ & _ & H & _); lia]. }
    destruct (marker_here (c :: b)) eqn:Em.
    + split.
      * intro H. inversion H. subst. cbn [skipn firstn length]. repeat split; try lia; [exact Em | unfold ulen; cbn; lia].
      * intros (_ & _ & _ & Hf). destruct j as [|j]; [reflexivity|]. specialize (Hf 0 ltac:(lia)). cbn [skipn] in Hf. congruence.
    + destruct (spec_find b (S k - width c)) as [j0|] eqn:Es; cbn [option_map].
      * apply IH in Es as (H1 & H2 & H3 & H4). split.
        -- intro H. inversion H. subst j. cbn [length skipn firstn]. rewrite ulen_cons. repeat split; try lia; auto.
           intros [|j'] Hlt; [exact Em | cbn [skipn]; apply H4; lia].
        -- intros (G1 & G2 & G3 & G4). destruct j as [|j]; [cbn [skipn] in G2; congruence|]. f_equal. f_equal.
           cbn [skipn firstn] in *. rewrite ulen_cons in G3.
           destruct (Nat.lt_trichotomy j j0) as [Hlt|[Heq|Hgt]]; [|exact (eq_sym Heq)|].
           ++ specialize (H4 j Hlt). congruence.
           ++ specialize (G4 (S j0) ltac:(lia)). cbn [skipn] in G4. congruence.
      * split; [discriminate|]. intros (G1 & G2 & G3 & G4). destruct j as [|j]; [cbn [skipn] in G2; congruence|]. exfalso.
        cbn [length skipn firstn] in *. rewrite ulen_cons in G3.
        assert (Hs : spec_find b (S k - width c) = Some j).
        { apply IH. repeat split; try lia; auto. intros j' Hj'. apply (G4 (S j')). lia. }
        congruence.
Qed.

Lemma spec_find_none b budget : spec_find b budget = None <->
  forall j, j <= length b -> ulen (firstn j b) < budget -> marker_here (skipn j b) = false.
Proof.
  split.
  - intros Hn j Hj Hb. destruct (marker_here (skipn j b)) eqn:Em; [|reflexivity]. exfalso.
    (* take the least such position *)
    assert (Hex : exists j0, j0 <= j /\ marker_here (skipn j0 b) = true /\ forall j', j' < j0 -> marker_here (skipn j' b) = false).
    { clear Hn Hb Hj. revert Em. induction j as [j H] using lt_wf_ind. intro Em.
      destruct (existsb (fun i => marker_here (skipn i b)) (seq 0 j)) eqn:Ex.
      - apply existsb_exists in Ex as (i & Hi & Hmi). apply in_seq in Hi. destruct (H i ltac:(lia) Hmi) as (j0 & A & B & C).
        exists j0. repeat split; auto. lia.
      - exists j. repeat split; auto. intros j' Hj'. destruct (marker_here (skipn j' b)) eqn:E; [|reflexivity].
        assert (existsb (fun i => marker_here (skipn i b)) (seq 0 j) = true).
        { apply existsb_exists. exists j'. split; [apply in_seq; lia | exact E]. } congruence. }
    destruct Hex as (j0 & Hle & Hm0 & Hf0).
    assert (Hs : spec_find b budget = Some j0).
    { apply spec_find_some. repeat split; auto; try lia.
      assert (Hmono : ulen (firstn j0 b) <= ulen (firstn j b)).
      { unfold ulen. replace (firstn j0 b) with (firstn j0 (firstn j b)) by (rewrite firstn_firstn; f_equal; lia).
        rewrite <- (firstn_skipn j0 (firstn j b)) at 2. rewrite decode_app, app_length. lia. }
      lia. }
    congruence.
  - intro H. destruct (spec_find b budget) as [j|] eqn:Es; [|reflexivity].
    apply spec_find_some in Es as (H1 & H2 & H3 & _). rewrite (H j H1 H3) in H2. discriminate.
Qed.

(* the declared length (ContentLength = len(new body)) *)
Lemma spec_filter_length body tagb :
  length (spec_filter body tagb) =
  match spec_find body head_buffer_size with Some _ => length body + length tagb | None => length body end.
Proof.
  unfold spec_filter. destruct (spec_find body head_buffer_size) as [j|]; [|reflexivity].
  rewrite !app_length. rewrite <- (firstn_skipn j body) at 3. rewrite app_length. lia.
Qed.
