(* C04 — A rule matches iff its pattern and every modifier are satisfied.
   Only statements here; every proof is [exact <lemma>]. *)
From Coq Require Import List Permutation.
From UF Require Import Base.Bytes Model.NetRule Model.Request Model.Match Proofs.BytesOrder Proofs.C04Proofs.
Import ListNotations.

(* every rule accepted by the parser is well-formed: tag lists and client-name lists are sorted *)
Theorem C04_wf : forall text id r, new_network_rule text id = Ok r -> wf_rule r.
Proof. exact parser_wf. Qed.
Print Assumptions C04_wf.

(* the binary search and the merge walk of the code are plain membership / common-element tests
   on sorted data *)
Theorem C04_binary_search : forall l x, sorted_bytes l -> binary_search l x = mem x l.
Proof. exact binary_search_spec. Qed.
Print Assumptions C04_binary_search.
Theorem C04_merge_walk : forall a b, sorted_bytes a -> sorted_bytes b -> match_tags_specific a b = common a b.
Proof. exact match_tags_specific_spec. Qed.
Print Assumptions C04_merge_walk.

(* Match == the reference semantics, for every PSL function, every well-formed rule and every
   request with sorted tags (the documented caller obligation) *)
Theorem C04_match : forall psl f r, wf_rule f -> sorted_bytes (rq_tags r) -> rule_match psl f r = sem psl f r.
Proof. exact rule_match_sem. Qed.
Print Assumptions C04_match.
Theorem C04_match_text : forall psl text id f r, new_network_rule text id = Ok f -> sorted_bytes (rq_tags r) ->
  rule_match psl f r = sem psl f r.
Proof. exact text_match_sem. Qed.
Print Assumptions C04_match_text.

(* the order in which values are written inside a modifier never matters *)
Theorem C04_order_domain : forall psl f f' d,
  Permutation (nr_pdomains f) (nr_pdomains f') -> Permutation (nr_rdomains f) (nr_rdomains f') ->
  match_source_domain psl f d = match_source_domain psl f' d.
Proof. exact source_domain_order. Qed.
Print Assumptions C04_order_domain.
Theorem C04_order_denyallow : forall psl f f' d h, Permutation (nr_denyallow f) (nr_denyallow f') ->
  match_request_domain psl f d h = match_request_domain psl f' d h.
Proof. exact denyallow_order. Qed.
Print Assumptions C04_order_denyallow.
Theorem C04_order_dnstype : forall f f' t, Permutation (nr_pdns f) (nr_pdns f') -> Permutation (nr_rdns f) (nr_rdns f') ->
  match_dns_type f t = match_dns_type f' t.
Proof. exact dnstype_order. Qed.
Print Assumptions C04_order_dnstype.
Theorem C04_order_ctag : forall l l', Permutation l l' -> load_ctags_aux l [] [] = load_ctags_aux l' [] [].
Proof. exact ctag_order. Qed.
Print Assumptions C04_order_ctag.
