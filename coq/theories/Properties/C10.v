(* C10 — Parsed $dnsrewrite values always have the published shape.
   Only statements here; every proof is [exact <lemma>]. *)
From Coq Require Import ZArith.
From UF Require Import Base.Bytes Model.DNSRewrite Model.NetRule Proofs.C10Proofs.

(* For EVERY byte string v: if the value parser accepts v, the result satisfies the published
   contract [shapeb] (new-CNAME carries nothing else; a record type only with a success code;
   the constructor of the value is determined by the record type; PTR values end with a dot). *)
Theorem C10_shape : forall v d, load_dnsrewrite v = Ok d -> shapeb d = true.
Proof. exact load_dnsrewrite_shape. Qed.
Print Assumptions C10_shape.

(* ... and for every rule text accepted by the network-rule parser (any other modifiers around it) *)
Theorem C10_rule_shape : forall text id r d,
  new_network_rule text id = Ok r -> nr_dnsrewrite r = Some d -> shapeb d = true.
Proof. exact new_network_rule_shape. Qed.
Print Assumptions C10_rule_shape.

(* malformed values are rejected with an error, never a crash *)
Theorem C10_no_crash : forall v, load_dnsrewrite v <> Crash.
Proof. exact load_dnsrewrite_no_crash. Qed.
Print Assumptions C10_no_crash.
