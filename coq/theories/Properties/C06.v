(* C06 — The verdict follows the documented precedence, whatever the rule order.
   Only statements here; every proof is [exact <lemma>]. *)
From Coq Require Import List Permutation.
From UF Require Import Base.Bytes Model.Options Model.NetRule Model.Request Model.Result Model.Storage Model.Engines
  Proofs.C07Proofs Proofs.C08Proofs Proofs.C06Proofs Proofs.C06Set Proofs.EndToEnd.
Import ListNotations.

(* web: the class of GetBasicResult(NewMatchingResult(rules, sourceRules)) equals the order-free
   specification (no verdict if an effective $replace rule exists; else the class of a maximal-class
   candidate; else allow iff a document-level exception matches the referrer) *)
Theorem C06_web : forall rs src,
  verdict_of (get_basic_result (new_matching_result rs src)) = spec_web_verdict rs src.
Proof. exact web_verdict. Qed.
Print Assumptions C06_web.
Theorem C06_dns : forall rs, verdict_of (get_dns_basic_rule rs) = spec_dns_verdict rs.
Proof. exact dns_verdict. Qed.
Print Assumptions C06_dns.

(* the verdict does not depend on the order of the rules or on how they are split across lists *)
Theorem C06_web_perm : forall rs rs' src src', Permutation rs rs' -> Permutation src src' ->
  verdict_of (get_basic_result (new_matching_result rs src)) =
  verdict_of (get_basic_result (new_matching_result rs' src')).
Proof. exact web_perm. Qed.
Print Assumptions C06_web_perm.
Theorem C06_dns_perm : forall rs rs', Permutation rs rs' ->
  verdict_of (get_dns_basic_rule rs) = verdict_of (get_dns_basic_rule rs').
Proof. exact dns_perm. Qed.
Print Assumptions C06_dns_perm.
Theorem C06_web_split : forall a b src,
  verdict_of (get_basic_result (new_matching_result (a ++ b) src)) =
  verdict_of (get_basic_result (new_matching_result (b ++ a) src)).
Proof. exact web_split. Qed.
Print Assumptions C06_web_split.

(* important exception > important block > exception > block: the verdict is the class of any
   candidate of maximal class *)
Theorem C06_precedence : forall rs src w, has_replace rs = false -> In w (candidates rs src) ->
  (forall x, In x (candidates rs src) -> cls x <= cls w) -> spec_web_verdict rs src = verdict_of_cls (cls w).
Proof. exact precedence. Qed.
Print Assumptions C06_precedence.
(* a referrer-level urlblock exception suppresses every blocking rule *)
Theorem C06_urlblock : forall rs src d, In d (eff src) -> is_document_whitelist d = true ->
  is_opt_enabled d OptUrlblock = true -> spec_web_verdict rs src <> VBlock.
Proof. exact urlblock_suppresses_blocking. Qed.
Print Assumptions C06_urlblock.

(* rewrite rules, rules disabled by badfilter and special-purpose rules never become the result *)
Theorem C06_never_special : forall rs src b, get_basic_result (new_matching_result rs src) = Some b ->
  In b (candidates rs src) \/ (In b (eff src) /\ is_document_whitelist b = true).
Proof. exact basic_never_special. Qed.
Print Assumptions C06_never_special.
Theorem C06_candidate_properties : forall rs src b, In b (candidates rs src) ->
  In b rs /\ nr_dnsrewrite b = None /\ is_bad b = false /\ special b = false
  /\ (forall bf, In bf rs -> is_bad bf = true -> ~ twin bf b).
Proof. exact candidate_properties. Qed.
Print Assumptions C06_candidate_properties.

(* the verdict depends on the SET of matching rules only: a rule reported twice, or elsewhere in the list, changes
   nothing *)
Theorem C06_web_set : forall rs rs' src src', same_set rs rs' -> same_set src src' ->
  spec_web_verdict rs src = spec_web_verdict rs' src'.
Proof. exact web_verdict_same_set. Qed.
Print Assumptions C06_web_set.
Theorem C06_dns_set : forall rs rs', same_set rs rs' -> spec_dns_verdict rs = spec_dns_verdict rs'.
Proof. exact dns_verdict_same_set. Qed.
Print Assumptions C06_dns_set.

(* end to end (storage, engine construction for EVERY hash function, lookup, NewMatchingResult, GetBasicResult):
   Engine.MatchRequest gives the order-free verdict over the rules of the lists that match the request and over
   those that match the referrer as a document request — with no assumption but the domain of the storage index
   and that no rule text occurs twice *)
Theorem C06_web_end_to_end : forall hash psl s scanned q,
  storage_ok s -> storage_scan s = Ok scanned ->
  NoDup (map (fun ri => nr_text (fst ri)) (net_rules_of scanned)) ->
  verdict_of (get_basic_result (engine_match_request hash psl (retr_net_of s) (build_net hash (net_rules_of scanned)) q)) =
  spec_web_verdict (filter (fun f => rmatch psl f q) (map fst (net_rules_of scanned)))
                   (if isnil (rq_source_url q) then []
                    else filter (fun f => rmatch psl f (new_request psl (rq_source_url q) [] TypeDocument)) (map fst (net_rules_of scanned))).
Proof. exact web_verdict_end_to_end. Qed.
Print Assumptions C06_web_end_to_end.
