(* C17 — Request fields agree with the standard URL parser and the Public Suffix List.
   Only statements here; every proof is [exact <lemma>]. *)
From Coq Require Import List Arith Bool.
From UF Require Import Base.Lit Base.Bytes Model.Domain Model.Request Proofs.C17Proofs.
Import ListNotations.

(* hostname: for every URL  scheme://host rest  of the contract (scheme without slash, non-empty host
   without "/", ":", "?", rest empty or a port, path or query) the extracted hostname is the host *)
Theorem C17_hostname : forall scheme host rest,
  no_slash scheme -> no_delims host -> host <> [] ->
  (rest = [] \/ exists c r, rest = c :: r /\ is_delim c = true) ->
  extract_hostname (scheme ++ $"://" ++ host ++ rest) = host.
Proof. exact extract_hostname_host. Qed.
Print Assumptions C17_hostname.

(* registrable domain: the fast eTLD+1 equals the library's algorithm, for EVERY Public Suffix List
   function and every hostname without empty labels *)
Theorem C17_etld : forall psl h, contains $".." h = false -> etld_plus_one psl h = etld_plus_one_lib psl h.
Proof. exact etld_fast_is_lib. Qed.
Print Assumptions C17_etld.
Theorem C17_domain : forall psl url src t,
  rq_domain (new_request psl url src t) =
  let h := rq_hostname (new_request psl url src t) in
  if isnil (etld_plus_one psl h) then h else etld_plus_one psl h.
Proof. exact request_domain. Qed.
Print Assumptions C17_domain.

(* third-party iff there is a source whose registrable domain differs; symmetric in (url, source) *)
Theorem C17_third_party : forall psl url src t,
  rq_third_party (new_request psl url src t) =
  negb (isnil (rq_source_domain (new_request psl url src t)))
  && negb (bytes_eqb (rq_source_domain (new_request psl url src t)) (rq_domain (new_request psl url src t))).
Proof. exact third_party_def. Qed.
Print Assumptions C17_third_party.
Theorem C17_third_party_symmetric : forall psl u s t t',
  length u <= max_url_length -> length s <= max_url_length ->
  rq_domain (new_request psl u s t) <> [] -> rq_source_domain (new_request psl u s t) <> [] ->
  rq_third_party (new_request psl u s t) = rq_third_party (new_request psl s u t').
Proof. exact third_party_symmetric. Qed.
Print Assumptions C17_third_party_symmetric.

(* the lower-cased URL is the lower-casing of the length-capped URL *)
Theorem C17_url_lower : forall psl url src t,
  rq_url_lower (new_request psl url src t) = to_lower (rq_url (new_request psl url src t))
  /\ rq_url (new_request psl url src t) = (if max_url_length <? length url then firstn max_url_length url else url).
Proof. exact url_lower_def. Qed.
Print Assumptions C17_url_lower.
