(* C20 — Proxy HTML injection inserts one tag and preserves every original byte.
   Only statements here; every proof is [exact <lemma>]. *)
From Coq Require Import List Arith NArith Bool.
From Coq Require Import Strings.Byte.
From UF Require Import Base.Lit Base.Bytes Model.Html Proofs.C20Proofs.
Import ListNotations.

(* For every body over all 256 byte values and every tag that is representable in Latin-1 (tagb are its
   Latin-1 bytes): the result of decode / scan / splice / encode is the ORIGINAL body with the tag inserted at
   the reference position, or the original body itself — nothing else changes. *)
Theorem C20_filter : forall body tag tagb, latin1_encode tag = Ok tagb ->
  filter_html body tag = Ok (spec_filter body tagb).
Proof. exact filter_html_spec. Qed.
Print Assumptions C20_filter.

(* the reference position j: a head marker (</head, <link, <style, <script, any letter case) starts at byte j
   of the original body, the transcoded offset of j (j plus the number of bytes >= 0x80 before it) is below the
   budget (16384), and no earlier position has a marker: "the first marker found in the inspected prefix" *)
Theorem C20_position : forall b budget j, spec_find b budget = Some j <->
  j <= length b /\ marker_here (skipn j b) = true /\ ulen (firstn j b) < budget /\
  (forall j', j' < j -> marker_here (skipn j' b) = false).
Proof. exact spec_find_some. Qed.
Print Assumptions C20_position.
(* ... and the body is returned unchanged exactly when no marker starts inside the inspected prefix *)
Theorem C20_no_marker : forall b budget, spec_find b budget = None <->
  forall j, j <= length b -> ulen (firstn j b) < budget -> marker_here (skipn j b) = false.
Proof. exact spec_find_none. Qed.
Print Assumptions C20_no_marker.

(* every byte string survives the Latin-1 round trip *)
Theorem C20_roundtrip : forall b, latin1_encode (latin1_decode b) = Ok b.
Proof. exact encode_decode. Qed.
Print Assumptions C20_roundtrip.

(* the new length: exactly one tag longer, or unchanged *)
Theorem C20_length : forall body tagb,
  length (spec_filter body tagb) =
  match spec_find body head_buffer_size with Some _ => length body + length tagb | None => length body end.
Proof. exact spec_filter_length. Qed.
Print Assumptions C20_length.

(* the scan over the transcoded text reports the transcoded offset of the reference position *)
Theorem C20_index_translation : forall b budget,
  find_injection (latin1_decode b) budget = option_map (fun j => ulen (firstn j b)) (spec_find b budget).
Proof. exact find_decode. Qed.
Print Assumptions C20_index_translation.

(* non-vacuity: high bytes before the marker, mixed-case marker *)
Example C20_nonvacuous :
  filter_html ([xe9; xff] ++ $"<html><HeAd></hEAd>" ++ [x80]) $"<script src=x></script>" =
  Ok ([xe9; xff] ++ $"<html><HeAd>" ++ $"<script src=x></script>" ++ $"</hEAd>" ++ [x80]).
Proof. vm_compute. reflexivity. Qed.
