(* C01 — Network engine lookup is equivalent to a linear scan of all rules.
   Only statements here; every proof is [exact <lemma>]. *)
From Coq Require Import List NArith ZArith Bool.
From Coq Require Import Strings.Byte.
From UF Require Import Base.Lit Base.Bytes Model.Options Model.Domain Model.NetRule Model.Request Model.Match Model.Engines
  Model.Storage Proofs.SplitLemmas Proofs.C01Proofs Proofs.EndToEnd.
Import ListNotations.

(* For EVERY hash function (so collisions and the choice of bucket are invisible by construction), every
   Public Suffix List function, every list of parsed rules with their storage indexes (any split into lists,
   any ids, any insertion order: the histogram is whatever the fold makes it), an intact storage (C11), and
   every request: the texts MatchAll reports are exactly the texts of the rules that match individually. *)
Theorem C01_engine_equals_scan : forall hash psl retr rules q t,
  parsed rules -> (forall f idx, In (f, idx) rules -> retr idx = Some f) ->
  (In t (map nr_text (match_all hash psl retr (build_net hash rules) q)) <->
   exists f, In f (map fst rules) /\ rmatch psl f q = true /\ nr_text f = t).
Proof. exact engine_equals_scan. Qed.
Print Assumptions C01_engine_equals_scan.

(* end to end — storage, scanner, engine construction, lookup — with no assumption but the domain of the
   storage index (distinct 32-bit list ids, lists shorter than 2 GiB): the retrieval function is the storage's
   own (C11) and the rules are what the scanner yields *)
Theorem C01_end_to_end : forall hash psl s scanned q t,
  storage_ok s -> storage_scan s = Ok scanned ->
  (In t (map nr_text (match_all hash psl (retr_net_of s) (build_net hash (net_rules_of scanned)) q)) <->
   exists f, In f (map fst (net_rules_of scanned)) /\ rmatch psl f q = true /\ nr_text f = t).
Proof. exact network_engine_end_to_end. Qed.
Print Assumptions C01_end_to_end.

(* never adds a non-matching rule — for ANY behaviour of the storage on the indexes of the list
   (whatever it hands out for a filed index is a rule of the list with that index), failing retrievals included *)
Theorem C01_sound : forall hash psl retr rules q f,
  (forall idx f, retr idx = Some f -> (exists f0, In (f0, idx) rules) -> In (f, idx) rules) ->
  In f (match_all hash psl retr (build_net hash rules) q) ->
  rmatch psl f q = true /\ In f (map fst rules).
Proof. exact match_all_sound. Qed.
Print Assumptions C01_sound.

(* never loses a matching rule; rules filed in the shortcut or the domains table are returned themselves,
   rules of the sequential table are represented by the retained rule with the same text *)
Theorem C01_complete : forall hash psl retr rules q f idx,
  (forall f idx, In (f, idx) rules -> retr idx = Some f) -> pdomains_ok f -> text_coherent psl rules q ->
  In (f, idx) rules -> rmatch psl f q = true ->
  exists f', In f' (match_all hash psl retr (build_net hash rules) q) /\ nr_text f' = nr_text f /\
             (rule_shortcuts f <> [] \/ (nr_pdomains f <> [] /\ no_wild f = true) -> f' = f).
Proof. exact match_all_complete. Qed.
Print Assumptions C01_complete.

(* the two side conditions hold for everything the parser produces *)
Theorem C01_parsed_pdomains : forall rules f idx, parsed rules -> In (f, idx) rules -> pdomains_ok f.
Proof. exact parsed_pdomains_ok. Qed.
Print Assumptions C01_parsed_pdomains.
Theorem C01_parsed_coherent : forall psl rules q, parsed rules -> text_coherent psl rules q.
Proof. exact parsed_text_coherent. Qed.
Print Assumptions C01_parsed_coherent.

(* every rule is filed somewhere it will be looked for, whatever was inserted before or after it *)
Theorem C01_filed : forall hash rules f idx, In (f, idx) rules -> filed hash (build_net hash rules) f idx.
Proof. exact build_filed. Qed.
Print Assumptions C01_filed.
(* the domains table probes every name the source host is equal to or below *)
Theorem C01_subdomains : forall h d, dom_ok d -> (h = d \/ exists x, h = x ++ "."%byte :: d) -> In d (get_subdomains h).
Proof. exact get_subdomains_complete. Qed.
Print Assumptions C01_subdomains.

(* non-vacuity: one rule per table (shortcut, $domain, sequential), one request matching all three *)
Definition ex_psl (h : bytes) : bytes * bool := ($"org", true).
Definition ex_rules : list (net_rule * Z) :=
  match new_network_rule $"||example.org/banner" 1, new_network_rule $"ad$domain=example.org" 1,
        new_network_rule $"ads$script" 1 with
  | Ok a, Ok b, Ok c => [(a, 10%Z); (b, 20%Z); (c, 30%Z)]
  | _, _, _ => []
  end.
Definition ex_retr (idx : Z) : option net_rule :=
  match filter (fun ri => Z.eqb (snd ri) idx) ex_rules with ri :: _ => Some (fst ri) | [] => None end.
Example C01_nonvacuous :
  let e := build_net djb2 ex_rules in
  let q := new_request ex_psl $"https://example.org/banner/ads.js" $"https://www.example.org/" TypeScript in
  (length (ne_shortcuts e), length (ne_domains e), length (ne_seq e)) = (1, 1, 1) /\
  map nr_text (match_all djb2 ex_psl ex_retr e q) = [$"||example.org/banner"; $"ad$domain=example.org"; $"ads$script"].
Proof. vm_compute. split; reflexivity. Qed.

(* a rule is reported once per index it is filed under, whatever the URL repeats (a name such as "example.com.example.com"
   holds every lookup window twice): the indexes of the shortcut-table answer are pairwise distinct *)
Theorem C01_each_index_once : forall hash psl retr e q, NoDup (map fst (match_shortcuts hash psl retr e q)).
Proof. exact match_shortcuts_nodup. Qed.
Print Assumptions C01_each_index_once.
