(* C15 — Cosmetic engine returns exactly the applicable, non-excepted selectors.
   Only statements here; every proof is [exact <lemma>]. *)
From Coq Require Import List NArith ZArith Bool.
From Coq Require Import Strings.Byte.
From UF Require Import Base.Lit Base.Bytes Model.Domain Model.Rule Model.Engines Proofs.C15Proofs.
Import ListNotations.

(* For every Public Suffix List function, every list of cosmetic rules (any number, any order, duplicates),
   every hostname and all 8 flag combinations: the generic list holds exactly the selectors of applicable
   generic rules, and only if CSS and generic CSS are both enabled. *)
Theorem C15_generic : forall psl rules host css js gen s,
  In s (fst (cos_engine_match psl (build_cos rules) host css js gen)) <->
  css = true /\ gen = true /\
  exists f, applicable psl rules host f /\ cr_pdomains f = [] /\ cr_content f = s.
Proof. exact generic_selectors. Qed.
Print Assumptions C15_generic.

(* ... and the specific list holds exactly the selectors of applicable domain-restricted rules, iff CSS is
   enabled.  "applicable" = a non-exception rule of the lists whose CosmeticRule.Match holds for the hostname
   and for which no exception rule with the same selector matches the hostname. *)
Theorem C15_specific : forall psl rules host css js gen s,
  In s (snd (cos_engine_match psl (build_cos rules) host css js gen)) <->
  css = true /\
  exists f, applicable psl rules host f /\ cr_pdomains f <> [] /\ cr_content f = s.
Proof. exact specific_selectors. Qed.
Print Assumptions C15_specific.

(* the lookup by hostname (exact name, every parent domain, wildcard list) finds exactly those rules *)
Theorem C15_find_by_hostname : forall psl rules host f,
  In f (map snd (find_by_hostname psl (build_cos rules) host)) <->
  applicable psl rules host f /\ cr_pdomains f <> [].
Proof. exact find_by_hostname_spec. Qed.
Print Assumptions C15_find_by_hostname.

(* "listed domains and their subdomains": for a plain listed domain the test is equality or a
   label-boundary suffix *)
Theorem C15_listed_domain_meaning : forall psl hostname d, is_wild d = false ->
  (domain_matches psl hostname d = true <-> hostname = d \/ exists x, hostname = x ++ "."%byte :: d).
Proof. exact domain_matches_plain. Qed.
Print Assumptions C15_listed_domain_meaning.

(* non-vacuity: a list with a generic rule, a domain rule, an exception, a negated domain; queried on a
   subdomain *)
Definition ex_psl (h : bytes) : bytes * bool := ($"org", true).
Definition ex_rules : list cos_rule :=
  match new_cosmetic_rule $"##.banner" 1, new_cosmetic_rule $"example.org##.ad" 1,
        new_cosmetic_rule $"example.org#@#.banner" 1, new_cosmetic_rule $"example.org,~sub.example.org##.x" 1 with
  | Ok a, Ok b, Ok c, Ok d => [a; b; c; d]
  | _, _, _, _ => []
  end.
Example C15_nonvacuous :
  cos_engine_match ex_psl (build_cos ex_rules) $"www.example.org" true true true = ([], [$".ad"; $".x"]) /\
  cos_engine_match ex_psl (build_cos ex_rules) $"a.sub.example.org" true true true = ([], [$".ad"]) /\
  cos_engine_match ex_psl (build_cos ex_rules) $"other.org" true true true = ([$".banner"], []).
Proof. vm_compute. repeat split. Qed.
