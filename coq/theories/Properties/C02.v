(* C02 — DNS engine answer equals the reference resolution over all rules.
   Only statements here; every proof is [exact <lemma>]. *)
From Coq Require Import List NArith ZArith Bool.
From Coq Require Import Strings.Byte.
From UF Require Import Base.Lit Base.Bytes Model.Options Model.Netip Model.NetRule Model.Rule Model.Request Model.Match
  Model.Result Model.Storage Model.Engines Proofs.C06Proofs Proofs.C02Proofs Proofs.EndToEnd.
Import ListNotations.

(* "DNS-applicable": the host-level test of the code is exactly "no $domain, not both content-type lists,
   no negated option, no enabled option besides $important and $badfilter" *)
Theorem C02_host_level_meaning : forall f, is_host_level f = true <-> dns_applicable f.
Proof. exact is_host_level_iff. Qed.
Print Assumptions C02_host_level_meaning.

(* storage_intact: an index retrieves exactly the rule scanned with it (C11), and the network rules come from
   the parser.  For every hash function (collisions of host names invisible), every PSL function, every mix of adblock
   rules, hosts lines and bare domains in any order, and every DNS request:
   the reported network rules are exactly the DNS-applicable network rules that match *)
Theorem C02_network_rules : forall hash psl retr retr_host rules hostname q t,
  storage_intact retr retr_host rules -> hostname <> [] ->
  (In t (map nr_text (dr_network_rules (fst (dns_match hash psl retr retr_host (build_dns hash rules) hostname q)))) <->
   exists f idx, In (RNet f, idx) rules /\ dns_applicable f /\ rmatch psl f q = true /\ nr_text f = t).
Proof. exact dns_network_rules'. Qed.
Print Assumptions C02_network_rules.

(* the basic rule is the one GetDNSBasicRule selects among them (its class is decided by C06, its priority by C07) *)
Theorem C02_basic_rule : forall hash psl retr retr_host rules hostname q, hostname <> [] ->
  let res := fst (dns_match hash psl retr retr_host (build_dns hash rules) hostname q) in
  dr_network_rule res = get_dns_basic_rule (dr_network_rules res).
Proof. exact dns_basic_rule. Qed.
Print Assumptions C02_basic_rule.

(* if there is a basic rule, hosts-file rules are not consulted and the request counts as matched *)
Theorem C02_basic_wins : forall hash psl retr retr_host rules hostname q b,
  let r := dns_match hash psl retr retr_host (build_dns hash rules) hostname q in
  dr_network_rule (fst r) = Some b -> dr_v4 (fst r) = [] /\ dr_v6 (fst r) = [] /\ snd r = true.
Proof. exact dns_basic_wins. Qed.
Print Assumptions C02_basic_wins.

(* otherwise exactly the hosts-file entries naming the hostname, split by address family; matched iff one exists *)
Theorem C02_hosts : forall hash psl retr retr_host rules hostname q,
  storage_intact retr retr_host rules -> hostname <> [] ->
  let r := dns_match hash psl retr retr_host (build_dns hash rules) hostname q in
  dr_network_rule (fst r) = None ->
  (forall h, In h (dr_v4 (fst r)) <-> host_entry rules hostname h /\ is4 (hr_ip h) = true) /\
  (forall h, In h (dr_v6 (fst r)) <-> host_entry rules hostname h /\ is4 (hr_ip h) = false) /\
  (snd r = true <-> exists h, host_entry rules hostname h).
Proof. exact dns_hosts'. Qed.
Print Assumptions C02_hosts.

Theorem C02_empty_hostname : forall hash psl retr retr_host rules hostname q, hostname = [] ->
  let r := dns_match hash psl retr retr_host (build_dns hash rules) hostname q in
  snd r = false /\ dr_network_rules (fst r) = [] /\ dr_network_rule (fst r) = None /\ dr_v4 (fst r) = [] /\ dr_v6 (fst r) = [].
Proof. exact dns_empty. Qed.
Print Assumptions C02_empty_hostname.

(* storage_intact is what the storage provides (C11) for everything its scanner yields *)
Theorem C02_storage_intact : forall s scanned, storage_ok s -> storage_scan s = Ok scanned ->
  storage_intact (retr_net_of s) (retr_host_of s) scanned.
Proof. exact dns_storage_intact. Qed.
Print Assumptions C02_storage_intact.

(* end to end: the class of the DNS basic rule is the order-free DNS verdict over the DNS-applicable rules of the
   lists that match — storage, engine construction for every hash function, lookup, GetDNSBasicRule — assuming only
   the domain of the storage index and that no host-level rule text occurs twice *)
Theorem C02_verdict_end_to_end : forall hash psl s scanned hostname q,
  storage_ok s -> storage_scan s = Ok scanned -> hostname <> [] ->
  NoDup (map (fun ri => nr_text (fst ri)) (hl_of scanned)) ->
  verdict_of (dr_network_rule (fst (dns_match hash psl (retr_net_of s) (retr_host_of s) (build_dns hash scanned) hostname q))) =
  spec_dns_verdict (filter (fun f => rmatch psl f q) (map fst (hl_of scanned))).
Proof. exact dns_verdict_end_to_end. Qed.
Print Assumptions C02_verdict_end_to_end.
