(* C05 — The shortcut pre-check never rejects a request the rule accepts.
   Only statements here; every proof is [exact <lemma>]. *)
From Coq Require Import List Bool.
From UF Require Import Base.Lit Base.Bytes Model.NetRule Model.Regex Model.Mask Proofs.C05Proofs.
Import ListNotations.

(* mask rules, universally: for EVERY basic pattern p (with or without match-case) and EVERY subject u,
   if the compiled pattern accepts u then the lower-cased u contains the rule's shortcut *)
Theorem C05_mask : forall p mc u, is_early p = false -> is_regex_pat p = false ->
  match prepare_pattern p mc with
  | Ok (PRe _ cr) => match_string cr u = true -> contains (load_shortcut p) (to_lower u) = true
  | _ => True
  end.
Proof. exact mask_shortcut_sound. Qed.
Print Assumptions C05_mask.

(* the shortcut of a mask pattern is a special-free substring of the pattern *)
Theorem C05_shortcut_is_factor : forall p, factor_of p (find_shortcut p).
Proof. exact find_shortcut_factor. Qed.
Print Assumptions C05_shortcut_is_factor.

(* regular-expression rules: a verified checker.  Whenever must_contain r sc evaluates to true, EVERY
   string accepted by r (case-insensitively or not) contains sc after lower-casing; the check decides
   the property per rule by evaluating it on the rule's parsed expression and actual shortcut *)
Theorem C05_regex_checker : forall ci r sc, must_contain r sc = true ->
  forall u, search ci r u = true -> contains (to_lower sc) (to_lower u) = true.
Proof. exact must_contain_sound. Qed.
Print Assumptions C05_regex_checker.
