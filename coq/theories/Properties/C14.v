(* C14 — Engines can be queried concurrently: race-free and sequentially consistent.   (PARTIAL, see DESIGN.md)
   Only statements here; every proof is [exact <lemma>].
   What is proved: the synchronisation PROTOCOLS of the code (Model/Conc.v) — the RWMutex around the rule cache,
   the mutex around seek-and-read of a list file, the per-rule mutex around lazy compilation, the pool of
   request objects — for every number of goroutines, every per-goroutine strategy and every schedule.
   What is not expressible here: the Go memory model and scheduler; that the code takes the locks where the
   model says is checked dynamically (lock probes at every shared access, race detector, answer comparison). *)
From Coq Require Import List Arith Bool.
From Coq Require Import NArith ZArith.
From UF Require Import Base.Bytes Model.NetRule Model.Request Model.Match Model.Engines Model.Conc Model.ConcQuery Proofs.C14Proofs Proofs.ConcQueryProofs Proofs.ConcTie.
Import ListNotations.

Section Statements.
Variable rule cval : Type.
Variable content : nat -> nat -> option rule.
Variable compile : nat -> cval.
Variable progs : tid -> list (task elk (ecomp rule cval) (eout rule cval) * list (eout rule cval)) ->
                 option (task elk (ecomp rule cval) (eout rule cval)).
(* goroutines look up, load and prepare at will, and insert into the cache only what they loaded themselves *)
Hypothesis progs_allowed : forall t h tk, consistent elk (ecomp rule cval) (eout rule cval) progs t h ->
  progs t h = Some tk -> allowed rule cval content compile h tk.
Variable c0 : elk -> ecomp rule cval.
Hypothesis c0_good : forall k, EGood rule cval content compile k (c0 k).   (* e.g. cold cache, nothing compiled *)
Variable sched : list tid.                                                  (* ANY schedule *)
Let s := run elk elk_eq_dec (ecomp rule cval) (eout rule cval) (init elk (ecomp rule cval) (eout rule cval) c0 progs) sched.

(* no two goroutines are ever inside conflicting regions of one lock (cache write vs. any cache access; two
   seek-and-read sections of one list; two preparations of one rule) *)
Theorem C14_no_conflict : forall t1 t2 k, t1 <> t2 ->
  in_W elk (ecomp rule cval) (eout rule cval) (tpc (th s t1)) k ->
  ~ in_R elk (ecomp rule cval) (eout rule cval) (tpc (th s t2)) k /\
  ~ in_W elk (ecomp rule cval) (eout rule cval) (tpc (th s t2)) k.
Proof. exact (engines_no_conflict rule cval content compile progs progs_allowed c0 c0_good sched). Qed.

(* sequential consistency, access by access: a load returns what the list holds at ITS index whatever seeks
   other goroutines interleave; a cache lookup returns nothing or the rule of the lists; a preparation returns
   the compilation of that rule's pattern *)
Theorem C14_load : forall t i o, In (T_load rule cval content i, o) (hist (th s t)) ->
  o = [OUnit; ORule (content (fst i) (snd i))].
Proof. exact (load_returns_content rule cval content compile progs progs_allowed c0 c0_good sched). Qed.
Theorem C14_lookup : forall t i o, In (T_lookup rule cval i, o) (hist (th s t)) ->
  o = [OInst i None] \/ exists r x, o = [OInst i (Some (r, x))] /\ content (fst i) (snd i) = Some r.
Proof. exact (lookup_returns_content rule cval content compile progs progs_allowed c0 c0_good sched). Qed.
Theorem C14_insert : forall t i r x o, In (T_insert rule cval i r x, o) (hist (th s t)) ->
  exists r' x', o = [OInst i (Some (r', x'))] /\ content (fst i) (snd i) = Some r'.
Proof. exact (insert_returns_content rule cval content compile progs progs_allowed c0 c0_good sched). Qed.
(* ONE OBJECT PER INDEX: all objects the cache ever hands out for one index, to any goroutine, by lookup or insert,
   are the same object (the lookup tables de-duplicate by identity; the pinned tree violated this: F17) *)
Theorem C14_single_instance : forall t1 t2 tk1 tk2 o1 o2 i v1 v2,
  In (tk1, o1) (hist (th s t1)) -> In (tk2, o2) (hist (th s t2)) ->
  t_lock tk1 = LCache -> t_lock tk2 = LCache ->
  In (OInst i (Some v1)) o1 -> In (OInst i (Some v2)) o2 -> v1 = v2.
Proof. exact (single_instance rule cval content compile progs progs_allowed c0 c0_good sched). Qed.
Theorem C14_prepare : forall t r o, In (T_prepare rule cval compile r, o) (hist (th s t)) -> o = [OVal (compile r)].
Proof. exact (prepare_returns_compile rule cval content compile progs progs_allowed c0 c0_good sched). Qed.
Theorem C14_cache_within_lists : writer s LCache = None -> EGood rule cval content compile LCache (comp s LCache).
Proof. exact (cache_within_lists rule cval content compile progs progs_allowed c0 c0_good sched). Qed.

(* no deadlock: while some goroutine is not finished, some goroutine can take a step *)
Theorem C14_progress : forall t, ~ finished elk (ecomp rule cval) (eout rule cval) (th s t) ->
  exists t', step elk elk_eq_dec (ecomp rule cval) (eout rule cval) s t' <> None.
Proof. exact (engines_progress rule cval content compile progs progs_allowed c0 c0_good sched). Qed.
End Statements.
Print Assumptions C14_no_conflict.
Print Assumptions C14_load.
Print Assumptions C14_lookup.
Print Assumptions C14_insert.
Print Assumptions C14_single_instance.
Print Assumptions C14_prepare.
Print Assumptions C14_cache_within_lists.
Print Assumptions C14_progress.

(* the generic fact behind them: lock-protected regions are atomic, for any lock family, component type,
   component invariant and strategies *)
(* what a goroutine was told stays true: outputs valid for the component a region left behind remain valid for
   every later committed value, provided components only evolve along [Ext] *)
Theorem C14_outputs_stay_valid : forall lk lk_eq_dec C out Good progs,
  (forall t h tk, consistent lk C out progs t h -> hist_ok lk C out Good h -> progs t h = Some tk -> tk_ok lk C out Good tk) ->
  forall (Ext : lk -> C -> C -> Prop) (Valid : task lk C out -> list out -> C -> Prop),
  (forall tk o c c', Valid tk o c -> Ext (t_lock tk) c c' -> Valid tk o c') ->
  (forall t h tk, consistent lk C out progs t h -> hist_ok lk C out Good h -> progs t h = Some tk -> tk_valid lk C out Good Ext Valid tk) ->
  forall c0 sched t tk o, (forall k, Good k (c0 k)) ->
  In (tk, o) (hist (th (run lk lk_eq_dec C out (init lk C out c0 progs) sched) t)) ->
  Valid tk o (committed lk C out (run lk lk_eq_dec C out (init lk C out c0 progs) sched) (t_lock tk)).
Proof. exact outputs_stay_valid. Qed.
Print Assumptions C14_outputs_stay_valid.

Theorem C14_regions_atomic : forall lk lk_eq_dec C out Good progs,
  (forall t h tk, consistent lk C out progs t h -> hist_ok lk C out Good h -> progs t h = Some tk -> tk_ok lk C out Good tk) ->
  forall c0, (forall k, Good k (c0 k)) -> forall sched t tk o,
  In (tk, o) (hist (th (run lk lk_eq_dec C out (init lk C out c0 progs) sched) t)) ->
  exists c, Good (t_lock tk) c /\ o = snd (run_acts C out (t_acts tk) c).
Proof. exact regions_atomic. Qed.
Print Assumptions C14_regions_atomic.

(* the request pool: exclusive ownership between Get and Put, for every schedule and every choice of the pool;
   a query sees exactly its own writes *)
Theorem C14_pool_exclusive : forall F blank js sched t1 t2 o, t1 <> t2 ->
  own F (ppc_of (pth (prun F blank (pinit F blank js) sched) t1)) = Some o ->
  own F (ppc_of (pth (prun F blank (pinit F blank js) sched) t2)) <> Some o.
Proof. exact pool_exclusive. Qed.
Print Assumptions C14_pool_exclusive.
Theorem C14_pool_reads : forall F blank js sched t st j seen,
  In (st, j, seen) (reads (pth (prun F blank (pinit F blank js) sched) t)) -> seen = apply_writes F j st.
Proof. exact pool_reads. Qed.
Print Assumptions C14_pool_reads.

(* non-vacuity: the RetrieveRule + preparePattern strategy satisfies the hypothesis, and a concrete interleaved
   run of three goroutines completes with the sequential answers (ex_runs, by computation) *)
Theorem C14_strategy_allowed : forall t h tk,
  consistent elk (ecomp nat nat) (eout nat nat) ex_progs t h -> ex_progs t h = Some tk ->
  allowed nat nat ex_content ex_compile h tk.
Proof. exact ex_allowed. Qed.
Print Assumptions C14_strategy_allowed.

(* ================= whole queries (Model/ConcQuery.v) =================
   A query is a program over RetrieveRule (cache lookup; on a miss: load under the list mutex, insert under the write
   lock, continue with what the cache then holds) and preparePattern (compile once under the rule mutex).
   EVERY CONCURRENT QUERY RETURNS WHAT THE SAME QUERY RETURNS SEQUENTIALLY: for every number of goroutines, whatever
   the others run, under every schedule, the result a query computes is its meaning over one fixed store
   index -> object (the store the cache is committed to; the same for all goroutines). *)
Section Queries.
Variable rule cval : Type.
Variable content : nat -> nat -> option rule.
Variable compile : nat -> cval.
Variable idx_of : nat -> nat * nat.
Variable obj0 : nat * nat -> nat.
Variable progs : tid -> list (task elk (ecomp rule cval) (eout rule cval) * list (eout rule cval)) ->
                 option (task elk (ecomp rule cval) (eout rule cval)).
Hypothesis progs_allowed : forall t h tk, consistent elk (ecomp rule cval) (eout rule cval) progs t h ->
  progs t h = Some tk -> allowed rule cval content compile h tk.
Variable c0 : elk -> ecomp rule cval.
Hypothesis c0_good : forall k, Good2 rule cval content compile idx_of k (c0 k).
Variable sched : list tid.
Let s := run elk elk_eq_dec (ecomp rule cval) (eout rule cval) (init elk (ecomp rule cval) (eout rule cval) c0 progs) sched.

Theorem C14_query_result : forall t A (p : qprog rule cval A), (forall h, progs t h = qstrat rule cval content compile p h) ->
  forall a, qresult rule cval p (hist (th s t)) = Some a ->
  a = sem rule cval compile (vstore rule cval content obj0 progs c0 sched) p.
Proof. exact (query_result rule cval content compile idx_of obj0 progs progs_allowed c0 c0_good sched). Qed.
Theorem C14_query_finished : forall t A (p : qprog rule cval A), (forall h, progs t h = qstrat rule cval content compile p h) ->
  finished elk (ecomp rule cval) (eout rule cval) (th s t) -> exists a, qresult rule cval p (hist (th s t)) = Some a.
Proof. exact (query_finished rule cval content compile idx_of progs progs_allowed c0 c0_good sched). Qed.
(* the store holds the rule of the lists at each index, in one object per index *)
Theorem C14_store : forall i, vstore rule cval content obj0 progs c0 sched i =
  match content (fst i) (snd i) with Some r => Some (r, inst rule cval obj0 progs c0 sched i) | None => None end.
Proof. reflexivity. Qed.
(* ... and distinct indexes are distinct objects, provided allocations are (an object a goroutine allocates belongs to
   the index it parsed it for) *)
Hypothesis idx_obj0 : forall i, idx_of (obj0 i) = i.
Hypothesis progs_tagged : forall t h i r x, consistent elk (ecomp rule cval) (eout rule cval) progs t h ->
  progs t h = Some (T_insert rule cval i r x) -> idx_of x = i.
Theorem C14_store_one_object_per_index : forall i j,
  inst rule cval obj0 progs c0 sched i = inst rule cval obj0 progs c0 sched j -> i = j.
Proof. exact (inst_injective rule cval content compile idx_of obj0 idx_obj0 progs progs_allowed progs_tagged c0 c0_good sched). Qed.
End Queries.
Print Assumptions C14_query_result.
Print Assumptions C14_query_finished.
Print Assumptions C14_store.
Print Assumptions C14_store_one_object_per_index.

(* a query's strategy only does what goroutines are allowed to do (the hypothesis above is satisfiable by queries) *)
Theorem C14_query_allowed : forall rule cval content compile progs t A (p : qprog rule cval A),
  (forall h, progs t h = qstrat rule cval content compile p h) ->
  forall h tk, consistent elk (ecomp rule cval) (eout rule cval) progs t h ->
  qstrat rule cval content compile p h = Some tk -> allowed rule cval content compile h tk.
Proof. exact query_allowed. Qed.
Print Assumptions C14_query_allowed.

(* THE LOOKUP-TABLE QUERY, closed system, no hypothesis on strategies: every goroutine walks its own bucket of indexes
   for its own request (retrieve, skip objects already in the result BY IDENTITY, Match, append — lookup/
   shortcutstable.go MatchAll) on a cold cache; allocations of different goroutines are different objects.  However the
   steps interleave, a completed query returned [table_spec]: a function of the lists and the request alone, in which
   identity-based de-duplication has become de-duplication by index. *)
Theorem C14_table_queries : forall rule cval content cof idx_of obj0, (forall i, idx_of (obj0 i) = i) ->
  forall alloc, (forall t i, idx_of (alloc t i) = i) -> forall matches bucket sched t a,
  qresult rule cval (tq rule cval alloc matches bucket t)
    (hist (th (run elk elk_eq_dec (ecomp rule cval) (eout rule cval)
                 (init elk (ecomp rule cval) (eout rule cval) (cold rule cval)
                       (tq_progs rule cval content cof idx_of alloc matches bucket)) sched) t)) = Some a ->
  a = table_spec rule cval content cof (matches t) (bucket t) [].
Proof. exact all_table_queries. Qed.
Print Assumptions C14_table_queries.
Theorem C14_table_queries_finish : forall rule cval content cof idx_of alloc matches bucket sched t,
  let s := run elk elk_eq_dec (ecomp rule cval) (eout rule cval)
                 (init elk (ecomp rule cval) (eout rule cval) (cold rule cval)
                       (tq_progs rule cval content cof idx_of alloc matches bucket)) sched in
  finished elk (ecomp rule cval) (eout rule cval) (th s t) ->
  exists a, qresult rule cval (tq rule cval alloc matches bucket t) (hist (th s t)) = Some a.
Proof. exact all_table_queries_finish. Qed.
Print Assumptions C14_table_queries_finish.
(* non-vacuity: qx_runs (ConcQueryProofs.v) — three goroutines, overlapping buckets with repeated indexes, an irregular
   schedule of 440 steps: all complete with the reference answers, by computation *)

(* ... and that reference answer IS the shortcut-table lookup of the engine model (Model/Engines.v match_shortcuts, whose
   meaning C01 gives): any number of goroutines look up the shortcut table of one engine, each for its own request, on
   a cold cache; [dec] is the storage-index decoding (injective: C11_pack_injective) *)
Theorem C14_concurrent_match_shortcuts : forall hash psl retr cval cof dec, (forall a b, dec a = dec b -> a = b) ->
  forall content, (forall idx, content (fst (dec idx)) (snd (dec idx)) = retr idx) ->
  forall e idx_of obj0, (forall i, idx_of (obj0 i) = i) -> forall alloc, (forall t i, idx_of (alloc t i) = i) ->
  forall (qs : tid -> request) sched t a,
  let matches := fun t => qmatches psl cval (qs t) in
  let bucket_of := fun t => map dec (walk hash e (qs t)) in
  qresult net_rule cval (tq net_rule cval alloc matches bucket_of t)
    (hist (th (run elk elk_eq_dec (ecomp net_rule cval) (eout net_rule cval)
                 (init elk (ecomp net_rule cval) (eout net_rule cval) (cold net_rule cval)
                       (tq_progs net_rule cval content cof idx_of alloc matches bucket_of)) sched) t)) = Some a ->
  a = map snd (match_shortcuts hash psl retr e (qs t)).
Proof. exact concurrent_match_shortcuts. Qed.
Print Assumptions C14_concurrent_match_shortcuts.
