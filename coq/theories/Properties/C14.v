(* C14 — Engines can be queried concurrently: race-free and sequentially consistent.   (PARTIAL, see DESIGN.md)
   Only statements here; every proof is [exact <lemma>].
   What is proved: the synchronisation PROTOCOLS of the code (Model/Conc.v) — the RWMutex around the rule cache,
   the mutex around seek-and-read of a list file, the per-rule mutex around lazy compilation, the pool of
   request objects — for every number of goroutines, every per-goroutine strategy and every schedule.
   What is not expressible here: the Go memory model and scheduler; that the code takes the locks where the
   model says is checked dynamically (lock probes at every shared access, race detector, answer comparison). *)
From Coq Require Import List Arith Bool.
From UF Require Import Model.Conc Proofs.C14Proofs.
Import ListNotations.

Section Statements.
Variable rule cval : Type.
Variable content : nat -> nat -> option rule.
Variable compile : nat -> cval.
Variable progs : tid -> list (task elk (ecomp rule cval) (eout rule cval) * list (eout rule cval)) ->
                 option (task elk (ecomp rule cval) (eout rule cval)).
(* goroutines look up, load and prepare at will, and insert into the cache only what they loaded themselves *)
Hypothesis progs_allowed : forall t h tk, consistent elk (ecomp rule cval) (eout rule cval) progs t h ->
  progs t h = Some tk -> allowed rule cval content compile h tk.
Variable c0 : elk -> ecomp rule cval.
Hypothesis c0_good : forall k, EGood rule cval content compile k (c0 k).   (* e.g. cold cache, nothing compiled *)
Variable sched : list tid.                                                  (* ANY schedule *)
Let s := run elk elk_eq_dec (ecomp rule cval) (eout rule cval) (init elk (ecomp rule cval) (eout rule cval) c0 progs) sched.

(* no two goroutines are ever inside conflicting regions of one lock (cache write vs. any cache access; two
   seek-and-read sections of one list; two preparations of one rule) *)
Theorem C14_no_conflict : forall t1 t2 k, t1 <> t2 ->
  in_W elk (ecomp rule cval) (eout rule cval) (tpc (th s t1)) k ->
  ~ in_R elk (ecomp rule cval) (eout rule cval) (tpc (th s t2)) k /\
  ~ in_W elk (ecomp rule cval) (eout rule cval) (tpc (th s t2)) k.
Proof. exact (engines_no_conflict rule cval content compile progs progs_allowed c0 c0_good sched). Qed.

(* sequential consistency, access by access: a load returns what the list holds at ITS index whatever seeks
   other goroutines interleave; a cache lookup returns nothing or the rule of the lists; a preparation returns
   the compilation of that rule's pattern *)
Theorem C14_load : forall t i o, In (T_load rule cval content i, o) (hist (th s t)) ->
  o = [OUnit; ORule (content (fst i) (snd i))].
Proof. exact (load_returns_content rule cval content compile progs progs_allowed c0 c0_good sched). Qed.
Theorem C14_lookup : forall t i o, In (T_lookup rule cval i, o) (hist (th s t)) ->
  o = [OInst i None] \/ exists r x, o = [OInst i (Some (r, x))] /\ content (fst i) (snd i) = Some r.
Proof. exact (lookup_returns_content rule cval content compile progs progs_allowed c0 c0_good sched). Qed.
Theorem C14_insert : forall t i r x o, In (T_insert rule cval i r x, o) (hist (th s t)) ->
  exists r' x', o = [OInst i (Some (r', x'))] /\ content (fst i) (snd i) = Some r'.
Proof. exact (insert_returns_content rule cval content compile progs progs_allowed c0 c0_good sched). Qed.
(* ONE OBJECT PER INDEX: all objects the cache ever hands out for one index, to any goroutine, by lookup or insert,
   are the same object (the lookup tables de-duplicate by identity; the pinned tree violated this: F17) *)
Theorem C14_single_instance : forall t1 t2 tk1 tk2 o1 o2 i v1 v2,
  In (tk1, o1) (hist (th s t1)) -> In (tk2, o2) (hist (th s t2)) ->
  t_lock tk1 = LCache -> t_lock tk2 = LCache ->
  In (OInst i (Some v1)) o1 -> In (OInst i (Some v2)) o2 -> v1 = v2.
Proof. exact (single_instance rule cval content compile progs progs_allowed c0 c0_good sched). Qed.
Theorem C14_prepare : forall t r o, In (T_prepare rule cval compile r, o) (hist (th s t)) -> o = [OVal (compile r)].
Proof. exact (prepare_returns_compile rule cval content compile progs progs_allowed c0 c0_good sched). Qed.
Theorem C14_cache_within_lists : writer s LCache = None -> EGood rule cval content compile LCache (comp s LCache).
Proof. exact (cache_within_lists rule cval content compile progs progs_allowed c0 c0_good sched). Qed.

(* no deadlock: while some goroutine is not finished, some goroutine can take a step *)
Theorem C14_progress : forall t, ~ finished elk (ecomp rule cval) (eout rule cval) (th s t) ->
  exists t', step elk elk_eq_dec (ecomp rule cval) (eout rule cval) s t' <> None.
Proof. exact (engines_progress rule cval content compile progs progs_allowed c0 c0_good sched). Qed.
End Statements.
Print Assumptions C14_no_conflict.
Print Assumptions C14_load.
Print Assumptions C14_lookup.
Print Assumptions C14_insert.
Print Assumptions C14_single_instance.
Print Assumptions C14_prepare.
Print Assumptions C14_cache_within_lists.
Print Assumptions C14_progress.

(* the generic fact behind them: lock-protected regions are atomic, for any lock family, component type,
   component invariant and strategies *)
(* what a goroutine was told stays true: outputs valid for the component a region left behind remain valid for
   every later committed value, provided components only evolve along [Ext] *)
Theorem C14_outputs_stay_valid : forall lk lk_eq_dec C out Good progs,
  (forall t h tk, consistent lk C out progs t h -> hist_ok lk C out Good h -> progs t h = Some tk -> tk_ok lk C out Good tk) ->
  forall (Ext : lk -> C -> C -> Prop) (Valid : task lk C out -> list out -> C -> Prop),
  (forall tk o c c', Valid tk o c -> Ext (t_lock tk) c c' -> Valid tk o c') ->
  (forall t h tk, consistent lk C out progs t h -> hist_ok lk C out Good h -> progs t h = Some tk -> tk_valid lk C out Good Ext Valid tk) ->
  forall c0 sched t tk o, (forall k, Good k (c0 k)) ->
  In (tk, o) (hist (th (run lk lk_eq_dec C out (init lk C out c0 progs) sched) t)) ->
  Valid tk o (committed lk C out (run lk lk_eq_dec C out (init lk C out c0 progs) sched) (t_lock tk)).
Proof. exact outputs_stay_valid. Qed.
Print Assumptions C14_outputs_stay_valid.

Theorem C14_regions_atomic : forall lk lk_eq_dec C out Good progs,
  (forall t h tk, consistent lk C out progs t h -> hist_ok lk C out Good h -> progs t h = Some tk -> tk_ok lk C out Good tk) ->
  forall c0, (forall k, Good k (c0 k)) -> forall sched t tk o,
  In (tk, o) (hist (th (run lk lk_eq_dec C out (init lk C out c0 progs) sched) t)) ->
  exists c, Good (t_lock tk) c /\ o = snd (run_acts C out (t_acts tk) c).
Proof. exact regions_atomic. Qed.
Print Assumptions C14_regions_atomic.

(* the request pool: exclusive ownership between Get and Put, for every schedule and every choice of the pool;
   a query sees exactly its own writes *)
Theorem C14_pool_exclusive : forall F blank js sched t1 t2 o, t1 <> t2 ->
  own F (ppc_of (pth (prun F blank (pinit F blank js) sched) t1)) = Some o ->
  own F (ppc_of (pth (prun F blank (pinit F blank js) sched) t2)) <> Some o.
Proof. exact pool_exclusive. Qed.
Print Assumptions C14_pool_exclusive.
Theorem C14_pool_reads : forall F blank js sched t st j seen,
  In (st, j, seen) (reads (pth (prun F blank (pinit F blank js) sched) t)) -> seen = apply_writes F j st.
Proof. exact pool_reads. Qed.
Print Assumptions C14_pool_reads.

(* non-vacuity: the RetrieveRule + preparePattern strategy satisfies the hypothesis, and a concrete interleaved
   run of three goroutines completes with the sequential answers (ex_runs, by computation) *)
Theorem C14_strategy_allowed : forall t h tk,
  consistent elk (ecomp nat nat) (eout nat nat) ex_progs t h -> ex_progs t h = Some tk ->
  allowed nat nat ex_content ex_compile h tk.
Proof. exact ex_allowed. Qed.
Print Assumptions C14_strategy_allowed.
