(* C07 — Rule priority is a strict weak order; the winner is never outranked.
   Only statements here; every proof is [exact <lemma>]. *)
From Coq Require Import List NArith Permutation.
From UF Require Import Base.Bytes Model.Options Model.NetRule Model.Result Proofs.C07Proofs Proofs.C06Proofs Proofs.C07Winner.

(* The relation is the strict lexicographic order of a key built from the documented criteria
   (verdict class, $redirect, domain-specific over generic, number of modifiers). *)
Theorem C07_key : forall a b, is_higher_priority a b = true <-> lex_lt (key b) (key a).
Proof. exact key_characterises. Qed.
Print Assumptions C07_key.

Theorem C07_irreflexive : forall a, is_higher_priority a a = false.
Proof. exact irreflexive. Qed.
Print Assumptions C07_irreflexive.
Theorem C07_asymmetric : forall a b, is_higher_priority a b = true -> is_higher_priority b a = false.
Proof. exact asymmetric. Qed.
Print Assumptions C07_asymmetric.
Theorem C07_transitive : forall a b c,
  is_higher_priority a b = true -> is_higher_priority b c = true -> is_higher_priority a c = true.
Proof. exact transitive. Qed.
Print Assumptions C07_transitive.
Theorem C07_ties_transitive : forall a b c, tie a b -> tie b c -> tie a c.
Proof. exact tie_transitive. Qed.
Print Assumptions C07_ties_transitive.

(* the rule selected by the scan is a candidate and no candidate outranks it *)
Theorem C07_select_maximal : forall l w, select l = Some w ->
  In w l /\ forall x, In x l -> is_higher_priority x w = false.
Proof. exact select_maximal. Qed.
Print Assumptions C07_select_maximal.
(* ... and it is the same, up to ties, for every ordering of the candidates *)
Theorem C07_select_perm : forall l l' w w', Permutation l l' ->
  select l = Some w -> select l' = Some w' -> key w = key w'.
Proof. exact select_perm. Qed.
Print Assumptions C07_select_perm.

(* the same at the two call sites.  NewMatchingResult: the candidates are the effective, non-special rules that the
   page's $urlblock / $genericblock exceptions leave enabled; the selected rule is one of them, none of them outranks
   it, a disabled rule never hides an enabled one, and the winner has the same key for every ordering of both lists *)
Theorem C07_web_winner_maximal : forall rs src w, mr_basic (new_matching_result rs src) = Some w ->
  In w (candidates rs src) /\ forall x, In x (candidates rs src) -> is_higher_priority x w = false.
Proof. exact web_winner_maximal. Qed.
Print Assumptions C07_web_winner_maximal.
Theorem C07_web_winner_enabled : forall rs src w, mr_basic (new_matching_result rs src) = Some w ->
  In w (eff rs) /\ candidate src w = true.
Proof. exact web_winner_enabled. Qed.
Print Assumptions C07_web_winner_enabled.
Theorem C07_web_winner_exists : forall rs src x, In x (candidates rs src) ->
  exists w, mr_basic (new_matching_result rs src) = Some w.
Proof. exact web_winner_exists. Qed.
Print Assumptions C07_web_winner_exists.
Theorem C07_web_winner_perm : forall rs rs' src src' w w', Permutation rs rs' -> Permutation src src' ->
  mr_basic (new_matching_result rs src) = Some w -> mr_basic (new_matching_result rs' src') = Some w' ->
  key w = key w'.
Proof. exact web_winner_perm. Qed.
Print Assumptions C07_web_winner_perm.
(* GetDNSBasicRule *)
Theorem C07_dns_winner_maximal : forall rs w, get_dns_basic_rule rs = Some w ->
  In w (dns_candidates rs) /\ forall x, In x (dns_candidates rs) -> is_higher_priority x w = false.
Proof. exact dns_winner_maximal. Qed.
Print Assumptions C07_dns_winner_maximal.

(* adding a modifier makes a rule strictly higher than the original *)
Theorem C07_add_option : forall r k, N.testbit_nat (nr_enabled r) k = false ->
  is_higher_priority (set_enabled r (N.lor (nr_enabled r) (Npos (pow2p k)))) r = true.
Proof. exact add_option. Qed.
Print Assumptions C07_add_option.
Theorem C07_add_request_type : forall r k, N.testbit_nat (nr_ptypes r) k = false ->
  is_higher_priority (set_types r (N.lor (nr_ptypes r) (Npos (pow2p k))) (nr_rtypes r)) r = true.
Proof. exact add_request_type. Qed.
Print Assumptions C07_add_request_type.
Theorem C07_add_restricted_type : forall r k, N.testbit_nat (nr_rtypes r) k = false ->
  is_higher_priority (set_types r (nr_ptypes r) (N.lor (nr_rtypes r) (Npos (pow2p k)))) r = true.
Proof. exact add_restricted_type. Qed.
Print Assumptions C07_add_restricted_type.
Theorem C07_add_domain : forall r p q, nr_pdomains r = nil -> nr_rdomains r = nil -> (p <> nil \/ q <> nil) ->
  is_higher_priority (set_domains r p q) r = true.
Proof. exact add_domain. Qed.
Print Assumptions C07_add_domain.
Theorem C07_add_dnstype : forall r p q, nr_pdns r = nil -> nr_rdns r = nil -> (p <> nil \/ q <> nil) ->
  is_higher_priority (set_dnstypes r p q) r = true.
Proof. exact add_dnstype. Qed.
Print Assumptions C07_add_dnstype.
Theorem C07_add_ctag : forall r p q, nr_ptags r = nil -> nr_rtags r = nil -> (p <> nil \/ q <> nil) ->
  is_higher_priority (set_tags r p q) r = true.
Proof. exact add_ctag. Qed.
Print Assumptions C07_add_ctag.
Theorem C07_add_client : forall r p q, clients_len (nr_pclients r) = 0 -> clients_len (nr_rclients r) = 0 ->
  (clients_len p <> 0 \/ clients_len q <> 0) -> is_higher_priority (set_clients r p q) r = true.
Proof. exact add_client. Qed.
Print Assumptions C07_add_client.
Theorem C07_add_denyallow : forall r d, nr_denyallow r = nil -> d <> nil ->
  is_higher_priority (set_denyallow r d) r = true.
Proof. exact add_denyallow. Qed.
Print Assumptions C07_add_denyallow.
