(* C03 — Compiled basic patterns accept exactly the documented mask language.
   Only statements here; every proof is [exact <lemma>]. *)
From Coq Require Import List Bool.
From UF Require Import Base.Lit Base.Bytes Model.Regex Model.Mask Proofs.MaskTextProofs Proofs.MatcherProofs
  Proofs.ParseProofs Proofs.MaskSemProofs.
Import ListNotations.

(* text: for EVERY byte string p that is not one of the four trivial patterns and not a /regex/,
   patternToRegexp yields exactly the concatenation of the per-token pieces (every literal escaped;
   in particular it does not panic) *)
Theorem C03_text : forall p, is_early p = false -> is_regex_pat p = false ->
  pattern_to_regexp p = Ok (emit (tokenize p)).
Proof. exact C03_text. Qed.
Print Assumptions C03_text.

(* parse: that text is read by the RE2 model as the concatenation of the per-token expressions —
   no character of a pattern is ever interpreted as a regular-expression operator *)
Theorem C03_parse : forall toks, forallb lit_ok toks = true ->
  parse_re (emit toks) = Ok (RCat (flat_map re_of toks)).
Proof. exact parse_emit. Qed.
Print Assumptions C03_parse.

(* the backtracking matcher is correct for the relational semantics of regular expressions *)
Theorem C03_matcher : forall ci r s, search ci r s = true <->
  exists pre mid post, s = pre ++ mid ++ post /\ M ci r (adv None pre) mid post.
Proof. exact search_spec. Qed.
Print Assumptions C03_matcher.

(* main: compiled(p) accepts u  <=>  u contains a substring accepted by the token sequence of p under
   the documented mask semantics (|| = start of address, | = anchors, * = any string, ^ = one
   separator or the end, every other character a literal compared case-insensitively unless
   match-case) — for ALL patterns and ALL subjects *)
Theorem C03_mask_language : forall p mc u, is_early p = false -> is_regex_pat p = false ->
  match prepare_pattern p mc with
  | Ok PAny => True
  | Ok (PRe _ cr) =>
      match_string cr u = true <->
      exists pre mid post, u = pre ++ mid ++ post /\
        toks_accept (negb mc) (tokenize p) (adv None pre) mid post
  | _ => False
  end.
Proof. exact mask_language. Qed.
Print Assumptions C03_mask_language.

(* no accepted pattern makes matching crash or yields an invalid expression *)
Theorem C03_always_compiles : forall p mc, is_early p = false -> is_regex_pat p = false ->
  exists pp, prepare_pattern p mc = Ok pp /\ pp <> PInvalid.
Proof. exact mask_always_compiles. Qed.
Print Assumptions C03_always_compiles.
