(* C18 — Hosts-file lines yield exactly the listed names with the given address.
   Only statements here; every proof is [exact <lemma>]. *)
From Coq Require Import List ZArith.
From UF Require Import Base.Lit Base.Bytes Model.Netip Model.Domain Model.Rule Proofs.C18Proofs.
Import ListNotations.

(* For every line  address (sp|tab)+ name ((sp|tab)+ name)* [blanks] [# anything]  with a parsable
   address: the rule has exactly the listed names, in order, and that address *)
Theorem C18_hosts_line : forall a ip pairs trail c id,
  token a -> parse_addr a = Ok ip -> pairs <> [] -> Forall sep_name pairs -> blanks trail -> comment c ->
  new_host_rule (a ++ flat pairs ++ trail ++ c) id =
  Ok {| hr_text := a ++ flat pairs ++ trail ++ c; hr_list := id; hr_ip := ip; hr_names := map snd pairs |}.
Proof. exact hosts_line. Qed.
Print Assumptions C18_hosts_line.

(* a bare domain name yields that name with the unspecified IPv4 address *)
Theorem C18_bare_domain : forall n trail c id,
  token n -> is_domain_name n = true -> blanks trail -> comment c ->
  new_host_rule (n ++ trail ++ c) id =
  Ok {| hr_text := n ++ trail ++ c; hr_list := id; hr_ip := A4 0; hr_names := [n] |}.
Proof. exact bare_domain. Qed.
Print Assumptions C18_bare_domain.

(* text after the comment sign never changes the names *)
Theorem C18_comment_irrelevant : forall a ip pairs trail c c' id,
  token a -> parse_addr a = Ok ip -> pairs <> [] -> Forall sep_name pairs -> blanks trail -> comment c -> comment c' ->
  option_map hr_names (match new_host_rule (a ++ flat pairs ++ trail ++ c) id with Ok h => Some h | _ => None end) =
  option_map hr_names (match new_host_rule (a ++ flat pairs ++ trail ++ c') id with Ok h => Some h | _ => None end).
Proof. exact comment_irrelevant. Qed.
Print Assumptions C18_comment_irrelevant.

(* a host rule matches a queried name iff it is one of its names *)
Theorem C18_match_iff : forall h x, host_match h x = true <-> In x (hr_names h).
Proof. exact host_match_iff. Qed.
Print Assumptions C18_match_iff.

(* NewRule takes the host-rule path for every trimmed line that is neither a comment nor
   element-hiding syntax (the boolean guard of the property's grammar) *)
Theorem C18_new_rule : forall line l h id,
  go_trim_space line = Ok l -> l <> [] -> is_comment l = false -> is_cosmetic l = false ->
  new_host_rule l id = Ok h -> new_rule line id = Ok (Some (RHost h)).
Proof. exact new_rule_hosts_line. Qed.
Print Assumptions C18_new_rule.
