(* C13 — Query results are a pure function of the lists and the request.
   Only statements here; every proof is [exact <lemma>].
   The engines are modelled as state transformers (Model/Session.v) over the hidden state of the code:
   the storage cache, the lazily compiled pattern / invalid flag of every rule object, the pool of
   request objects.  The theorems say that this state is invisible. *)
From Coq Require Import List NArith ZArith Bool.
From Coq Require Import Strings.Byte.
From UF Require Import Base.Lit Base.Bytes Model.Netip Model.NetRule Model.Rule Model.Request Model.Match
  Model.Engines Model.Session Model.SliceHeap Proofs.SessionProofs Proofs.SliceHeapProofs.
Import ListNotations.

(* For every hash function, PSL function, storage content, pair of engines sharing the storage, and EVERY
   history of network and DNS queries (any length, repeats, alternating kinds and client fields) on readable
   lists: the list of answers is the list of pure answers, one per query — each answer is a function of the
   lists and its own request alone. *)
Theorem C13_history_independent : forall hash psl backing ne de ops,
  Forall (fun o => o <> OpClose) ops ->
  snd (run hash psl backing ne de ops ss_init) = map (pure_answer hash psl ne de backing) ops.
Proof. exact history_independent. Qed.
Print Assumptions C13_history_independent.

(* the answer to a request after any history equals its answer on a fresh engine *)
Theorem C13_same_as_fresh : forall hash psl backing ne de h o,
  Forall (fun o => o <> OpClose) h -> o <> OpClose ->
  last (snd (run hash psl backing ne de (h ++ [o]) ss_init)) ANone =
  last (snd (run hash psl backing ne de [o] ss_init)) ANone.
Proof. exact same_as_fresh. Qed.
Print Assumptions C13_same_as_fresh.

(* no per-request data leaks through the pool: whatever the recycled request object held (client name, IP,
   tags, record type, source fields of an earlier query), after getRequestFromPool it is the request a fresh
   object would be *)
Theorem C13_pool_no_leak : forall psl stale hostname client_name client_ip tags dnstype,
  fill_from_pool psl stale hostname client_name client_ip tags dnstype =
  new_hostname_request psl hostname client_name client_ip tags dnstype.
Proof. exact fill_from_pool_pure. Qed.
Print Assumptions C13_pool_no_leak.

(* [Pure V m v]: from every state satisfying the invariant (cache within the lists, stored compilation results
   correct) with storage view V, the state transformer m returns the value v, re-establishes the invariant
   and the same view, and only lets the cache grow. *)

(* a lazily compiled pattern found in a rule object is the one a fresh compilation gives: matching through
   the object's stored state equals the stateless Match *)
Theorem C13_lazy_compile_invisible : forall psl backing ne de V o f r,
  holds backing ne de o f -> Pure backing ne de V (rule_match_st psl o f r) (rule_match psl f r).
Proof. exact pure_rule_match. Qed.
Print Assumptions C13_lazy_compile_invisible.

(* the cache never changes what an index retrieves *)
Theorem C13_cache_invisible : forall backing ne de V idx, Pure backing ne de V (retrieve backing idx) (V idx).
Proof. exact pure_retrieve. Qed.
Print Assumptions C13_cache_invisible.

(* whole queries *)
Theorem C13_match_all_pure : forall hash psl backing ne de V,
  (forall idx r, V idx = Some r -> backing idx = Some r) -> forall tag e q,
  (forall n f, nth_error (ne_seq e) n = Some f -> holds backing ne de (OSeq tag n) f) ->
  Pure backing ne de V (match_all_st hash psl backing tag e q) (match_all hash psl (vnet V) e q).
Proof. exact pure_match_all. Qed.
Print Assumptions C13_match_all_pure.
Theorem C13_dns_match_pure : forall hash psl backing ne de V,
  (forall idx r, V idx = Some r -> backing idx = Some r) -> forall hostname cn ip tags t,
  Pure backing ne de V (dns_match_st hash psl backing de hostname cn ip tags t)
       (dns_match hash psl (vnet V) (vhost V) de hostname (new_hostname_request psl hostname cn ip tags t)).
Proof. exact pure_dns_match. Qed.
Print Assumptions C13_dns_match_pure.
(* ... for every kind of query, the web engine included (Engine.MatchRequest: the request and its referrer, each looked
   up through the shared storage; the answer is the verdict record of Model/Engines.v engine_match_request) *)
Theorem C13_step_pure : forall hash psl backing ne de V,
  (forall idx r, V idx = Some r -> backing idx = Some r) -> forall o, o <> OpClose ->
  Pure backing ne de V (step hash psl backing ne de o) (pure_answer hash psl ne de V o).
Proof. exact pure_step. Qed.
Print Assumptions C13_step_pure.
Theorem C13_web_answer : forall hash psl ne de V q,
  pure_answer hash psl ne de V (QWeb q) = AWeb (engine_match_request hash psl (vnet V) ne q).
Proof. reflexivity. Qed.
Print Assumptions C13_web_answer.

(* "evaluating derived results alters neither the engine nor previously returned results" — the aliasing clause,
   on a model of Go slices (backing arrays, offset, length, capacity, append with ANY growth policy):
   removeDNSRewriteRules returns the filtered contents and writes into NO array that existed before the call,
   whatever spare capacity or sharing the caller's slice has (the capacity-limited reslice rules[:i:i] forces
   the first append to reallocate) *)
Theorem C13_alias_remove_dnsrewrite : forall V zero extra isrw h s, wf V h s ->
  let r := remove_rw V zero extra isrw h s in
  SliceHeap.contents V (fst r) (snd r) = filter (fun v => negb (isrw v)) (SliceHeap.contents V h s) /\
  frame V (length h) h (fst r).
Proof. exact remove_rw_spec. Qed.
Print Assumptions C13_alias_remove_dnsrewrite.
(* DNSRewritesAll / the split of DNSRewrites: selecting into a nil slice builds fresh arrays only *)
Theorem C13_alias_fresh_selection : forall V zero extra p h s,
  let r := select_fresh V zero extra p h s in
  SliceHeap.contents V (fst r) (snd r) = filter p (SliceHeap.contents V h s) /\ frame V (length h) h (fst r).
Proof. exact select_fresh_spec. Qed.
Print Assumptions C13_alias_fresh_selection.
(* (the limit matters: Example nolimit_overwrites_caller in SliceHeapProofs.v shows rules[:i] overwriting the caller) *)
