(* C19 — Unreadable rule lists degrade results to a subset, never crash or lie.
   Only statements here; every proof is [exact <lemma>].
   Faults are modelled in Model/Session.v: after [OpClose] (RuleStorage.Close, or the file handle replaced by a
   closed descriptor) every read of a list fails; only the cache still answers.  The engine functions are
   total (a failed retrieval is the value None, which every table skips), so "no crash" is structural in the
   model and checked on the implementation by the harness under recover(). *)
From Coq Require Import List NArith ZArith Bool.
From Coq Require Import Strings.Byte.
From UF Require Import Base.Lit Base.Bytes Model.Netip Model.NetRule Model.Rule Model.Request Model.Match
  Model.Engines Model.Session Proofs.C01Proofs Proofs.SessionProofs Proofs.DnsDegraded.
Import ListNotations.

(* For every history h1 of queries, a fault at its end, and every continuation h2 (queries, further closes):
   the answers after the fault are the pure answers over the cached sub-storage, whose entries are entries
   of the lists *)
Theorem C19_after_fault : forall hash psl backing ne de h1 h2,
  Forall (fun o => o <> OpClose) h1 ->
  let s1 := fst (run hash psl backing ne de h1 ss_init) in
  (forall idx r, cached_view s1 idx = Some r -> backing idx = Some r) /\
  snd (run hash psl backing ne de h2 (fst (close_storage s1))) = map (pure_answer hash psl ne de (cached_view s1)) h2.
Proof. exact after_close. Qed.
Print Assumptions C19_after_fault.

(* any sub-storage answers with a subset of the fault-free answer, and every rule it returns truly matches *)
Theorem C19_subset_and_truthful : forall hash psl backing ne V q,
  (forall idx r, V idx = Some r -> backing idx = Some r) ->
  incl (match_all hash psl (vnet V) ne q) (match_all hash psl (vnet backing) ne q) /\
  forall f, In f (match_all hash psl (vnet V) ne q) -> rmatch psl f q = true.
Proof. exact degraded_subset. Qed.
Print Assumptions C19_subset_and_truthful.
(* ... for any engine value and any storage behaviour at all *)
Theorem C19_never_lies : forall hash psl retr e q f, In f (match_all hash psl retr e q) -> rmatch psl f q = true.
Proof. exact match_all_true. Qed.
Print Assumptions C19_never_lies.
Theorem C19_monotone : forall hash psl r1 r2 e q, (forall idx f, r1 idx = Some f -> r2 idx = Some f) ->
  incl (match_all hash psl r1 e q) (match_all hash psl r2 e q).
Proof. exact match_all_mono. Qed.
Print Assumptions C19_monotone.

(* rules materialised before the fault continue to be served *)
Theorem C19_still_served : forall hash psl rules V q f idx,
  V idx = Some (RNet f) -> pdomains_ok f -> text_coherent psl rules q ->
  In (f, idx) rules -> rmatch psl f q = true ->
  exists f', In f' (match_all hash psl (vnet V) (build_net hash rules) q) /\ nr_text f' = nr_text f /\
             (rule_shortcuts f <> [] \/ (nr_pdomains f <> [] /\ no_wild f = true) -> f' = f).
Proof. exact still_served. Qed.
Print Assumptions C19_still_served.
(* ... and what is cached stays cached through every later query *)
Theorem C19_cache_monotone : forall hash psl backing ne de V ops s,
  (forall idx r, V idx = Some r -> backing idx = Some r) -> St backing ne de V s ->
  Forall (fun o => o <> OpClose) ops ->
  forall idx r, cached_view s idx = Some r -> cached_view (fst (run hash psl backing ne de ops s)) idx = Some r.
Proof. exact cache_monotone. Qed.
Print Assumptions C19_cache_monotone.

(* "rules retrieved before the fault are still returned", made precise for the shortcut table:
   a successful retrieval leaves the rule in the cache ... *)
Theorem C19_retrieval_materialises : forall backing idx s r,
  snd (retrieve backing idx s) = Some r -> cached (fst (retrieve backing idx s)) idx r.
Proof. exact retrieve_caches. Qed.
Print Assumptions C19_retrieval_materialises.
(* ... so every (index, rule) the shortcut table returns is cached afterwards ... *)
Theorem C19_returned_is_materialised : forall hash psl backing ne de V,
  (forall idx r, V idx = Some r -> backing idx = Some r) -> forall e q s, St backing ne de V s ->
  AllC backing ne de V (ne_shortcuts e) (fst (match_shortcuts_st hash psl backing e q s))
       (snd (match_shortcuts_st hash psl backing e q s)).
Proof. exact shortcuts_materialised. Qed.
Print Assumptions C19_returned_is_materialised.
(* ... and the whole chain: returned on readable lists => after any further queries and the fault, every query
   the rule matches still reports its text *)
Theorem C19_served_before_served_after : forall hash psl backing ne de rules q1 q2 ops s idx f,
  (forall f0 i, In (f0, i) rules -> backing i = Some (RNet f0)) -> parsed rules ->
  St backing ne de backing s -> Forall (fun o => o <> OpClose) ops ->
  In (idx, f) (snd (match_shortcuts_st hash psl backing (build_net hash rules) q1 s)) ->
  rmatch psl f q2 = true ->
  let s1 := fst (match_shortcuts_st hash psl backing (build_net hash rules) q1 s) in
  let s2 := fst (run hash psl backing ne de ops s1) in
  exists f', In f' (match_all hash psl (vnet (cached_view s2)) (build_net hash rules) q2) /\ nr_text f' = nr_text f.
Proof. exact served_before_served_after. Qed.
Print Assumptions C19_served_before_served_after.

(* ================= the DNS engine ================= *)
(* whatever retrieval hands out: every reported hosts-file rule names the hostname and is what retrieval handed out for an
   index filed under it (it never "lies"); reported network rules are covered by C19_never_lies / C19_monotone, the DNS
   engine's network rules being [match_all] of its own network engine *)
Theorem C19_dns_hosts_truthful : forall hash psl rules retr retr_host hostname q h,
  let res := fst (dns_match hash psl retr retr_host (build_dns hash rules) hostname q) in
  In h (dr_v4 res ++ dr_v6 res) ->
  host_match h hostname = true /\
  exists idx, In idx (bucket (de_hosts (build_dns hash rules)) (hash hostname)) /\ retr_host idx = Some h.
Proof. exact dns_hosts_truthful. Qed.
Print Assumptions C19_dns_hosts_truthful.
(* a hosts-file rule that retrieval still hands out and that names the hostname is still reported when no network rule
   decides the answer, whatever else has become unreadable (other rules of the same bucket included) *)
Theorem C19_dns_hosts_still_served : forall hash psl rules retr retr_host hostname q h idx,
  In (RHost h, idx) rules -> retr_host idx = Some h -> host_match h hostname = true -> hostname <> [] ->
  let r := dns_match hash psl retr retr_host (build_dns hash rules) hostname q in
  dr_network_rule (fst r) = None ->
  In h (if is4 (hr_ip h) then dr_v4 (fst r) else dr_v6 (fst r)) /\ snd r = true.
Proof. exact dns_hosts_still_served. Qed.
Print Assumptions C19_dns_hosts_still_served.
(* every hosts-file rule a DNS query reports is cached afterwards, under an index of the hostname's bucket *)
Theorem C19_dns_reported_is_materialised : forall hash psl backing ne de V,
  (forall idx r, V idx = Some r -> backing idx = Some r) -> forall hostname cn ip tags t s s' res,
  St backing ne de V s -> dns_match_st hash psl backing de hostname cn ip tags t s = (s', res) ->
  forall h, In h (dr_v4 (fst res) ++ dr_v6 (fst res)) ->
  exists idx, In idx (bucket (de_hosts de) (hash hostname)) /\ cached s' idx (RHost h).
Proof. exact hosts_materialised. Qed.
Print Assumptions C19_dns_reported_is_materialised.
(* the chain for hosts-file rules: reported by a DNS query on readable lists => after any further fault-free queries and
   the fault, every DNS query for a name of the rule that no network rule decides still reports it *)
Theorem C19_host_served_before_served_after : forall hash psl backing ne rules,
  (forall r i, In (r, i) rules -> backing i = Some r) ->
  forall n1 cn ip tags t s s1 res h ops n2 q2,
  St backing ne (build_dns hash rules) backing s ->
  dns_match_st hash psl backing (build_dns hash rules) n1 cn ip tags t s = (s1, res) ->
  In h (dr_v4 (fst res) ++ dr_v6 (fst res)) ->
  Forall (fun o => o <> OpClose) ops ->
  let s2 := fst (run hash psl backing ne (build_dns hash rules) ops s1) in
  let r2 := dns_match hash psl (vnet (cached_view s2)) (vhost (cached_view s2)) (build_dns hash rules) n2 q2 in
  host_match h n2 = true -> n2 <> [] -> dr_network_rule (fst r2) = None ->
  In h (if is4 (hr_ip h) then dr_v4 (fst r2) else dr_v6 (fst r2)) /\ snd r2 = true.
Proof. exact host_served_before_served_after. Qed.
Print Assumptions C19_host_served_before_served_after.
