(* C09 — Effective DNS rewrites apply every matching exception, in any order.
   Only statements here; every proof is [exact <lemma>]. *)
From Coq Require Import List NArith Permutation.
From UF Require Import Base.Bytes Model.DnsTables Model.DNSRewrite Model.NetRule Model.Result Proofs.C09Proofs.
Import ListNotations.

(* DNSRewrites() is exactly the order-preserving filter: non-exception rewrite rules not disabled by
   any exception of the list — for all rule lists, with any number and placement of exceptions *)
Theorem C09_spec : forall rs, dns_rewrites rs = spec_rewrites (dns_rewrites_all rs).
Proof. exact dns_rewrites_spec. Qed.
Print Assumptions C09_spec.

Theorem C09_survivor_iff : forall rs r, In r (dns_rewrites rs) <->
  In r (dns_rewrites_all rs) /\ nr_whitelist r = false /\
  forall exc, In exc (dns_rewrites_all rs) -> nr_whitelist exc = true -> disables exc r = false.
Proof. exact survivor_iff. Qed.
Print Assumptions C09_survivor_iff.

(* the meaning of "disables": empty value = all non-important (all if the exception is important);
   otherwise same new CNAME, or same response code and, for success, same record type and value *)
Theorem C09_disables_meaning : forall exc nr e n, nr_dnsrewrite exc = Some e -> nr_dnsrewrite nr = Some n ->
  disables exc nr = true <->
  (is_imp exc = true \/ is_imp nr = false) /\
  (e = dr_empty \/
   (e <> dr_empty /\
    ((dr_cname e <> [] /\ dr_cname n = dr_cname e) \/
     (dr_cname e = [] /\ dr_rcode n = dr_rcode e /\
      (dr_rcode e <> RcodeSuccess \/ (dr_rrtype n = dr_rrtype e /\ dr_value n = dr_value e)))))).
Proof. exact disables_meaning. Qed.
Print Assumptions C09_disables_meaning.

Theorem C09_important_protected : forall exc nr, is_imp exc = false -> is_imp nr = true -> disables exc nr = false.
Proof. exact important_protected. Qed.
Print Assumptions C09_important_protected.
Theorem C09_exceptions_never_returned : forall rs r, In r (dns_rewrites rs) -> nr_whitelist r = false.
Proof. exact exceptions_never_returned. Qed.
Print Assumptions C09_exceptions_never_returned.
Theorem C09_order_preserved : forall rs, exists keep, dns_rewrites rs = filter keep (dns_rewrites_all rs).
Proof. exact order_preserved. Qed.
Print Assumptions C09_order_preserved.
(* moving the exceptions anywhere (keeping the rewrites' order) does not change the outcome *)
Theorem C09_exception_positions_irrelevant : forall all all',
  filter (fun r => negb (nr_whitelist r)) all = filter (fun r => negb (nr_whitelist r)) all' ->
  Permutation (filter nr_whitelist all) (filter nr_whitelist all') ->
  rewrites_of_all all = rewrites_of_all all'.
Proof. exact exception_positions_irrelevant. Qed.
Print Assumptions C09_exception_positions_irrelevant.
Theorem C09_no_exceptions : forall all, (forall r, In r all -> nr_whitelist r = false) -> rewrites_of_all all = all.
Proof. exact no_exceptions. Qed.
Print Assumptions C09_no_exceptions.
