(* C11 — Every scanned rule can be retrieved by its index from any backing store.
   Only statements here; every proof is [exact <lemma>]. *)
From Coq Require Import List ZArith.
From UF Require Import Base.Bytes Model.Rule Model.Storage Proofs.C11Proofs Proofs.EndToEnd.
Import ListNotations.

(* index packing: Go's shift/or/mask with int32/int64 conversions round-trips and does not overflow for
   every int32 list id (negative ones included) and every offset below 2^31; it is injective *)
Theorem C11_pack : forall id off, int32_range id -> (0 <= off < two31)%Z ->
  unpack (pack id off) = (id, off) /\ (- two63 <= pack id off < two63)%Z.
Proof. exact pack_unpack. Qed.
Print Assumptions C11_pack.
Theorem C11_pack_injective : forall id1 off1 id2 off2,
  int32_range id1 -> (0 <= off1 < two31)%Z -> int32_range id2 -> (0 <= off2 < two31)%Z ->
  pack id1 off1 = pack id2 off2 -> id1 = id2 /\ off1 = off2.
Proof. exact pack_injective. Qed.
Print Assumptions C11_pack_injective.

(* the scanned sequence is the line-by-line parse: the lines partition the content, each reported
   offset is the number of bytes before its line, and a line is a body closed by LF or the final tail *)
Theorem C11_lines_partition : forall content, concat (map snd (lines_with_offsets content)) = content.
Proof. exact lines_partition. Qed.
Print Assumptions C11_lines_partition.
Theorem C11_line_offsets : forall content o l, In (o, l) (lines_with_offsets content) ->
  exists pre post, content = pre ++ l ++ post /\ o = length pre /\ line_shape l post.
Proof. exact lines_spec. Qed.
Print Assumptions C11_line_offsets.

(* reading a line from a file returns the text up to the next LF for EVERY sequence of read sizes *)
Theorem C11_read_line : forall fuel rest chunks acc, length rest < fuel ->
  read_line fuel rest chunks acc = acc ++ take_until_lf rest.
Proof. exact read_line_spec. Qed.
Print Assumptions C11_read_line.

(* every rule a scanner yields is retrieved again through the offset reported with it, from the
   in-memory list and from the file (any chunking): same rule, hence same kind, text and list id *)
Theorem C11_retrieve : forall l out r o, scan_list l = Ok out -> In (r, o) out ->
  retrieve_string l (Z.of_nat o) = Ok (Some r) /\
  forall chunks, retrieve_file l (Z.of_nat o) chunks = Ok (Some r).
Proof. exact scanned_retrievable. Qed.
Print Assumptions C11_retrieve.

(* an in-memory list and a file-backed list with the same content are indistinguishable to retrieval *)
Theorem C11_string_file_same : forall l off chunks, (0 <= off < Z.of_nat (length (rl_content l)))%Z ->
  retrieve_file l off chunks = retrieve_string l off.
Proof. exact string_file_same. Qed.
Print Assumptions C11_string_file_same.

(* the storage as a whole: with distinct 32-bit list ids and lists shorter than 2 GiB, every rule the storage
   scanner yields is retrieved again through the storage index reported with it; the index identifies the rule *)
Theorem C11_storage_retrieve : forall s out r idx, storage_ok s -> storage_scan s = Ok out -> In (r, idx) out ->
  storage_retrieve s idx = Ok (Some r).
Proof. exact storage_retrieve_scanned. Qed.
Print Assumptions C11_storage_retrieve.
Theorem C11_index_identifies_rule : forall s out r1 r2 idx, storage_ok s -> storage_scan s = Ok out ->
  In (r1, idx) out -> In (r2, idx) out -> r1 = r2.
Proof. exact storage_index_injective. Qed.
Print Assumptions C11_index_identifies_rule.
