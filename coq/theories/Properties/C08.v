(* C08 — $badfilter disables exactly its twin rules, however many are present.
   Only statements here; every proof is [exact <lemma>]. *)
From Coq Require Import List.
From UF Require Import Base.Bytes Model.NetRule Model.Result Proofs.C08Proofs.
Import ListNotations.

(* the code's field-by-field test is exactly "b carries $badfilter and is the twin of r" *)
Theorem C08_negates : forall b r, negates_badfilter b r = true <-> is_bad b = true /\ twin b r.
Proof. exact negates_iff. Qed.
Print Assumptions C08_negates.

(* the effective rules, for ANY number of badfilter rules: order kept, a rule survives iff it is not
   a badfilter rule and no badfilter rule of the list is its twin *)
Theorem C08_filter : forall l, remove_badfilter l = spec_effective l.
Proof. exact remove_badfilter_spec. Qed.
Print Assumptions C08_filter.
Theorem C08_effective_iff : forall l r, In r (remove_badfilter l) <->
  In r l /\ is_bad r = false /\ forall b, In b l -> is_bad b = true -> ~ twin b r.
Proof. exact effective_iff. Qed.
Print Assumptions C08_effective_iff.
Theorem C08_badfilter_never_result : forall l r, In r (remove_badfilter l) -> is_bad r = false.
Proof. exact no_badfilter_in_result. Qed.
Print Assumptions C08_badfilter_never_result.

(* adding any number of rules together with their badfilter twins, anywhere in the list, leaves the
   effective rules — and hence every verdict — unchanged *)
Theorem C08_add : forall M, extras_ok M -> remove_badfilter (full M) = remove_badfilter (base M).
Proof. exact add_twins_unchanged. Qed.
Print Assumptions C08_add.
Theorem C08_add_web : forall M src, extras_ok M ->
  new_matching_result (full M) src = new_matching_result (base M) src.
Proof. exact add_twins_web. Qed.
Print Assumptions C08_add_web.
Theorem C08_add_source : forall rs M, extras_ok M ->
  new_matching_result rs (full M) = new_matching_result rs (base M).
Proof. exact add_twins_source. Qed.
Print Assumptions C08_add_source.
Theorem C08_add_dns : forall M, extras_ok M -> get_dns_basic_rule (full M) = get_dns_basic_rule (base M).
Proof. exact add_twins_dns. Qed.
Print Assumptions C08_add_dns.
Theorem C08_add_rewrites : forall M, extras_ok M -> dns_rewrites (full M) = dns_rewrites (base M).
Proof. exact add_twins_rewrites. Qed.
Print Assumptions C08_add_rewrites.

(* a rule differing from x in at least one value stays effective next to x$badfilter *)
Theorem C08_other : forall L y bx, In y L -> is_bad y = false -> ~ twin bx y ->
  (forall b, In b L -> is_bad b = true -> ~ twin b y) -> In y (remove_badfilter (L ++ [bx])).
Proof. exact other_rule_unaffected. Qed.
Print Assumptions C08_other.
