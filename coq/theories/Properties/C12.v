(* C12 — Parsing and matching never crash; comments and rejected lines are inert.
   Only statements here; every proof is [exact <lemma>].
   PARTIAL: "crash" in the model is the index/slice class of Go panics (checked slice expressions);
   other panic classes are outside what the model can express (see DESIGN.md 8/C12). *)
From Coq Require Import List ZArith.
From Coq Require Import Strings.Byte.
From UF Require Import Base.Lit Base.Bytes Model.NetRule Model.Mask Model.Request Model.Match Model.Rule Proofs.C12Proofs.
Import ListNotations.

(* parsing any byte string as a line never crashes *)
Theorem C12_parse_no_crash : forall line id, new_rule line id <> Crash.
Proof. exact new_rule_no_crash. Qed.
Print Assumptions C12_parse_no_crash.
(* matching any request against any rule (not only parsed ones) never crashes, for every PSL *)
Theorem C12_match_no_crash : forall psl f r, rule_match psl f r <> Crash.
Proof. exact rule_match_no_crash. Qed.
Print Assumptions C12_match_no_crash.
Theorem C12_pattern_no_crash : forall p, pattern_to_regexp p <> Crash.
Proof. exact pattern_to_regexp_no_crash. Qed.
Print Assumptions C12_pattern_no_crash.

(* a line yields nothing, an error, or a rule whose text is the trimmed line and whose list id is the given one *)
Theorem C12_text : forall line id r, new_rule line id = Ok (Some r) ->
  exists l, go_trim_space line = Ok l /\ rule_text r = l /\ rule_list r = id.
Proof. exact new_rule_text. Qed.
Print Assumptions C12_text.

(* blank, comment and rejected lines are inert, and inserting inert lines anywhere changes nothing *)
Theorem C12_blank_inert : forall id line, trim_space line = [] -> inert id line.
Proof. exact blank_inert. Qed.
Print Assumptions C12_blank_inert.
Theorem C12_comment_inert : forall id line l, go_trim_space line = Ok l -> is_comment l = true -> inert id line.
Proof. exact comment_inert. Qed.
Print Assumptions C12_comment_inert.
Theorem C12_rejected_inert : forall id line, new_rule line id = Err -> inert id line.
Proof. exact rejected_inert. Qed.
Print Assumptions C12_rejected_inert.
Theorem C12_noise : forall id (M : list (bytes * bool)),
  (forall n, In (n, true) M -> inert id n) ->
  rules_of id (map fst M) = rules_of id (map fst (filter (fun x => negb (snd x)) M)).
Proof. exact noise_is_inert. Qed.
Print Assumptions C12_noise.

(* switching line endings does not change what a line yields *)
Theorem C12_crlf : forall id l, yields id (l ++ [x0d; x0a]) = yields id (l ++ [x0a]).
Proof. exact crlf_same. Qed.
Print Assumptions C12_crlf.
Theorem C12_final_newline : forall id l, yields id (l ++ [x0a]) = yields id l.
Proof. exact newline_same. Qed.
Print Assumptions C12_final_newline.
