(* C16 — Exception modifiers only ever switch cosmetic options off.
   Only statements here; every proof is [exact <lemma>]. *)
From Coq Require Import NArith.
From UF Require Import Model.Options Proofs.C16Proofs.
Local Open Scope N_scope.

(* For EVERY option word (all 2^9 modifier subsets and every other word): the option of an
   exception verdict is All minus the union of what its modifiers disable. *)
Theorem C16_exact : forall en,
  get_cosmetic_option (Some (true, en)) = N.ldiff CosAll (disabled_by en).
Proof. exact exact. Qed.
Print Assumptions C16_exact.

(* combining modifiers disables the union of what each disables *)
Theorem C16_union : forall a b, disabled_by (N.lor a b) = N.lor (disabled_by a) (disabled_by b).
Proof. exact disabled_union. Qed.
Print Assumptions C16_union.

(* no exception verdict / no verdict: everything is enabled *)
Theorem C16_non_exception : forall en, get_cosmetic_option (Some (false, en)) = CosAll.
Proof. exact non_exception. Qed.
Print Assumptions C16_non_exception.
Theorem C16_absent : get_cosmetic_option None = CosAll.
Proof. exact absent. Qed.
Print Assumptions C16_absent.

(* no verdict ever enables an option outside All *)
Theorem C16_never_enables : forall b, subset (get_cosmetic_option b) CosAll.
Proof. exact never_enables. Qed.
Print Assumptions C16_never_enables.

(* monotone: adding modifiers can only shrink the option *)
Theorem C16_monotone : forall en en', subset en en' ->
  subset (get_cosmetic_option (Some (true, en'))) (get_cosmetic_option (Some (true, en))).
Proof. exact monotone. Qed.
Print Assumptions C16_monotone.

(* text level: each of the 2^9 modifier subsets (bound stated in the theorem), written on an
   exception rule and parsed by the model's NewNetworkRule, yields All minus the union of what
   the named modifiers disable *)
Theorem C16_text_subsets : forall mask, (mask < 512)%nat -> subset_ok mask = true.
Proof. exact subsets_text_level. Qed.
Print Assumptions C16_text_subsets.
