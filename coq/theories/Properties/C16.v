(* C16 — Exception modifiers only ever switch cosmetic options off.
   Only statements here; every proof is [exact <lemma>]. *)
From Coq Require Import NArith.
From Coq Require Import List.
From UF Require Import Model.Options Model.NetRule Model.Result Proofs.C06Proofs Proofs.C16Proofs Proofs.C16Result.
Local Open Scope N_scope.

(* For EVERY option word (all 2^9 modifier subsets and every other word): the option of an
   exception verdict is All minus the union of what its modifiers disable. *)
Theorem C16_exact : forall en,
  get_cosmetic_option (Some (true, en)) = N.ldiff CosAll (disabled_by en).
Proof. exact exact. Qed.
Print Assumptions C16_exact.

(* combining modifiers disables the union of what each disables *)
Theorem C16_union : forall a b, disabled_by (N.lor a b) = N.lor (disabled_by a) (disabled_by b).
Proof. exact disabled_union. Qed.
Print Assumptions C16_union.

(* no exception verdict / no verdict: everything is enabled *)
Theorem C16_non_exception : forall en, get_cosmetic_option (Some (false, en)) = CosAll.
Proof. exact non_exception. Qed.
Print Assumptions C16_non_exception.
Theorem C16_absent : get_cosmetic_option None = CosAll.
Proof. exact absent. Qed.
Print Assumptions C16_absent.

(* no verdict ever enables an option outside All *)
Theorem C16_never_enables : forall b, subset (get_cosmetic_option b) CosAll.
Proof. exact never_enables. Qed.
Print Assumptions C16_never_enables.

(* monotone: adding modifiers can only shrink the option *)
Theorem C16_monotone : forall en en', subset en en' ->
  subset (get_cosmetic_option (Some (true, en'))) (get_cosmetic_option (Some (true, en))).
Proof. exact monotone. Qed.
Print Assumptions C16_monotone.

(* text level: each of the 2^9 modifier subsets (bound stated in the theorem), written on an
   exception rule and parsed by the model's NewNetworkRule, yields All minus the union of what
   the named modifiers disable *)
Theorem C16_text_subsets : forall mask, (mask < 512)%nat -> subset_ok mask = true.
Proof. exact subsets_text_level. Qed.
Print Assumptions C16_text_subsets.

(* The same on the result object NewMatchingResult builds from the rules matching the request (rs) and the rules
   matching the page (src): the option never leaves All; an exception verdict gives All minus the union of what its
   modifiers disable; any other outcome gives All. *)
Theorem C16_result_only_shrinks : forall rs src, subset (result_cosmetic_option (new_matching_result rs src)) CosAll.
Proof. exact result_only_shrinks. Qed.
Print Assumptions C16_result_only_shrinks.
Theorem C16_result_exception : forall rs src w, mr_basic (new_matching_result rs src) = Some w -> nr_whitelist w = true ->
  result_cosmetic_option (new_matching_result rs src) = N.ldiff CosAll (disabled_by (nr_enabled w)).
Proof. exact result_exception. Qed.
Print Assumptions C16_result_exception.
Theorem C16_result_not_exception : forall rs src,
  (forall w, mr_basic (new_matching_result rs src) = Some w -> nr_whitelist w = false) ->
  result_cosmetic_option (new_matching_result rs src) = CosAll.
Proof. exact result_not_exception. Qed.
Print Assumptions C16_result_not_exception.
(* a page under a $urlblock exception (whichever of its document-level exceptions carries the flag, wherever it
   stands): blocking rules do not compete, so if anything competes the option is that of an exception matching
   the request; with a single such exception, its own *)
Theorem C16_result_under_urlblock : forall rs src x, basic_allowed src = false -> In x (candidates rs src) ->
  exists w, mr_basic (new_matching_result rs src) = Some w /\ In w (eff rs) /\ nr_whitelist w = true /\
            result_cosmetic_option (new_matching_result rs src) = N.ldiff CosAll (disabled_by (nr_enabled w)).
Proof. exact result_under_urlblock. Qed.
Print Assumptions C16_result_under_urlblock.
Theorem C16_result_single_exception : forall rs src e, basic_allowed src = false ->
  In e (candidates rs src) -> (forall x, In x (candidates rs src) -> x = e) ->
  result_cosmetic_option (new_matching_result rs src) = N.ldiff CosAll (disabled_by (nr_enabled e)).
Proof. exact result_single_exception. Qed.
Print Assumptions C16_result_single_exception.
