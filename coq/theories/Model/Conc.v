(* Interleaving semantics of the synchronisation protocols of the engines (C14).

   Every piece of shared mutable state of a built engine is protected by one lock and is only touched inside
   a REGION: acquire the lock, perform a fixed sequence of atomic accesses to the protected component, release.
     - RuleStorage.cache      under cacheMu (sync.RWMutex): read region (lookup) and write region (insert)
                              — filterlist/storage.go RetrieveRule
     - FileRuleList offset+buffer under the list's sync.Mutex: seek, then read blocks — rulelist.go RetrieveRule
     - NetworkRule.regex/invalid  under the rule's sync.Mutex: test, compile, store — network.go preparePattern
   A goroutine is a strategy: from the outputs of the regions it completed so far it chooses the next region
   (a cache miss is followed by a file region and then by a cache write region, ...).  Goroutines never
   hold two locks at once (no region is entered from inside another one in the code).
   Locks are read/write locks; a plain mutex is a lock that is only taken in write mode.  A step of thread t
   is enabled iff its lock operation is; a schedule is any list of thread ids (disabled steps are skipped), so
   the model admits every interleaving Go's scheduler can produce — and more (no writer preference).

   The request pool (dnsengine.go, syncutil.Pool) is modelled separately below: objects are owned exclusively
   between Get and Put. *)
From Coq Require Import List Arith Bool.
Import ListNotations.

Definition tid := nat.
Definition updn {A} (f : nat -> A) (k : nat) (v : A) : nat -> A := fun k' => if Nat.eqb k' k then v else f k'.

Section Regions.
Variable lk : Type.                                  (* lock names: the cache lock, one per file list, one per rule object *)
Variable lk_eq_dec : forall a b : lk, {a = b} + {a <> b}.
Variable C : Type.                                   (* content of the component a lock protects *)
Variable out : Type.                                 (* what an access returns to the goroutine *)

Definition act := C -> C * out.
Record task := { t_lock : lk; t_write : bool; t_acts : list act }.

Definition updk {A} (f : lk -> A) (k : lk) (v : A) : lk -> A := fun k' => if lk_eq_dec k' k then v else f k'.

(* a region executed without interference *)
Fixpoint run_acts (acts : list act) (c : C) : C * list out :=
  match acts with
  | [] => (c, [])
  | a :: rest => let '(c1, o) := a c in let '(c2, os) := run_acts rest c1 in (c2, o :: os)
  end.

Inductive pc :=
| Idle
| Waiting (tk : task)
| Inside (tk : task) (c0 : C) (done rest : list act) (outs : list out).   (* c0, done: ghost *)

Record thread := {
  tpc : pc;
  hist : list (task * list out);                            (* completed regions and their outputs, latest first *)
  prog : list (task * list out) -> option task              (* the goroutine's strategy; None = finished *)
}.
Record state := {
  readers : lk -> list tid;        (* ghost view of the reader count of each lock *)
  writer : lk -> option tid;
  comp : lk -> C;
  th : tid -> thread
}.

Definition set_pc (T : thread) (p : pc) : thread := {| tpc := p; hist := hist T; prog := prog T |}.
Definition isnilb {A} (l : list A) : bool := match l with [] => true | _ => false end.

(* one step of thread t; None = not enabled (blocked on a lock, or finished) *)
Definition step (s : state) (t : tid) : option state :=
  let T := th s t in
  match tpc T with
  | Idle =>
    match prog T (hist T) with
    | None => None
    | Some tk => Some {| readers := readers s; writer := writer s; comp := comp s;
                         th := updn (th s) t (set_pc T (Waiting tk)) |}
    end
  | Waiting tk =>
    let k := t_lock tk in
    match writer s k with
    | Some _ => None
    | None =>
      if t_write tk then
        if isnilb (readers s k) then
          Some {| readers := readers s; writer := updk (writer s) k (Some t); comp := comp s;
                  th := updn (th s) t (set_pc T (Inside tk (comp s k) [] (t_acts tk) [])) |}
        else None
      else
        Some {| readers := updk (readers s) k (t :: readers s k); writer := writer s; comp := comp s;
                th := updn (th s) t (set_pc T (Inside tk (comp s k) [] (t_acts tk) [])) |}
    end
  | Inside tk c0 done (a :: rest) outs =>
    let k := t_lock tk in
    let '(c', o) := a (comp s k) in
    Some {| readers := readers s; writer := writer s; comp := updk (comp s) k c';
            th := updn (th s) t (set_pc T (Inside tk c0 (done ++ [a]) rest (outs ++ [o]))) |}
  | Inside tk c0 done [] outs =>
    let k := t_lock tk in
    Some {| readers := if t_write tk then readers s else updk (readers s) k (remove Nat.eq_dec t (readers s k));
            writer := if t_write tk then updk (writer s) k None else writer s;
            comp := comp s;
            th := updn (th s) t {| tpc := Idle; hist := (tk, outs) :: hist T; prog := prog T |} |}
  end.

(* a schedule is any list of thread ids; disabled steps are skipped *)
Fixpoint run (s : state) (sched : list tid) : state :=
  match sched with
  | [] => s
  | t :: rest => run (match step s t with Some s' => s' | None => s end) rest
  end.

Definition init (c0 : lk -> C) (progs : tid -> list (task * list out) -> option task) : state :=
  {| readers := fun _ => []; writer := fun _ => None; comp := c0;
     th := fun t => {| tpc := Idle; hist := []; prog := progs t |} |}.
End Regions.
Arguments t_lock {lk C out}. Arguments t_write {lk C out}. Arguments t_acts {lk C out}.
Arguments Idle {lk C out}. Arguments Waiting {lk C out}. Arguments Inside {lk C out}.
Arguments tpc {lk C out}. Arguments hist {lk C out}. Arguments prog {lk C out}.
Arguments readers {lk C out}. Arguments writer {lk C out}. Arguments comp {lk C out}. Arguments th {lk C out}.

(* ---- the request pool: objects are exclusively owned between Get and Put ---- *)
Section Pool.
Variable F : Type.                                   (* the fields of a request object *)
Definition apply_writes (ws : list (F -> F)) (f : F) : F := fold_left (fun f w => w f) ws f.
Inductive ppc :=
| PIdle
| PHave (o : nat) (stale : F) (job todo : list (F -> F))   (* owns object o; field writes still to do (getRequestFromPool);
                                                              stale, job: ghost *)
| PUse (o : nat) (stale : F) (job : list (F -> F)).          (* filled; the query reads the object *)
(* a completed query: the stale fields the object had, the writes of the query, the fields the query saw *)
Record pthread := { ppc_of : ppc; jobs : list (list (F -> F)); reads : list (F * list (F -> F) * F) }.
Record pstate := {
  pool : list nat;                                   (* objects lying in the pool *)
  fresh : nat;                                       (* next never-used object id (the pool's New function) *)
  obj : nat -> F;                                    (* current fields of every object *)
  pth : tid -> pthread
}.
Variable blank : F.
(* Get may return ANY pooled object (sync.Pool gives no order) or a new one: [choice] is the scheduler's pick *)
Definition pstep (s : pstate) (t : tid) (choice : nat) : option pstate :=
  let T := pth s t in
  match ppc_of T with
  | PIdle =>
    match jobs T with
    | [] => None
    | j :: rest =>
      match nth_error (pool s) choice with
      | Some o => Some {| pool := firstn choice (pool s) ++ skipn (S choice) (pool s); fresh := fresh s; obj := obj s;
                          pth := updn (pth s) t {| ppc_of := PHave o (obj s o) j j; jobs := rest; reads := reads T |} |}
      | None => Some {| pool := pool s; fresh := S (fresh s); obj := updn (obj s) (fresh s) blank;
                        pth := updn (pth s) t {| ppc_of := PHave (fresh s) blank j j; jobs := rest; reads := reads T |} |}
      end
    end
  | PHave o st j (w :: todo) =>
    Some {| pool := pool s; fresh := fresh s; obj := updn (obj s) o (w (obj s o));
            pth := updn (pth s) t {| ppc_of := PHave o st j todo; jobs := jobs T; reads := reads T |} |}
  | PHave o st j [] =>
    Some {| pool := pool s; fresh := fresh s; obj := obj s;
            pth := updn (pth s) t {| ppc_of := PUse o st j; jobs := jobs T; reads := reads T |} |}
  | PUse o st j =>
    (* the query reads the object, then Put *)
    Some {| pool := o :: pool s; fresh := fresh s; obj := obj s;
            pth := updn (pth s) t {| ppc_of := PIdle; jobs := jobs T; reads := (st, j, obj s o) :: reads T |} |}
  end.
Fixpoint prun (s : pstate) (sched : list (tid * nat)) : pstate :=
  match sched with
  | [] => s
  | (t, c) :: rest => prun (match pstep s t c with Some s' => s' | None => s end) rest
  end.
Definition pinit (js : tid -> list (list (F -> F))) : pstate :=
  {| pool := []; fresh := 0; obj := fun _ => blank; pth := fun t => {| ppc_of := PIdle; jobs := js t; reads := [] |} |}.
End Pool.
Arguments PIdle {F}. Arguments PHave {F}. Arguments PUse {F}.
Arguments ppc_of {F}. Arguments jobs {F}. Arguments reads {F}.
Arguments pool {F}. Arguments fresh {F}. Arguments obj {F}. Arguments pth {F}.

(* ---- the engines' locks as an instance of the region model ---- *)
Section EnginesModel.
Variable rule : Type.                          (* materialised rules *)
Variable cval : Type.                          (* compiled patterns *)
Variable content : nat -> nat -> option rule.  (* list id -> byte offset -> what the list holds there *)
Variable compile : nat -> cval.                (* rule object -> the compilation of its pattern *)

Inductive elk := LCache | LFile (l : nat) | LRule (r : nat).
Lemma elk_eq_dec (a b : elk) : {a = b} + {a <> b}.
Proof. decide equality; apply Nat.eq_dec. Defined.
(* a materialised rule is an OBJECT: its value and an instance identity (the lookup tables tell rules apart by
   identity); the identity is whatever the inserting goroutine allocated *)
Inductive ecomp :=
| CCache (m : nat * nat -> option (rule * nat)) (* RuleStorage.cache: index -> (rule, instance) *)
| CFile (offset : nat)                         (* the shared file position of a FileRuleList *)
| CRule (c : option cval).                     (* NetworkRule.regex / invalid *)
Inductive eout :=
| OUnit
| ORule (r : option rule)                      (* what a file read produced *)
| OInst (i : nat * nat) (v : option (rule * nat))   (* the cache's answer for index i *)
| OVal (v : cval).

Definition upd2 {A} (m : nat * nat -> option A) (i : nat * nat) (v : option A) : nat * nat -> option A :=
  fun j => if (Nat.eqb (fst j) (fst i) && Nat.eqb (snd j) (snd i))%bool then v else m j.

Definition cache_read (i : nat * nat) : act ecomp eout :=
  fun c => (c, match c with CCache m => OInst i (m i) | _ => OUnit end).
(* the insert of RetrieveRule (after the F17 repair): an entry another goroutine made in the meantime is KEPT and
   handed back; otherwise the new object is stored *)
Definition cache_insert (i : nat * nat) (r : rule) (x : nat) : act ecomp eout :=
  fun c => match c with
           | CCache m => match m i with
                         | Some v => (c, OInst i (Some v))
                         | None => (CCache (upd2 m i (Some (r, x))), OInst i (Some (r, x)))
                         end
           | _ => (c, OUnit)
           end.
(* the insert as the pinned tree had it: overwrite (kept to show what the repair is for) *)
Definition cache_overwrite (i : nat * nat) (r : rule) (x : nat) : act ecomp eout :=
  fun c => match c with
           | CCache m => (CCache (upd2 m i (Some (r, x))), OInst i (Some (r, x)))
           | _ => (c, OUnit)
           end.
Definition file_seek (off : nat) : act ecomp eout := fun _ => (CFile off, OUnit).
(* reads at the CURRENT shared position: this is the hazard the list mutex removes *)
Definition file_read (l : nat) : act ecomp eout :=
  fun c => (c, match c with CFile off => ORule (content l off) | _ => OUnit end).
Definition rule_prepare (r : nat) : act ecomp eout :=
  fun c => match c with
           | CRule (Some v) => (c, OVal v)
           | CRule None => (CRule (Some (compile r)), OVal (compile r))
           | _ => (c, OUnit)
           end.

Notation etask := (task elk ecomp eout).
Definition T_lookup (i : nat * nat) : etask := {| t_lock := LCache; t_write := false; t_acts := [cache_read i] |}.
Definition T_load (i : nat * nat) : etask :=
  {| t_lock := LFile (fst i); t_write := true; t_acts := [file_seek (snd i); file_read (fst i)] |}.
Definition T_insert (i : nat * nat) (r : rule) (x : nat) : etask :=
  {| t_lock := LCache; t_write := true; t_acts := [cache_insert i r x] |}.
Definition T_overwrite (i : nat * nat) (r : rule) (x : nat) : etask :=
  {| t_lock := LCache; t_write := true; t_acts := [cache_overwrite i r x] |}.
Definition T_prepare (r : nat) : etask := {| t_lock := LRule r; t_write := true; t_acts := [rule_prepare r] |}.

(* what a goroutine may do next, given what it has seen: look up, load, prepare at will; insert only a rule it
   has itself loaded from that index (RetrieveRule inserts what list.RetrieveRule just returned), as any object *)
Definition allowed (h : list (etask * list eout)) (tk : etask) : Prop :=
  (exists i, tk = T_lookup i) \/ (exists i, tk = T_load i) \/ (exists r, tk = T_prepare r) \/
  (exists i r x, tk = T_insert i r x /\ In (T_load i, [OUnit; ORule (Some r)]) h).

Definition EGood (k : elk) (c : ecomp) : Prop :=
  match k, c with
  | LCache, CCache m => forall i r x, m i = Some (r, x) -> content (fst i) (snd i) = Some r
  | LFile _, CFile _ => True
  | LRule r, CRule c => c = None \/ c = Some (compile r)
  | _, _ => False
  end.
(* cache entries are never replaced *)
Definition EExt (k : elk) (c c' : ecomp) : Prop :=
  match k, c, c' with
  | LCache, CCache m, CCache m' => forall i v, m i = Some v -> m' i = Some v
  | LCache, _, _ => False
  | _, _, _ => True
  end.
(* an answer "index i holds object v" given by a cache region is consistent with the cache content *)
Definition EValid (tk : etask) (o : list eout) (c : ecomp) : Prop :=
  t_lock tk = LCache -> forall i v, In (OInst i (Some v)) o -> match c with CCache m => m i = Some v | _ => False end.

End EnginesModel.
Arguments CCache {rule cval}. Arguments CFile {rule cval}. Arguments CRule {rule cval}.
Arguments OUnit {rule cval}. Arguments ORule {rule cval}. Arguments OInst {rule cval}. Arguments OVal {rule cval}.
