(* rules/dnsrewrite.go: the $dnsrewrite value parser.  The dynamic type of RRValue is the
   constructor of [rrvalue]. *)
From Coq Require Import List Arith NArith Bool.
From Coq Require Import Strings.Byte.
From UF Require Import Base.Lit Base.Bytes Base.Codec Model.Netip Model.DnsTables.
Import ListNotations.
Local Open Scope N_scope.

Inductive rrvalue :=
| VNone
| VAddr (a : addr)
| VStr (s : bytes)
| VMX (pref : N) (exch : bytes)
| VSRV (prio weight port : N) (target : bytes)
| VSVCB (prio : N) (target : bytes) (params : list (bytes * bytes)).   (* map: sorted by key *)

Record dnsrewrite := { dr_value : rrvalue; dr_cname : bytes; dr_rcode : N; dr_rrtype : N }.
Definition dr_empty := {| dr_value := VNone; dr_cname := []; dr_rcode := 0; dr_rrtype := 0 |}.
Definition dr_rcode_only (rc : N) := {| dr_value := VNone; dr_cname := []; dr_rcode := rc; dr_rrtype := 0 |}.
Definition dr_cname_only (h : bytes) := {| dr_value := VNone; dr_cname := h; dr_rcode := 0; dr_rrtype := 0 |}.
Definition dr_mk (rc rr : N) (v : rrvalue) := {| dr_value := v; dr_cname := []; dr_rcode := rc; dr_rrtype := rr |}.

Definition params_eqb (a b : list (bytes * bytes)) : bool :=
  list_eqb (fun x y => bytes_eqb (fst x) (fst y) && bytes_eqb (snd x) (snd y)) a b.
(* reflect.DeepEqual on RRValue *)
Definition rrvalue_eqb (a b : rrvalue) : bool :=
  match a, b with
  | VNone, VNone => true
  | VAddr x, VAddr y => addr_eqb x y
  | VStr x, VStr y => bytes_eqb x y
  | VMX p e, VMX p' e' => N.eqb p p' && bytes_eqb e e'
  | VSRV p w o t, VSRV p' w' o' t' => N.eqb p p' && N.eqb w w' && N.eqb o o' && bytes_eqb t t'
  | VSVCB p t ps, VSVCB p' t' ps' => N.eqb p p' && bytes_eqb t t' && params_eqb ps ps'
  | _, _ => false
  end.
Definition dnsrewrite_eqb (a b : dnsrewrite) : bool :=
  rrvalue_eqb (dr_value a) (dr_value b) && bytes_eqb (dr_cname a) (dr_cname b)
  && N.eqb (dr_rcode a) (dr_rcode b) && N.eqb (dr_rrtype a) (dr_rrtype b).

(* validateHost *)
Definition valid_host_first (c : byte) : bool := is_alnum c.
Definition valid_host_byte (c : byte) : bool := beq c "-"%byte || is_alnum c.
Definition valid_label (p : bytes) : bool :=
  match p with
  | [] => false
  | c :: rest => valid_host_first c && forallb valid_host_byte rest
  end.
Definition validate_host (h : bytes) : bool :=
  negb (isnil h) && (length h <=? 63)%nat && forallb valid_label (split_byte "."%byte h).

Definition all_upper_ascii (s : bytes) : bool := negb (isnil s) && forallb is_upper s.

(* strconv.ParseUint(s, 10, 16) *)
Definition parse_uint16 (s : bytes) : option N :=
  match N_of_dec s with
  | Some v => if N.leb v 65535 then Some v else None
  | None => None
  end.

(* strToRRType (rules/rule.go:117-131) *)
Definition str_to_rrtype (s : bytes) : option N :=
  if equal_fold s $"none" || equal_fold s $"reserved" then None
  else string_to_type (to_upper s).

(* loadDNSRewriteShort *)
Definition load_dnsrewrite_short (s : bytes) : res dnsrewrite :=
  if isnil s then Ok dr_empty
  else if all_upper_ascii s then
    if bytes_eqb s $"NOERROR" || bytes_eqb s $"SERVFAIL" || bytes_eqb s $"NXDOMAIN" || bytes_eqb s $"REFUSED"
    then match string_to_rcode s with Some rc => Ok (dr_rcode_only rc) | None => Err end
    else Err
  else
    let ipres := if is_probably_ip s then
                   match parse_addr s with Ok a => Some (Ok a) | Unsupported => Some Unsupported | _ => None end
                 else None in
    match ipres with
    | Some (Ok a) => Ok (dr_mk RcodeSuccess (if is4 a then TypeA else TypeAAAA) (VAddr a))
    | Some _ => Unsupported
    | None => if validate_host s then Ok (dr_cname_only s) else Err
    end.

(* map insertion: params[k] = v, kept sorted by key *)
Fixpoint params_set (k v : bytes) (l : list (bytes * bytes)) : list (bytes * bytes) :=
  match l with
  | [] => [(k, v)]
  | (k', v') :: l' =>
    match bytes_cmp k k' with
    | Eq => (k, v) :: l'
    | Lt => (k, v) :: l
    | Gt => (k', v') :: params_set k v l'
    end
  end.

Definition target_ok (t : bytes) : bool := bytes_eqb t $"." || validate_host t.

(* the handler table dnsRewriteRRHandlers; None = no handler for this type *)
Definition rr_handler (rcode rr : N) (v : bytes) : option (res dnsrewrite) :=
  if N.eqb rr TypeA then Some (
    if negb (is_probably_ip v) then Err else
    match parse_addr v with
    | Ok a => if is4 a then Ok (dr_mk rcode rr (VAddr a)) else Err
    | Unsupported => Unsupported
    | _ => Err
    end)
  else if N.eqb rr TypeAAAA then Some (
    if negb (is_probably_ip v) then Err else
    match parse_addr v with
    | Ok a => if negb (is4 a) then Ok (dr_mk rcode rr (VAddr a)) else Err
    | Unsupported => Unsupported
    | _ => Err
    end)
  else if N.eqb rr TypeCNAME then Some (if validate_host v then Ok (dr_cname_only v) else Err)
  else if N.eqb rr TypeMX then Some (
    match splitn_byte " "%byte 2 v with
    | [p; exch] =>
      match parse_uint16 p with
      | Some pref => if validate_host exch then Ok (dr_mk rcode rr (VMX pref exch)) else Err
      | None => Err
      end
    | _ => Err
    end)
  else if N.eqb rr TypePTR then Some (
    let '(fqdn, host) := match last_byte v with
                         | Some c => if beq c "."%byte then (v, removelast v) else (v ++ $".", v)
                         | None => (v ++ $".", v)
                         end in
    if validate_host host then Ok (dr_mk rcode rr (VStr fqdn)) else Err)
  else if N.eqb rr TypeTXT then Some (Ok (dr_mk rcode rr (VStr v)))
  else if N.eqb rr TypeHTTPS || N.eqb rr TypeSVCB then Some (
    match split_byte " "%byte v with
    | p :: target :: rest =>
      match parse_uint16 p with
      | None => Err
      | Some prio =>
        if negb (target_ok target) then Err else
        let fix go (ps : list bytes) (acc : list (bytes * bytes)) : option (list (bytes * bytes)) :=
          match ps with
          | [] => Some acc
          | kvp :: ps' => match split_byte "="%byte kvp with
                           | [k; x] => go ps' (params_set k x acc)
                           | _ => None
                           end
          end in
        match go rest [] with
        | Some params => Ok (dr_mk rcode rr (VSVCB prio target params))
        | None => Err
        end
      end
    | _ => Err
    end)
  else if N.eqb rr TypeSRV then Some (
    match split_byte " "%byte v with
    | p :: w :: o :: target :: _ =>
      match parse_uint16 p, parse_uint16 w, parse_uint16 o with
      | Some prio, Some weight, Some port =>
        if target_ok target then Ok (dr_mk rcode rr (VSRV prio weight port target)) else Err
      | _, _, _ => Err
      end
    | _ => Err
    end)
  else None.

(* loadDNSRewriteNormal *)
Definition load_dnsrewrite_normal (rcode_s rr_s val_s : bytes) : res dnsrewrite :=
  match string_to_rcode (to_upper rcode_s) with
  | None => Err
  | Some rcode =>
    if negb (N.eqb rcode RcodeSuccess) || (isnil rr_s && isnil val_s) then Ok (dr_rcode_only rcode)
    else match str_to_rrtype rr_s with
         | None => Err
         | Some rr => match rr_handler rcode rr val_s with
                      | Some r => r
                      | None => Ok (dr_mk rcode rr VNone)
                      end
         end
  end.

(* loadDNSRewrite *)
Definition load_dnsrewrite (s : bytes) : res dnsrewrite :=
  match splitn_byte ";"%byte 3 s with
  | [_] => load_dnsrewrite_short s
  | [a; b; c] => load_dnsrewrite_normal a b c
  | _ => Err
  end.

(* canonical rendering, shared with the verif hook VerifDNSRewrite *)
Definition show_value (v : rrvalue) : bytes :=
  match v with
  | VNone => $"none"
  | VAddr a => $"addr:" ++ show_addr a
  | VStr s => $"str:" ++ hex_encode s
  | VMX p e => $"mx:" ++ dec_of_N p ++ $":" ++ hex_encode e
  | VSRV p w o t => $"srv:" ++ dec_of_N p ++ $":" ++ dec_of_N w ++ $":" ++ dec_of_N o ++ $":" ++ hex_encode t
  | VSVCB p t ps => $"svcb:" ++ dec_of_N p ++ $":" ++ hex_encode t ++ $":" ++
                    join $"," (map (fun kv => hex_encode (fst kv) ++ $"=" ++ hex_encode (snd kv)) ps)
  end.
Definition show_dnsrewrite (d : option dnsrewrite) : bytes :=
  match d with
  | None => $"nil"
  | Some d => $"cname:" ++ hex_encode (dr_cname d) ++ $";rcode:" ++ dec_of_N (dr_rcode d) ++
              $";rrtype:" ++ dec_of_N (dr_rrtype d) ++ $";value:" ++ show_value (dr_value d)
  end.
