(* net/netip (Go 1.23) as used by the library: ParseAddr, ParsePrefix, Masked, Contains,
   Is4/Is6, Compare; and filterutil/net.go IsProbablyIP.  Zones ("%eth0") are outside the
   modelled fragment (Unsupported). *)
From Coq Require Import List Arith NArith Bool.
From Coq Require Import Strings.Byte.
From UF Require Import Base.Lit Base.Bytes Base.Codec.
Import ListNotations.
Local Open Scope N_scope.

Inductive addr := A4 (n : N) | A6 (n : N).   (* 32-bit / 128-bit big-endian value *)

Definition addr_eqb (a b : addr) : bool :=
  match a, b with A4 x, A4 y => N.eqb x y | A6 x, A6 y => N.eqb x y | _, _ => false end.
Definition is4 (a : addr) : bool := match a with A4 _ => true | A6 _ => false end.
Definition bit_len (a : addr) : N := match a with A4 _ => 32 | A6 _ => 128 end.

(* filterutil/net.go:5-29 *)
Definition is_addr_byte (b : byte) : bool :=
  beq b "."%byte || beq b ":"%byte || is_digit b || in_range 65 70 b || in_range 97 102 b
  || beq b "["%byte || beq b "]"%byte.
Definition is_probably_ip (s : bytes) : bool := forallb is_addr_byte s && (2 <=? length s)%nat.

(* netip.go parseIPv4Fields: four dot-separated decimal octets, no leading zeros, <= 255 *)
Definition octet (f : bytes) : option N :=
  match f with
  | [] => None
  | c :: rest =>
    if forallb is_digit f && (isnil rest || negb (beq c "0"%byte)) then
      match N_of_dec f with Some v => if N.leb v 255 then Some v else None | None => None end
    else None
  end.
Definition parse_ipv4_fields (s : bytes) : option (list N) :=
  let fs := split_byte "."%byte s in
  if (length fs =? 4)%nat then opt_all (map octet fs) else None.
Definition be_value (bs : list N) : N := fold_left (fun acc b => acc * 256 + b) bs 0.
Definition parse_ipv4 (s : bytes) : option addr :=
  option_map (fun bs => A4 (be_value bs)) (parse_ipv4_fields s).

Definition is_hex (b : byte) : bool := match hex_val b with Some _ => true | None => false end.
Fixpoint hex_prefix (s : bytes) : bytes * bytes :=
  match s with
  | c :: s' => if is_hex c then let '(h, r) := hex_prefix s' in (c :: h, r) else ([], s)
  | [] => ([], [])
  end.
Definition hex_value (h : bytes) : N :=
  fold_left (fun acc c => acc * 16 + match hex_val c with Some v => v | None => 0 end) h 0.

(* netip.go parseIPv6, the main loop.  ip = bytes produced so far (in order), ell = position
   of the ellipsis.  Returns None on a parse error. *)
Fixpoint parse_ipv6_loop (fuel : nat) (s : bytes) (ip : list N) (ell : option nat)
  : option (bytes * list N * option nat) :=
  match fuel with
  | O => Some (s, ip, ell)
  | S fuel' =>
    if (16 <=? length ip)%nat then Some (s, ip, ell) else
    let '(h, rest) := hex_prefix s in
    if (4 <? length h)%nat then None else
    if isnil h then None else
    match rest with
    | c :: _ =>
      if beq c "."%byte then
        (* embedded IPv4 must replace the final two fields *)
        if (match ell with None => negb (length ip =? 12)%nat | Some _ => false end) then None else
        if (16 <? length ip + 4)%nat then None else
        match parse_ipv4_fields s with
        | Some v4 => Some ([], ip ++ v4, ell)
        | None => None
        end
      else
        let acc := hex_value h in
        let ip' := ip ++ [N.div acc 256; N.modulo acc 256] in
        if negb (beq c ":"%byte) then None else
        match rest with
        | [_] => None
        | _ :: c2 :: rest2 =>
          if beq c2 ":"%byte then
            match ell with
            | Some _ => None
            | None => if isnil rest2 then Some ([], ip', Some (length ip'))
                      else parse_ipv6_loop fuel' rest2 ip' (Some (length ip'))
            end
          else parse_ipv6_loop fuel' (c2 :: rest2) ip' ell
        | [] => None
        end
    | [] =>
      let acc := hex_value h in
      Some ([], ip ++ [N.div acc 256; N.modulo acc 256], ell)
    end
  end.

Definition parse_ipv6 (s : bytes) : option addr :=
  let '(s1, ell0) := match s with
                     | a :: b :: r => if beq a ":"%byte && beq b ":"%byte then (r, Some 0%nat) else (s, None)
                     | _ => (s, None)
                     end in
  match ell0, s1 with
  | Some _, [] => Some (A6 0)
  | _, _ =>
    match parse_ipv6_loop 9 s1 [] ell0 with
    | None => None
    | Some (rest, ip, ell) =>
      if negb (isnil rest) then None else
      if (length ip <? 16)%nat then
        match ell with
        | None => None
        | Some e => Some (A6 (be_value (firstn e ip ++ repeat 0 (16 - length ip) ++ skipn e ip)))
        end
      else match ell with Some _ => None | None => Some (A6 (be_value ip)) end
    end
  end.

(* netip.ParseAddr *)
Fixpoint first_sep (s : bytes) : option byte :=
  match s with
  | c :: s' => if beq c "."%byte || beq c ":"%byte || beq c "%"%byte then Some c else first_sep s'
  | [] => None
  end.
Definition parse_addr (s : bytes) : res addr :=
  match first_sep s with
  | None => Err
  | Some c =>
    if beq c "."%byte then match parse_ipv4 s with Some a => Ok a | None => Err end
    else if beq c ":"%byte then
      if mem_byte "%"%byte s then Unsupported
      else match parse_ipv6 s with Some a => Ok a | None => Err end
    else Err
  end.

(* netip.Prefix: address and bit count *)
Definition prefix := (addr * N)%type.
Definition prefix_eqb (a b : prefix) : bool := addr_eqb (fst a) (fst b) && N.eqb (snd a) (snd b).

(* netip.ParsePrefix *)
Definition parse_prefix (s : bytes) : res prefix :=
  match last_index_byte "/"%byte s with
  | None => Err
  | Some i =>
    do ip <- parse_addr (firstn i s);
    let bs := skipn (S i) s in
    match bs with
    | [] => Err
    | c :: rest =>
      if negb (isnil rest) && negb (in_range 49 57 c) then Err else
      match N_of_dec bs with
      | None => Err
      | Some n => if N.leb n (bit_len ip) then Ok (ip, n) else Err
      end
    end
  end.

(* Prefix.Masked: zero the host bits *)
Definition masked (p : prefix) : prefix :=
  let '(a, bits) := p in
  match a with
  | A4 v => (A4 (N.shiftl (N.shiftr v (32 - bits)) (32 - bits)), bits)
  | A6 v => (A6 (N.shiftl (N.shiftr v (128 - bits)) (128 - bits)), bits)
  end.

(* Prefix.Contains *)
Definition prefix_contains (p : prefix) (ip : addr) : bool :=
  let '(a, bits) := p in
  match a, ip with
  | A4 pv, A4 v => N.eqb (N.shiftr (N.lxor v pv) (32 - bits)) 0
  | A6 pv, A6 v => N.eqb (N.shiftr (N.lxor v pv) (128 - bits)) 0
  | _, _ => false
  end.

(* rules/clients.go:116-137 comparePrefix: IPv4 first, then shorter prefixes, then address *)
Definition addr_value (a : addr) : N := match a with A4 v => v | A6 v => v end.
Definition prefix_leb (a b : prefix) : bool :=
  match is4 (fst a), is4 (fst b) with
  | true, false => true
  | false, true => false
  | _, _ =>
    if N.ltb (snd a) (snd b) then true
    else if N.ltb (snd b) (snd a) then false
    else N.leb (addr_value (fst a)) (addr_value (fst b))
  end.

(* canonical rendering shared with the verif hook: "4:<8 hex>" / "6:<32 hex>" *)
Fixpoint be_bytes (n : nat) (v : N) (acc : bytes) : bytes :=
  match n with
  | O => acc
  | S n' => be_bytes n' (N.div v 256) (n2b (N.modulo v 256) :: acc)
  end.
Definition show_addr (a : addr) : bytes :=
  match a with
  | A4 v => $"4:" ++ hex_encode (be_bytes 4 v [])
  | A6 v => $"6:" ++ hex_encode (be_bytes 16 v [])
  end.
Definition show_prefix (p : prefix) : bytes := show_addr (fst p) ++ $"/" ++ dec_of_N (snd p).
