(* filterlist/rulescanner.go, rulestoragescanner.go, rulelist.go, storage.go:
   line scanning with byte offsets, the packed 64-bit storage index, retrieval from an in-memory
   list and from a file (block reads of arbitrary sizes), and the rule cache. *)
From Coq Require Import List Arith NArith ZArith Bool.
From Coq Require Import Strings.Byte.
From UF Require Import Base.Lit Base.Bytes Model.NetRule Model.Rule.
Import ListNotations.

Definition LF : byte := x0a.

(* RuleScanner.readNextLine: bufio.Reader.ReadBytes('\n') — every line keeps its terminator; a final
   line without terminator is returned if it is non-empty.  (offset of the line, line) *)
Fixpoint split_lines_aux (s : bytes) (cur : bytes) (start off : nat) : list (nat * bytes) :=
  match s with
  | [] => if isnil cur then [] else [(start, rev' cur)]
  | c :: s' => if beq c LF then (start, rev' (c :: cur)) :: split_lines_aux s' [] (S off) (S off)
               else split_lines_aux s' (c :: cur) start (S off)
  end.
Definition lines_with_offsets (content : bytes) : list (nat * bytes) := split_lines_aux content [] 0 0.

(* one filter list *)
Record flist := { rl_id : Z; rl_content : bytes; rl_ignore_cosmetic : bool }.

Definition is_ignored (l : flist) (r : rule) : bool :=
  rl_ignore_cosmetic l && match r with RCos _ => true | _ => false end.

(* RuleScanner.Scan over a whole list: what each line produces *)
Definition scan_lines (l : flist) : list (nat * res (option rule)) :=
  map (fun ol => (fst ol, new_rule (snd ol) (rl_id l))) (lines_with_offsets (rl_content l)).
(* the rules a scanner yields, with the offsets reported with them; Unsupported lines make the
   whole scan Unsupported *)
Fixpoint yielded (l : flist) (ls : list (nat * res (option rule))) : res (list (rule * nat)) :=
  match ls with
  | [] => Ok []
  | (off, Ok (Some r)) :: ls' => do rest <- yielded l ls'; Ok (if is_ignored l r then rest else (r, off) :: rest)
  | (_, Ok None) :: ls' | (_, Err) :: ls' => yielded l ls'
  | (_, Crash) :: _ => Crash
  | (_, Unsupported) :: _ => Unsupported
  end.
Definition scan_list (l : flist) : res (list (rule * nat)) := yielded l (scan_lines l).

(* ---- the packed storage index (rulestoragescanner.go:62-77), on Z with Go's operators ---- *)
Definition two32 : Z := 4294967296.
Definition two31 : Z := 2147483648.
Definition two63 : Z := 9223372036854775808.
(* conversion to intN: wrap *)
Definition to_int32 (z : Z) : Z := ((z + two31) mod two32 - two31)%Z.
Definition to_int64 (z : Z) : Z := ((z + two63) mod (2 * two63) - two63)%Z.
(* int64(listID)<<32 | int64(ruleIdx)&0xFFFFFFFF ; the arguments were converted to int32 first *)
Definition pack (list_id rule_idx : Z) : Z :=
  to_int64 (Z.lor (Z.shiftl (to_int32 list_id) 32) (Z.land (to_int32 rule_idx) 4294967295)).
(* listID = int32(storageIdx >> 32) ; ruleIdx = int32(storageIdx) *)
Definition unpack (idx : Z) : Z * Z := (to_int32 (Z.shiftr idx 32), to_int32 idx).

(* ---- retrieval ---- *)
Fixpoint take_until_lf (s : bytes) : bytes :=
  match s with [] => [] | c :: s' => if beq c LF then [] else c :: take_until_lf s' end.

(* common tail of both RetrieveRule implementations: TrimSpace, reject empty, NewRule *)
Definition rule_of_line (line : bytes) (id : Z) : res (option rule) :=
  do t <- go_trim_space line;
  if isnil t then Err else new_rule t id.

(* StringRuleList.RetrieveRule *)
Definition retrieve_string (l : flist) (off : Z) : res (option rule) :=
  if (off <? 0)%Z || (Z.of_nat (length (rl_content l)) <=? off)%Z then Err
  else rule_of_line (take_until_lf (skipn (Z.to_nat off) (rl_content l))) (rl_id l).

(* readLine over a file positioned at the offset: successive reads return between 1 and 4096 bytes
   (any positive amount up to the buffer size: the chunk oracle), 0 bytes only at end of file *)
Definition buffer_size : nat := 4096.
Definition clamp (c : nat) : nat := Nat.max 1 (Nat.min c buffer_size).
Fixpoint read_line (fuel : nat) (rest : bytes) (chunks : list nat) (acc : bytes) : bytes :=
  match fuel with
  | O => acc
  | S f =>
    match rest with
    | [] => acc
    | _ =>
      let n := match chunks with c :: _ => clamp c | [] => buffer_size end in
      let blk := firstn n rest in
      match index_byte LF blk with
      | None => read_line f (skipn n rest) (tl chunks) (acc ++ blk)
      | Some i => acc ++ firstn i blk
      end
    end
  end.
(* FileRuleList.RetrieveRule (the file holds the same content) *)
Definition retrieve_file (l : flist) (off : Z) (chunks : list nat) : res (option rule) :=
  if (off <? 0)%Z then Err
  else
    let rest := skipn (Z.to_nat off) (rl_content l) in
    rule_of_line (read_line (S (length rest)) rest chunks []) (rl_id l).

(* ---- the storage ---- *)
Definition storage := list flist.

Fixpoint find_list (s : storage) (id : Z) : option flist :=
  match s with
  | [] => None
  | l :: s' => if Z.eqb (rl_id l) id then Some l else find_list s' id
  end.

(* RuleStorageScanner: all lists in order; index = pack (list id) offset *)
Fixpoint storage_scan (s : storage) : res (list (rule * Z)) :=
  match s with
  | [] => Ok []
  | l :: s' =>
    do here <- scan_list l;
    do rest <- storage_scan s';
    Ok (map (fun ro => (fst ro, pack (rl_id l) (Z.of_nat (snd ro)))) here ++ rest)
  end.

(* RuleStorage.RetrieveRule without the cache (String-backed lists) *)
Definition storage_retrieve (s : storage) (idx : Z) : res (option rule) :=
  let '(id, off) := unpack idx in
  match find_list s id with
  | None => Err
  | Some l => retrieve_string l off
  end.
