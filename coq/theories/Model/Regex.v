(* Go's regexp (RE2 syntax, Perl flags) on the fragment the library meets: a lexer written as a fold
   over bytes, a shift-reduce parser written as a fold over lexemes with an explicit frame stack,
   desugaring of counted repetition, and a CPS backtracking matcher.  Everything outside the
   fragment yields Unsupported, never a guessed answer.  ASCII only: callers declare patterns and
   subjects with bytes >= 0x80 Unsupported (Go matches UTF-8 runes and folds case in Unicode). *)
From Coq Require Import List Arith NArith Bool.
From Coq Require Import Strings.Byte.
From UF Require Import Base.Lit Base.Bytes Base.Codec.
Import ListNotations.

(* ---------- AST ---------- *)
Inductive re :=
| RCls (neg : bool) (rs : list (byte * byte))     (* character class as ranges *)
| RAny                                            (* "." : any byte except \n *)
| RBol | REol                                     (* ^ \A  /  $ \z  (no multi-line mode) *)
| RWordB | RNWordB                                (* \b \B *)
| RCat (l : list re) | RAlt (l : list re)
| RStar (r : re) | RPlus (r : re) | ROpt (r : re)
| RRep (r : re) (min : nat) (max : option nat).   (* r{min,max}; removed by [desugar] *)

(* ---------- lexer ---------- *)
Inductive rtok :=
| TCls (neg : bool) (rs : list (byte * byte))
| TAny | TBol | TEol | TWordB | TNWordB | TLp | TRp | TBar | TStar | TPlus | TQuest
| TRep (min : nat) (max : option nat)
| TRepBad.                                         (* syntactically a repeat, but count > 1000 *)

Inductive lstate :=
| LNormal
| LEsc                                              (* after backslash, outside a class *)
| LHex (incls : option (bool * list (byte * byte) * option byte * bool)) (d : option N)  (* after \x *)
| LCls0                                             (* just after '[' *)
| LCls (neg : bool) (acc : list (byte * byte)) (pend : option byte) (dash : bool)
| LClsEsc (neg : bool) (acc : list (byte * byte)) (pend : option byte) (dash : bool)
| LRep (d1 : bytes) (comma : bool) (d2 : bytes)     (* after '{': digits, optional comma, digits (reversed) *)
| LQuote                                            (* inside \Q ... \E: every byte is a literal *)
| LQuoteEsc                                         (* inside \Q ... \E, just after a backslash *)
| LLp                                               (* after '(' *)
| LLpQ                                              (* after "(?" *)
| LErr                                              (* RE2 rejects *)
| LUnsup.                                           (* outside the modelled fragment *)

Definition digit_ranges : list (byte * byte) := [("0"%byte, "9"%byte)].
Definition word_ranges : list (byte * byte) := [("0"%byte, "9"%byte); ("A"%byte, "Z"%byte); ("_"%byte, "_"%byte); ("a"%byte, "z"%byte)].
Definition space_ranges : list (byte * byte) := [(x09, x0a); (x0c, x0d); (" "%byte, " "%byte)].

(* single-character escapes shared by both contexts: \a \f \t \n \r \v and escaped punctuation *)
Definition simple_escape (c : byte) : option byte :=
  if beq c "a"%byte then Some x07 else if beq c "f"%byte then Some x0c
  else if beq c "t"%byte then Some x09 else if beq c "n"%byte then Some x0a
  else if beq c "r"%byte then Some x0d else if beq c "v"%byte then Some x0b
  else if is_alnum c then None
  else Some c.
Definition perl_class (c : byte) : option (bool * list (byte * byte)) :=
  if beq c "d"%byte then Some (false, digit_ranges) else if beq c "D"%byte then Some (true, digit_ranges)
  else if beq c "w"%byte then Some (false, word_ranges) else if beq c "W"%byte then Some (true, word_ranges)
  else if beq c "s"%byte then Some (false, space_ranges) else if beq c "S"%byte then Some (true, space_ranges)
  else None.

Definition flush (acc : list (byte*byte)) (pend : option byte) (dash : bool) : list (byte*byte) :=
  let acc1 := match pend with Some p => acc ++ [(p,p)] | None => acc end in
  if dash then acc1 ++ [("-"%byte,"-"%byte)] else acc1.

(* a class member c arrives *)
Definition cls_char (neg : bool) acc (pend : option byte) (dash : bool) (c : byte) : lstate :=
  match pend, dash with
  | Some p, true => if N.leb (b2n p) (b2n c) then LCls neg (acc ++ [(p, c)]) None false else LErr
  | Some p, false => LCls neg (acc ++ [(p,p)]) (Some c) false
  | None, true => LCls neg (acc ++ [("-"%byte,"-"%byte)]) (Some c) false
  | None, false => LCls neg acc (Some c) false
  end.

Definition lit_tok (c : byte) : rtok := TCls false [(c,c)].

Definition lex_normal (c : byte) (out : list rtok) : lstate * list rtok :=
  if beq c "\"%byte then (LEsc, out)
  else if beq c "["%byte then (LCls0, out)
  else if beq c "("%byte then (LLp, out)
  else if beq c ")"%byte then (LNormal, TRp :: out)
  else if beq c "|"%byte then (LNormal, TBar :: out)
  else if beq c "*"%byte then (LNormal, TStar :: out)
  else if beq c "+"%byte then (LNormal, TPlus :: out)
  else if beq c "?"%byte then (LNormal, TQuest :: out)
  else if beq c "."%byte then (LNormal, TAny :: out)
  else if beq c "^"%byte then (LNormal, TBol :: out)
  else if beq c "$"%byte then (LNormal, TEol :: out)
  else if beq c "{"%byte then (LRep [] false [], out)
  else (LNormal, lit_tok c :: out).

(* the text "{d1[,d2]" read so far turns out not to be a repeat: it is literal *)
Definition rep_literals (d1 : bytes) (comma : bool) (d2 : bytes) (out : list rtok) : list rtok :=
  map lit_tok d2 ++ (if comma then [lit_tok ","%byte] else []) ++ map lit_tok d1 ++ lit_tok "{"%byte :: out.
Definition leading_zero (d_rev : bytes) : bool :=
  match rev' d_rev with c :: _ :: _ => beq c "0"%byte | _ => false end.
Definition rep_count (d_rev : bytes) : option nat :=
  match N_of_dec (rev' d_rev) with
  | Some n => if N.leb n 1000 then Some (N.to_nat n) else None
  | None => None
  end.

Definition lex_step (st : lstate * list rtok) (c : byte) : lstate * list rtok :=
  let '(s, out) := st in
  match s with
  | LErr => (LErr, out)
  | LUnsup => (LUnsup, out)
  | LNormal => lex_normal c out
  | LLp => if beq c "?"%byte then (LLpQ, out) else lex_normal c (TLp :: out)
  | LLpQ => if beq c ":"%byte then (LNormal, TLp :: out)
            else if beq c "="%byte || beq c "!"%byte then (LErr, out)
            else (LUnsup, out)
  | LEsc =>
      match perl_class c with
      | Some (neg, rs) => (LNormal, TCls neg rs :: out)
      | None =>
        if beq c "b"%byte then (LNormal, TWordB :: out)
        else if beq c "B"%byte then (LNormal, TNWordB :: out)
        else if beq c "A"%byte then (LNormal, TBol :: out)
        else if beq c "z"%byte then (LNormal, TEol :: out)
        else if beq c "x"%byte then (LHex None None, out)
        else if beq c "Q"%byte then (LQuote, out)
        else match simple_escape c with
             | Some b => (LNormal, lit_tok b :: out)
             | None => (LUnsup, out)        (* \p \C \1 \0 ... or an invalid escape *)
             end
      end
  (* \Q: the text up to the first "\E" (or the end) is a run of one-byte literals; a repetition operator after
     \E therefore applies to the last quoted byte alone (regexp/syntax/parse.go, case 'Q') *)
  | LQuote => if beq c "\"%byte then (LQuoteEsc, out) else (LQuote, lit_tok c :: out)
  | LQuoteEsc => if beq c "E"%byte then (LNormal, out)
                 else if beq c "\"%byte then (LQuoteEsc, lit_tok c :: out)
                 else (LQuote, lit_tok c :: lit_tok "\"%byte :: out)
  | LHex incls d =>
      match hex_val c with
      | None => (LUnsup, out)               (* \x{...} or malformed *)
      | Some v =>
        match d with
        | None => (LHex incls (Some v), out)
        | Some hi =>
          let n := (hi * 16 + v)%N in
          if N.leb 128 n then (LUnsup, out) else
          match incls with
          | None => (LNormal, lit_tok (n2b n) :: out)
          | Some (neg, acc, pend, dash) => (cls_char neg acc pend dash (n2b n), out)
          end
        end
      end
  | LCls0 => if beq c "^"%byte then (LCls true [] None false, out)
             else if beq c "\"%byte then (LClsEsc false [] None false, out)
             else if beq c "["%byte then (LUnsup, out)
             else (LCls false [] (Some c) false, out)      (* first char is literal, even ']' *)
  | LCls neg acc pend dash =>
      if beq c "]"%byte then
        (match acc, pend, dash with
         | [], None, false => (LCls neg acc (Some c) false, out)     (* ']' first after '^' is literal *)
         | _, _, _ => (LNormal, TCls neg (flush acc pend dash) :: out)
         end)
      else if beq c "\"%byte then (LClsEsc neg acc pend dash, out)
      else if beq c "["%byte then (LUnsup, out)                        (* [:posix:] classes *)
      else if beq c "-"%byte then
        (match pend, dash with
         | Some _, false => (LCls neg acc pend true, out)
         | _, _ => (cls_char neg acc pend dash c, out)
         end)
      else (cls_char neg acc pend dash c, out)
  | LClsEsc neg acc pend dash =>
      match perl_class c with
      | Some (false, rs) => if dash then (LUnsup, out) else (LCls neg (flush acc pend false ++ rs) None false, out)
      | Some (true, _) => (LUnsup, out)
      | None =>
        if beq c "x"%byte then (LHex (Some (neg, acc, pend, dash)) None, out)
        else match simple_escape c with
             | Some b => (cls_char neg acc pend dash b, out)
             | None => (LUnsup, out)
             end
      end
  | LRep d1 comma d2 =>
      if is_digit c then (if comma then (LRep d1 comma (c :: d2), out) else (LRep (c :: d1) comma d2, out))
      else if beq c ","%byte && negb comma && negb (isnil d1) && negb (leading_zero d1) then (LRep d1 true d2, out)
      else if beq c "}"%byte && negb (isnil d1) && negb (leading_zero d1) && negb (leading_zero d2) then
        match rep_count d1, (if comma then (if isnil d2 then Some None else option_map Some (rep_count d2))
                             else option_map Some (rep_count d1)) with
        | Some n, Some m => (LNormal, TRep n m :: out)
        | _, _ => (LNormal, TRepBad :: out)
        end
      else lex_normal c (rep_literals d1 comma d2 out)
  end.

Definition lex_from (st : lstate * list rtok) (s : bytes) := fold_left lex_step s st.
Definition lex (s : bytes) : res (list rtok) :=
  match lex_from (LNormal, []) s with
  | (LNormal, out) => Ok (rev' out)
  | (LRep d1 comma d2, out) => Ok (rev' (rep_literals d1 comma d2 out))
  | (LLp, out) => Ok (rev' (TLp :: out))
  | (LQuote, out) => Ok (rev' out)
  | (LQuoteEsc, out) => Ok (rev' (lit_tok "\"%byte :: out))
  | (LUnsup, _) => Unsupported
  | (LHex _ _, _) => Unsupported
  | _ => Err                                  (* trailing backslash, unclosed class, "(?" *)
  end.

(* ---------- parser ---------- *)
(* frame = (finished alternatives (reversed), current concatenation (reversed)) *)
Definition frame := (list re * list re)%type.
(* lq = the previous lexeme was a repetition operator (a further one is an error, "?" makes it lazy) *)
Inductive pstate := PS (cur : frame) (stack : list frame) (lq : bool) (lazy_ok : bool) | PErr.

Definition close_frame (f : frame) : re :=
  let '(alts, cat) := f in
  match alts with
  | [] => RCat (rev' cat)
  | _ => RAlt (rev' (RCat (rev' cat) :: alts))
  end.
Definition push_atom (a : re) (f : frame) : frame := (fst f, a :: snd f).

Definition quant (q : re -> re) (st : pstate) : pstate :=
  match st with
  | PS (alts, a :: cat) stack false _ => PS (alts, q a :: cat) stack true true
  | _ => PErr
  end.

Definition parse_step (st : pstate) (t : rtok) : pstate :=
  match st with
  | PErr => PErr
  | PS cur stack lq lz =>
    match t with
    | TCls neg rs => PS (push_atom (RCls neg rs) cur) stack false false
    | TAny => PS (push_atom RAny cur) stack false false
    | TBol => PS (push_atom RBol cur) stack false false
    | TEol => PS (push_atom REol cur) stack false false
    | TWordB => PS (push_atom RWordB cur) stack false false
    | TNWordB => PS (push_atom RNWordB cur) stack false false
    | TLp => PS ([], []) (cur :: stack) false false
    | TRp => match stack with
             | parent :: stack' => PS (push_atom (close_frame cur) parent) stack' false false
             | [] => PErr
             end
    | TBar => PS (RCat (rev' (snd cur)) :: fst cur, []) stack false false
    | TStar => quant RStar st
    | TPlus => quant RPlus st
    | TQuest => if lq && lz then PS cur stack true false      (* lazy marker: same language *)
                else quant ROpt st
    | TRep n m => match m with
                  | Some m' => if (m' <? n)%nat then PErr else quant (fun r => RRep r n m) st
                  | None => quant (fun r => RRep r n m) st
                  end
    | TRepBad => PErr
    end
  end.

Definition parse_from (st : pstate) (ts : list rtok) := fold_left parse_step ts st.

(* counted repetition *)
Fixpoint has_rep (r : re) : bool :=
  match r with
  | RCat l | RAlt l => (fix go (l : list re) : bool := match l with [] => false | x :: l' => has_rep x || go l' end) l
  | RStar r | RPlus r | ROpt r => has_rep r
  | RRep _ _ _ => true
  | _ => false
  end.
Fixpoint nested_rep (r : re) : bool :=
  match r with
  | RCat l | RAlt l => (fix go (l : list re) : bool := match l with [] => false | x :: l' => nested_rep x || go l' end) l
  | RStar r | RPlus r | ROpt r => nested_rep r
  | RRep r _ _ => has_rep r
  | _ => false
  end.
(* regexp/syntax repeatIsValid(re, n): the combination of a repetition with its inner repetitions must not
   exceed n copies of the innermost thing (checked by the parser for every {min,max} with min >= 2 or max >= 2,
   n = 1000) *)
Fixpoint repeat_valid (r : re) (n : nat) : bool :=
  match r with
  | RCat l | RAlt l => (fix go (l : list re) : bool := match l with [] => true | x :: l' => repeat_valid x n && go l' end) l
  | RStar r' | RPlus r' | ROpt r' => repeat_valid r' n
  | RRep r' mn mx =>
    match mx with
    | Some 0 => true
    | _ =>
      let m := match mx with Some m => m | None => mn end in
      if (n <? m)%nat then false else repeat_valid r' (if (0 <? m)%nat then (n / m)%nat else n)
    end
  | _ => true
  end.
Fixpoint reps_ok (r : re) : bool :=
  match r with
  | RCat l | RAlt l => (fix go (l : list re) : bool := match l with [] => true | x :: l' => reps_ok x && go l' end) l
  | RStar r' | RPlus r' | ROpt r' => reps_ok r'
  | RRep r' mn mx =>
    reps_ok r' &&
    (if (2 <=? mn)%nat || match mx with Some m => (2 <=? m)%nat | None => false end then repeat_valid r 1000 else true)
  | _ => true
  end.
Fixpoint nested_opt (r : re) (k : nat) : list re :=
  match k with O => [] | S k' => [ROpt (RCat (r :: nested_opt r k'))] end.
Fixpoint desugar (r : re) : re :=
  match r with
  | RCat l => RCat (map desugar l)
  | RAlt l => RAlt (map desugar l)
  | RStar r => RStar (desugar r)
  | RPlus r => RPlus (desugar r)
  | ROpt r => ROpt (desugar r)
  | RRep r n m =>
    let r' := desugar r in
    match m with
    | None => RCat (repeat r' n ++ [RStar r'])
    | Some m' => RCat (repeat r' n ++ nested_opt r' (m' - n))
    end
  | _ => r
  end.

Definition parse_re (s : bytes) : res re :=
  do ts <- lex s;
  match parse_from (PS ([], []) [] false false) ts with
  | PS cur [] _ _ =>
    let r := close_frame cur in
    (* RE2 bounds the size of nested counted repetitions (ErrInvalidRepeatSize) *)
    if nested_rep r && negb (reps_ok r) then Err else Ok (desugar r)
  | _ => Err
  end.

(* ---------- matcher ---------- *)
Definition swapcase (b : byte) : byte := if is_upper b then lower_b b else if is_lower b then upper_b b else b.
Definition in_ranges (rs : list (byte * byte)) (b : byte) : bool :=
  existsb (fun r => N.leb (b2n (fst r)) (b2n b) && N.leb (b2n b) (b2n (snd r))) rs.
(* (?i): the class is closed under ASCII case folding before negation *)
Definition match_cls (ci neg : bool) (rs : list (byte * byte)) (b : byte) : bool :=
  xorb neg (in_ranges rs b || (ci && in_ranges rs (swapcase b))).
Definition is_word (b : byte) : bool := is_alnum b || beq b "_"%byte.
Definition opt_word (o : option byte) : bool := match o with Some b => is_word b | None => false end.
Definition at_word_boundary (prev : option byte) (s : bytes) : bool :=
  xorb (opt_word prev) (opt_word (hd_error s)).

(* continuation: previous byte (None at the start of the text) and the rest of the input *)
Definition K := option byte -> bytes -> bool.

Definition star_loop (mr : option byte -> bytes -> K -> bool) (k : K) : nat -> option byte -> bytes -> bool :=
  fix loop (n : nat) (prev : option byte) (s0 : bytes) {struct n} : bool :=
    k prev s0 ||
    match n with
    | O => false
    | S n' => mr prev s0 (fun prev' s' => Nat.ltb (length s') (length s0) && loop n' prev' s')
    end.

Section Matcher.
Variable ci : bool.
Fixpoint m (r : re) (prev : option byte) (s : bytes) (k : K) {struct r} : bool :=
  match r with
  | RCls neg rs => match s with c :: s' => match_cls ci neg rs c && k (Some c) s' | [] => false end
  | RAny => match s with c :: s' => negb (beq c x0a) && k (Some c) s' | [] => false end
  | RBol => match prev with None => k prev s | Some _ => false end
  | REol => match s with [] => k prev s | _ => false end
  | RWordB => at_word_boundary prev s && k prev s
  | RNWordB => negb (at_word_boundary prev s) && k prev s
  | RCat l =>
      (fix mc (l : list re) (prev : option byte) (s : bytes) (k : K) {struct l} : bool :=
         match l with
         | [] => k prev s
         | r1 :: l' => m r1 prev s (fun prev' s' => mc l' prev' s' k)
         end) l prev s k
  | RAlt l =>
      (fix ma (l : list re) : bool :=
         match l with
         | [] => false
         | r1 :: l' => m r1 prev s k || ma l'
         end) l
  | RStar r1 => star_loop (m r1) k (length s) prev s
  | RPlus r1 => m r1 prev s (fun prev' s' => star_loop (m r1) k (length s') prev' s')
  | ROpt r1 => m r1 prev s k || k prev s
  | RRep _ _ _ => false                       (* removed by desugar *)
  end.

(* regexp.MatchString: unanchored search *)
Definition any_byte : re := RCls true [].
Definition search (r : re) (s : bytes) : bool :=
  m (RCat [RStar any_byte; r]) None s (fun _ _ => true).
End Matcher.

(* compile as rules/network.go preparePattern does: optional "(?i)" prefix, then the expression *)
Definition compile (text : bytes) : res (bool * re) :=
  if has_prefix $"(?i)" text then do r <- parse_re (skipn 4 text); Ok (true, r)
  else do r <- parse_re text; Ok (false, r).
Definition match_string (cr : bool * re) (s : bytes) : bool := search (fst cr) (snd cr) s.
