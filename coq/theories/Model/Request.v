(* rules/request.go: NewRequest, FillRequestForHostname; dnsengine.go getRequestFromPool. *)
From Coq Require Import List Arith NArith Bool.
From Coq Require Import Strings.Byte.
From UF Require Import Base.Lit Base.Bytes Model.Options Model.Netip Model.Domain.
Import ListNotations.

Record request := {
  rq_url : bytes; rq_url_lower : bytes; rq_hostname : bytes; rq_domain : bytes;
  rq_source_url : bytes; rq_source_hostname : bytes; rq_source_domain : bytes;
  rq_type : N; rq_third_party : bool; rq_is_hostname : bool;
  rq_client_name : bytes; rq_client_ip : option addr; rq_tags : list bytes; rq_dnstype : N
}.

Definition max_url_length : nat := 4096.

Section PSL.
Variable psl : bytes -> bytes * bool.

Definition domain_or_host (h : bytes) : bytes :=
  let d := etld_plus_one psl h in if isnil d then h else d.

(* NewRequest (request.go:113-151) *)
Definition new_request (url source : bytes) (rtype : N) : request :=
  let url := if (max_url_length <? length url)%nat then firstn max_url_length url else url in
  let source := if (max_url_length <? length source)%nat then firstn max_url_length source else source in
  let host := extract_hostname url in
  let shost := extract_hostname source in
  let dom := domain_or_host host in
  let sdom := domain_or_host shost in
  {| rq_url := url; rq_url_lower := to_lower url; rq_hostname := host; rq_domain := dom;
     rq_source_url := source; rq_source_hostname := shost; rq_source_domain := sdom;
     rq_type := rtype; rq_third_party := negb (isnil sdom) && negb (bytes_eqb sdom dom);
     rq_is_hostname := false; rq_client_name := []; rq_client_ip := None; rq_tags := []; rq_dnstype := 0 |}.

(* DNSEngine.getRequestFromPool + FillRequestForHostname on a fresh (or arbitrary: see C13) request *)
Definition new_hostname_request (hostname client_name : bytes) (client_ip : option addr)
    (tags : list bytes) (dnstype : N) : request :=
  let url := $"http://" ++ hostname in
  {| rq_url := url; rq_url_lower := url; rq_hostname := hostname; rq_domain := domain_or_host hostname;
     rq_source_url := []; rq_source_hostname := []; rq_source_domain := [];
     rq_type := TypeDocument; rq_third_party := false; rq_is_hostname := true;
     rq_client_name := client_name; rq_client_ip := client_ip; rq_tags := tags; rq_dnstype := dnstype |}.
End PSL.
