(* rules/rule.go NewRule, isComment; rules/host.go NewHostRule, HostRule.Match;
   rules/cosmetic.go NewCosmeticRule, findCosmeticRuleMarker, CosmeticRule.Match. *)
From Coq Require Import List Arith NArith ZArith Bool.
From Coq Require Import Strings.Byte.
From UF Require Import Base.Lit Base.Bytes Model.Netip Model.Domain Model.NetRule.
Import ListNotations.

Record host_rule := { hr_text : bytes; hr_list : Z; hr_ip : addr; hr_names : list bytes }.
Record cos_rule := { cr_text : bytes; cr_list : Z; cr_content : bytes; cr_pdomains : list bytes;
                     cr_rdomains : list bytes; cr_whitelist : bool }.
Inductive rule := RNet (r : net_rule) | RHost (h : host_rule) | RCos (c : cos_rule).

Definition rule_text (r : rule) : bytes :=
  match r with RNet r => nr_text r | RHost h => hr_text h | RCos c => cr_text c end.
Definition rule_list (r : rule) : Z :=
  match r with RNet r => nr_list r | RHost h => hr_list h | RCos c => cr_list c end.

(* ---- strings.TrimSpace at byte level ----
   ASCII white space is trimmed; if the remaining text begins or ends with the UTF-8 encoding of a
   Unicode space (which Go would also trim) the line is outside the modelled fragment. *)
Definition unicode_spaces : list bytes :=
  [[xc2; x85]; [xc2; xa0]; [xe1; x9a; x80]; [xe2; x80; x80]; [xe2; x80; x81]; [xe2; x80; x82];
   [xe2; x80; x83]; [xe2; x80; x84]; [xe2; x80; x85]; [xe2; x80; x86]; [xe2; x80; x87]; [xe2; x80; x88];
   [xe2; x80; x89]; [xe2; x80; x8a]; [xe2; x80; xa8]; [xe2; x80; xa9]; [xe2; x80; xaf]; [xe2; x81; x9f];
   [xe3; x80; x80]].
Definition go_trim_space (s : bytes) : res bytes :=
  let t := trim_space s in
  if existsb (fun u => has_prefix u t || has_suffix u t) unicode_spaces then Unsupported else Ok t.

(* ---- cosmetic markers, longest first (the init() sort) ---- *)
Definition cosmetic_markers : list bytes :=
  [$"#@$?#"; $"#@?#"; $"#@$#"; $"#$?#"; $"#@%#"; $"#@#"; $"#?#"; $"#$#"; $"#%#"; $"$@$"; $"##"; $"$$"].

(* findCosmeticRuleMarker: only the first '#' and the first '$' are examined *)
Definition marker_at (text : bytes) (first : byte) : option (nat * bytes) :=
  match index_byte first text with
  | None => None
  | Some i =>
    if (0 <? i)%nat && (match nth_error text (i - 1) with Some c => beq c " "%byte | None => false end) then None
    else match find (fun m => has_prefix m (skipn i text)) cosmetic_markers with
         | Some m => Some (i, m)
         | None => None
         end
  end.
Definition find_cosmetic_marker (text : bytes) : option (nat * bytes) :=
  match marker_at text "#"%byte with
  | Some r => Some r
  | None => marker_at text "$"%byte
  end.
Definition is_cosmetic (line : bytes) : bool :=
  match find_cosmetic_marker line with Some _ => true | None => false end.

(* isComment *)
Definition is_comment (line : bytes) : bool :=
  match line with
  | [] => false
  | c :: rest =>
    if beq c "!"%byte then true
    else if beq c "#"%byte then
      if isnil rest then true
      else negb (existsb (fun m => has_prefix m line) cosmetic_markers)
    else false
  end.

(* NewCosmeticRule *)
Definition new_cosmetic_rule (text : bytes) (id : Z) : res cos_rule :=
  match find_cosmetic_marker text with
  | None => Err
  | Some (index, m) =>
    do pr <- (if (0 <? index)%nat then
                match load_domains (firstn index text) ","%byte with Some pr => Ok pr | None => Err end
              else Ok ([], []));
    do content <- go_trim_space (skipn (index + length m) text);
    if isnil content then Err else
    if bytes_eqb m $"##" then
      Ok {| cr_text := text; cr_list := id; cr_content := content; cr_pdomains := fst pr;
            cr_rdomains := snd pr; cr_whitelist := false |}
    else if bytes_eqb m $"#@#" then
      if isnil (fst pr) then Err else
      Ok {| cr_text := text; cr_list := id; cr_content := content; cr_pdomains := fst pr;
            cr_rdomains := snd pr; cr_whitelist := true |}
    else Err                                   (* ErrUnsupportedRule *)
  end.

(* splitNextByWhitespace: (token, remainder) *)
Definition is_blank (c : byte) : bool := beq c " "%byte || beq c x09.
Fixpoint skip_blank (s : bytes) : bytes :=
  match s with c :: s' => if is_blank c then skip_blank s' else s | [] => [] end.
Fixpoint take_token (s : bytes) : bytes * bytes :=
  match s with
  | c :: s' => if is_blank c then ([], s) else let '(t, r) := take_token s' in (c :: t, r)
  | [] => ([], [])
  end.
Definition split_next (s : bytes) : bytes * bytes :=
  let '(t, r) := take_token (skip_blank s) in (t, skip_blank r).

(* the loop "for len(ruleText) != 0 { host := splitNextByWhitespace(&ruleText) ... }" *)
Fixpoint host_names (fuel : nat) (s : bytes) : list bytes :=
  match fuel with
  | O => []
  | S f => if isnil s then [] else let '(t, r) := split_next s in t :: host_names f r
  end.

(* NewHostRule (after the comment-strip repair) *)
Definition new_host_rule (text : bytes) (id : Z) : res host_rule :=
  let body := match index_byte "#"%byte text with
              | Some (S i) => firstn (S i) text
              | _ => text
              end in
  let '(first, rest) := split_next body in
  if isnil rest then
    if is_domain_name first then
      Ok {| hr_text := text; hr_list := id; hr_ip := A4 0; hr_names := [first] |}
    else Err
  else
    do ip <- parse_addr first;
    Ok {| hr_text := text; hr_list := id; hr_ip := ip; hr_names := host_names (length rest) rest |}.

(* HostRule.Match *)
Definition host_match (h : host_rule) (hostname : bytes) : bool := existsb (bytes_eqb hostname) (hr_names h).

(* NewRule *)
Definition new_rule (line : bytes) (id : Z) : res (option rule) :=
  do l <- go_trim_space line;
  if isnil l || is_comment l then Ok None
  else if is_cosmetic l then
    (* cosmetic rules: domains are parsed byte-wise; non-ASCII text is carried through untouched *)
    do c <- new_cosmetic_rule l id; Ok (Some (RCos c))
  else
    match new_host_rule l id with
    | Ok h => Ok (Some (RHost h))
    | Unsupported => Unsupported
    | Crash => Crash
    | Err => do r <- new_network_rule l id; Ok (Some (RNet r))
    end.

Section PSL.
Variable psl : bytes -> bytes * bool.
(* CosmeticRule.Match *)
Definition cos_match (c : cos_rule) (hostname : bytes) : bool :=
  if isnil (cr_pdomains c) && isnil (cr_rdomains c) then true
  else if negb (isnil (cr_rdomains c)) && is_domain_or_subdomain_of_any psl hostname (cr_rdomains c) then false
  else if negb (isnil (cr_pdomains c)) && negb (is_domain_or_subdomain_of_any psl hostname (cr_pdomains c)) then false
  else true.
End PSL.

(* canonical rendering *)
From UF Require Import Base.Codec.
Definition show_rule_any (r : rule) : bytes :=
  match r with
  | RNet r => $"N:" ++ show_rule r
  | RHost h => $"H:" ++ show_addr (hr_ip h) ++ $":" ++ enc_list (hr_names h)
  | RCos c => $"C:" ++ enc_bool (cr_whitelist c) ++ $":" ++ hex_encode (cr_content c) ++ $":"
              ++ enc_list (cr_pdomains c) ++ $":" ++ enc_list (cr_rdomains c)
  end.
