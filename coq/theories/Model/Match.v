(* rules/network.go: NetworkRule.Match and its ten conjuncts; rules/clients.go containsAny. *)
From Coq Require Import List Arith NArith Bool.
From Coq Require Import Strings.Byte.
From UF Require Import Base.Lit Base.Bytes Model.Options Model.Netip Model.Domain Model.NetRule
  Model.Regex Model.Mask Model.Request.
Import ListNotations.

(* slices.BinarySearch on []string: the lower-bound loop of the standard library, then an equality test *)
Fixpoint lower_bound (fuel : nat) (l : list bytes) (i j : nat) (x : bytes) : nat :=
  match fuel with
  | O => i
  | S f =>
    if (j <=? i)%nat then i else
    let h := ((i + j) / 2)%nat in
    match bytes_cmp (nth h l []) x with
    | Lt => lower_bound f l (S h) j x
    | _ => lower_bound f l i h x
    end
  end.
Definition binary_search (l : list bytes) (x : bytes) : bool :=
  let i := lower_bound (S (length l)) l 0 (length l) x in
  (i <? length l)%nat && match bytes_cmp (nth i l []) x with Eq => true | _ => false end.

(* clients.containsAny *)
Definition clients_contains_any (c : option clients) (host : bytes) (ip : option addr) : bool :=
  match c with
  | None => false
  | Some c =>
    (negb (isnil host) && binary_search (c_hosts c) host)
    || match ip with None => false | Some a => existsb (fun n => prefix_contains n a) (c_nets c) end
  end.

(* matchClientTagsSpecific: the merge walk over two sorted lists *)
Fixpoint tags_walk (fuel : nat) (rule_tags client_tags : list bytes) : bool :=
  match fuel with
  | O => false
  | S f =>
    match rule_tags, client_tags with
    | r :: rt, c :: ct =>
      match bytes_cmp r c with
      | Eq => true
      | Lt => tags_walk f rt client_tags
      | Gt => tags_walk f rule_tags ct
      end
    | _, _ => false
    end
  end.
Definition match_tags_specific (rule_tags client_tags : list bytes) : bool :=
  tags_walk (S (length rule_tags + length client_tags)) rule_tags client_tags.

Section PSL.
Variable psl : bytes -> bytes * bool.

Definition match_shortcut (f : net_rule) (r : request) : bool := contains (nr_shortcut f) (rq_url_lower r).

Definition match_request_type (f : net_rule) (t : N) : bool :=
  (N.eqb (nr_ptypes f) 0 || N.eqb (N.land (nr_ptypes f) t) t)
  && (N.eqb (nr_rtypes f) 0 || negb (N.eqb (N.land (nr_rtypes f) t) t)).

(* matchRequestDomain: $denyallow *)
Definition match_request_domain (f : net_rule) (domain : bytes) (hostname_request : bool) : res bool :=
  if isnil (nr_denyallow f) then Ok true else
  let ipcheck : res bool :=
    if hostname_request && is_probably_ip domain then
      match parse_addr domain with Ok _ => Ok true | Unsupported => Unsupported | _ => Ok false end
    else Ok false in
  do isip <- ipcheck;
  if isip then Ok false else Ok (negb (is_domain_or_subdomain_of_any psl domain (nr_denyallow f))).

(* matchSourceDomain: $domain *)
Definition match_source_domain (f : net_rule) (domain : bytes) : bool :=
  if isnil (nr_pdomains f) && isnil (nr_rdomains f) then true
  else if negb (isnil (nr_rdomains f)) && is_domain_or_subdomain_of_any psl domain (nr_rdomains f) then false
  else if negb (isnil (nr_pdomains f)) && negb (is_domain_or_subdomain_of_any psl domain (nr_pdomains f)) then false
  else true.

(* matchDNSType *)
Definition match_dns_type (f : net_rule) (t : N) : bool :=
  if isnil (nr_pdns f) && isnil (nr_rdns f) then true
  else if existsb (N.eqb t) (nr_rdns f) then false
  else if negb (isnil (nr_pdns f)) then existsb (N.eqb t) (nr_pdns f)
  else true.

(* matchClientTags *)
Definition match_client_tags (f : net_rule) (tags : list bytes) : bool :=
  if isnil (nr_rtags f) && isnil (nr_ptags f) then true
  else if match_tags_specific (nr_rtags f) tags then false
  else if negb (isnil (nr_ptags f)) then match_tags_specific (nr_ptags f) tags
  else true.

(* matchClient *)
Definition match_client (f : net_rule) (host : bytes) (ip : option addr) : bool :=
  if (clients_len (nr_rclients f) =? 0)%nat && (clients_len (nr_pclients f) =? 0)%nat then true
  else if clients_contains_any (nr_rclients f) host ip then false
  else if negb (clients_len (nr_pclients f) =? 0)%nat then clients_contains_any (nr_pclients f) host ip
  else true.

(* shouldMatchHostname *)
Definition should_match_hostname (f : net_rule) (r : request) : bool :=
  if negb (rq_is_hostname r) then false else
  let p := nr_pattern f in
  if has_prefix $"||" p || has_prefix $"http://" p || has_prefix $"https://" p || has_prefix $"://" p then false
  else
    match p, last_byte p with
    | c :: _, Some l =>
      if (3 <? length p)%nat && beq c "/"%byte && beq l "."%byte then
        (* "/hostname." : true iff an inner byte is not [a-zA-Z0-9.-] *)
        existsb (fun ch => negb (is_alnum ch || beq ch "."%byte || beq ch "-"%byte)) (removelast (tl p))
      else true
    | _, _ => true
    end.

(* matchPattern *)
Definition match_pattern (f : net_rule) (r : request) : res bool :=
  do pp <- prepare_pattern (nr_pattern f) (is_opt_enabled f OptMatchCase);
  match pp with
  | PAny => Ok true
  | PInvalid => Ok false
  | PRe _ cr =>
    let subject := if should_match_hostname f r then rq_hostname r else rq_url r in
    if all_ascii subject then Ok (match_string cr subject) else Unsupported
  end.

(* Match: the switch evaluates the conjuncts in order and stops at the first failing one *)
Definition rule_match (f : net_rule) (r : request) : res bool :=
  if negb (match_shortcut f r) then Ok false
  else if is_opt_enabled f OptThirdParty && negb (rq_third_party r) then Ok false
  else if is_opt_disabled f OptThirdParty && rq_third_party r then Ok false
  else if negb (match_request_type f (rq_type r)) then Ok false
  else
    do rd <- match_request_domain f (rq_hostname r) (rq_is_hostname r);
    if negb rd then Ok false
    else if negb (match_source_domain f (rq_source_hostname r)) then Ok false
    else if negb (match_dns_type f (rq_dnstype r)) then Ok false
    else if negb (match_client_tags f (rq_tags r)) then Ok false
    else if negb (match_client f (rq_client_name r) (rq_client_ip r)) then Ok false
    else match_pattern f r.
End PSL.
