(* Whole QUERIES on top of the region model of Model/Conc.v (C14).

   A query of an engine is a program over two operations on shared state:
     - RetrieveRule(i)        filterlist/storage.go: cache lookup under the read lock; on a miss, load the line from
                              the list (list mutex) and insert the new object under the write lock, handing back
                              whatever the cache then holds for i
     - preparePattern(obj)    rules/network.go: compile the pattern under the rule's mutex, once
   and otherwise computes on what these return (the lookup tables walk a bucket of indexes, retrieve each rule,
   match it, and de-duplicate the matching OBJECTS by identity).  [qprog] is that program as a tree;
   [qstrat] turns it into a strategy of the region model (one region at a time, chosen from the outputs of the
   regions completed so far); [sem] is its meaning over a fixed virtual store. *)
From Coq Require Import List Arith Bool.
From UF Require Import Model.Conc.
Import ListNotations.

Section Query.
Variable rule cval : Type.
Variable content : nat -> nat -> option rule.
Variable compile : nat -> cval.
Notation etask := (task elk (ecomp rule cval) (eout rule cval)).
Notation eout := (Conc.eout rule cval).

Inductive qprog (A : Type) : Type :=
| QRet (a : A)
| QRetrieve (i : nat * nat) (x : nat) (k : option (rule * nat) -> qprog A)
    (* x: the identity of the object this goroutine allocates if it has to parse the line itself *)
| QPrepare (r : nat) (k : cval -> qprog A).
Arguments QRet {A}. Arguments QRetrieve {A}. Arguments QPrepare {A}.

(* where a RetrieveRule call stands *)
Inductive phase := PStart | PMissed | PLoaded (r : rule).

(* the next region *)
Definition head {A} (p : qprog A) (ph : phase) : option etask :=
  match p with
  | QRet _ => None
  | QRetrieve i x _ =>
    Some match ph with
         | PStart => T_lookup rule cval i
         | PMissed => T_load rule cval content i
         | PLoaded r => T_insert rule cval i r x
         end
  | QPrepare r _ => Some (T_prepare rule cval compile r)
  end.

(* continue with the outputs of the region just completed *)
Definition advance {A} (p : qprog A) (ph : phase) (o : list eout) : qprog A * phase :=
  match p with
  | QRet _ => (p, ph)
  | QRetrieve i x k =>
    match ph with
    | PStart => match o with
                | [OInst _ (Some v)] => (k (Some v), PStart)        (* cache hit *)
                | _ => (p, PMissed)
                end
    | PMissed => match o with
                 | [OUnit; ORule (Some r)] => (p, PLoaded r)
                 | _ => (k None, PStart)                             (* nothing (readable) at that index *)
                 end
    | PLoaded _ => match o with
                   | [OInst _ v] => (k v, PStart)                    (* what the cache holds after the insert *)
                   | _ => (k None, PStart)
                   end
    end
  | QPrepare r k => match o with
                    | [OVal v] => (k v, PStart)
                    | _ => (p, PStart)
                    end
  end.

(* where the program stands after a history of completed regions (latest first) *)
Fixpoint after {A} (p : qprog A) (h : list (etask * list eout)) : qprog A * phase :=
  match h with
  | [] => (p, PStart)
  | (_, o) :: h' => let '(p', ph') := after p h' in advance p' ph' o
  end.

Definition qstrat {A} (p : qprog A) (h : list (etask * list eout)) : option etask :=
  let '(p', ph') := after p h in head p' ph'.
Definition qresult {A} (p : qprog A) (h : list (etask * list eout)) : option A :=
  match fst (after p h) with QRet a => Some a | _ => None end.

(* the meaning of a query over a fixed store: index -> the object held there *)
Fixpoint sem {A} (vs : nat * nat -> option (rule * nat)) (p : qprog A) : A :=
  match p with
  | QRet a => a
  | QRetrieve i _ k => sem vs (k (vs i))
  | QPrepare r k => sem vs (k (compile r))
  end.

(* ---- the query of a lookup table: walk a bucket of indexes ---- *)
Variable alloc : nat * nat -> nat.                 (* the object this goroutine would allocate for index i *)
Variable matches : rule -> cval -> bool.           (* NetworkRule.Match for the request at hand, given the compiled pattern *)

Definition seen (x : nat) (acc : list (rule * nat)) : bool := existsb (fun v => Nat.eqb (snd v) x) acc.

(* lookup/shortcutstable.go MatchAll: for _, idx := range bucket { rule := RetrieveNetworkRule(idx);
   if rule == nil || ruleIn(rule, result) || !rule.Match(r) { continue }; result = append(result, rule) } *)
Fixpoint table_query (L : list (nat * nat)) (acc : list (rule * nat)) : qprog (list rule) :=
  match L with
  | [] => QRet (map fst acc)
  | i :: L' =>
    QRetrieve i (alloc i) (fun v =>
      match v with
      | None => table_query L' acc
      | Some (r, x) =>
        if seen x acc then table_query L' acc
        else QPrepare x (fun c => if matches r c then table_query L' (acc ++ [(r, x)]) else table_query L' acc)
      end)
  end.
End Query.

(* the reference answer of a table query: a function of the lists alone.  [cof i] is the compilation of the pattern
   of the rule at index i; [matches] is the request's Match given that compilation *)
Section TableSpec.
Variable rule cval : Type.
Variable content : nat -> nat -> option rule.
Variable cof : nat * nat -> cval.
Variable matches : rule -> cval -> bool.
Definition idx_eqb (i j : nat * nat) : bool := (Nat.eqb (fst i) (fst j) && Nat.eqb (snd i) (snd j))%bool.
Fixpoint table_spec (L : list (nat * nat)) (acc : list ((nat * nat) * rule)) : list rule :=
  match L with
  | [] => map snd acc
  | i :: L' =>
    match content (fst i) (snd i) with
    | None => table_spec L' acc
    | Some r =>
      if existsb (idx_eqb i) (map fst acc) then table_spec L' acc
      else if matches r (cof i) then table_spec L' (acc ++ [(i, r)]) else table_spec L' acc
    end
  end.
End TableSpec.
Arguments QRet {rule cval A}. Arguments QRetrieve {rule cval A}. Arguments QPrepare {rule cval A}.
Arguments PStart {rule}. Arguments PMissed {rule}. Arguments PLoaded {rule}.
