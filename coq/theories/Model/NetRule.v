(* rules/network.go (NewNetworkRule, parseRuleText, loadOptions, loadOption, loadShortcut,
   findShortcut, findRegexpShortcut), rules/rule.go (loadDomains, loadDNSTypes, loadCTags,
   loadClients), rules/clients.go (add, finalize). *)
From Coq Require Import List Arith NArith ZArith Bool.
From Coq Require Import Strings.Byte.
From UF Require Import Base.Lit Base.Bytes Base.Codec Model.Options Model.Netip Model.Domain
  Model.DnsTables Model.DNSRewrite.
Import ListNotations.

Record clients := { c_hosts : list bytes; c_nets : list prefix }.
Definition clients_len (c : option clients) : nat :=
  match c with None => 0 | Some c => length (c_hosts c) + length (c_nets c) end.
(* clients.Equal: nil only equals nil *)
Definition clients_eqb (a b : option clients) : bool :=
  match a, b with
  | None, None => true
  | Some x, Some y => list_eqb bytes_eqb (c_hosts x) (c_hosts y) && list_eqb prefix_eqb (c_nets x) (c_nets y)
  | _, _ => false
  end.

Record net_rule := {
  nr_text : bytes;
  nr_list : Z;
  nr_whitelist : bool;
  nr_pattern : bytes;
  nr_shortcut : bytes;
  nr_enabled : N;
  nr_disabled : N;
  nr_ptypes : N;
  nr_rtypes : N;
  nr_pdomains : list bytes;
  nr_rdomains : list bytes;
  nr_denyallow : list bytes;
  nr_pdns : list N;
  nr_rdns : list N;
  nr_ptags : list bytes;
  nr_rtags : list bytes;
  nr_pclients : option clients;
  nr_rclients : option clients;
  nr_dnsrewrite : option dnsrewrite
}.

Definition nr_blank (text : bytes) (id : Z) (wl : bool) (pattern : bytes) : net_rule :=
  {| nr_text := text; nr_list := id; nr_whitelist := wl; nr_pattern := pattern; nr_shortcut := [];
     nr_enabled := 0; nr_disabled := 0; nr_ptypes := 0; nr_rtypes := 0;
     nr_pdomains := []; nr_rdomains := []; nr_denyallow := []; nr_pdns := []; nr_rdns := [];
     nr_ptags := []; nr_rtags := []; nr_pclients := None; nr_rclients := None; nr_dnsrewrite := None |}.

(* functional record updates *)
Definition set_enabled (r : net_rule) (v : N) : net_rule :=
  {| nr_text := nr_text r; nr_list := nr_list r; nr_whitelist := nr_whitelist r; nr_pattern := nr_pattern r;
     nr_shortcut := nr_shortcut r; nr_enabled := v; nr_disabled := nr_disabled r; nr_ptypes := nr_ptypes r;
     nr_rtypes := nr_rtypes r; nr_pdomains := nr_pdomains r; nr_rdomains := nr_rdomains r;
     nr_denyallow := nr_denyallow r; nr_pdns := nr_pdns r; nr_rdns := nr_rdns r; nr_ptags := nr_ptags r;
     nr_rtags := nr_rtags r; nr_pclients := nr_pclients r; nr_rclients := nr_rclients r;
     nr_dnsrewrite := nr_dnsrewrite r |}.
Definition set_disabled (r : net_rule) (v : N) : net_rule :=
  {| nr_text := nr_text r; nr_list := nr_list r; nr_whitelist := nr_whitelist r; nr_pattern := nr_pattern r;
     nr_shortcut := nr_shortcut r; nr_enabled := nr_enabled r; nr_disabled := v; nr_ptypes := nr_ptypes r;
     nr_rtypes := nr_rtypes r; nr_pdomains := nr_pdomains r; nr_rdomains := nr_rdomains r;
     nr_denyallow := nr_denyallow r; nr_pdns := nr_pdns r; nr_rdns := nr_rdns r; nr_ptags := nr_ptags r;
     nr_rtags := nr_rtags r; nr_pclients := nr_pclients r; nr_rclients := nr_rclients r;
     nr_dnsrewrite := nr_dnsrewrite r |}.
Definition set_types (r : net_rule) (p q : N) : net_rule :=
  {| nr_text := nr_text r; nr_list := nr_list r; nr_whitelist := nr_whitelist r; nr_pattern := nr_pattern r;
     nr_shortcut := nr_shortcut r; nr_enabled := nr_enabled r; nr_disabled := nr_disabled r; nr_ptypes := p;
     nr_rtypes := q; nr_pdomains := nr_pdomains r; nr_rdomains := nr_rdomains r;
     nr_denyallow := nr_denyallow r; nr_pdns := nr_pdns r; nr_rdns := nr_rdns r; nr_ptags := nr_ptags r;
     nr_rtags := nr_rtags r; nr_pclients := nr_pclients r; nr_rclients := nr_rclients r;
     nr_dnsrewrite := nr_dnsrewrite r |}.
Definition set_domains (r : net_rule) (p q : list bytes) : net_rule :=
  {| nr_text := nr_text r; nr_list := nr_list r; nr_whitelist := nr_whitelist r; nr_pattern := nr_pattern r;
     nr_shortcut := nr_shortcut r; nr_enabled := nr_enabled r; nr_disabled := nr_disabled r; nr_ptypes := nr_ptypes r;
     nr_rtypes := nr_rtypes r; nr_pdomains := p; nr_rdomains := q;
     nr_denyallow := nr_denyallow r; nr_pdns := nr_pdns r; nr_rdns := nr_rdns r; nr_ptags := nr_ptags r;
     nr_rtags := nr_rtags r; nr_pclients := nr_pclients r; nr_rclients := nr_rclients r;
     nr_dnsrewrite := nr_dnsrewrite r |}.
Definition set_denyallow (r : net_rule) (p : list bytes) : net_rule :=
  {| nr_text := nr_text r; nr_list := nr_list r; nr_whitelist := nr_whitelist r; nr_pattern := nr_pattern r;
     nr_shortcut := nr_shortcut r; nr_enabled := nr_enabled r; nr_disabled := nr_disabled r; nr_ptypes := nr_ptypes r;
     nr_rtypes := nr_rtypes r; nr_pdomains := nr_pdomains r; nr_rdomains := nr_rdomains r;
     nr_denyallow := p; nr_pdns := nr_pdns r; nr_rdns := nr_rdns r; nr_ptags := nr_ptags r;
     nr_rtags := nr_rtags r; nr_pclients := nr_pclients r; nr_rclients := nr_rclients r;
     nr_dnsrewrite := nr_dnsrewrite r |}.
Definition set_dnstypes (r : net_rule) (p q : list N) : net_rule :=
  {| nr_text := nr_text r; nr_list := nr_list r; nr_whitelist := nr_whitelist r; nr_pattern := nr_pattern r;
     nr_shortcut := nr_shortcut r; nr_enabled := nr_enabled r; nr_disabled := nr_disabled r; nr_ptypes := nr_ptypes r;
     nr_rtypes := nr_rtypes r; nr_pdomains := nr_pdomains r; nr_rdomains := nr_rdomains r;
     nr_denyallow := nr_denyallow r; nr_pdns := p; nr_rdns := q; nr_ptags := nr_ptags r;
     nr_rtags := nr_rtags r; nr_pclients := nr_pclients r; nr_rclients := nr_rclients r;
     nr_dnsrewrite := nr_dnsrewrite r |}.
Definition set_tags (r : net_rule) (p q : list bytes) : net_rule :=
  {| nr_text := nr_text r; nr_list := nr_list r; nr_whitelist := nr_whitelist r; nr_pattern := nr_pattern r;
     nr_shortcut := nr_shortcut r; nr_enabled := nr_enabled r; nr_disabled := nr_disabled r; nr_ptypes := nr_ptypes r;
     nr_rtypes := nr_rtypes r; nr_pdomains := nr_pdomains r; nr_rdomains := nr_rdomains r;
     nr_denyallow := nr_denyallow r; nr_pdns := nr_pdns r; nr_rdns := nr_rdns r; nr_ptags := p;
     nr_rtags := q; nr_pclients := nr_pclients r; nr_rclients := nr_rclients r;
     nr_dnsrewrite := nr_dnsrewrite r |}.
Definition set_clients (r : net_rule) (p q : option clients) : net_rule :=
  {| nr_text := nr_text r; nr_list := nr_list r; nr_whitelist := nr_whitelist r; nr_pattern := nr_pattern r;
     nr_shortcut := nr_shortcut r; nr_enabled := nr_enabled r; nr_disabled := nr_disabled r; nr_ptypes := nr_ptypes r;
     nr_rtypes := nr_rtypes r; nr_pdomains := nr_pdomains r; nr_rdomains := nr_rdomains r;
     nr_denyallow := nr_denyallow r; nr_pdns := nr_pdns r; nr_rdns := nr_rdns r; nr_ptags := nr_ptags r;
     nr_rtags := nr_rtags r; nr_pclients := p; nr_rclients := q;
     nr_dnsrewrite := nr_dnsrewrite r |}.
Definition set_dnsrewrite (r : net_rule) (d : option dnsrewrite) : net_rule :=
  {| nr_text := nr_text r; nr_list := nr_list r; nr_whitelist := nr_whitelist r; nr_pattern := nr_pattern r;
     nr_shortcut := nr_shortcut r; nr_enabled := nr_enabled r; nr_disabled := nr_disabled r; nr_ptypes := nr_ptypes r;
     nr_rtypes := nr_rtypes r; nr_pdomains := nr_pdomains r; nr_rdomains := nr_rdomains r;
     nr_denyallow := nr_denyallow r; nr_pdns := nr_pdns r; nr_rdns := nr_rdns r; nr_ptags := nr_ptags r;
     nr_rtags := nr_rtags r; nr_pclients := nr_pclients r; nr_rclients := nr_rclients r;
     nr_dnsrewrite := d |}.
Definition set_pattern_shortcut (r : net_rule) (p s : bytes) : net_rule :=
  {| nr_text := nr_text r; nr_list := nr_list r; nr_whitelist := nr_whitelist r; nr_pattern := p;
     nr_shortcut := s; nr_enabled := nr_enabled r; nr_disabled := nr_disabled r; nr_ptypes := nr_ptypes r;
     nr_rtypes := nr_rtypes r; nr_pdomains := nr_pdomains r; nr_rdomains := nr_rdomains r;
     nr_denyallow := nr_denyallow r; nr_pdns := nr_pdns r; nr_rdns := nr_rdns r; nr_ptags := nr_ptags r;
     nr_rtags := nr_rtags r; nr_pclients := nr_pclients r; nr_rclients := nr_rclients r;
     nr_dnsrewrite := nr_dnsrewrite r |}.

Definition is_opt_enabled (r : net_rule) (o : N) : bool := has_opt (nr_enabled r) o.
Definition is_opt_disabled (r : net_rule) (o : N) : bool := has_opt (nr_disabled r) o.

(* ---- parseRuleText (network.go:974-1019) ---- *)
Definition bslash : byte := "\"%byte.
Definition dollar : byte := "$"%byte.

(* the right-to-left scan for the options delimiter; idx counts down from len-2.
   [pre] = reversed text before idx+1 (so its head is ruleText[idx]); [post] = text after idx. *)
Fixpoint find_delim (pre_rev : bytes) (post : bytes) (has_escaped : bool) : option (bytes * bytes * bool) :=
  match pre_rev with
  | [] => None
  | c :: pre' =>
    if negb (beq c dollar) then find_delim pre' (c :: post) has_escaped
    else match pre' with
         | p :: _ => if negb has_escaped && beq p bslash then find_delim pre' (c :: post) true
                     else Some (rev' pre', post, has_escaped)
         | [] => Some ([], post, has_escaped)
         end
  end.

Definition parse_rule_text (text : bytes) : res (bytes * bytes * bool) :=
  if isnil text || bytes_eqb text $"@@" then Err else
  let wl := has_prefix $"@@" text in
  let t := if wl then skipn 2 text else text in
  if has_prefix $"/" t && has_suffix $"/" t && negb (contains $"replace=" t) then Ok (t, [], wl) else
  (* idx starts at len-2: the last byte is never a delimiter *)
  match rev' t with
  | [] => Ok (t, [], wl)
  | lastc :: pre_rev =>
    match find_delim pre_rev [lastc] false with
    | None => Ok (t, [], wl)
    | Some (pat, opts, esc) =>
      let opts' := if esc then replace_all $"\$" $"$" opts else opts in
      Ok (pat, opts', wl)
    end
  end.

(* ---- value loaders (rules/rule.go) ---- *)
Definition strip_tilde (d : bytes) : bool * bytes :=
  match d with c :: d' => if beq c "~"%byte then (true, d') else (false, d) | [] => (false, d) end.

(* loadDomains *)
Fixpoint load_domains_aux (l : list bytes) (p r : list bytes) : option (list bytes * list bytes) :=
  match l with
  | [] => Some (rev' p, rev' r)
  | d0 :: l' =>
    let '(restricted, d) := strip_tilde d0 in
    if negb (is_domain_name d) && negb (has_suffix $".*" d) then None
    else if restricted then load_domains_aux l' p (d :: r) else load_domains_aux l' (d :: p) r
  end.
Definition load_domains (v : bytes) (sep : byte) : option (list bytes * list bytes) :=
  if isnil v then None else load_domains_aux (split_byte sep v) [] [].

(* loadDNSTypes *)
Fixpoint load_dnstypes_aux (l : list bytes) (p r : list N) : option (list N * list N) :=
  match l with
  | [] => Some (rev' p, rev' r)
  | s0 :: l' =>
    if isnil s0 then None else
    let '(restricted, s) := strip_tilde s0 in
    match str_to_rrtype s with
    | None => None
    | Some rr => if restricted then load_dnstypes_aux l' p (rr :: r) else load_dnstypes_aux l' (rr :: p) r
    end
  end.
Definition load_dnstypes (v : bytes) : option (list N * list N) :=
  if isnil v then None else load_dnstypes_aux (split_byte "|"%byte v) [] [].

(* loadCTags; slices.Sort on strings *)
Definition is_valid_ctag (s : bytes) : bool :=
  forallb (fun c => is_lower c || is_digit c || beq c "_"%byte) s.
Fixpoint load_ctags_aux (l : list bytes) (p r : list bytes) : option (list bytes * list bytes) :=
  match l with
  | [] => Some (sort_by bytes_leb (rev' p), sort_by bytes_leb (rev' r))
  | d0 :: l' =>
    let '(restricted, d) := strip_tilde d0 in
    if negb (is_valid_ctag d) then None
    else if restricted then load_ctags_aux l' p (d :: r) else load_ctags_aux l' (d :: p) r
  end.
Definition load_ctags (v : bytes) : option (list bytes * list bytes) :=
  if isnil v then None else load_ctags_aux (split_byte "|"%byte v) [] [].

(* clients.add *)
Definition clients_add (c : clients) (client : bytes) : res clients :=
  let as_host := Ok {| c_hosts := c_hosts c ++ [client]; c_nets := c_nets c |} in
  if is_probably_ip client then
    match parse_addr client with
    | Ok ip => Ok {| c_hosts := c_hosts c; c_nets := c_nets c ++ [(ip, bit_len ip)] |}
    | Unsupported => Unsupported
    | _ => as_host
    end
  else if mem_byte "/"%byte client then
    match parse_prefix client with
    | Ok p => Ok {| c_hosts := c_hosts c; c_nets := c_nets c ++ [masked p] |}
    | Unsupported => Unsupported
    | _ => as_host
    end
  else as_host.
Definition clients_finalize (c : option clients) : option clients :=
  option_map (fun c => {| c_hosts := sort_by bytes_leb (c_hosts c); c_nets := sort_by prefix_leb (c_nets c) |}) c.

(* loadClients *)
Definition unquote_client (client : bytes) : bytes :=
  let q : option byte :=
    match client, last_byte client with
    | c :: _ :: _, Some l => if (beq c "'"%byte || beq c """"%byte) && beq c l then Some c else None
    | _, _ => None
    end in
  let body := match q with Some _ => removelast (tl client) | None => client end in
  let body := replace_all $"\," $"," body in
  match q with Some qc => replace_all [bslash; qc] [qc] body | None => body end.
Fixpoint load_clients_aux (l : list bytes) (p r : option clients) : res (option clients * option clients) :=
  match l with
  | [] => Ok (clients_finalize p, clients_finalize r)
  | s :: l' =>
    let '(restricted, c0) := strip_tilde s in
    let client := unquote_client c0 in
    if isnil client then Err else
    let empty := {| c_hosts := []; c_nets := [] |} in
    if restricted then
      do r' <- clients_add (match r with Some x => x | None => empty end) client;
      load_clients_aux l' p (Some r')
    else
      do p' <- clients_add (match p with Some x => x | None => empty end) client;
      load_clients_aux l' (Some p') r
  end.
Definition load_clients (v : bytes) : res (option clients * option clients) :=
  if isnil v then Err else load_clients_aux (split_with_escape v "|"%byte bslash false) None None.

(* ---- setOptionEnabled / loadOption ---- *)
Definition set_option_enabled (r : net_rule) (o : N) (enabled : bool) : res net_rule :=
  if nr_whitelist r && N.eqb (N.land o OptBlacklistOnly) o then Err
  else if negb (nr_whitelist r) && N.eqb (N.land o OptWhitelistOnly) o then Err
  else if enabled then Ok (set_enabled r (N.lor (nr_enabled r) o))
  else Ok (set_disabled r (N.lor (nr_disabled r) o)).
(* the "_ = f.setOptionEnabled(..)" calls of $document: errors ignored *)
Definition set_option_ignore (r : net_rule) (o : N) : net_rule :=
  match set_option_enabled r o true with Ok r' => r' | _ => r end.

Definition request_type_names : list (bytes * N) :=
  [($"script", TypeScript); ($"stylesheet", TypeStylesheet); ($"subdocument", TypeSubdocument);
   ($"object", TypeObject); ($"image", TypeImage); ($"xmlhttprequest", TypeXmlhttprequest);
   ($"media", TypeMedia); ($"font", TypeFont); ($"websocket", TypeWebsocket); ($"ping", TypePing);
   ($"other", TypeOther)].

Definition simple_options : list (bytes * (N * bool)) :=
  [($"third-party", (OptThirdParty, true)); ($"~first-party", (OptThirdParty, true));
   ($"~third-party", (OptThirdParty, false)); ($"first-party", (OptThirdParty, false));
   ($"match-case", (OptMatchCase, true)); ($"~match-case", (OptMatchCase, false));
   ($"important", (OptImportant, true)); ($"badfilter", (OptBadfilter, true));
   ($"elemhide", (OptElemhide, true)); ($"generichide", (OptGenerichide, true));
   ($"genericblock", (OptGenericblock, true)); ($"jsinject", (OptJsinject, true));
   ($"urlblock", (OptUrlblock, true)); ($"content", (OptContent, true));
   ($"extension", (OptExtension, true)); ($"stealth", (OptStealth, true));
   ($"popup", (OptPopup, true)); ($"empty", (OptEmpty, true)); ($"mp4", (OptMp4, true))].

Definition load_option (r : net_rule) (name value : bytes) : res net_rule :=
  match assoc_bytes name simple_options with
  | Some (o, en) => set_option_enabled r o en
  | None =>
    if bytes_eqb name $"dnstype" then
      match load_dnstypes value with Some (p, q) => Ok (set_dnstypes r p q) | None => Err end
    else if bytes_eqb name $"dnsrewrite" then
      do d <- load_dnsrewrite value; Ok (set_dnsrewrite r (Some d))
    else if bytes_eqb name $"domain" then
      match load_domains value "|"%byte with Some (p, q) => Ok (set_domains r p q) | None => Err end
    else if bytes_eqb name $"denyallow" then
      match load_domains value "|"%byte with
      | Some (p, q) => if negb (isnil q) || isnil p then Err else Ok (set_denyallow r p)
      | None => Err
      end
    else if bytes_eqb name $"ctag" then
      match load_ctags value with Some (p, q) => Ok (set_tags r p q) | None => Err end
    else if bytes_eqb name $"client" then
      do pq <- load_clients value; Ok (set_clients r (fst pq) (snd pq))
    else if bytes_eqb name $"~extension" then
      Ok (set_enabled r (N.lxor (nr_enabled r) OptExtension))
    else if bytes_eqb name $"document" then
      match set_option_enabled r OptElemhide true with
      | Ok r1 => Ok (set_option_ignore (set_option_ignore (set_option_ignore (set_option_ignore r1
                       OptJsinject) OptUrlblock) OptContent) OptExtension)
      | _ =>
        (* the error of the first call is returned, but the other four calls still ran;
           the rule is discarded on error, so their effect is unobservable *)
        Err
      end
    else
      let '(neg, base) := strip_tilde name in
      match assoc_bytes base request_type_names with
      | Some t => if neg then Ok (set_types r (nr_ptypes r) (N.lor (nr_rtypes r) t))
                  else Ok (set_types r (N.lor (nr_ptypes r) t) (nr_rtypes r))
      | None => Err
      end
  end.

(* loadOptions *)
Fixpoint load_option_list (r : net_rule) (l : list bytes) : res net_rule :=
  match l with
  | [] => Ok r
  | o :: l' =>
    let step := match index_byte "="%byte o with
                | Some (S i) => load_option r (firstn (S i) o) (skipn (S (S i)) o)
                | _ => load_option r o []
                end in
    do r' <- step; load_option_list r' l'
  end.
Definition doc_level_opts : list N :=
  [OptJsinject; OptElemhide; OptContent; OptUrlblock; OptGenericblock; OptGenerichide; OptExtension; OptPopup].
Definition load_options (r : net_rule) (options : bytes) : res net_rule :=
  if isnil options then Ok r else
  do r' <- load_option_list r (split_with_escape options ","%byte bslash false);
  if existsb (is_opt_enabled r') doc_level_opts then Ok (set_types r' TypeDocument (nr_rtypes r')) else Ok r'.

(* ---- shortcuts ---- *)
(* findShortcut (network.go:909-933) *)
Fixpoint find_shortcut_aux (fuel : nat) (pattern shortcut : bytes) : bytes :=
  match fuel with
  | O => shortcut
  | S f =>
    if isnil pattern then shortcut else
    match index_any $"*^|" pattern with
    | None => if (length shortcut <? length pattern)%nat then pattern else shortcut
    | Some i =>
      let sc := if (length shortcut <? i)%nat then firstn i pattern else shortcut in
      find_shortcut_aux f (skipn (S i) pattern) sc
    end
  end.
Definition find_shortcut (pattern : bytes) : bytes := find_shortcut_aux (S (length pattern)) pattern [].

(* findRegexpShortcut (network.go:935-990, after the repair): the regexp.ReplaceAllString calls
   written out as functions; "." never meets a newline because the caller declares patterns
   with a newline Unsupported. *)
Definition dots : bytes := $"...".
(* [^)\]}](\*|\{0)  ->  "..." $1 *)
Fixpoint strip_optional (s : bytes) : bytes :=
  match s with
  | [] => []
  | x :: rest =>
    if mem_byte x $")]}" then x :: strip_optional rest else
    match rest with
    | [] => [x]
    | y :: rest2 =>
      if beq y "*"%byte then dots ++ y :: strip_optional rest2
      else if beq y "{"%byte then
        match rest2 with
        | z :: rest3 => if beq z "0"%byte then dots ++ y :: z :: strip_optional rest3 else x :: strip_optional rest
        | [] => x :: strip_optional rest
        end
      else x :: strip_optional rest
    end
  end.
(* the remainder after the LAST "[^\\]c" in t (greedy ".*") *)
Fixpoint last_close (c : byte) (t : bytes) : option bytes :=
  match t with
  | x :: ((y :: t2) as t1) =>
    match last_close c t1 with
    | Some r => Some r
    | None => if negb (beq x bslash) && beq y c then Some t2 else None
    end
  | _ => None
  end.
(* ([^\\])o.*[^\\]c  ->  $1 "..." *)
Fixpoint strip_brackets (fuel : nat) (o c : byte) (s : bytes) : bytes :=
  match fuel with
  | O => s
  | S f =>
    match s with
    | x :: ((y :: t) as s1) =>
      if negb (beq x bslash) && beq y o then
        match last_close c t with
        | Some r => x :: dots ++ strip_brackets f o c r
        | None => x :: strip_brackets f o c s1
        end
      else x :: strip_brackets f o c s1
    | _ => s
    end
  end.
(* \\[a-zA-Z] -> "..." *)
Fixpoint strip_escaped (s : bytes) : bytes :=
  match s with
  | [] => []
  | x :: rest =>
    if beq x bslash then
      match rest with
      | y :: rest2 => if is_alpha y then dots ++ strip_escaped rest2 else x :: strip_escaped rest
      | [] => [x]
      end
    else x :: strip_escaped rest
  end.
(* \\[0-9xpPQ] occurs *)
Fixpoint has_complex_escape (s : bytes) : bool :=
  match s with
  | x :: ((y :: _) as rest) => (beq x bslash && (is_digit y || mem_byte y $"xpPQ")) || has_complex_escape rest
  | _ => false
  end.
Definition regex_specials : bytes := $"\^$*+?.()|[]{}".
Fixpoint split_specials (s : bytes) (cur : bytes) : list bytes :=
  match s with
  | [] => [rev' cur]
  | x :: s' => if mem_byte x regex_specials then rev' cur :: split_specials s' [] else split_specials s' (x :: cur)
  end.
Definition longest (parts : list bytes) : bytes :=
  fold_left (fun best p => if (length best <? length p)%nat then p else best) parts [].
Definition find_regexp_shortcut (pattern : bytes) : bytes :=
  let p := removelast (tl pattern) in
  if existsb (fun c => mem_byte c $"?|") p || has_complex_escape p then [] else
  let p := dots ++ p in
  let p := strip_optional p in
  let n := length p in
  let p := strip_brackets n "("%byte ")"%byte p in
  let p := strip_brackets n "{"%byte "}"%byte p in
  let p := strip_brackets n "["%byte "]"%byte p in
  let p := strip_escaped p in
  if existsb (fun c => mem_byte c $"([{)]}") p then [] else
  longest (split_specials p []).

Definition is_regex_pattern (p : bytes) : bool :=
  match p, last_byte p with
  | c :: _ :: _, Some l => beq c "/"%byte && beq l "/"%byte
  | _, _ => false
  end.

(* loadShortcut *)
Definition load_shortcut (pattern : bytes) : bytes :=
  let sc := if is_regex_pattern pattern then find_regexp_shortcut pattern else find_shortcut pattern in
  if (1 <? length sc)%nat then to_lower sc else [].

(* ---- NewNetworkRule ---- *)
Definition no_restrictions (r : net_rule) : bool :=
  isnil (nr_pdomains r) && isnil (nr_rdomains r) && (clients_len (nr_pclients r) =? 0)%nat
  && (clients_len (nr_rclients r) =? 0)%nat && isnil (nr_ptags r) && isnil (nr_rtags r)
  && isnil (nr_pdns r) && isnil (nr_rdns r) && isnil (nr_denyallow r).

Definition new_network_rule (text : bytes) (id : Z) : res net_rule :=
  (* the modelled fragment: ASCII text without line breaks (range loops over runes, ToUpper,
     "." in the shortcut expressions) *)
  if negb (all_ascii text) || mem_byte x0a text then Unsupported else
  do ppw <- parse_rule_text text;
  let '(pattern, options, wl) := ppw in
  do r <- load_options (nr_blank text id wl pattern) options;
  let pat' := if has_suffix $"/*" pattern then firstn (length pattern - 2) pattern ++ $"^" else pattern in
  if (bytes_eqb pattern $"||" || bytes_eqb pattern $"|" || bytes_eqb pattern $"*" || isnil pattern
      || (length pattern <? 3)%nat) && no_restrictions r then Err
  else Ok (set_pattern_shortcut r pat' (load_shortcut pat')).

(* canonical rendering of the parsed fields, in the order of the harness (sorted keys of VerifFields) *)
Definition show_clients (c : option clients) : bytes :=
  match c with
  | None => $"nil"
  | Some c => $"hosts:" ++ enc_list (c_hosts c) ++ $";nets:" ++ join $"," (map show_prefix (c_nets c))
  end.
Definition show_nums (l : list N) : bytes := join $"," (map dec_of_N l).
Definition show_rule (r : net_rule) : bytes :=
  join $"|" [
    $"denyallow=" ++ enc_list (nr_denyallow r);
    $"disabled=" ++ dec_of_N (nr_disabled r);
    $"dnsrewrite=" ++ show_dnsrewrite (nr_dnsrewrite r);
    $"enabled=" ++ dec_of_N (nr_enabled r);
    $"pattern=" ++ hex_encode (nr_pattern r);
    $"pclients=" ++ show_clients (nr_pclients r);
    $"pdns=" ++ show_nums (nr_pdns r);
    $"pdomains=" ++ enc_list (nr_pdomains r);
    $"ptags=" ++ enc_list (nr_ptags r);
    $"ptypes=" ++ dec_of_N (nr_ptypes r);
    $"rclients=" ++ show_clients (nr_rclients r);
    $"rdns=" ++ show_nums (nr_rdns r);
    $"rdomains=" ++ enc_list (nr_rdomains r);
    $"rtags=" ++ enc_list (nr_rtags r);
    $"rtypes=" ++ dec_of_N (nr_rtypes r);
    $"shortcut=" ++ hex_encode (nr_shortcut r);
    $"whitelist=" ++ (if nr_whitelist r then $"true" else $"false")
  ].
