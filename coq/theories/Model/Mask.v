(* rules/regex.go: patternToRegexp, on text, step by step as the Go code (with the one-character
   repair); and preparePattern / matchPattern of rules/network.go. *)
From Coq Require Import List Arith NArith Bool.
From Coq Require Import Strings.Byte.
From UF Require Import Base.Lit Base.Bytes Model.Regex.
Import ListNotations.

Definition pipe : byte := "|"%byte.
Definition star : byte := "*"%byte.
Definition caret : byte := "^"%byte.
Definition bslash : byte := "\"%byte.
(* specialCharReplacer: . + ? $ { } ( ) [ ] / \  ->  backslash + the character *)
Definition is_special (c : byte) : bool := existsb (beq c) $".+?${}()[]/\".
Definition esc1 (c : byte) : bytes := if is_special c then [bslash; c] else [c].
Definition escape (p : bytes) : bytes := flat_map esc1 p.
Definition SEP : bytes := $"([^ a-zA-Z0-9.%_-]|$)".
Definition STARTURL : bytes := $"^(http|https|ws|wss)://([a-z0-9-_.]+\.)?".
Definition ANY : bytes := $".*".
Definition is_early (p : bytes) : bool :=
  bytes_eqb p $"||" || bytes_eqb p $"|" || bytes_eqb p $"*" || bytes_eqb p [].
Definition is_regex_pat (p : bytes) : bool :=
  match p, last_byte p with
  | c :: _ :: _, Some l => beq c "/"%byte && beq l "/"%byte
  | _, _ => false
  end.

(* regex.go:84-94: escape the pipes that are not at the special places; the slice expressions
   are checked (Crash = Go panic) *)
Definition escape_inner_pipes (e : bytes) : res bytes :=
  if has_prefix $"||" e then
    match slice_chk e 0 2, slice_chk e 2 (length e - 1), slice_chk e (length e - 1) (length e) with
    | Ok a, Ok m, Ok z => Ok (a ++ replace1 pipe [bslash; pipe] m ++ z)
    | _, _, _ => Crash
    end
  else if (1 <? length e)%nat then
    match slice_chk e 0 1, slice_chk e 1 (length e - 1), slice_chk e (length e - 1) (length e) with
    | Ok a, Ok m, Ok z => Ok (a ++ replace1 pipe [bslash; pipe] m ++ z)
    | _, _, _ => Crash
    end
  else Ok e.

Definition pattern_to_regexp (p : bytes) : res bytes :=
  if is_early p then Ok ANY
  else if is_regex_pat p then slice_chk p 1 (length p - 1)
  else
    do e1 <- escape_inner_pipes (escape p);
    let e2 := replace1 star ANY e1 in
    let e3 := replace1 caret SEP e2 in
    let e4 := if has_prefix $"||" e3 then STARTURL ++ skipn 2 e3
              else if has_prefix $"|" e3 then $"^" ++ skipn 1 e3 else e3 in
    let e5 := if has_suffix $"|" e4 then removelast e4 ++ $"$" else e4 in
    Ok e5.

(* preparePattern: what the rule's pattern compiles to *)
Inductive prepared :=
| PAny                       (* res = 0: matches everything *)
| PInvalid                   (* res = -1: regexp.Compile failed *)
| PRe (text : bytes) (cr : bool * re).
Definition prepare_pattern (pattern : bytes) (match_case : bool) : res prepared :=
  do text <- pattern_to_regexp pattern;
  if bytes_eqb text ANY then Ok PAny else
  let text' := if match_case then text else $"(?i)" ++ text in
  match compile text' with
  | Ok cr => Ok (PRe text' cr)
  | Err => Ok PInvalid
  | Crash => Crash
  | Unsupported => Unsupported
  end.
