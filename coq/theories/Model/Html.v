(* proxy/htmlfilter.go: filterHTML, findBodyInjectionIndex, isMatchFound; the Latin-1 round trip of
   gomitmproxy/proxyutil (charmap.ISO8859_1 decoder to UTF-8 and encoder back).  Bodies are byte
   strings over all 256 values; the decoded text is the UTF-8 byte string Go works on, so every
   index below is an index into UTF-8 bytes exactly as in the code. *)
From Coq Require Import List Arith NArith Bool.
From Coq Require Import Strings.Byte.
From UF Require Import Base.Lit Base.Bytes.
Import ListNotations.

(* charmap.ISO8859_1.NewDecoder(): byte b -> code point b -> UTF-8 (1 byte below 0x80, else 2 bytes) *)
Definition dec1 (b : byte) : bytes :=
  if is_ascii b then [b]
  else [n2b (192 + N.div (b2n b) 64); n2b (128 + N.modulo (b2n b) 64)].
Definition latin1_decode (s : bytes) : bytes := flat_map dec1 s.

(* charmap.ISO8859_1.NewEncoder(): UTF-8 -> bytes; a code point above 0xFF or malformed UTF-8 is an error *)
Fixpoint latin1_encode (u : bytes) : res bytes :=
  match u with
  | [] => Ok []
  | a :: u1 =>
    if is_ascii a then do r <- latin1_encode u1; Ok (a :: r)
    else if N.eqb (b2n a) 194 || N.eqb (b2n a) 195 then
      match u1 with
      | c :: u2 =>
        if in_range 128 191 c then do r <- latin1_encode u2; Ok (n2b ((b2n a - 192) * 64 + (b2n c - 128)) :: r)
        else Err
      | [] => Err
      end
    else Err
  end.

Definition head_buffer_size : nat := 128 * 128.
Definition markers : list bytes := [$"</head"; $"<link"; $"<style"; $"<script"].

(* isMatchFound(body, match, i) for the text starting at i: the length guard and strings.EqualFold
   against a lower-case ASCII marker.  A byte >= 0x80 (part of a two-byte sequence of a code point
   below 0x100) never folds to an ASCII letter, so the comparison is byte-wise after ASCII lower-casing. *)
Fixpoint prefix_fold (m s : bytes) : bool :=
  match m, s with
  | [], _ => true
  | x :: m', y :: s' => beq (lower_b y) x && prefix_fold m' s'
  | _ :: _, [] => false
  end.
Definition marker_here (s : bytes) : bool := existsb (fun m => prefix_fold m s) markers.

(* findBodyInjectionIndex: "for i := 0; i < min(headBufferSize, len(body)); i++" — [budget] positions are
   inspected; the index is relative to the start of [u] *)
Fixpoint find_injection (u : bytes) (budget : nat) {struct budget} : option nat :=
  match budget with
  | O => None
  | S b =>
    if marker_here u then Some 0
    else match u with
         | [] => None
         | _ :: u' => option_map S (find_injection u' b)
         end
  end.

(* filterHTML after decompression: decode, splice the injection (a UTF-8 string) at the index, encode *)
Definition filter_html (body tag : bytes) : res bytes :=
  let u := latin1_decode body in
  match find_injection u head_buffer_size with
  | Some i => latin1_encode (firstn i u ++ tag ++ skipn i u)
  | None => latin1_encode u
  end.
