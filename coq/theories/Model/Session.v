(* The hidden state behind the engines, made explicit (state passing):
   - filterlist/storage.go RuleStorage.cache and RetrieveRule / RetrieveNetworkRule / RetrieveHostRule,
     with the backing lists readable or not (RuleStorage.Close, a closed file descriptor);
   - rules/network.go preparePattern: the lazily compiled expression and the invalid flag, kept in the
     rule OBJECT (objects are shared through the cache; the sequential table keeps its own objects);
   - dnsengine.go getRequestFromPool: request objects reused through the pool.
   Every engine function is re-written here as a state transformer that performs exactly these effects
   in the order of the Go code.  Proofs/SessionProofs.v shows that the values they return are the pure
   functions of Model/Engines.v. *)
From Coq Require Import List Arith NArith ZArith Bool.
From Coq Require Import Strings.Byte.
From UF Require Import Base.Lit Base.Bytes Model.Options Model.Netip Model.Domain Model.NetRule Model.Rule
  Model.Regex Model.Mask Model.Request Model.Match Model.Result Model.Engines.
Import ListNotations.

(* rule objects *)
(* [tag] tells the engines apart: each keeps its own sequential table *)
Inductive obj := OCache (idx : Z) | OSeq (tag : nat) (n : nat).
Definition obj_eqb (a b : obj) : bool :=
  match a, b with
  | OCache i, OCache j => Z.eqb i j
  | OSeq t n, OSeq u m => Nat.eqb t u && Nat.eqb n m
  | _, _ => false
  end.

Record sstate := {
  ss_cache : list (Z * rule);            (* RuleStorage.cache *)
  ss_readable : bool;                    (* the backing lists can still be read *)
  ss_memo : list (obj * prepared);       (* NetworkRule.regex / invalid of each rule object *)
  ss_pool : list request                 (* DNSEngine.pool: request objects with stale field values *)
}.
Definition ss_init : sstate := {| ss_cache := []; ss_readable := true; ss_memo := []; ss_pool := [] |}.

Fixpoint assoc_idx {A} (k : Z) (l : list (Z * A)) : option A :=
  match l with [] => None | (k', v) :: l' => if Z.eqb k k' then Some v else assoc_idx k l' end.
Fixpoint assoc_obj {A} (k : obj) (l : list (obj * A)) : option A :=
  match l with [] => None | (k', v) :: l' => if obj_eqb k k' then Some v else assoc_obj k l' end.

(* state transformers *)
Definition M (A : Type) := sstate -> sstate * A.
Definition ret {A} (a : A) : M A := fun s => (s, a).
Definition bind {A B} (m : M A) (k : A -> M B) : M B := fun s => let '(s1, a) := m s in k a s1.
Fixpoint foldM {A B} (f : A -> B -> M A) (l : list B) (a : A) : M A :=
  match l with
  | [] => ret a
  | x :: l' => bind (f a x) (fun a' => foldM f l' a')
  end.

Section Session.
Variable hash : bytes -> N.
Variable psl : bytes -> bytes * bool.
(* what the lists hold at a storage index while they are readable (C11: the rule scanned with that index) *)
Variable backing : Z -> option rule.

(* RuleStorage.RetrieveRule: cache hit, else read the list; only a successful read is cached *)
Definition retrieve (idx : Z) : M (option rule) := fun s =>
  match assoc_idx idx (ss_cache s) with
  | Some r => (s, Some r)
  | None =>
    if ss_readable s then
      match backing idx with
      | Some r => ({| ss_cache := (idx, r) :: ss_cache s; ss_readable := ss_readable s;
                      ss_memo := ss_memo s; ss_pool := ss_pool s |}, Some r)
      | None => (s, None)
      end
    else (s, None)
  end.
Definition retrieve_net (idx : Z) : M (option net_rule) :=
  bind (retrieve idx) (fun r => ret (match r with Some (RNet f) => Some f | _ => None end)).
Definition retrieve_host (idx : Z) : M (option host_rule) :=
  bind (retrieve idx) (fun r => ret (match r with Some (RHost h) => Some h | _ => None end)).

(* RuleStorage.Close / descriptor replaced by a closed one *)
Definition close_storage : M unit := fun s =>
  ({| ss_cache := ss_cache s; ss_readable := false; ss_memo := ss_memo s; ss_pool := ss_pool s |}, tt).

(* matchPattern after preparePattern returned [pp] *)
Definition apply_prepared (f : net_rule) (r : request) (pp : prepared) : res bool :=
  match pp with
  | PAny => Ok true
  | PInvalid => Ok false
  | PRe _ cr =>
    let subject := if should_match_hostname f r then rq_hostname r else rq_url r in
    if all_ascii subject then Ok (match_string cr subject) else Unsupported
  end.

(* preparePattern on the object [o] holding rule [f]: a compiled expression or the invalid flag found in the
   object is used as it is; otherwise the pattern is compiled and the outcome stored (the match-anything
   outcome is not stored: the code recomputes it every time) *)
Definition match_pattern_st (o : obj) (f : net_rule) (r : request) : M (res bool) := fun s =>
  match assoc_obj o (ss_memo s) with
  | Some pp => (s, apply_prepared f r pp)
  | None =>
    match prepare_pattern (nr_pattern f) (is_opt_enabled f OptMatchCase) with
    | Ok PAny => (s, Ok true)
    | Ok pp => ({| ss_cache := ss_cache s; ss_readable := ss_readable s; ss_memo := (o, pp) :: ss_memo s;
                   ss_pool := ss_pool s |}, apply_prepared f r pp)
    | Err => (s, Err) | Crash => (s, Crash) | Unsupported => (s, Unsupported)
    end
  end.

(* the conjuncts of NetworkRule.Match that precede matchPattern (no state involved) *)
Definition before_pattern (f : net_rule) (r : request) : res bool :=
  if negb (match_shortcut f r) then Ok false
  else if is_opt_enabled f OptThirdParty && negb (rq_third_party r) then Ok false
  else if is_opt_disabled f OptThirdParty && rq_third_party r then Ok false
  else if negb (match_request_type f (rq_type r)) then Ok false
  else
    do rd <- match_request_domain psl f (rq_hostname r) (rq_is_hostname r);
    if negb rd then Ok false
    else if negb (match_source_domain psl f (rq_source_hostname r)) then Ok false
    else if negb (match_dns_type f (rq_dnstype r)) then Ok false
    else if negb (match_client_tags f (rq_tags r)) then Ok false
    else if negb (match_client f (rq_client_name r) (rq_client_ip r)) then Ok false
    else Ok true.

Definition rule_match_st (o : obj) (f : net_rule) (r : request) : M (res bool) :=
  match before_pattern f r with
  | Ok true => match_pattern_st o f r
  | x => ret x
  end.
Definition rmatch_st (o : obj) (f : net_rule) (r : request) : M bool :=
  bind (rule_match_st o f r) (fun x => ret (match x with Ok b => b | _ => false end)).

(* ---- lookup tables ---- *)
Definition sc_step_st (q : request) (res : list (Z * net_rule)) (idx : Z) : M (list (Z * net_rule)) :=
  bind (retrieve_net idx) (fun r =>
    match r with
    | None => ret res
    | Some f =>
      if existsb (fun x => Z.eqb (fst x) idx) res then ret res
      else bind (rmatch_st (OCache idx) f q) (fun b => ret (if b then res ++ [(idx, f)] else res))
    end).
Definition match_shortcuts_st (e : net_engine) (q : request) : M (list (Z * net_rule)) :=
  foldM (fun res w => foldM (sc_step_st q) (bucket (ne_shortcuts e) (hash w)) res) (windows (rq_url_lower q)) [].

Definition dom_step_st (q : request) (res : list net_rule) (idx : Z) : M (list net_rule) :=
  bind (retrieve_net idx) (fun r =>
    match r with
    | None => ret res
    | Some f => bind (rmatch_st (OCache idx) f q) (fun b => ret (if b then res ++ [f] else res))
    end).
Definition match_domains_st (e : net_engine) (q : request) : M (list net_rule) :=
  if isnil (rq_source_hostname q) then ret [] else
  foldM (fun res d => foldM (dom_step_st q) (bucket (ne_domains e) (hash d)) res)
        (get_subdomains (rq_source_hostname q)) [].

(* the sequential table matches its own rule objects, numbered by position *)
Definition seq_step_st (tag : nat) (q : request) (acc : nat * list net_rule) (f : net_rule) : M (nat * list net_rule) :=
  bind (rmatch_st (OSeq tag (fst acc)) f q) (fun b => ret (S (fst acc), if b then snd acc ++ [f] else snd acc)).
Definition match_seq_st (tag : nat) (e : net_engine) (q : request) : M (list net_rule) :=
  bind (foldM (seq_step_st tag q) (ne_seq e) (0, [])) (fun acc => ret (snd acc)).

(* NetworkEngine.MatchAll: the three tables in order *)
Definition match_all_st (tag : nat) (e : net_engine) (q : request) : M (list net_rule) :=
  bind (match_shortcuts_st e q) (fun a =>
  bind (match_domains_st e q) (fun b =>
  bind (match_seq_st tag e q) (fun c => ret (map snd a ++ b ++ c)))).

(* ---- DNS engine ---- *)
(* getRequestFromPool + FillRequestForHostname, field by field, on a request object that may carry the values
   of an earlier query (or on a fresh zero-valued one when the pool is empty) *)
Definition blank_request : request :=
  {| rq_url := []; rq_url_lower := []; rq_hostname := []; rq_domain := []; rq_source_url := [];
     rq_source_hostname := []; rq_source_domain := []; rq_type := 0; rq_third_party := false;
     rq_is_hostname := false; rq_client_name := []; rq_client_ip := None; rq_tags := []; rq_dnstype := 0 |}.
Definition fill_from_pool (stale : request) (hostname client_name : bytes) (client_ip : option addr)
    (tags : list bytes) (dnstype : N) : request :=
  (* req.SourceDomain = "" ; req.SourceHostname = "" ; req.SourceURL = "" *)
  let r1 := {| rq_url := rq_url stale; rq_url_lower := rq_url_lower stale; rq_hostname := rq_hostname stale;
               rq_domain := rq_domain stale; rq_source_url := []; rq_source_hostname := []; rq_source_domain := [];
               rq_type := rq_type stale; rq_third_party := rq_third_party stale; rq_is_hostname := rq_is_hostname stale;
               rq_client_name := rq_client_name stale; rq_client_ip := rq_client_ip stale; rq_tags := rq_tags stale;
               rq_dnstype := rq_dnstype stale |} in
  (* req.SortedClientTags, ClientIP, ClientName, DNSType = dReq... *)
  let r2 := {| rq_url := rq_url r1; rq_url_lower := rq_url_lower r1; rq_hostname := rq_hostname r1;
               rq_domain := rq_domain r1; rq_source_url := rq_source_url r1; rq_source_hostname := rq_source_hostname r1;
               rq_source_domain := rq_source_domain r1; rq_type := rq_type r1; rq_third_party := rq_third_party r1;
               rq_is_hostname := rq_is_hostname r1; rq_client_name := client_name; rq_client_ip := client_ip;
               rq_tags := tags; rq_dnstype := dnstype |} in
  (* FillRequestForHostname: URL, URLLowerCase, Hostname, RequestType, ThirdParty, IsHostnameRequest, Domain *)
  let url := $"http://" ++ hostname in
  {| rq_url := url; rq_url_lower := url; rq_hostname := hostname; rq_domain := domain_or_host psl hostname;
     rq_source_url := rq_source_url r2; rq_source_hostname := rq_source_hostname r2;
     rq_source_domain := rq_source_domain r2; rq_type := TypeDocument; rq_third_party := false;
     rq_is_hostname := true; rq_client_name := rq_client_name r2; rq_client_ip := rq_client_ip r2;
     rq_tags := rq_tags r2; rq_dnstype := rq_dnstype r2 |}.

Definition pool_get : M request := fun s =>
  match ss_pool s with
  | r :: rest => ({| ss_cache := ss_cache s; ss_readable := ss_readable s; ss_memo := ss_memo s; ss_pool := rest |}, r)
  | [] => (s, blank_request)
  end.
Definition pool_put (r : request) : M unit := fun s =>
  ({| ss_cache := ss_cache s; ss_readable := ss_readable s; ss_memo := ss_memo s; ss_pool := r :: ss_pool s |}, tt).

Definition host_step_st (hostname : bytes) (acc : list host_rule) (idx : Z) : M (list host_rule) :=
  bind (retrieve_host idx) (fun r =>
    ret (match r with Some h => if host_match h hostname then acc ++ [h] else acc | None => acc end)).

(* DNSEngine.MatchRequest *)
Definition dns_match_st (e : dns_engine) (hostname client_name : bytes) (client_ip : option addr)
    (tags : list bytes) (dnstype : N) : M (dns_result * bool) :=
  if isnil hostname then ret ({| dr_network_rule := None; dr_v4 := []; dr_v6 := []; dr_network_rules := [] |}, false) else
  bind pool_get (fun stale =>
  let q := fill_from_pool stale hostname client_name client_ip tags dnstype in
  bind (match_all_st 1 (de_net e) q) (fun nrs =>
  match get_dns_basic_rule nrs with
  | Some b => bind (pool_put q) (fun _ =>
      ret ({| dr_network_rule := Some b; dr_v4 := []; dr_v6 := []; dr_network_rules := nrs |}, true))
  | None =>
    bind (foldM (host_step_st hostname) (bucket (de_hosts e) (hash hostname)) []) (fun hs =>
    bind (pool_put q) (fun _ =>
      if isnil hs then ret ({| dr_network_rule := None; dr_v4 := []; dr_v6 := []; dr_network_rules := nrs |}, false)
      else ret ({| dr_network_rule := None; dr_v4 := filter (fun h => is4 (hr_ip h)) hs;
                   dr_v6 := filter (fun h => negb (is4 (hr_ip h))) hs; dr_network_rules := nrs |}, true)))
  end)).

(* ---- histories ---- *)
Inductive op :=
| QNet (q : request)                                              (* NetworkEngine.MatchAll *)
| QWeb (q : request)                                              (* Engine.MatchRequest: request and its referrer *)
| QDns (hostname client_name : bytes) (client_ip : option addr) (tags : list bytes) (dnstype : N)
| OpClose.                                                        (* the lists become unreadable *)
Inductive answer :=
| ANet (rules : list net_rule)
| AWeb (m : matching_result)
| ADns (r : dns_result) (matched : bool)
| ANone.

Variable ne : net_engine.     (* the network engine and the DNS engine share the storage *)
Variable de : dns_engine.

Definition step (o : op) : M answer :=
  match o with
  | QNet q => bind (match_all_st 0 ne q) (fun l => ret (ANet l))
  | QWeb q =>
    (* engine.go Engine.MatchRequest: the Engine owns a network engine of its own over the same storage (sequential
       rule objects tagged 2); the referrer, if any, is looked up as a document request without a source *)
    bind (match_all_st 2 ne q) (fun l =>
    if isnil (rq_source_url q) then ret (AWeb (new_matching_result l []))
    else bind (match_all_st 2 ne (new_request psl (rq_source_url q) [] TypeDocument)) (fun src =>
         ret (AWeb (new_matching_result l src))))
  | QDns h cn ip tags t => bind (dns_match_st de h cn ip tags t) (fun r => ret (ADns (fst r) (snd r)))
  | OpClose => bind close_storage (fun _ => ret ANone)
  end.
Fixpoint run (ops : list op) (s : sstate) : sstate * list answer :=
  match ops with
  | [] => (s, [])
  | o :: ops' => let '(s1, a) := step o s in let '(s2, l) := run ops' s1 in (s2, a :: l)
  end.
End Session.
