(* rules/network.go:38-91, rules/match.go:3-31, rules/request.go:15-48: the bit sets. *)
From Coq Require Import List NArith Bool.
Import ListNotations.
Local Open Scope N_scope.

(* NetworkRuleOption, 1 << iota *)
Definition OptThirdParty := 1.
Definition OptMatchCase := 2.
Definition OptImportant := 4.
Definition OptBadfilter := 8.
Definition OptElemhide := 16.
Definition OptGenerichide := 32.
Definition OptGenericblock := 64.
Definition OptJsinject := 128.
Definition OptUrlblock := 256.
Definition OptContent := 512.
Definition OptExtension := 1024.
Definition OptStealth := 2048.
Definition OptEmpty := 4096.
Definition OptMp4 := 8192.
Definition OptPopup := 16384.
Definition OptCsp := 32768.
Definition OptReplace := 65536.
Definition OptCookie := 131072.
Definition OptRedirect := 262144.
Definition OptBlacklistOnly := N.lor OptPopup (N.lor OptEmpty OptMp4).
Definition OptWhitelistOnly :=
  N.lor OptElemhide (N.lor OptGenericblock (N.lor OptGenerichide (N.lor OptJsinject
    (N.lor OptUrlblock (N.lor OptContent (N.lor OptExtension OptStealth)))))).
Definition OptHostLevelRulesOnly := N.lor OptImportant OptBadfilter.

(* (f.enabledOptions & option) == option *)
Definition has_opt (set opt : N) : bool := N.eqb (N.land set opt) opt.

(* RequestType, 1 << iota *)
Definition TypeDocument := 1.
Definition TypeSubdocument := 2.
Definition TypeScript := 4.
Definition TypeStylesheet := 8.
Definition TypeObject := 16.
Definition TypeImage := 32.
Definition TypeXmlhttprequest := 64.
Definition TypeMedia := 128.
Definition TypeFont := 256.
Definition TypeWebsocket := 512.
Definition TypePing := 1024.
Definition TypeOther := 2048.

(* CosmeticOption *)
Definition CosGenericCSS := 1.
Definition CosCSS := 2.
Definition CosJS := 4.
Definition CosAll := 7.

(* bits.OnesCount *)
Fixpoint popcount_pos (p : positive) : nat :=
  match p with xH => 1 | xO p' => popcount_pos p' | xI p' => S (popcount_pos p') end.
Definition popcount (n : N) : nat := match n with N0 => 0%nat | Npos p => popcount_pos p end.

(* rules/match.go:195-219 GetCosmeticOption, on (BasicRule == nil ? None : Some (whitelist, enabledOptions)).
   Go's [x &^ y] is [N.ldiff x y]. *)
Definition get_cosmetic_option (basic : option (bool * N)) : N :=
  match basic with
  | None => CosAll
  | Some (wl, en) =>
    if negb wl then CosAll else
    let o := CosAll in
    let o := if has_opt en OptElemhide then N.ldiff (N.ldiff o CosCSS) CosGenericCSS else o in
    let o := if has_opt en OptGenerichide then N.ldiff o CosGenericCSS else o in
    let o := if has_opt en OptJsinject then N.ldiff o CosJS else o in
    o
  end.
