(* lookup/shortcutstable.go, lookup/domainstable.go, lookup/seqscantable.go, networkengine.go,
   dnsengine.go, cosmeticengine.go (after the repairs), filterutil/hash.go. *)
From Coq Require Import List Arith NArith ZArith Bool.
From Coq Require Import Strings.Byte.
From UF Require Import Base.Lit Base.Bytes Model.Options Model.Netip Model.Domain Model.NetRule Model.Rule
  Model.Request Model.Match Model.Result.
Import ListNotations.

(* filterutil/hash.go: djb2 with 32-bit wrap-around; "" hashes to 0 *)
Definition djb2 (s : bytes) : N :=
  match s with
  | [] => 0%N
  | _ => fold_left (fun h c => N.lxor (N.modulo (h * 33) 4294967296) (b2n c)) s 5381%N
  end.

(* all windows of 5 consecutive bytes, left to right *)
Definition shortcut_length : nat := 5.
Fixpoint windows (s : bytes) : list bytes :=
  match s with
  | [] => []
  | _ :: s' => if (shortcut_length <=? length s)%nat then firstn shortcut_length s :: windows s' else []
  end.

(* isAnyURLShortcut *)
Definition is_any_url_shortcut (sc : bytes) : bool :=
  let n := length sc in
  ((n <? 6)%nat && has_prefix $"ws:" sc) || ((n <? 7)%nat && has_prefix $"wss:" sc)
  || ((n <? 8)%nat && has_prefix $"|ws" sc) || ((n <? 9)%nat && has_prefix $"http" sc)
  || ((n <? 10)%nat && has_prefix $"|http" sc).
(* getRuleShortcuts *)
Definition rule_shortcuts (f : net_rule) : list bytes :=
  if (length (nr_shortcut f) <? shortcut_length)%nat then []
  else if is_any_url_shortcut (nr_shortcut f) then []
  else windows (nr_shortcut f).

(* hash tables as association lists in insertion order: a bucket keeps the order of the appends *)
Definition bucket {A} (tbl : list (N * A)) (h : N) : list A :=
  map snd (filter (fun e => N.eqb (fst e) h) tbl).
Definition hist_get (hist : list (N * nat)) (h : N) : nat :=
  match find (fun e => N.eqb (fst e) h) hist with Some e => snd e | None => 0 end.
Definition hist_set (hist : list (N * nat)) (h : N) (v : nat) : list (N * nat) :=
  (h, v) :: filter (fun e => negb (N.eqb (fst e) h)) hist.

Section Engine.
Variable hash : bytes -> N.                       (* theorems hold for every hash function *)
Variable psl : bytes -> bytes * bool.

Record net_engine := {
  ne_shortcuts : list (N * Z);                    (* ShortcutsTable.shortcutsLookupTable *)
  ne_hist : list (N * nat);                       (* ShortcutsTable.shortcutsHistogram *)
  ne_domains : list (N * Z);                      (* DomainsTable.domainsLookupTable *)
  ne_seq : list net_rule                          (* SeqScanTable.rules *)
}.
Definition ne_empty : net_engine := {| ne_shortcuts := []; ne_hist := []; ne_domains := []; ne_seq := [] |}.

(* ShortcutsTable.TryAdd: the least used window, the first one on ties.  (The start value
   math.MaxInt32 of the Go loop is represented by None: no histogram count reaches it.) *)
Definition pick_window (hist : list (N * nat)) (ws : list bytes) : N * nat :=
  let best := fold_left (fun (best : N * option nat) w =>
               let h := hash w in
               let c := hist_get hist h in
               match snd best with
               | Some m => if (c <? m)%nat then (h, Some c) else best
               | None => (h, Some c)
               end) ws (0%N, None) in
  (fst best, match snd best with Some c => c | None => 0 end).

Definition add_rule (e : net_engine) (f : net_rule) (idx : Z) : net_engine :=
  match rule_shortcuts f with
  | (_ :: _) as ws =>
    let '(h, c) := pick_window (ne_hist e) ws in
    {| ne_shortcuts := ne_shortcuts e ++ [(h, idx)]; ne_hist := hist_set (ne_hist e) h (S c);
       ne_domains := ne_domains e; ne_seq := ne_seq e |}
  | [] =>
    if negb (isnil (nr_pdomains f)) && negb (existsb (has_suffix $".*") (nr_pdomains f)) then
      {| ne_shortcuts := ne_shortcuts e; ne_hist := ne_hist e;
         ne_domains := ne_domains e ++ map (fun d => (hash d, idx)) (nr_pdomains f); ne_seq := ne_seq e |}
    else if existsb (fun r => bytes_eqb (nr_text r) (nr_text f)) (ne_seq e) then e
    else {| ne_shortcuts := ne_shortcuts e; ne_hist := ne_hist e; ne_domains := ne_domains e;
            ne_seq := ne_seq e ++ [f] |}
  end.

Definition build_net (rules : list (net_rule * Z)) : net_engine :=
  fold_left (fun e ri => add_rule e (fst ri) (snd ri)) rules ne_empty.

(* retrieval of a network rule by storage index: None = nil (not found, error, or not a network rule) *)
Variable retr : Z -> option net_rule.

Definition rmatch (f : net_rule) (q : request) : bool :=
  match rule_match psl f q with Ok b => b | _ => false end.

(* ShortcutsTable.MatchAll: results carry their index (the de-duplication is by rule instance, and
   the storage cache hands out one instance per index) *)
Definition match_shortcuts (e : net_engine) (q : request) : list (Z * net_rule) :=
  fold_left (fun (res : list (Z * net_rule)) w =>
    fold_left (fun (res : list (Z * net_rule)) idx =>
      match retr idx with
      | None => res
      | Some f => if existsb (fun x => Z.eqb (fst x) idx) res || negb (rmatch f q) then res else res ++ [(idx, f)]
      end) (bucket (ne_shortcuts e) (hash w)) res) (windows (rq_url_lower q)) [].

(* DomainsTable.MatchAll *)
Definition match_domains (e : net_engine) (q : request) : list net_rule :=
  if isnil (rq_source_hostname q) then [] else
  flat_map (fun d =>
    flat_map (fun idx => match retr idx with
                         | Some f => if rmatch f q then [f] else []
                         | None => [] end) (bucket (ne_domains e) (hash d)))
    (get_subdomains (rq_source_hostname q)).

(* NetworkEngine.MatchAll *)
Definition match_all (e : net_engine) (q : request) : list net_rule :=
  map snd (match_shortcuts e q) ++ match_domains e q ++ filter (fun f => rmatch f q) (ne_seq e).

(* engine.go Engine.MatchRequest: the rules matching the request and, when there is a referrer, the rules matching
   the referrer as a document request *)
Definition engine_match_request (e : net_engine) (q : request) : matching_result :=
  new_matching_result (match_all e q)
    (if isnil (rq_source_url q) then [] else match_all e (new_request psl (rq_source_url q) [] TypeDocument)).
(* networkengine.go NetworkEngine.Match *)
Definition network_engine_match (e : net_engine) (q : request) : option net_rule :=
  let rs := match_all e q in
  if isnil rs then None else get_basic_result (new_matching_result rs []).

(* ---- DNS engine ---- *)
(* IsHostLevelNetworkRule, the bit formula as written *)
Definition is_host_level (f : net_rule) : bool :=
  if negb (isnil (nr_pdomains f)) || negb (isnil (nr_rdomains f)) then false
  else if negb (N.eqb (nr_ptypes f) 0) && negb (N.eqb (nr_rtypes f) 0) then false
  else if negb (N.eqb (nr_disabled f) 0) then false
  else if negb (N.eqb (nr_enabled f) 0) then
    N.eqb (N.lor (N.land (nr_enabled f) OptHostLevelRulesOnly) (N.lxor (nr_enabled f) OptHostLevelRulesOnly))
          OptHostLevelRulesOnly
  else true.

Record dns_engine := { de_hosts : list (N * Z); de_net : net_engine }.

Definition build_dns (rules : list (rule * Z)) : dns_engine :=
  fold_left (fun e ri =>
    match fst ri with
    | RHost h => {| de_hosts := de_hosts e ++ map (fun n => (hash n, snd ri)) (hr_names h); de_net := de_net e |}
    | RNet f => if is_host_level f then {| de_hosts := de_hosts e; de_net := add_rule (de_net e) f (snd ri) |} else e
    | RCos _ => e
    end) rules {| de_hosts := []; de_net := ne_empty |}.

Variable retr_host : Z -> option host_rule.

Record dns_result := { dr_network_rule : option net_rule; dr_v4 : list host_rule; dr_v6 : list host_rule;
                       dr_network_rules : list net_rule }.

(* DNSEngine.MatchRequest; the request was built by getRequestFromPool *)
Definition dns_match (e : dns_engine) (hostname : bytes) (q : request) : dns_result * bool :=
  if isnil hostname then ({| dr_network_rule := None; dr_v4 := []; dr_v6 := []; dr_network_rules := [] |}, false) else
  let nrs := match_all (de_net e) q in
  match get_dns_basic_rule nrs with
  | Some b => ({| dr_network_rule := Some b; dr_v4 := []; dr_v6 := []; dr_network_rules := nrs |}, true)
  | None =>
    let hs := flat_map (fun idx => match retr_host idx with
                                   | Some h => if host_match h hostname then [h] else []
                                   | None => [] end) (bucket (de_hosts e) (hash hostname)) in
    if isnil hs then ({| dr_network_rule := None; dr_v4 := []; dr_v6 := []; dr_network_rules := nrs |}, false)
    else ({| dr_network_rule := None; dr_v4 := filter (fun h => is4 (hr_ip h)) hs;
             dr_v6 := filter (fun h => negb (is4 (hr_ip h))) hs; dr_network_rules := nrs |}, true)
  end.
End Engine.

(* ---- cosmetic engine (string-keyed Go maps: no hashing involved) ---- *)
Section Cosmetic.
Variable psl : bytes -> bytes * bool.

Record cos_engine := {
  ce_by_hostname : list (bytes * (nat * cos_rule));     (* byHostname: key -> rules, in insertion order *)
  ce_whitelist : list (bytes * cos_rule);               (* whitelist: content -> rules *)
  ce_generic : list cos_rule;
  ce_wildcard : list (nat * cos_rule)
}.
(* rules are numbered by insertion so that "the same rule instance" is expressible *)
Definition cos_add (e : cos_engine) (n : nat) (f : cos_rule) : cos_engine :=
  if cr_whitelist f then
    {| ce_by_hostname := ce_by_hostname e; ce_whitelist := ce_whitelist e ++ [(cr_content f, f)];
       ce_generic := ce_generic e; ce_wildcard := ce_wildcard e |}
  else if isnil (cr_pdomains f) then
    {| ce_by_hostname := ce_by_hostname e; ce_whitelist := ce_whitelist e;
       ce_generic := ce_generic e ++ [f]; ce_wildcard := ce_wildcard e |}
  else
    {| ce_by_hostname := ce_by_hostname e ++
         map (fun d => (d, (n, f))) (filter (fun d => negb (has_suffix $".*" d)) (cr_pdomains f));
       ce_whitelist := ce_whitelist e; ce_generic := ce_generic e;
       ce_wildcard := if existsb (has_suffix $".*") (cr_pdomains f) then ce_wildcard e ++ [(n, f)] else ce_wildcard e |}.

Definition build_cos (rules : list cos_rule) : cos_engine :=
  snd (fold_left (fun (st : nat * cos_engine) f => (S (fst st), cos_add (snd st) (fst st) f)) rules
         (0, {| ce_by_hostname := []; ce_whitelist := []; ce_generic := []; ce_wildcard := [] |})).

Definition is_whitelisted (e : cos_engine) (hostname : bytes) (f : cos_rule) : bool :=
  existsb (fun w => bytes_eqb (fst w) (cr_content f) && cos_match psl (snd w) hostname) (ce_whitelist e).

Definition append_matching (e : cos_engine) (hostname : bytes) (res : list (nat * cos_rule)) (nf : nat * cos_rule)
  : list (nat * cos_rule) :=
  if negb (cos_match psl (snd nf) hostname) || is_whitelisted e hostname (snd nf) then res
  else if existsb (fun x => Nat.eqb (fst x) (fst nf)) res then res
  else res ++ [nf].

(* the hostname itself and every parent domain: "for domain := hostname; ; { ... domain = domain[i+1:] }" *)
Fixpoint parents (fuel : nat) (d : bytes) : list bytes :=
  match fuel with
  | O => [d]
  | S f => d :: match index_byte "."%byte d with
                | Some i => parents f (skipn (S i) d)
                | None => []
                end
  end.

Definition find_by_hostname (e : cos_engine) (hostname : bytes) : list (nat * cos_rule) :=
  let res := fold_left (fun res d =>
               fold_left (append_matching e hostname)
                         (map snd (filter (fun kv => bytes_eqb (fst kv) d) (ce_by_hostname e))) res)
             (parents (length hostname) hostname) [] in
  fold_left (append_matching e hostname) (ce_wildcard e) res.

(* CosmeticEngine.Match -> (generic selectors, specific selectors) of ElementHiding *)
Definition cos_engine_match (e : cos_engine) (hostname : bytes) (css js generic_css : bool) : list bytes * list bytes :=
  if negb css then ([], []) else
  let gen := if generic_css then filter (fun f => negb (is_whitelisted e hostname f) && cos_match psl f hostname) (ce_generic e)
             else [] in
  let spec := map snd (find_by_hostname e hostname) in
  let all := gen ++ spec in
  (map cr_content (filter (fun f => isnil (cr_pdomains f)) all),
   map cr_content (filter (fun f => negb (isnil (cr_pdomains f))) all)).
End Cosmetic.
