(* rules/network.go IsHigherPriority, negatesBadfilter, isDocumentWhitelistRule;
   rules/match.go NewMatchingResult, GetDNSBasicRule, GetBasicResult, removeBadfilterRules,
   removeDNSRewriteRules; dnsrewrite.go DNSRewritesAll, DNSRewrites, removeMatchingException,
   matchException.  All on parsed rules ([net_rule]); transcribed branch by branch. *)
From Coq Require Import List Arith NArith ZArith Bool.
From UF Require Import Base.Lit Base.Bytes Model.Options Model.Netip Model.DnsTables
  Model.DNSRewrite Model.NetRule.
Import ListNotations.

Definition is_generic (r : net_rule) : bool := isnil (nr_pdomains r).

(* the hand-written modifier count (network.go:359-376) *)
Definition modifier_count (r : net_rule) : nat :=
  popcount (nr_enabled r) + popcount (nr_disabled r) + popcount (nr_ptypes r) + popcount (nr_rtypes r)
  + (if negb (isnil (nr_pdomains r)) || negb (isnil (nr_rdomains r)) then 1 else 0)
  + (if negb (isnil (nr_pdns r)) || negb (isnil (nr_rdns r)) then 1 else 0)
  + (if negb (isnil (nr_ptags r)) || negb (isnil (nr_rtags r)) then 1 else 0)
  + (if negb (clients_len (nr_pclients r) =? 0) || negb (clients_len (nr_rclients r) =? 0) then 1 else 0)
  + (if negb (isnil (nr_denyallow r)) then 1 else 0).

(* IsHigherPriority (network.go:317-398) *)
Definition is_higher_priority (f r : net_rule) : bool :=
  let important := is_opt_enabled f OptImportant in
  let r_important := is_opt_enabled r OptImportant in
  if (nr_whitelist f && important) && negb (nr_whitelist r && r_important) then true
  else if (nr_whitelist r && r_important) && negb (nr_whitelist f && important) then false
  else if important && negb r_important then true
  else if r_important && negb important then false
  else if nr_whitelist f && negb (nr_whitelist r) then true
  else if nr_whitelist r && negb (nr_whitelist f) then false
  else
    let redirect := is_opt_enabled f OptRedirect in
    let r_redirect := is_opt_enabled r OptRedirect in
    if negb (Bool.eqb redirect r_redirect) then redirect
    else
      let generic := is_generic f in
      let r_generic := is_generic r in
      if negb (Bool.eqb generic r_generic) then r_generic
      else (modifier_count r <? modifier_count f).

(* negatesBadfilter (network.go:400-428) *)
Definition opt_dnsrewrite_eqb (a b : option dnsrewrite) : bool :=
  match a, b with
  | None, None => true
  | Some x, Some y => dnsrewrite_eqb x y
  | _, _ => false
  end.
Definition negates_badfilter (f r : net_rule) : bool :=
  is_opt_enabled f OptBadfilter
  && Bool.eqb (nr_whitelist f) (nr_whitelist r)
  && bytes_eqb (nr_pattern f) (nr_pattern r)
  && N.eqb (nr_ptypes f) (nr_ptypes r)
  && N.eqb (nr_rtypes f) (nr_rtypes r)
  && N.eqb (N.lxor (nr_enabled f) OptBadfilter) (nr_enabled r)
  && N.eqb (nr_disabled f) (nr_disabled r)
  && list_eqb bytes_eqb (nr_pdomains f) (nr_pdomains r)
  && list_eqb bytes_eqb (nr_rdomains f) (nr_rdomains r)
  && list_eqb bytes_eqb (nr_denyallow f) (nr_denyallow r)
  && list_eqb N.eqb (nr_pdns f) (nr_pdns r)
  && list_eqb N.eqb (nr_rdns f) (nr_rdns r)
  && opt_dnsrewrite_eqb (nr_dnsrewrite f) (nr_dnsrewrite r)
  && list_eqb bytes_eqb (nr_ptags f) (nr_ptags r)
  && list_eqb bytes_eqb (nr_rtags f) (nr_rtags r)
  && clients_eqb (nr_pclients f) (nr_pclients r)
  && clients_eqb (nr_rclients f) (nr_rclients r).

(* removeBadfilterRules (match.go:228-266, after the repair) *)
Definition remove_badfilter (rules : list net_rule) : list net_rule :=
  let bad := filter (fun r => is_opt_enabled r OptBadfilter) rules in
  if isnil bad then rules
  else filter (fun r => negb (is_opt_enabled r OptBadfilter)
                        && negb (existsb (fun b => negates_badfilter b r) bad)) rules.

(* removeDNSRewriteRules (match.go:268-297): the result list (aliasing is the subject of C13) *)
Definition remove_dnsrewrite (rules : list net_rule) : list net_rule :=
  filter (fun r => match nr_dnsrewrite r with None => true | Some _ => false end) rules.

Definition is_document_whitelist (r : net_rule) : bool :=
  nr_whitelist r && (is_opt_enabled r OptUrlblock || is_opt_enabled r OptGenericblock).

Record matching_result := {
  mr_basic : option net_rule;
  mr_document : option net_rule;
  mr_stealth : option net_rule;
  mr_csp : list net_rule;
  mr_cookie : list net_rule;
  mr_replace : list net_rule
}.

(* "if x == nil || rule.IsHigherPriority(x) { x = rule }" *)
Definition pick_higher (cur : option net_rule) (rule : net_rule) : option net_rule :=
  match cur with
  | None => Some rule
  | Some c => if is_higher_priority rule c then Some rule else cur
  end.

(* NewMatchingResult (match.go:71-140, after the repair) *)
Definition new_matching_result (rules source_rules : list net_rule) : matching_result :=
  let rules := remove_dnsrewrite (remove_badfilter rules) in
  let source_rules := remove_dnsrewrite (remove_badfilter source_rules) in
  (* first loop: document-level exceptions and stealth among the source rules *)
  let doc := fold_left (fun d r => if is_document_whitelist r then pick_higher d r else d) source_rules None in
  let stealth0 := fold_left (fun s r => if is_opt_enabled r OptStealth then Some r else s) source_rules None in
  let basic_allowed := negb (existsb (fun r => is_document_whitelist r && is_opt_enabled r OptUrlblock) source_rules) in
  let generic_allowed := negb (existsb (fun r => is_document_whitelist r && is_opt_enabled r OptGenericblock) source_rules) in
  (* second loop *)
  fold_left (fun (m : matching_result) (rule : net_rule) =>
    if is_opt_enabled rule OptCookie then
      {| mr_basic := mr_basic m; mr_document := mr_document m; mr_stealth := mr_stealth m;
         mr_csp := mr_csp m; mr_cookie := mr_cookie m ++ [rule]; mr_replace := mr_replace m |}
    else if is_opt_enabled rule OptReplace then
      {| mr_basic := mr_basic m; mr_document := mr_document m; mr_stealth := mr_stealth m;
         mr_csp := mr_csp m; mr_cookie := mr_cookie m; mr_replace := mr_replace m ++ [rule] |}
    else if is_opt_enabled rule OptCsp then
      {| mr_basic := mr_basic m; mr_document := mr_document m; mr_stealth := mr_stealth m;
         mr_csp := mr_csp m ++ [rule]; mr_cookie := mr_cookie m; mr_replace := mr_replace m |}
    else if is_opt_enabled rule OptStealth then
      {| mr_basic := mr_basic m; mr_document := mr_document m; mr_stealth := Some rule;
         mr_csp := mr_csp m; mr_cookie := mr_cookie m; mr_replace := mr_replace m |}
    else if negb (nr_whitelist rule) && (negb basic_allowed || (negb generic_allowed && is_generic rule)) then m
    else
      {| mr_basic := pick_higher (mr_basic m) rule; mr_document := mr_document m; mr_stealth := mr_stealth m;
         mr_csp := mr_csp m; mr_cookie := mr_cookie m; mr_replace := mr_replace m |})
    rules
    {| mr_basic := None; mr_document := doc; mr_stealth := stealth0; mr_csp := []; mr_cookie := []; mr_replace := [] |}.

(* GetBasicResult (match.go:174-194) *)
Definition get_basic_result (m : matching_result) : option net_rule :=
  if negb (isnil (mr_replace m)) then None
  else match mr_basic m with None => mr_document m | Some b => Some b end.

(* MatchingResult.GetCosmeticOption (match.go:199-220): derived from BasicRule alone *)
Definition result_cosmetic_option (m : matching_result) : N :=
  get_cosmetic_option (option_map (fun b => (nr_whitelist b, nr_enabled b)) (mr_basic m)).

(* GetDNSBasicRule (match.go:142-166): the loop with its early return *)
Fixpoint dns_basic_loop (rules : list net_rule) (basic : option net_rule) : option net_rule :=
  match rules with
  | [] => basic
  | rule :: rest =>
    if is_opt_enabled rule OptReplace then None
    else if is_opt_enabled rule OptCookie || is_opt_enabled rule OptCsp || is_opt_enabled rule OptStealth
    then dns_basic_loop rest basic
    else dns_basic_loop rest (pick_higher basic rule)
  end.
Definition get_dns_basic_rule (rules : list net_rule) : option net_rule :=
  dns_basic_loop (remove_dnsrewrite (remove_badfilter rules)) None.

(* ---- DNS rewrites (dnsrewrite.go, after the repairs) ---- *)
Definition dns_rewrites_all (network_rules : list net_rule) : list net_rule :=
  filter (fun r => match nr_dnsrewrite r with Some _ => true | None => false end) (remove_badfilter network_rules).

(* matchException *)
Definition match_exception (nr exc : net_rule) (exc_important : bool) : bool :=
  if negb exc_important && is_opt_enabled nr OptImportant then false else
  match nr_dnsrewrite nr, nr_dnsrewrite exc with
  | Some n, Some e =>
    if negb (isnil (dr_cname e)) then bytes_eqb (dr_cname n) (dr_cname e)
    else if N.eqb (dr_rcode n) (dr_rcode e) then
      if negb (N.eqb (dr_rcode e) RcodeSuccess) then true
      else N.eqb (dr_rrtype n) (dr_rrtype e) && rrvalue_eqb (dr_value n) (dr_value e)
    else false
  | _, _ => false
  end.

(* removeMatchingException *)
Definition remove_matching_exception (nrules : list net_rule) (exc : net_rule) : list net_rule :=
  match nr_dnsrewrite exc with
  | None => nrules
  | Some e =>
    let exc_important := is_opt_enabled exc OptImportant in
    if dnsrewrite_eqb e dr_empty then
      if exc_important then []
      else filter (fun nr => is_opt_enabled nr OptImportant) nrules
    else filter (fun nr => negb (match_exception nr exc exc_important)) nrules
  end.

(* DNSRewrites *)
Definition dns_rewrites (network_rules : list net_rule) : list net_rule :=
  let all := dns_rewrites_all network_rules in
  let excs := filter nr_whitelist all in
  let nrules := filter (fun r => negb (nr_whitelist r)) all in
  fold_left remove_matching_exception excs nrules.
