(* github.com/miekg/dns v1.1.61: StringToType and StringToRcode, generated from the library's maps.
   The harness dumps the library's maps on every run (harness "tables" case) and the check compares
   them with these tables, so a changed dependency shows up as a broken correspondence. *)
From Coq Require Import List NArith.
From UF Require Import Base.Lit Base.Bytes.
Import ListNotations.
Local Open Scope N_scope.

Definition string_to_type_table : list (bytes * N) := [
  ($"A", 1);
  ($"AAAA", 28);
  ($"AFSDB", 18);
  ($"AMTRELAY", 260);
  ($"ANY", 255);
  ($"APL", 42);
  ($"ATMA", 34);
  ($"AVC", 258);
  ($"AXFR", 252);
  ($"CAA", 257);
  ($"CDNSKEY", 60);
  ($"CDS", 59);
  ($"CERT", 37);
  ($"CNAME", 5);
  ($"CSYNC", 62);
  ($"DHCID", 49);
  ($"DLV", 32769);
  ($"DNAME", 39);
  ($"DNSKEY", 48);
  ($"DS", 43);
  ($"EID", 31);
  ($"EUI48", 108);
  ($"EUI64", 109);
  ($"GID", 102);
  ($"GPOS", 27);
  ($"HINFO", 13);
  ($"HIP", 55);
  ($"HTTPS", 65);
  ($"IPSECKEY", 45);
  ($"ISDN", 20);
  ($"IXFR", 251);
  ($"KEY", 25);
  ($"KX", 36);
  ($"L32", 105);
  ($"L64", 106);
  ($"LOC", 29);
  ($"LP", 107);
  ($"MAILA", 254);
  ($"MAILB", 253);
  ($"MB", 7);
  ($"MD", 3);
  ($"MF", 4);
  ($"MG", 8);
  ($"MINFO", 14);
  ($"MR", 9);
  ($"MX", 15);
  ($"NAPTR", 35);
  ($"NID", 104);
  ($"NIMLOC", 32);
  ($"NINFO", 56);
  ($"NS", 2);
  ($"NSAP-PTR", 23);
  ($"NSEC", 47);
  ($"NSEC3", 50);
  ($"NSEC3PARAM", 51);
  ($"NULL", 10);
  ($"NXT", 30);
  ($"None", 0);
  ($"OPENPGPKEY", 61);
  ($"OPT", 41);
  ($"PTR", 12);
  ($"PX", 26);
  ($"RKEY", 57);
  ($"RP", 17);
  ($"RRSIG", 46);
  ($"RT", 21);
  ($"Reserved", 65535);
  ($"SIG", 24);
  ($"SMIMEA", 53);
  ($"SOA", 6);
  ($"SPF", 99);
  ($"SRV", 33);
  ($"SSHFP", 44);
  ($"SVCB", 64);
  ($"TA", 32768);
  ($"TALINK", 58);
  ($"TKEY", 249);
  ($"TLSA", 52);
  ($"TSIG", 250);
  ($"TXT", 16);
  ($"UID", 101);
  ($"UINFO", 100);
  ($"UNSPEC", 103);
  ($"URI", 256);
  ($"X25", 19);
  ($"ZONEMD", 63)
].

Definition string_to_rcode_table : list (bytes * N) := [
  ($"BADALG", 21);
  ($"BADCOOKIE", 23);
  ($"BADKEY", 17);
  ($"BADMODE", 19);
  ($"BADNAME", 20);
  ($"BADSIG", 16);
  ($"BADTIME", 18);
  ($"BADTRUNC", 22);
  ($"FORMERR", 1);
  ($"NOERROR", 0);
  ($"NOTAUTH", 9);
  ($"NOTIMP", 4);
  ($"NOTIMPL", 4);
  ($"NOTZONE", 10);
  ($"NXDOMAIN", 3);
  ($"NXRRSET", 8);
  ($"REFUSED", 5);
  ($"SERVFAIL", 2);
  ($"YXDOMAIN", 6);
  ($"YXRRSET", 7)
].

Fixpoint assoc_bytes {A} (k : bytes) (l : list (bytes * A)) : option A :=
  match l with
  | [] => None
  | (k', v) :: l' => if bytes_eqb k k' then Some v else assoc_bytes k l'
  end.
Definition string_to_type (s : bytes) : option N := assoc_bytes s string_to_type_table.
Definition string_to_rcode (s : bytes) : option N := assoc_bytes s string_to_rcode_table.

Definition TypeA := 1. Definition TypeCNAME := 5. Definition TypePTR := 12. Definition TypeMX := 15.
Definition TypeTXT := 16. Definition TypeAAAA := 28. Definition TypeSRV := 33.
Definition TypeSVCB := 64. Definition TypeHTTPS := 65.
Definition RcodeSuccess := 0.
