(* filterutil/util.go (ExtractHostname, IsDomainName), rules/request.go effectiveTLDPlusOne,
   rules/helpers.go isDomainOrSubdomainOfAny and splitWithEscapeCharacter,
   lookup/domainstable.go getSubdomains. *)
From Coq Require Import List Arith NArith ZArith Bool.
From Coq Require Import Strings.Byte.
From UF Require Import Base.Lit Base.Bytes.
Import ListNotations.

(* ---- filterutil.IsDomainName: the state machine, transcribed ---- *)
Record dn_state := { dn_st : nat; dn_nlabel : nat; dn_prev : byte; dn_charonly : bool; dn_xn : nat }.
Definition dn_init := {| dn_st := 0; dn_nlabel := 0; dn_prev := x00; dn_charonly := true; dn_xn := 0 |}.
Definition xn_at (i : nat) : byte := nth i $"xn--" x00.
(* None = "return false" *)
Definition dn_step (s : option dn_state) (c : byte) : option dn_state :=
  match s with
  | None => None
  | Some s =>
    if (dn_st s <? 2)%nat then
      if negb (is_alpha c) then
        if negb (is_digit c) then None
        else Some {| dn_st := 2; dn_nlabel := 1; dn_prev := dn_prev s; dn_charonly := false; dn_xn := dn_xn s |}
      else
        let xn := if beq c "x"%byte || beq c "X"%byte then 1 else dn_xn s in
        Some {| dn_st := 2; dn_nlabel := 1; dn_prev := dn_prev s; dn_charonly := dn_charonly s; dn_xn := xn |}
    else
      if beq c "."%byte then
        if beq (dn_prev s) "-"%byte then None
        else Some {| dn_st := 0; dn_nlabel := dn_nlabel s; dn_prev := dn_prev s; dn_charonly := true; dn_xn := 0 |}
      else if (dn_nlabel s =? 63)%nat then None
      else
        let bad := negb (is_alpha c) && negb (is_digit c || beq c "-"%byte) in
        if bad then None else
        let co := if negb (is_alpha c) then false else dn_charonly s in
        let xn := if (0 <? dn_xn s)%nat then
                    if (dn_xn s <? 4)%nat then (if beq c (xn_at (dn_xn s)) then S (dn_xn s) else 0)
                    else S (dn_xn s)
                  else dn_xn s in
        Some {| dn_st := 2; dn_nlabel := S (dn_nlabel s); dn_prev := c; dn_charonly := co; dn_xn := xn |}
  end.
Definition is_domain_name (name : bytes) : bool :=
  if (253 <? length name)%nat then false else
  match fold_left dn_step name (Some dn_init) with
  | None => false
  | Some s => negb (negb (dn_st s =? 2)%nat || (dn_nlabel s =? 1)%nat
                    || (negb (dn_charonly s) && (dn_xn s <? 8)%nat))
  end.

(* ---- filterutil.ExtractHostname ---- *)
Definition extract_hostname (url : bytes) : bytes :=
  let first : option nat :=
    match index_of $"//" url with
    | Some i => Some (i + 2)
    | None => match index_of $":" url with
              | None => None
              | Some 0 => None          (* firstIdx = -1 < 0 *)
              | Some (S i) => Some i
              end
    end in
  match first with
  | None => []
  | Some f =>
    let next := match index_any $"/:?" (skipn f url) with
                | None => length url
                | Some j => j + f
                end in
    if (next <=? f)%nat then [] else slice url f next
  end.

(* ---- rules/request.go effectiveTLDPlusOne, for an arbitrary Public Suffix List function ---- *)
Section PSL.
Variable psl : bytes -> bytes * bool.   (* publicsuffix.PublicSuffix: (suffix, icann) *)

Definition etld_plus_one (hostname : bytes) : bytes :=
  match hostname with
  | [] => []
  | c0 :: _ =>
    if beq c0 "."%byte || (match last_byte hostname with Some c => beq c "."%byte | None => false end) then []
    else
      let suffix := fst (psl hostname) in
      (* i := len(hostname) - len(suffix) - 1 *)
      if (length hostname <? length suffix + 1)%nat then [] else
      let i := (length hostname - length suffix - 1)%nat in
      match nth_error hostname i with
      | Some c => if beq c "."%byte then
                    match last_index_byte "."%byte (firstn i hostname) with
                    | Some j => skipn (S j) hostname
                    | None => hostname
                    end
                  else []
      | None => []
      end
  end.

(* rules/helpers.go:48-77 isDomainOrSubdomainOfAny (with the label-boundary repair) *)
Definition idx_pos (sub s : bytes) : bool :=
  match index_of sub s with Some (S _) => true | _ => false end.
Definition domain_matches (domain d : bytes) : bool :=
  if has_suffix $".*" d then
    let ww := firstn (length d - 1) d in
    if has_prefix ww domain || (idx_pos ww domain && idx_pos ("."%byte :: ww) domain) then
      let '(tld, icann) := psl domain in
      negb (isnil tld) && icann &&
      (bytes_eqb domain (ww ++ tld) || has_suffix ("."%byte :: ww ++ tld) domain)
    else false
  else
    bytes_eqb domain d || (has_suffix d domain && has_suffix ("."%byte :: d) domain).
Definition is_domain_or_subdomain_of_any (domain : bytes) (domains : list bytes) : bool :=
  existsb (domain_matches domain) domains.
End PSL.

(* rules/helpers.go:9-46 splitWithEscapeCharacter *)
Fixpoint split_esc_aux (sep esc : byte) (preserve : bool) (s : bytes) (sb : bytes) (escaped : bool) : list bytes :=
  match s with
  | [] => if preserve || negb (isnil sb) then [rev' sb] else []
  | c :: s' =>
    if beq c esc then split_esc_aux sep esc preserve s' sb true
    else if beq c sep then
      if escaped then split_esc_aux sep esc preserve s' (c :: sb) false
      else if preserve || negb (isnil sb) then rev' sb :: split_esc_aux sep esc preserve s' [] escaped
           else split_esc_aux sep esc preserve s' sb escaped
    else
      if escaped then split_esc_aux sep esc preserve s' (c :: esc :: sb) false
      else split_esc_aux sep esc preserve s' (c :: sb) false
  end.
Definition split_with_escape (s : bytes) (sep esc : byte) (preserve : bool) : list bytes :=
  match s with [] => [] | _ => split_esc_aux sep esc preserve s [] false end.

(* lookup/domainstable.go:77-91 getSubdomains: the loop over the dot-separated parts, last part first *)
Definition get_subdomains (hostname : bytes) : list bytes :=
  snd (fold_left (fun (st : bytes * list bytes) (p : bytes) =>
                    let d := if isnil (fst st) then p else p ++ "."%byte :: fst st in
                    (d, snd st ++ [d]))
                 (rev' (split_byte "."%byte hostname)) ([], [])).
