(* A miniature model of Go slices, for the functions whose correctness is about ALIASING (C13: "evaluating
   derived results alters neither the engine nor previously returned results"):
     rules/match.go removeDNSRewriteRules   — filtered = rules[:i:i]; then appends
     dnsrewrite.go  DNSRewritesAll          — appends the selected rules to a nil slice
   A heap is a list of backing arrays; a slice is (array, offset, length, capacity); append writes in place when
   there is spare capacity and allocates a new array otherwise (with ANY growth policy). *)
From Coq Require Import List Arith Bool.
Import ListNotations.

Section Heap.
Variable V : Type.
Variable zero : V.                       (* the zero value filling spare capacity *)
Variable extra : nat -> nat.             (* growth policy: spare capacity allocated when a slice of length n grows *)

Record slice := { s_arr : nat; s_off : nat; s_len : nat; s_cap : nat }.
Definition heap := list (list V).
Definition nil_slice : slice := {| s_arr := 0; s_off := 0; s_len := 0; s_cap := 0 |}.

Definition arr (h : heap) (a : nat) : list V := nth a h [].
Definition contents (h : heap) (s : slice) : list V := firstn (s_len s) (skipn (s_off s) (arr h (s_arr s))).

Fixpoint set_nth {A} (l : list A) (i : nat) (v : A) : list A :=
  match l, i with
  | [], _ => []
  | _ :: t, O => v :: t
  | x :: t, S i' => x :: set_nth t i' v
  end.
Definition write (h : heap) (a i : nat) (v : V) : heap := set_nth h a (set_nth (arr h a) i v).

(* s[lo:hi:max] *)
Definition reslice3 (s : slice) (lo hi max : nat) : slice :=
  {| s_arr := s_arr s; s_off := s_off s + lo; s_len := hi - lo; s_cap := max - lo |}.
(* s[lo:hi] keeps the capacity *)
Definition reslice2 (s : slice) (lo hi : nat) : slice :=
  {| s_arr := s_arr s; s_off := s_off s + lo; s_len := hi - lo; s_cap := s_cap s - lo |}.

(* append(s, v) *)
Definition append (h : heap) (s : slice) (v : V) : heap * slice :=
  if s_len s <? s_cap s then
    (write h (s_arr s) (s_off s + s_len s) v,
     {| s_arr := s_arr s; s_off := s_off s; s_len := S (s_len s); s_cap := s_cap s |})
  else
    let newarr := contents h s ++ v :: repeat zero (extra (s_len s)) in
    (h ++ [newarr], {| s_arr := length h; s_off := 0; s_len := S (s_len s); s_cap := length newarr |}).

Fixpoint append_all (h : heap) (s : slice) (vs : list V) : heap * slice :=
  match vs with
  | [] => (h, s)
  | v :: vs' => let '(h1, s1) := append h s v in append_all h1 s1 vs'
  end.

Fixpoint find_index (p : V -> bool) (l : list V) : option nat :=
  match l with
  | [] => None
  | x :: l' => if p x then Some 0 else option_map S (find_index p l')
  end.

(* removeDNSRewriteRules: the original slice if nothing is to be removed; otherwise rules[:i:i] and appends *)
Definition remove_rw (isrw : V -> bool) (h : heap) (s : slice) : heap * slice :=
  match find_index isrw (contents h s) with
  | None => (h, s)
  | Some i => append_all h (reslice3 s 0 i i) (filter (fun v => negb (isrw v)) (skipn i (contents h s)))
  end.
(* the same function WITHOUT the capacity limit (rules[:i]): kept to show what the limit is for *)
Definition remove_rw_nolimit (isrw : V -> bool) (h : heap) (s : slice) : heap * slice :=
  match find_index isrw (contents h s) with
  | None => (h, s)
  | Some i => append_all h (reslice2 s 0 i) (filter (fun v => negb (isrw v)) (skipn i (contents h s)))
  end.

(* DNSRewritesAll: "for ... { if nr.DNSRewrite != nil { nrules = append(nrules, nr) } }" from a nil slice *)
Definition select_fresh (p : V -> bool) (h : heap) (s : slice) : heap * slice :=
  append_all h nil_slice (filter p (contents h s)).
End Heap.
