package main

import (
	"bytes"
	"compress/gzip"
	"encoding/hex"
	"fmt"
	"io"
	"net/http"
	"strings"

	"github.com/AdguardTeam/urlfilter/proxy"
)

// C20 — proxy HTML injection.  Case line: <body hex> TAB <gzip 0|1> TAB <csp 0|1>.
// The run phase appends the tag the implementation built (oracle input of the model) and compares, on the
// implementation side, the property's own reference: output == body[:i] + tag + body[i:] for the first marker
// whose transcoded offset is inside the 16 KiB window, Content-Length == len(output), Content-Encoding removed.

var c20Markers = []string{"</head", "<link", "<style", "<script"}

func c20MixCase(g *Gen, s string) string {
	b := []byte(s)
	for i, c := range b {
		if c >= 'a' && c <= 'z' && g.Bool() {
			b[i] = c - 32
		}
	}
	return string(b)
}

// c20Filler produces n bytes without '<' so that no accidental marker appears.
func c20Filler(g *Gen, n int, highPct int) []byte {
	out := make([]byte, n)
	for i := range out {
		var c byte
		if g.Intn(100) < highPct {
			c = byte(128 + g.Intn(128))
		} else {
			switch g.Intn(12) {
			case 0:
				c = byte(g.Intn(32)) // control bytes incl. NUL, 0x1c, 0x0f
			case 1:
				c = "/>\"'=\n\r\t &;"[g.Intn(11)]
			default:
				c = byte(32 + g.Intn(95))
			}
		}
		if c == '<' {
			c = '>'
		}
		out[i] = c
	}
	return out
}

func c20Body(g *Gen, tier string) []byte {
	var b bytes.Buffer
	switch g.Intn(10) {
	case 0:
		// tiny bodies, possibly a bare or truncated marker
		opts := []string{"", "<", "</hea", "</head", "<LINK", "<scrip", "<script", "x<style", "\xff<link", "</head></head>", "<ScRiPt><sCrIpT>"}
		return []byte(Pick(g, opts))
	case 1, 2, 3:
		// a marker around the end of the 16 KiB window of the TRANSCODED text, with high bytes before it
		high := g.Intn(3000)
		m := c20MixCase(g, Pick(g, c20Markers))
		// transcoded offset of the marker: target in [16384-10, 16384+3]
		target := 16384 - 10 + g.Intn(14)
		ascii := target - 2*high
		if ascii < 0 {
			ascii = 0
		}
		pre := c20Filler(g, ascii, 0)
		hi := make([]byte, high)
		for i := range hi {
			hi[i] = byte(128 + g.Intn(128))
		}
		// interleave deterministically: high bytes first or spread
		if g.Bool() {
			b.Write(hi)
			b.Write(pre)
		} else {
			b.Write(pre[:len(pre)/2])
			b.Write(hi)
			b.Write(pre[len(pre)/2:])
		}
		b.WriteString(m)
		b.Write(c20Filler(g, g.Intn(40), 10))
		if g.Bool() {
			b.WriteString(c20MixCase(g, Pick(g, c20Markers)))
			b.Write(c20Filler(g, g.Intn(40), 10))
		}
		return b.Bytes()
	case 4:
		// no marker at all, or only beyond the window
		n := g.Intn(3) * 9000
		b.Write(c20Filler(g, n+g.Intn(300), g.Intn(30)))
		if n >= 18000 && g.Bool() {
			b.WriteString(Pick(g, c20Markers))
		}
		return b.Bytes()
	default:
		// ordinary small documents: 0-3 markers, near-markers, "<" noise, high bytes anywhere
		n := g.Intn(6)
		for i := 0; i < n; i++ {
			b.Write(c20Filler(g, g.Intn(120), g.Intn(40)))
			switch g.Intn(4) {
			case 0:
				// near-markers and other tags of a page: only the four markers count, whatever precedes them
				b.WriteString(Pick(g, []string{"<", "<l", "</", "</hex", "<styl", "<\xffscript", "<li\x00nk", "\x1c/head", "<\x0fhead", "<scr\xe9ipt",
					"<body>", "<BODY class=x>", "<body", "</body>", "<html>", "<head>", "<!-- <head", "<title>", "<meta charset=x>", "<div>", "<bodyguard>", "<noscript>", "<p>"}))
			default:
				b.WriteString(c20MixCase(g, Pick(g, c20Markers)))
			}
		}
		b.Write(c20Filler(g, g.Intn(200), g.Intn(40)))
		return b.Bytes()
	}
}

// c20Ref is the property's reference computed on the original bytes.
func c20Ref(body []byte, tag string) []byte {
	// the tag is text; in the document (ISO 8859-1) each of its characters is one byte
	lt := make([]byte, 0, len(tag))
	for _, r := range tag {
		lt = append(lt, byte(r))
	}
	tag = string(lt)
	uoff := 0
	for i := 0; i < len(body); i++ {
		if uoff >= 16384 {
			break
		}
		for _, m := range c20Markers {
			if i+len(m) <= len(body) && strings.EqualFold(string(body[i:i+len(m)]), m) && isASCIIBytes(body[i:i+len(m)]) {
				out := append([]byte{}, body[:i]...)
				out = append(out, tag...)
				return append(out, body[i:]...)
			}
		}
		if body[i] >= 128 {
			uoff += 2
		} else {
			uoff++
		}
	}
	return body
}

func isASCIIBytes(b []byte) bool {
	for _, c := range b {
		if c >= 128 {
			return false
		}
	}
	return true
}

func init() {
	register("c20", &Prop{
		Gen: func(g *Gen, tier string, emit func(string)) {
			n := 400
			if tier == "thorough" {
				n = 6000
			}
			// exhaustive part: every marker at every transcoded offset 16370..16390, with 0 and 7 high bytes before
			for _, m := range c20Markers {
				for off := 16370; off <= 16390; off++ {
					for _, high := range []int{0, 7} {
						pre := bytes.Repeat([]byte("a"), off-2*high)
						hi := bytes.Repeat([]byte{0xe9}, high)
						body := append(append(append([]byte{}, hi...), pre...), []byte(m+">tail")...)
						emit(hex.EncodeToString(body) + "\t0\t0")
					}
				}
			}
			// bodies that are VALID UTF-8 as a whole (Cyrillic, accented Latin, CJK text before the first marker): the window
			// is measured on the transcoded text whatever the body happens to be encoded in — raw offset below 16384 with
			// the transcoded offset on either side of it
			for _, unit := range []string{"\u0444", "\u00e9", "\u4e2d", "a\u00e9", "\u0444\u0444x"} {
				per := 0
				for _, c := range []byte(unit) {
					if c >= 128 {
						per += 2
					} else {
						per++
					}
				}
				for _, target := range []int{16384 - 3*per, 16384 - per, 16384, 16384 + per, 20000, 9000} {
					k := target / per
					body := "<html><meta name=d content=\"" + strings.Repeat(unit, k) + "\">" + Pick(g, c20Markers) + ">x</html>"
					emit(hex.EncodeToString([]byte(body)) + "\t" + b01(g.Chance(1, 4)) + "\t0")
				}
			}
			// large bodies (size, marker offset or -1): around 1, 8 and 16 MiB
			for _, sz := range []int{1<<20 + 3, 8<<20 - 1, 8 << 20, 8<<20 + 4096, 9<<20 + 17, 16<<20 + 1} {
				emit(fmt.Sprintf("big\t%d\t%d", sz, Pick(g, []int{-1, 100, 16000})))
			}
			for i := 0; i < n; i++ {
				l := hex.EncodeToString(c20Body(g, tier)) + "\t" + b01(g.Chance(1, 3)) + "\t" + b01(g.Chance(1, 3))
				if g.Chance(1, 4) {
					// a second response is filtered before the first one's body is read
					l += "\t" + hex.EncodeToString(c20Body(g, tier))
				}
				emit(l)
			}
		},
		Run: func(line string, st *Stats) (string, string, bool) {
			f := strings.Split(line, "\t")
			if f[0] == "big" {
				// bodies of several MiB, plain and compressed (a tiny wire size can inflate to any length): every byte
				// comes back, whatever the size; decided by the reference on the original bytes
				var n, off int
				fmt.Sscan(f[1], &n)
				fmt.Sscan(f[2], &off)
				body := make([]byte, n)
				for i := range body {
					body[i] = byte(i*7 + i/251)
					if body[i] == '<' {
						body[i] = 'x'
					}
				}
				if off >= 0 && off+6 < n {
					copy(body[off:], "</head")
				}
				flags := ""
				for _, gz := range []bool{false, true} {
					h := http.Header{}
					h.Set("Content-Type", "text/html")
					wire := body
					if gz {
						var zb bytes.Buffer
						zw := gzip.NewWriter(&zb)
						_, _ = zw.Write(body)
						_ = zw.Close()
						wire = zb.Bytes()
						h.Set("Content-Encoding", "gzip")
					}
					out, cl, _, tag, err := proxy.VerifFilterHTML(wire, h, "example.org", "injections.adguard.com")
					if err != nil {
						flags += "!ERROR-ON-LARGE-BODY"
						continue
					}
					if !bytes.Equal(out, c20Ref(body, tag)) {
						flags += fmt.Sprintf("!LARGE-BODY-DIFFERS-FROM-REFERENCE:gzip=%v got %d bytes of %d", gz, len(out), len(c20Ref(body, tag)))
					}
					if cl != int64(len(out)) {
						flags += "!CONTENT-LENGTH"
					}
				}
				st.Inc("large_bodies")
				return "ok" + flags, "echo\tok", true
			}
			body, _ := hex.DecodeString(f[0])
			gz := f[1] == "1"
			csp := f[2] == "1"
			h := http.Header{}
			wire := body
			if gz {
				// a gzip stream may consist of several members (RFC 1952 2.2): 1-3 members, depending on the body length
				var zb bytes.Buffer
				members := 1 + len(body)%3
				for m := 0; m < members; m++ {
					zw := gzip.NewWriter(&zb)
					_, _ = zw.Write(body[len(body)*m/members : len(body)*(m+1)/members])
					_ = zw.Close()
				}
				wire = zb.Bytes()
				st.Inc(fmt.Sprintf("gzip_members_%d", members))
				h.Set("Content-Encoding", "gzip")
			}
			if csp {
				h.Set("Content-Security-Policy", "default-src 'self'")
			}
			h.Set("Content-Type", "text/html")
			mline := strings.Join(f[:3], "\t")
			var out []byte
			var cl int64
			var oh http.Header
			var tag string
			var err error
			flags := ""
			if len(f) > 3 {
				// overlapping sessions: filter A, filter B, and only then read A's body, then B's
				bodyB, _ := hex.DecodeString(f[3])
				var resA, resB *http.Response
				resA, tag, err = proxy.VerifFilterHTMLUnread(wire, h, "example.org", "injections.adguard.com")
				if err != nil {
					return "E", mline + "\t" + hx(tag), true
				}
				hb := http.Header{}
				hb.Set("Content-Type", "text/html")
				var tagB string
				resB, tagB, err = proxy.VerifFilterHTMLUnread(bodyB, hb, "example.org", "injections.adguard.com")
				out, _ = io.ReadAll(resA.Body)
				cl, oh = resA.ContentLength, resA.Header
				if err == nil {
					outB, _ := io.ReadAll(resB.Body)
					if !bytes.Equal(outB, c20Ref(bodyB, tagB)) || resB.ContentLength != int64(len(outB)) {
						flags += "!SECOND-RESPONSE-DIFFERS-FROM-REFERENCE"
					}
				}
				st.Inc("overlapping_pairs")
			} else {
				// the page's host name goes into the tag: ASCII, Latin-1 and beyond Latin-1 (the tag must be encodable in the
				// document's charset or the response is refused — never re-encoded differently)
				pageHost := []string{"example.org", "example.org", "example.org", "b\u00fccher.example", "\u043f\u0440\u0438\u043c\u0435\u0440.\u0440\u0444"}[len(body)%5]
				out, cl, oh, tag, err = proxy.VerifFilterHTML(wire, h, pageHost, "injections.adguard.com")
				if err != nil {
					st.Inc("refused")
					return "E", mline + "\t" + hx(tag), true
				}
			}
			ref := c20Ref(body, tag)
			if !bytes.Equal(out, ref) {
				flags += "!OUTPUT-DIFFERS-FROM-REFERENCE"
			}
			if cl != int64(len(out)) {
				flags += fmt.Sprintf("!CONTENT-LENGTH-%d-BODY-%d", cl, len(out))
			}
			if oh.Get("Content-Encoding") != "" {
				flags += "!CONTENT-ENCODING-KEPT"
			}
			injected := len(out) != len(body)
			if injected {
				st.Inc("injected")
			} else {
				st.Inc("unchanged")
			}
			if gz {
				st.Inc("gzip")
			}
			if !isASCIIBytes(body) {
				st.Inc("bodies_with_high_bytes")
			}
			if len(body) > 16384 {
				st.Inc("bodies_longer_than_window")
			}
			return hex.EncodeToString(out) + flags, mline + "\t" + hx(tag), injected
		},
	})
}
