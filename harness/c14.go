package main

import (
	"fmt"
	"os"
	"runtime"
	"strings"
	"sync"
	"time"

	"github.com/AdguardTeam/urlfilter"
	"github.com/AdguardTeam/urlfilter/filterlist"
	"github.com/AdguardTeam/urlfilter/rules"
)

// C14 — concurrent queries.  Case line: <storage> TAB <requests> TAB <goroutines> TAB <file 0|1>.
// Five passes per case (4: warm-cache hammer, 5: cache lock busy at every insert), each on fresh engines with a cold cache:
//   1. sequential reference answers (no instrumentation);
//   2. single-goroutine probe pass: at every shared access the hook probes the real lock with TryLock/TryRLock;
//      with one goroutine nobody else can hold the lock, so a missing Lock() is detected deterministically;
//   3. concurrent pass: the requests are partitioned over N goroutines, the hook probes and perturbs the schedule
//      (yields and short sleeps at the cache-miss, file-read, compile and pool boundaries); every answer is
//      compared with the sequential one; under the race detector (harness built with -race) reports are counted.
// Observation: the lock mode observed at each kind of access ("r"/"w"/"-" = not reached/"NONE" = access without
// the lock), pool ownership, answers — compared with the modes the Coq protocol model (Model/Conc.v) requires.

type c14Monitor struct {
	mu     sync.Mutex
	seen   map[int]int
	bad    map[int]int
	owners map[*rules.Request]int
	shared int
	yield  bool
	tick   int
	// contended mode: at every cache miss the cache lock is taken in read mode on behalf of "another goroutine" and
	// released a little later from a different goroutine, so that the insert that follows finds the lock BUSY
	contend bool
	cacheMu *sync.RWMutex
	held    int
}

func newC14Monitor(yield bool) *c14Monitor {
	return &c14Monitor{seen: map[int]int{}, bad: map[int]int{}, owners: map[*rules.Request]int{}, yield: yield}
}

func (m *c14Monitor) note(kind int, ok bool) {
	m.mu.Lock()
	m.seen[kind]++
	if !ok {
		m.bad[kind]++
	}
	m.mu.Unlock()
}

func (m *c14Monitor) handle(kind int, obj any) {
	switch kind {
	case filterlist.VerifCacheRead:
		mu := obj.(*sync.RWMutex)
		if m.contend {
			m.cacheMu = mu // only the single query goroutine of the contended pass writes and reads this field
			m.note(kind, true)
			break
		}
		if mu.TryLock() {
			// nobody holds the lock in any mode, not even the reader itself
			mu.Unlock()
			m.note(kind, false)
		} else {
			m.note(kind, true)
		}
	case filterlist.VerifCacheWrite:
		mu := obj.(*sync.RWMutex)
		if m.contend {
			m.note(kind, true)
			break
		}
		if mu.TryRLock() {
			// no writer holds the lock
			mu.RUnlock()
			m.note(kind, false)
		} else {
			m.note(kind, true)
		}
	case filterlist.VerifFileRead, filterlist.VerifCompile:
		mu := obj.(*sync.Mutex)
		if mu.TryLock() {
			mu.Unlock()
			m.note(kind, false)
		} else {
			m.note(kind, true)
		}
	case filterlist.VerifPoolGet:
		req := obj.(*rules.Request)
		m.mu.Lock()
		m.seen[kind]++
		m.owners[req]++
		if m.owners[req] > 1 {
			m.shared++
		}
		m.mu.Unlock()
	case filterlist.VerifPoolPut:
		req := obj.(*rules.Request)
		m.mu.Lock()
		m.owners[req]--
		m.mu.Unlock()
	case filterlist.VerifCacheMiss:
		m.note(kind, true)
		if m.contend && m.cacheMu != nil {
			mu := m.cacheMu
			mu.RLock()
			m.held++
			go func() {
				time.Sleep(150 * time.Microsecond)
				mu.RUnlock()
			}()
		}
	}
	if m.yield {
		m.mu.Lock()
		m.tick++
		t := m.tick
		m.mu.Unlock()
		runtime.Gosched()
		switch kind {
		case filterlist.VerifCompile:
			time.Sleep(150 * time.Microsecond)
		case filterlist.VerifFileRead, filterlist.VerifCacheMiss, filterlist.VerifPoolGet:
			if t%3 == 0 {
				time.Sleep(20 * time.Microsecond)
			}
		}
	}
}

var c14Kinds = []struct {
	kind int
	name string
	mode string
}{
	{filterlist.VerifCacheRead, "CacheRead", "r"},
	{filterlist.VerifCacheWrite, "CacheWrite", "w"},
	{filterlist.VerifFileRead, "FileRead", "w"},
	{filterlist.VerifCompile, "Compile", "w"},
}

func (m *c14Monitor) modes() (string, string) {
	var parts, reached []string
	for _, k := range c14Kinds {
		switch {
		case m.seen[k.kind] == 0:
			parts = append(parts, k.name+"=-")
			reached = append(reached, "0")
		case m.bad[k.kind] > 0:
			parts = append(parts, fmt.Sprintf("%s=NONE(%d of %d accesses without the lock)", k.name, m.bad[k.kind], m.seen[k.kind]))
			reached = append(reached, "1")
		default:
			parts = append(parts, k.name+"="+k.mode)
			reached = append(reached, "1")
		}
	}
	return strings.Join(parts, ";"), strings.Join(reached, "")
}

// raceReports counts the data-race reports the race detector has written so far (GORACE log_path).
func raceReports() int {
	base := os.Getenv("VERIF_RACE_LOG")
	if base == "" {
		return 0
	}
	b, err := os.ReadFile(fmt.Sprintf("%s.%d", base, os.Getpid()))
	if err != nil {
		return 0
	}
	return strings.Count(string(b), "WARNING: DATA RACE")
}

func init() {
	register("c14", &Prop{
		Gen: func(g *Gen, tier string, emit func(string)) {
			cases, nreq := 10, 120
			if tier == "thorough" {
				cases, nreq = 100, 400
			}
			for i := 0; i < cases; i++ {
				ls, lines := genHistStorage(g, 30)
				var reqs []Req
				for j := 0; j < nreq; j++ {
					reqs = append(reqs, histOp(g, lines, reqs))
				}
				// names and URLs in which a rule's lookup window occurs twice, asked by several goroutines at once on the
				// cold cache: the same rule is then retrieved twice within one lookup while other goroutines insert it
				for j := 0; j < 6; j++ {
					h := Pick(g, hostPool)
					rep := Req{Kind: Pick(g, []string{"dns", "host", "url"}), Hostname: h + "." + h, URL: "http://" + h + "." + h + "/", Type: 4}
					at := g.Intn(len(reqs) + 1)
					for c := 0; c < 6; c++ {
						reqs = append(reqs[:at], append([]Req{rep}, reqs[at:]...)...)
					}
				}
				// rules of the $domain table on several levels of one hostname chain (3-7 of them on the parent, so that its
				// bucket has spare capacity) and requests from different subdomains of it, asked by different goroutines
				par := Pick(g, []string{"example.org", "tracker.io", "test.com"})
				np := 3 + g.Intn(5)
				for k := 0; k < np; k++ {
					ls[0].content += fmt.Sprintf("/a%d$domain=%s\n", k, par)
				}
				subs := []string{"a." + par, "b." + par, "c.a." + par, "d." + par}
				for k, sb := range subs {
					ls[0].content += fmt.Sprintf("/s%d$domain=%s\n", k, sb)
				}
				for k := 0; k < 24; k++ {
					sb := subs[k%len(subs)]
					at := g.Intn(len(reqs) + 1)
					reqs = append(reqs[:at], append([]Req{{Kind: "url", URL: fmt.Sprintf("http://cdn.test/a%d/s%d/x", k%np, k%len(subs)), Source: "https://" + sb + "/", Type: 4}}, reqs[at:]...)...)
				}
				// pages covered by DIFFERENT document-level exceptions (or none) asking for the same blocked resources through
				// the web engine at the same time: the rules of one page never leak into the verdict of another.  Placed at
				// the head of the history, where the warm pass hammers (each goroutine its own five requests)
				ls[0].content += "||shared-cdn.test^\n||shared-cdn.test^$script,important\n/gen-banner\n@@||page-u.test^$urlblock\n@@||page-g.test^$genericblock\n@@||page-d.test^$document\n@@||page-e.test^$elemhide,urlblock\n"
				pages := []string{"http://page-u.test/", "http://page-g.test/a", "http://page-n.test/", "http://page-d.test/", "http://page-e.test/x", ""}
				var head []Req
				for k := 0; k < 48; k++ {
					head = append(head, Req{Kind: "web", URL: Pick(g, []string{"http://shared-cdn.test/x.js", "http://other.test/gen-banner", "http://shared-cdn.test/gen-banner"}),
						Source: pages[(k+k/5)%len(pages)], Type: Pick(g, []uint32{2, 4, 32})})
				}
				reqs = append(head, reqs...)
				n := Pick(g, []int{2, 3, 4, 8, 16, 32})
				emit(encodeStorage(ls) + "\t" + encodeReqs(reqs) + "\t" + fmt.Sprint(n) + "\t" + b01(i%2 == 0))
			}
		},
		Run: func(line string, st *Stats) (string, string, bool) {
			f := strings.Split(line, "\t")
			ls := decodeStorage(f[0])
			reqs := decodeReqs(f[1])
			var n int
			fmt.Sscan(f[2], &n)
			fileBacked := f[3] == "1"
			defer filterlist.VerifSetHook(nil)

			// pass 1: sequential reference
			filterlist.VerifSetHook(nil)
			ref := newHistEngines(ls, fileBacked)
			want := make([]string, len(reqs))
			wantN := make([]int, len(reqs))
			hits := 0
			for i, rq := range reqs {
				var rr *histResult
				want[i], rr, _ = ref.runOp(rq)
				wantN[i] = rr.count()
				if strings.Trim(want[i], "/n0") != "" {
					hits++
				}
			}
			ref.cleanup()

			flags := ""
			// pass 2: single-goroutine probe pass on a cold cache
			mon := newC14Monitor(false)
			filterlist.VerifSetHook(mon.handle)
			e2 := newHistEngines(ls, fileBacked)
			for i, rq := range reqs {
				got, _, _ := e2.runOp(rq)
				if got != want[i] && flags == "" {
					flags = fmt.Sprintf("!ANSWER-DIFFERS-WITH-PROBES:req=%d", i)
				}
			}
			e2.cleanup()
			filterlist.VerifSetHook(nil)
			modes, reached := mon.modes()

			// pass 3: concurrent, cold cache, perturbed schedule
			races0 := raceReports()
			mon3 := newC14Monitor(true)
			filterlist.VerifSetHook(mon3.handle)
			e3 := newHistEngines(ls, fileBacked)
			got := make([]string, len(reqs))
			gotN := make([]int, len(reqs))
			var wg sync.WaitGroup
			for w := 0; w < n; w++ {
				wg.Add(1)
				go func(w int) {
					defer wg.Done()
					for i := w; i < len(reqs); i += n {
						if p, msg := protect(func() {
							var rr *histResult
							got[i], rr, _ = e3.runOp(reqs[i])
							gotN[i] = rr.count()
						}); p {
							got[i] = "panic:" + msg
						}
					}
				}(w)
			}
			done := make(chan struct{})
			go func() { wg.Wait(); close(done) }()
			select {
			case <-done:
			case <-time.After(60 * time.Second):
				flags += "!CONCURRENT-QUERIES-BLOCK-FOREVER"
			}
			filterlist.VerifSetHook(nil)
			e3.cleanup()
			diff := 0
			first := -1
			for i := range reqs {
				// the answer as a set of rule texts, and the number of rules reported (a rule returned twice is a
				// different answer)
				if got[i] != want[i] || gotN[i] != wantN[i] {
					diff++
					if first < 0 {
						first = i
					}
				}
			}
			if diff > 0 {
				flags += fmt.Sprintf("!CONCURRENT-ANSWER-DIFFERS:%d of %d, first req=%d", diff, len(reqs), first)
			}
			// pass 4: warm cache, no instrumentation, every goroutine asks its own few requests over and over while
			// the others do the same (fast paths in front of the locks are only reachable this way)
			e4 := newHistEngines(ls, fileBacked)
			for _, rq := range reqs {
				e4.runOp(rq)
			}
			var hammerDiff int64
			hammerFirst := int64(-1)
			var hmu sync.Mutex
			var wg4 sync.WaitGroup
			for w := 0; w < n; w++ {
				wg4.Add(1)
				go func(w int) {
					defer wg4.Done()
					for it := 0; it < 3000/n+40; it++ {
						i := (w*7 + it%5) % len(reqs)
						var g string
						var c int
						if p, _ := protect(func() {
							var rr *histResult
							g, rr, _ = e4.runOp(reqs[i])
							c = rr.count()
						}); p || g != want[i] || c != wantN[i] {
							hmu.Lock()
							hammerDiff++
							if hammerFirst < 0 {
								hammerFirst = int64(i)
							}
							hmu.Unlock()
						}
					}
				}(w)
			}
			done4 := make(chan struct{})
			go func() { wg4.Wait(); close(done4) }()
			select {
			case <-done4:
			case <-time.After(60 * time.Second):
				flags += "!CONCURRENT-QUERIES-BLOCK-FOREVER"
			}
			e4.cleanup()
			if hammerDiff > 0 {
				diff += int(hammerDiff)
				flags += fmt.Sprintf("!CONCURRENT-ANSWER-DIFFERS-ON-WARM-CACHE:%d, first req=%d", hammerDiff, hammerFirst)
			}
			// pass 5: one query goroutine on a cold cache while the cache lock is BUSY at every insert (held in read mode by
			// "another goroutine" from the cache miss on, released 150 microseconds later): a query must wait for the lock,
			// not work around it — deterministic, no scheduling luck involved
			mon5 := newC14Monitor(false)
			mon5.contend = true
			filterlist.VerifSetHook(mon5.handle)
			e5 := newHistEngines(ls, fileBacked)
			contDiff, contFirst := 0, -1
			done5 := make(chan struct{})
			go func() {
				defer close(done5)
				for i, rq := range reqs {
					var g string
					var c int
					if p, _ := protect(func() {
						var rr *histResult
						g, rr, _ = e5.runOp(rq)
						c = rr.count()
					}); p || g != want[i] || c != wantN[i] {
						contDiff++
						if contFirst < 0 {
							contFirst = i
						}
					}
				}
			}()
			select {
			case <-done5:
			case <-time.After(60 * time.Second):
				flags += "!QUERIES-BLOCK-FOREVER-WHEN-THE-CACHE-LOCK-IS-BUSY"
			}
			filterlist.VerifSetHook(nil)
			time.Sleep(time.Millisecond) // let the last delayed RUnlock run before the engines go away
			e5.cleanup()
			if contDiff > 0 {
				diff += contDiff
				flags += fmt.Sprintf("!ANSWER-DIFFERS-WHEN-THE-CACHE-LOCK-IS-BUSY:%d of %d, first req=%d", contDiff, len(reqs), contFirst)
			}
			// pass 6: the cosmetic side of the web engine, FIRST use by several goroutines at once on freshly built engines
			// (rules with long domain lists, exceptions, generic rules): every answer is the sequential one
			{
				var doms []string
				for k := 0; k < 24+len(line)%20; k++ {
					doms = append(doms, fmt.Sprintf("cos%d.example", (k*7)%61))
				}
				cosText := strings.Join(doms, ",") + "##.banner\n" + strings.Join(doms[:18], ",") + "#@#.promo\n##.promo\n##.generic\ncos3.example,cos10.example##.short\n" +
					strings.Join(doms[2:20], ",") + "#$#.injected { display: none }\n"
				cosHosts := []string{"cos0.example", "www.cos7.example", "cos14.example", "a.b.cos21.example", "cos3.example", "other.example", "cos60.example", "cos35.example"}
				mkCos := func() *urlfilter.Engine {
					s, serr := filterlist.NewRuleStorage([]filterlist.RuleList{&filterlist.StringRuleList{ID: 9, RulesText: cosText}})
					must(serr)
					return urlfilter.NewEngine(s)
				}
				serCos := func(r urlfilter.CosmeticResult) string {
					return sortedSet(r.ElementHiding.Generic) + "/" + sortedSet(r.ElementHiding.Specific) + "/" + sortedSet(r.ElementHiding.GenericExtCSS) + "/" + sortedSet(r.CSS.Specific)
				}
				ref := mkCos()
				wantCos := make([]string, len(cosHosts))
				for i, h := range cosHosts {
					wantCos[i] = serCos(ref.GetCosmeticResult(h, rules.CosmeticOptionAll))
				}
				var cosDiff int64
				var cmu sync.Mutex
				firstCos := ""
				for round := 0; round < 12; round++ {
					e6 := mkCos()
					start := make(chan struct{})
					var wg6 sync.WaitGroup
					for w := 0; w < n && w < 8; w++ {
						wg6.Add(1)
						go func(w int) {
							defer wg6.Done()
							<-start
							for it := 0; it < 6; it++ {
								i := (w + it) % len(cosHosts)
								var got string
								if p, _ := protect(func() { got = serCos(e6.GetCosmeticResult(cosHosts[i], rules.CosmeticOptionAll)) }); p || got != wantCos[i] {
									cmu.Lock()
									cosDiff++
									if firstCos == "" {
										firstCos = cosHosts[i] + ": " + got + " instead of " + wantCos[i]
									}
									cmu.Unlock()
								}
							}
						}(w)
					}
					close(start)
					wg6.Wait()
				}
				if cosDiff > 0 {
					diff += int(cosDiff)
					flags += fmt.Sprintf("!CONCURRENT-COSMETIC-ANSWER-DIFFERS:%d, first %s", cosDiff, strings.ReplaceAll(firstCos, "\n", " "))
				}
				st.Add("cosmetic_first_use_rounds", 12)
			}
			st.Add("inserts_with_busy_lock", mon5.held)
			for _, k := range c14Kinds {
				if mon3.bad[k.kind] > 0 {
					flags += fmt.Sprintf("!LOCK-NOT-HELD-CONCURRENT:%s x%d", k.name, mon3.bad[k.kind])
				}
			}
			if mon.shared+mon3.shared > 0 {
				flags += fmt.Sprintf("!POOLED-REQUEST-SHARED:x%d", mon.shared+mon3.shared)
			}
			if r := raceReports() - races0; r > 0 {
				flags += fmt.Sprintf("!DATA-RACE:%d reports", r)
			}
			pool := "excl"
			if mon.shared+mon3.shared > 0 {
				pool = "SHARED"
			}
			answers := "seq"
			if diff > 0 {
				answers = "DIFFER"
			}
			st.Add("requests", len(reqs))
			st.Add("goroutines", n)
			st.Add("requests_with_match", hits)
			if raceEnabled {
				st.Inc("cases_under_race_detector")
			}
			if fileBacked {
				st.Inc("file_backed")
			}
			for _, k := range c14Kinds {
				st.Add("probes_"+k.name, mon.seen[k.kind]+mon3.seen[k.kind])
			}
			st.Add("probes_PoolGet", mon.seen[filterlist.VerifPoolGet]+mon3.seen[filterlist.VerifPoolGet])
			return modes + ";pool=" + pool + ";answers=" + answers + flags, reached, hits > 0
		},
	})
}
