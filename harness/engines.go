package main

import (
	"fmt"
	"sort"
	"strings"

	"github.com/AdguardTeam/urlfilter"
	"github.com/AdguardTeam/urlfilter/filterlist"
	"github.com/AdguardTeam/urlfilter/filterutil"
	"github.com/AdguardTeam/urlfilter/rules"
	"golang.org/x/net/publicsuffix"
)

// Shared machinery of the engine properties C01, C02, C15 (and C19, C13).
//
// storage spec:  <id>:<ignoreCosmetic>:<content hex>;...      (same as C11)
// requests:      <request>|<request>|...

// ---- djb2 collision pools (birthday search, deterministic) ----

var collidingWindows [][2]string // 5-byte lower-case strings with equal FastHash
var collidingHosts [][2]string   // host names with equal FastHash
var collidingDNSTexts [][2]string // host-level rule texts "||a.ar^$..." (sequential table) with equal FastHash
var collidingDNSHosts [][2]string // ... and their host names
var collidingSelectors [][2]string // element-hiding selectors with equal FastHash
var collidingSeqTexts [][2]string // rule texts "/xyz^" (sequential table: shortcut shorter than 5) with equal FastHash

// zeroHashNames returns domain names whose 32-bit hash is exactly 0 — the value FastHash also gives the empty string.
// Meet in the middle over "pppp" + "mmmm" + ".com" using the structure of djb2-xor (h' = h*33 ^ c is invertible);
// every candidate is re-checked with the library's own function, so a different hash function simply yields none.
var zeroHashCache []string

func zeroHashNames() []string {
	if zeroHashCache != nil {
		return zeroHashCache
	}
	zeroHashCache = []string{}
	const inv33 = uint32(0x3E0F83E1)
	fwd := make(map[uint32][4]byte, 460000)
	al := "abcdefghijklmnopqrstuvwxyz"
	var p [4]byte
	for a := 0; a < 26; a++ {
		for b := 0; b < 26; b++ {
			for c := 0; c < 26; c++ {
				for d := 0; d < 26; d++ {
					p = [4]byte{al[a], al[b], al[c], al[d]}
					h := uint32(5381)
					for _, ch := range p {
						h = h*33 ^ uint32(ch)
					}
					fwd[h] = p
				}
			}
		}
	}
	for _, tld := range []string{".com", ".org", ".net"} {
		for a := 0; a < 26 && len(zeroHashCache) < 9; a++ {
			for b := 0; b < 26; b++ {
				for c := 0; c < 26; c++ {
					for d := 0; d < 26; d++ {
						suf := string([]byte{al[a], al[b], al[c], al[d]}) + tld
						h := uint32(0)
						for i := len(suf) - 1; i >= 0; i-- {
							h = (h ^ uint32(suf[i])) * inv33
						}
						if pre, ok := fwd[h]; ok {
							name := string(pre[:]) + suf
							if filterutil.FastHash(name) == 0 {
								zeroHashCache = append(zeroHashCache, name)
							}
						}
					}
				}
			}
		}
	}
	return zeroHashCache
}

func findCollisions() {
	if collidingWindows != nil {
		return
	}
	r := newRand(20240917)
	letters := "abcdefghijklmnopqrstuvwxyz0123456789-./"
	seen := map[uint32]string{}
	for len(collidingWindows) < 24 {
		b := make([]byte, 5)
		for i := range b {
			b[i] = letters[r.Intn(len(letters)-3)]
		}
		s := string(b)
		h := filterutil.FastHash(s)
		if o, ok := seen[h]; ok && o != s {
			collidingWindows = append(collidingWindows, [2]string{o, s})
		}
		seen[h] = s
	}
	// whole rule texts that collide: enumerate "/xyz^" over [a-z0-9] (deterministic order)
	seenT := map[uint32]string{}
	al := "abcdefghijklmnopqrstuvwxyz0123456789"
	for i := 0; i < len(al) && len(collidingSeqTexts) < 6; i++ {
		for j := 0; j < len(al) && len(collidingSeqTexts) < 6; j++ {
			for k := 0; k < len(al) && len(collidingSeqTexts) < 6; k++ {
				s := "/" + string(al[i]) + string(al[j]) + string(al[k]) + "^"
				h := filterutil.FastHash(s)
				if o, ok := seenT[h]; ok && o != s {
					collidingSeqTexts = append(collidingSeqTexts, [2]string{o, s})
				}
				seenT[h] = s
			}
		}
	}
	// host-level rule texts with a shortcut shorter than 5 bytes (sequential table of the DNS engine) that collide as
	// whole texts: birthday search over "||<c>.<1-2 chars>^[$modifier]" in a fixed enumeration order
	seenD := map[uint32][2]string{}
	dmods := []string{"", "$important", "$dnstype=A", "$dnstype=CNAME", "$client=Mom", "$ctag=device_pc", "$dnstype=~AAAA", "$denyallow=x.io", "$dnstype=MX", "$client=Dad", "$badfilter", "$dnstype=TXT"}
	var tails []string
	for a := 0; a < len(al); a++ {
		tails = append(tails, string(al[a]))
	}
	for a := 0; a < len(al); a++ {
		for b := 0; b < len(al); b++ {
			tails = append(tails, string(al[a])+string(al[b]))
		}
	}
dsearch:
	for a := 0; a < len(al); a++ {
		for _, t := range tails {
			host := string(al[a]) + "." + t
			for _, m := range dmods {
				txt := "||" + host + "^" + m
				h := filterutil.FastHash(txt)
				if o, ok := seenD[h]; ok && o[1] != host && !strings.Contains(o[0], "badfilter") && !strings.Contains(txt, "badfilter") {
					collidingDNSTexts = append(collidingDNSTexts, [2]string{o[0], txt})
					collidingDNSHosts = append(collidingDNSHosts, [2]string{o[1], host})
					if len(collidingDNSTexts) >= 12 {
						break dsearch
					}
				}
				seenD[h] = [2]string{txt, host}
			}
		}
	}
	// element-hiding selectors ".ad-xyz" with equal FastHash (fixed enumeration order)
	seenS := map[uint32]string{}
ssearch:
	for a := 0; a < len(al); a++ {
		for b := 0; b < len(al); b++ {
			for c := 0; c < len(al); c++ {
				for d := 0; d < len(al); d++ {
					sel := ".ad-" + string(al[a]) + string(al[b]) + string(al[c]) + string(al[d])
					h := filterutil.FastHash(sel)
					if o, ok := seenS[h]; ok && o != sel {
						collidingSelectors = append(collidingSelectors, [2]string{o, sel})
						if len(collidingSelectors) >= 8 {
							break ssearch
						}
					}
					seenS[h] = sel
				}
			}
		}
	}
	seenH := map[uint32]string{}
	words := []string{"ads", "cdn", "img", "log", "app", "api", "static", "media"}
	doms := []string{"example.org", "tracker.io", "test.com", "imgmedia.net", "mailstats.net"}
	for len(collidingHosts) < 12 {
		s := fmt.Sprintf("%s%d.%s", words[r.Intn(len(words))], r.Intn(100000), doms[r.Intn(len(doms))])
		h := filterutil.FastHash(s)
		if o, ok := seenH[h]; ok && o != s {
			collidingHosts = append(collidingHosts, [2]string{o, s})
		}
		seenH[h] = s
	}
}

type listSpec struct {
	id      int
	ignore  bool
	content string
}

func encodeStorage(ls []listSpec) string {
	parts := make([]string, len(ls))
	for i, l := range ls {
		parts[i] = fmt.Sprintf("%d:%s:%s", l.id, b01(l.ignore), hx(l.content))
	}
	return strings.Join(parts, ";")
}

func decodeStorage(s string) []listSpec {
	var out []listSpec
	for _, p := range strings.Split(s, ";") {
		f := strings.SplitN(p, ":", 3)
		var id int
		fmt.Sscan(f[0], &id)
		out = append(out, listSpec{id, f[1] == "1", unhx(f[2])})
	}
	return out
}

func stringStorage(ls []listSpec) *filterlist.RuleStorage {
	var l []filterlist.RuleList
	for _, s := range ls {
		l = append(l, &filterlist.StringRuleList{ID: s.id, RulesText: s.content, IgnoreCosmetic: s.ignore})
	}
	st, err := filterlist.NewRuleStorage(l)
	must(err)
	return st
}

func decodeReqs(s string) []Req {
	var out []Req
	if s == "" {
		return out
	}
	for _, p := range strings.Split(s, "|") {
		out = append(out, decodeReq(p))
	}
	return out
}

func encodeReqs(rs []Req) string {
	p := make([]string, len(rs))
	for i, r := range rs {
		p[i] = r.Encode()
	}
	return strings.Join(p, "|")
}

// pslForHosts returns the PSL oracle table for the given host names.
func pslForHosts(hosts []string) string {
	var l []string
	seen := map[string]bool{}
	for _, h := range hosts {
		if seen[h] {
			continue
		}
		seen[h] = true
		s, icann := publicsuffix.PublicSuffix(h)
		l = append(l, h, s, b01(icann))
	}
	return encList(l)
}

func sortedSet(l []string) string {
	m := map[string]bool{}
	for _, s := range l {
		m[s] = true
	}
	out := make([]string, 0, len(m))
	for s := range m {
		out = append(out, s)
	}
	sort.Strings(out)
	return encList(out)
}

// sortedMulti keeps multiplicities: the same text reported twice (a rule present in two lists) is part of the answer.
func sortedMulti(l []string) string {
	out := append([]string{}, l...)
	sort.Strings(out)
	return encList(out)
}

// engineRule produces a network rule line with features relevant for the lookup tables.
func engineRule(g *Gen) string {
	findCollisions()
	switch g.Intn(16) {
	case 0:
		// shortcut containing a colliding window
		p := Pick(g, collidingWindows)
		return Pick(g, []string{"", "||", "*"}) + Pick(g, []string{"x", "", "ab"}) + p[g.Intn(2)] + Pick(g, []string{"", "^", "z*", "/q"})
	case 1:
		// shortcut of length exactly 5 / below 5 / any-URL shortcuts
		if g.Chance(1, 3) {
			// the only literal part lies inside the scheme (+ "www.") prefix, yet is too long to be an "any URL" shortcut
			return Pick(g, []string{"://www.*/ads^", "|https://www.*.top^$script", "@@|http://www.*/ads^$image", "|http://www.*", "://www.*^$third-party", "|https://www.*", "s://www.*/x", "ttp://www.*", "|wss://www.*"})
		}
		return Pick(g, []string{"abcde", "abcd$domain=example.org", "||ab^$domain=test.com", "http://*ad$domain=example.org", "|https://$domain=example.org", "ws://x", "|ws://*$domain=a.org", "https://", "|http://ab", "http*banner"})
	case 2, 3:
		if g.Chance(1, 4) {
			// $domain values that are public suffixes themselves (private section, wildcard entries) or one label
			return Pick(g, []string{"ad", "*", "/x", "^"}) + "$domain=" + joinVals(g, []string{"github.io", "kawasaki.jp", "co.uk", "blogspot.com", "ck", "org", "localhost", "city.kawasaki.jp"}, 1, 2, 0, "|")
		}
		if g.Chance(1, 5) {
			// values related as parent and subdomain, in either order, one of them in another letter case (values are
			// compared byte for byte): every value is a key of its own
			par := Pick(g, hostPool)
			sub := Pick(g, []string{"cdn.", "a.b.", "www."}) + par
			cs := func(x string) string {
				switch g.Intn(3) {
				case 0:
					return strings.ToUpper(x[:1]) + x[1:]
				case 1:
					return strings.ToUpper(x)
				}
				return x
			}
			vals := []string{cs(par), sub}
			if g.Bool() {
				vals = []string{par, cs(sub)}
			}
			if g.Bool() {
				vals[0], vals[1] = vals[1], vals[0]
			}
			if g.Chance(1, 3) {
				vals = append(vals, Pick(g, hostPool))
			}
			return Pick(g, []string{"ad", "*", "/x", "||", "^"}) + "$domain=" + strings.Join(vals, "|")
		}
		if g.Chance(1, 6) {
			// $domain values whose hashes collide (the domains table is keyed by the hash of the value): a source below one
			// of them reaches the other's bucket, where the rule must be re-checked
			pr := Pick(g, collidingHosts)
			vals := []string{pr[g.Intn(2)]}
			if g.Chance(1, 3) {
				vals = append(vals, Pick(g, hostPool))
			}
			return Pick(g, []string{"ad", "*", "/x", "^"}) + "$domain=" + strings.Join(vals, "|") + Pick(g, []string{"", ",script"})
		}
		// domains table
		doms := append(append([]string{}, hostPool...), wildcardDomains...)
		return Pick(g, []string{"ad", "*", "/x", "||", "^"}) + "$domain=" + joinVals(g, doms, 1, 3, 20, "|") + Pick(g, []string{"", ",script", ",third-party"})
	case 4:
		// sequential table: no shortcut, no domain
		return Pick(g, []string{"/ad[0-9]/", "/ads?/", "ad$client=127.0.0.1", "a^b$ctag=device_pc", "/x.y/$denyallow=example.org", "*$dnstype=A", "^ad^$client=Mom"})
	case 5:
		// repeated windows: many rules sharing shortcut windows (drives the histogram)
		return "||" + Pick(g, []string{"adserver", "adserver.example", "xadserverx", "serveradserver"}) + Pick(g, []string{"^", ".org^", "/a", "*b"}) + Pick(g, []string{"", "$script", "$important"})
	case 6:
		return "@@" + engineRuleBase(g)
	case 7:
		// sequential table: two different rule texts with the same hash
		if len(collidingSeqTexts) > 0 {
			p := collidingSeqTexts[g.Intn(min(3, len(collidingSeqTexts)))]
			return p[g.Intn(2)]
		}
		return engineRuleBase(g)
	default:
		return engineRuleBase(g)
	}
}

func engineRuleBase(g *Gen) string {
	if g.Chance(1, 3) {
		t, _ := focusedCase(g)
		return t
	}
	return genNetworkRule(g)
}

func engineURLReq(g *Gen, lines []string) Req {
	findCollisions()
	var r Req
	if len(lines) > 0 && g.Chance(3, 4) {
		r = coupledReq(g, Pick(g, lines))
	} else {
		r = genReq(g)
	}
	if r.Kind == "url" && g.Chance(1, 6) {
		p := Pick(g, collidingWindows)
		r.URL = "http://example.org/" + Pick(g, []string{"", "x", "ab"}) + p[g.Intn(2)] + Pick(g, []string{"", "z", "/q"})
	}
	if r.Kind == "url" && len(collidingSeqTexts) > 0 && g.Chance(1, 8) {
		p := collidingSeqTexts[g.Intn(min(3, len(collidingSeqTexts)))]
		t := p[g.Intn(2)]
		r.URL = "https://example.org" + t[:4] + Pick(g, []string{"/banner.js", "", "?x=1"})
	}
	if r.Kind == "url" && g.Chance(1, 8) {
		// sources below public suffixes of every kind
		r.Source = "https://" + Pick(g, []string{"user.github.io", "a.b.github.io", "x.city.kawasaki.jp", "www.kawasaki.jp", "foo.co.uk", "a.blogspot.com", "www.ck", "foo.bar.ck", "example.org", "localhost"}) + "/page"
	}
	if r.Kind == "url" && g.Chance(1, 10) {
		// the only occurrence of a window is at the very end of the URL
		r.URL = "http://h/" + Pick(g, []string{"abcde", "adserver", "banner"})
	}
	return r
}

func matchAllTexts(rs []*rules.NetworkRule) []string {
	t := make([]string, len(rs))
	for i, r := range rs {
		t[i] = r.RuleText
	}
	return t
}

func init() {
	listIDs := []int{1, 2, 3, 0, -5, 7, 2147483647, -2147483648}
	genStorage := func(g *Gen, mkLine func(*Gen) string, maxLines int) ([]listSpec, []string) {
		k := 1 + g.Intn(3)
		var ls []listSpec
		var all []string
		used := map[int]bool{}
		for j := 0; j < k; j++ {
			id := Pick(g, listIDs)
			for used[id] {
				id = Pick(g, listIDs)
			}
			used[id] = true
			n := g.Intn(maxLines + 1)
			var sb strings.Builder
			for i := 0; i < n; i++ {
				l := strings.NewReplacer("\n", "", "\r", "").Replace(mkLine(g))
				if !isASCII(l) {
					continue
				}
				all = append(all, l)
				sb.WriteString(l + "\n")
			}
			ls = append(ls, listSpec{id, false, sb.String()})
		}
		return ls, all
	}

	// ---------------- C01 ----------------
	register("c01", &Prop{
		Gen: func(g *Gen, tier string, emit func(string)) {
			engines, nreq := 60, 40
			if tier == "thorough" {
				engines, nreq = 1500, 120
			}
			for _, s := range []string{"", "a", "abcde", "example.org", "http://example.org/", "\x00\xff", "b\u00fccher.example", "\u043f\u0440\u0438\u043c\u0435\u0440", "\xff\xfe\xfd abc \xc3"} {
				emit("hash\t" + hx(s))
			}
			for i := 0; i < engines; i++ {
				ls, lines := genStorage(g, engineRule, 60)
				if i%10 == 9 {
					// a list saved with a byte order mark: whatever the scanner does with it, the indexes it reports are
					// the offsets retrieval reads from (decided by the linear-scan oracle)
					ls[g.Intn(len(ls))].content = "\xef\xbb\xbf" + ls[0].content
				}
				var reqs []Req
				for j := 0; j < nreq; j++ {
					reqs = append(reqs, engineURLReq(g, lines))
				}
				// sources at (and below) both members of every colliding $domain pair in play
				for _, l := range lines {
					for _, pr := range collidingHosts {
						if (strings.Contains(l, "="+pr[0]) || strings.Contains(l, "="+pr[1])) && len(reqs) < nreq+16 {
							for _, h := range pr {
								reqs = append(reqs, Req{Kind: "url", URL: "http://example.org/ad/x", Source: "https://" + Pick(g, []string{"", "www."}) + h + "/", Type: 4})
							}
						}
					}
				}
				// requests under www. over every scheme, for the rules whose literal is the scheme prefix
				for _, l := range lines {
					if strings.Contains(l, "www.*") && len(reqs) < nreq+12 {
						reqs = append(reqs, Req{Kind: "url", URL: Pick(g, []string{"http", "https", "wss"}) + "://www.shop.top/ads", Source: "https://other.org/", Type: Pick(g, []uint32{2, 4, 32})},
							Req{Kind: "url", URL: "https://www.example.org/x", Type: 4})
					}
				}
				// $domain values written with capitals: requests from the lower-case spelling of every value and below it
				for _, l := range lines {
					if k := strings.Index(l, "$domain="); k >= 0 && strings.ToLower(l[k:]) != l[k:] && len(reqs) < nreq+12 {
						for _, v := range strings.Split(strings.SplitN(l[k+8:], ",", 2)[0], "|") {
							v = strings.ToLower(strings.TrimPrefix(v, "~"))
							reqs = append(reqs, Req{Kind: "url", URL: "http://example.org/ad/x", Source: "https://" + v + "/", Type: 4},
								Req{Kind: "url", URL: "http://example.org/x", Source: "https://x." + v + "/p", Type: 2})
						}
					}
				}
				if i%12 == 7 {
					// names whose hash is 0, the value the hash function also gives the empty string (a hostname with a trailing
					// dot has an empty last label): rules keyed by such a name in the $domain table are found like any other
					if zs := zeroHashNames(); len(zs) > 0 {
						z := Pick(g, zs)
						at := g.Intn(len(ls))
						ls[at].content += "/ad$domain=" + z + "\n@@/ad/x$domain=" + z + "|other.org\n/b$domain=~" + z + "|example.net\n"
						for _, src := range []string{"https://" + z + "/", "https://sub." + z + "/p", "https://" + z + "./", "https://example.net/", "https://x" + z + "/"} {
							reqs = append(reqs, Req{Kind: "url", URL: "http://example.org/ad/x", Source: src, Type: 4}, Req{Kind: "url", URL: "http://example.org/b", Source: src, Type: 2})
						}
					}
				}
				if i%12 == 4 {
					// a rule line whose length is exactly a multiple of the 4 KiB read block of file-backed lists (and one
					// byte less / more), with lines after it: the rule is read back by its index at the first match
					for _, n := range []int{Pick(g, []int{4096, 4096, 8192}), Pick(g, []int{4095, 4097, 8191, 8193})} {
						tag := fmt.Sprintf("blockline%d", n)
						l := "||" + tag + ".test^$domain=page.example"
						for k := 0; len(l) < n-40; k++ {
							l += fmt.Sprintf("|d%04d.example", k)
						}
						l += "|" + strings.Repeat("x", n-len(l)-9) + ".example"
						at := g.Intn(len(ls))
						ls[at].content = l + "\n||after-" + tag + ".test^\n" + ls[at].content
						reqs = append(reqs, Req{Kind: "url", URL: "http://" + tag + ".test/x", Source: "https://page.example/", Type: 4},
							Req{Kind: "url", URL: "http://after-" + tag + ".test/x", Source: "https://d0001.example/", Type: 4},
							Req{Kind: "url", URL: "http://" + tag + ".test/y", Source: "https://sub.d0003.example/", Type: 2})
					}
				}
				emit("engine\t" + encodeStorage(ls) + "\t" + encodeReqs(reqs))
				// lower-cased request strings longer than 4096 bytes whose only occurrence of a rule's window is at the very
				// end: hostname requests are never capped, and lower-casing lengthens some code points and every invalid
				// byte, so the capped URL can grow beyond the cap again.  Separate cases on the same storage (the model
				// declines non-ASCII lower-casing; the linear-scan oracle still applies there).
				if len(lines) == 0 || i%2 == 1 {
					continue
				}
				var longHost, longURL []Req
				longTail := ""
				for j := 0; j < 12 && (len(longHost) < 1 || len(longURL) < 2); j++ {
					r := coupledReq(g, Pick(g, lines))
					if r.Kind == "host" && len(longHost) < 1 {
						longTail = r.Hostname
						r.Hostname = strings.Repeat(strings.Repeat(Pick(g, []string{"0", "07", "0-7"}), 60)[:50+g.Intn(10)]+".", 80+g.Intn(4)) + r.Hostname
						longHost = append(longHost, r)
					} else if r.Kind == "url" && len(longURL) < 2 {
						if k := strings.Index(r.URL, "://"); k >= 0 {
							rest := r.URL[k+3:]
							host, path := rest, "/"
							if sl := strings.IndexAny(rest, "/?"); sl >= 0 {
								host, path = rest[:sl], rest[sl:]
							}
							r.URL = r.URL[:k+3] + host + "/" + strings.Repeat(Pick(g, []string{"\u023a", "\u023e", "\xff", "\u212a\u023a"}), 1390+g.Intn(20)) + path
							longURL = append(longURL, r)
						}
					}
				}
				if len(longHost) > 0 {
					// on a small storage without "*" and regular-expression rules (the model's backtracking matcher is
					// quadratic on those for subjects of this length); the rule the request is coupled to comes first
					var small []string
					for _, l := range lines {
						if !strings.Contains(l, "*") && !strings.HasPrefix(strings.TrimPrefix(l, "@@"), "/") && len(small) < 8 {
							small = append(small, l)
						}
					}
					small = append([]string{"||" + longTail + "^", longTail + "^$important"}, small...)
					emit("engine\t" + encodeStorage([]listSpec{{id: 1, content: strings.Join(small, "\n") + "\n"}}) + "\t" + encodeReqs(longHost))
				}
				if len(longURL) > 0 {
					emit("engine\t" + encodeStorage(ls) + "\t" + encodeReqs(longURL))
				}
			}
		},
		Run: func(line string, st *Stats) (string, string, bool) {
			f := strings.Split(line, "\t")
			if f[0] == "hash" {
				// rules are filed under FastHash(window) and looked up under FastHashBetween(url, i, j): one function
				str := unhx(f[1])
				flag := ""
				for i := 0; i <= len(str); i++ {
					for j := i + 1; j <= len(str) && j <= i+6; j++ { // FastHash("") is 0 by definition: non-empty windows only
						if filterutil.FastHashBetween(str, i, j) != filterutil.FastHash(str[i:j]) && flag == "" {
							flag = fmt.Sprintf("!HASH-OF-SUBSTRING-DIFFERS-FROM-HASH-BETWEEN:%d:%d", i, j)
						}
					}
				}
				return fmt.Sprint(filterutil.FastHash(str)) + flag, line, true
			}
			ls := decodeStorage(f[1])
			reqs := decodeReqs(f[2])
			s := stringStorage(ls)
			e := urlfilter.NewNetworkEngine(s)
			// the same lists as files: the engine reads rules back from the file by their indexes
			fh := newHistEngines(ls, true)
			defer fh.cleanup()
			// the property's own oracle: every network rule of the storage, matched one by one
			var allRules []*rules.NetworkRule
			sc := s.NewRuleStorageScanner()
			for sc.Scan() {
				r, _ := sc.Rule()
				if nr, ok := r.(*rules.NetworkRule); ok {
					allRules = append(allRules, nr)
				}
			}
			var out []string
			var hosts []string
			flags := ""
			hits := 0
			for _, rq := range reqs {
				q := buildRequest(rq)
				hosts = append(hosts, q.Hostname, q.SourceHostname)
				gotTexts := matchAllTexts(e.MatchAll(q))
				got := sortedSet(gotTexts)
				var want []string
				for _, r := range allRules {
					if r.Match(q) {
						want = append(want, r.RuleText)
					}
				}
				if w := sortedSet(want); w != got && flags == "" {
					flags = "!ENGINE-DIFFERS-FROM-LINEAR-SCAN:request=" + hx(rq.Encode())
				}
				if fgot := sortedMulti(matchAllTexts(fh.ne.MatchAll(buildRequest(rq)))); fgot != sortedMulti(gotTexts) && flags == "" {
					flags = "!FILE-BACKED-ENGINE-DIFFERS-FROM-LINEAR-SCAN:request=" + hx(rq.Encode())
				}
				if got != "" {
					hits++
				}
				out = append(out, sortedMulti(gotTexts))
			}
			st.Add("requests", len(reqs))
			st.Add("requests_with_match", hits)
			st.Add("rules", len(allRules))
			return strings.Join(out, "|") + flags, line + "\t" + pslForHosts(hosts), hits > 0
		},
	})

	// ---------------- C02 ----------------
	dnsLine := func(g *Gen) string {
		findCollisions()
		switch g.Intn(12) {
		case 0, 1, 2:
			l, _, _ := genHostsLine(g)
			return l
		case 3:
			p := Pick(g, collidingHosts)
			return Pick(g, hostsIPs) + " " + p[g.Intn(2)]
		case 4:
			if g.Chance(1, 3) {
				// single-token lines that are NOT domain names (a TLD with digits or hyphens) although an earlier label is
				// punycode: pattern rules, not hosts entries
				return Pick(g, []string{"xn--e1afmkfd.p2p", "xn--80ak6aa92e.i2p", "xn--e1afmkfd.example.1337", "xn--e1afmkfd.xn--p1ai", "a.xn--e1afmkfd.b-1", "xn--e1afmkfd.x1"})
			}
			return Pick(g, hostsNames[:4])
		case 5:
			p := Pick(g, collidingHosts)
			return "||" + p[g.Intn(2)] + "^"
		case 6:
			// browser-only modifiers: ignored by the DNS engine
			if g.Chance(1, 3) {
				// $important / $badfilter together with a browser-only modifier: still not a DNS rule
				return Pick(g, []string{"@@||", "@@||", "||"}) + Pick(g, hostsNames[:6]) + "^$" + Pick(g, []string{"document,important", "popup,important", "elemhide,important", "important,generichide", "badfilter,popup", "urlblock,badfilter", "important,jsinject", "extension,important", "content,badfilter", "important,popup,badfilter"})
			}
			return "||" + Pick(g, hostsNames[:6]) + "^$" + Pick(g, []string{"script", "domain=example.org", "third-party", "~third-party", "match-case", "script,~image", "popup", "important,script"})
		case 7:
			return Pick(g, []string{"||", "@@||"}) + Pick(g, hostsNames[:6]) + "^" + Pick(g, []string{"", "$important", "$badfilter", "$dnstype=A", "$client=Mom", "$ctag=device_pc", "$dnsrewrite=1.2.3.4", "$denyallow=a.example.org", "$important,badfilter"})
		default:
			return engineRule(g)
		}
	}
	register("c02", &Prop{
		Gen: func(g *Gen, tier string, emit func(string)) {
			engines, nreq := 80, 40
			if tier == "thorough" {
				engines, nreq = 2000, 120
			}
			findCollisions()
			for i := 0; i < engines; i++ {
				ls, _ := genStorage(g, dnsLine, 40)
				var reqs []Req
				if g.Chance(1, 3) {
					// two DIFFERENT host-level rules of the sequential table whose whole texts have the same hash, in either
					// order, and requests for both names
					k := g.Intn(len(collidingDNSTexts))
					p, hs := collidingDNSTexts[k], collidingDNSHosts[k]
					o := g.Intn(2)
					ls[0].content = p[o] + "\n" + ls[0].content + p[1-o] + "\n"
					reqs = append(reqs, Req{Kind: "host", Hostname: hs[0]}, Req{Kind: "host", Hostname: hs[1]}, Req{Kind: "host", Hostname: "x." + hs[1-o], DNSType: 1})
				}
				if i%4 == 1 {
					// the same rule in two lists (or twice in one), with shortcuts just below, at and above the window length
					// of the shortcut table: every copy in an indexed table is reported, with its own list id
					h5 := Pick(g, []string{"ab.io", "a.com", "x1.de", "abc.io", "a.io", "ab.com", "abcd.io"})
					t := Pick(g, []string{"||", "@@||"}) + h5 + "^" + Pick(g, []string{"", "", "$important", "$dnstype=A"})
					ls[0].content += t + "\n"
					ls[len(ls)-1].content += t + "\n"
					reqs = append(reqs, Req{Kind: "host", Hostname: h5}, Req{Kind: "host", Hostname: "www." + h5, DNSType: 1})
				}
				if i%8 == 7 {
					// names that are not punycode: raw UTF-8 in rules and requests (bytes are bytes for every table; the model
					// declines non-ASCII lower-casing, the reference resolution decides)
					nm := Pick(g, []string{"b\u00fccher.example", "m\u00fcller-ads.example", "\u043f\u0440\u0438\u043c\u0435\u0440.\u0440\u0444", "caf\u00e9.fr", "\u00fc.de"})
					ls[0].content += Pick(g, []string{"||", "@@||"}) + nm + "^" + Pick(g, []string{"", "$important", "$dnstype=A"}) + "\n" + Pick(g, hostsIPs) + " " + nm + "\n"
					reqs = append(reqs, Req{Kind: "host", Hostname: nm}, Req{Kind: "host", Hostname: "www." + nm, DNSType: 1})
				}
				if i%20 == 13 {
					// hundreds of rules with ONE five-byte shortcut (per-client rules for one short name), plus a hosts entry
					// for it: every one of them is found, however many share the bucket
					nm := Pick(g, []string{"q9.io", "x.com", "ab.de"})
					n := 258 + g.Intn(60)
					var sb strings.Builder
					for k := 0; k < n; k++ {
						fmt.Fprintf(&sb, "||%s^$client=10.0.%d.%d\n", nm, k/250, k%250+1)
					}
					ls[0].content += sb.String() + "1.2.3.4 " + nm + "\n"
					for _, k := range []int{0, 100, 254, 255, 256, 257, n - 2, n - 1, n} {
						reqs = append(reqs, Req{Kind: "host", Hostname: nm, ClientIP: fmt.Sprintf("10.0.%d.%d", k/250, k%250+1)})
					}
				}
				for _, nm := range []string{"xn--e1afmkfd.p2p", "xn--80ak6aa92e.i2p", "xn--e1afmkfd.example.1337", "www.xn--e1afmkfd.p2p"} {
					if strings.Contains(ls[0].content+ls[len(ls)-1].content, strings.TrimPrefix(nm, "www.")) {
						reqs = append(reqs, Req{Kind: "host", Hostname: nm})
					}
				}
				// a name in which every lookup window occurs twice (search-list expansion "name.name"): each rule once
				for j := 0; j < 3; j++ {
					h := Pick(g, hostsNames[:6])
					reqs = append(reqs, Req{Kind: "host", Hostname: h + "." + h})
				}
				for j := 0; j < nreq; j++ {
					r := Req{Kind: "host", Hostname: Pick(g, hostsNames)}
					switch g.Intn(5) {
					case 0:
						p := Pick(g, collidingHosts)
						r.Hostname = p[g.Intn(2)]
					case 1:
						r.Hostname = Pick(g, hostPool)
					case 2:
						r.Hostname = Pick(g, []string{"", "a.example.org", "sub.a.example.org", "example.or", "example.orgx"})
					}
					if g.Chance(1, 3) {
						r.ClientName = Pick(g, clientNames)
					}
					if g.Chance(1, 3) {
						r.DNSType = Pick(g, dnsTypeCodes)
					}
					if g.Chance(1, 4) {
						r.Tags = []string{Pick(g, tagPool)}
					}
					if g.Chance(1, 4) {
						r.ClientIP = Pick(g, clientIPs)
					}
					reqs = append(reqs, r)
				}
				emit(encodeStorage(ls) + "\t" + encodeReqs(reqs))
			}
		},
		Run: func(line string, st *Stats) (string, string, bool) {
			f := strings.Split(line, "\t")
			ls := decodeStorage(f[0])
			reqs := decodeReqs(f[1])
			s := stringStorage(ls)
			e := urlfilter.NewDNSEngine(s)
			// reference: every rule of the storage
			var hostRules []*rules.HostRule
			var netRules []*rules.NetworkRule
			sc := s.NewRuleStorageScanner()
			for sc.Scan() {
				r, _ := sc.Rule()
				switch v := r.(type) {
				case *rules.HostRule:
					hostRules = append(hostRules, v)
				case *rules.NetworkRule:
					netRules = append(netRules, v)
				}
			}
			var out, hosts []string
			flags := ""
			nontriv := 0
			for _, rq := range reqs {
				dq := &urlfilter.DNSRequest{Hostname: rq.Hostname, ClientName: rq.ClientName, DNSType: rq.DNSType, SortedClientTags: rq.Tags}
				q := buildRequest(rq)
				dq.ClientIP = q.ClientIP
				hosts = append(hosts, rq.Hostname)
				res, matched := e.MatchRequest(dq)
				cls := classOf(res.NetworkRule)
				if res.NetworkRule != nil && res.NetworkRule.IsOptionEnabled(rules.OptionImportant) {
					cls = "!" + cls
					cls = strings.Replace(cls, "!", "i", 1)
				}
				var v4, v6 []string
				for _, h := range res.HostRulesV4 {
					v4 = append(v4, h.RuleText)
				}
				for _, h := range res.HostRulesV6 {
					v6 = append(v6, h.RuleText)
				}
				obs := sortedMulti(matchAllTexts(res.NetworkRules)) + "/" + cls[:strings.Index(cls, ":")] + "/" + sortedMulti(v4) + "/" + sortedMulti(v6) + "/" + b01(matched)
				// reference resolution by scanning every rule
				if rq.Hostname != "" {
					var wantNet []string
					var cand []*rules.NetworkRule
					for _, r := range netRules {
						if r.IsHostLevelNetworkRule() && r.Match(q) {
							wantNet = append(wantNet, r.RuleText)
							cand = append(cand, r)
						}
					}
					basic := rules.GetDNSBasicRule(cand)
					var w4, w6 []string
					if basic == nil {
						for _, h := range hostRules {
							if h.Match(rq.Hostname) {
								if h.IP.Is4() {
									w4 = append(w4, h.RuleText)
								} else {
									w6 = append(w6, h.RuleText)
								}
							}
						}
					}
					wantMatched := basic != nil || len(w4)+len(w6) > 0
					bc := "n"
					if basic != nil {
						bc = "b"
						if basic.Whitelist {
							bc = "a"
						}
					}
					gc := classOf(res.NetworkRule)[:1]
					if sortedSet(wantNet) != sortedSet(matchAllTexts(res.NetworkRules)) || bc != gc || sortedSet(w4) != sortedSet(v4) || sortedSet(w6) != sortedSet(v6) || wantMatched != matched {
						if flags == "" {
							flags = "!DNS-ENGINE-DIFFERS-FROM-REFERENCE:host=" + hx(rq.Hostname)
						}
					}
				}
				if matched {
					nontriv++
				}
				out = append(out, obs)
			}
			st.Add("requests", len(reqs))
			st.Add("requests_matched", nontriv)
			return strings.Join(out, "|") + flags, line + "\t" + pslForHosts(hosts), nontriv > 0
		},
	})

	// ---------------- C15 ----------------
	cosHosts := []string{"eshop.org", "www.eshop.org", "ample.org", "myblog.blogspot.com", "www.myblog.blogspot.com", "user.github.io", "app.localhost", "printer.lan", "example.org", "sub.example.org", "a.sub.example.org", "example.com", "shop.example.org", "www.shop.example.org", "other.net", "example.co.uk", "www.example.de", "notexample.org", "org", "localhost", "google.com", "www.google.co.uk", "a.google.b.notgoogle.com"}
	cosLine := func(g *Gen) string {
		findCollisions()
		sel := Pick(g, []string{".ad", ".banner", "#top", ".x", "div.promo", ".wide", ".noshop"})
		if g.Chance(1, 5) {
			// different selectors with the same hash: an exception cancels its OWN selector only
			sel = collidingSelectors[g.Intn(min(2, len(collidingSelectors)))][g.Intn(2)]
		}
		doms := []string{"example.org", "sub.example.org", "example.com", "shop.example.org", "other.net", "example.*", "google.*", "www.google.*", "example.co.uk", "org",
			"myblog.blogspot.com", "github.io", "localhost", "printer.lan", "myblog.*"}
		switch g.Intn(10) {
		case 0, 1:
			return "##" + sel
		case 2, 3, 4:
			return joinVals(g, doms, 1, 3, 25, ",") + "##" + sel
		case 5, 6:
			return joinVals(g, doms, 1, 2, 20, ",") + "#@#" + sel
		case 7:
			if g.Bool() {
				// two names in one rule where one ends with the other's characters but is not below it
				pr := Pick(g, [][2]string{{"ample.org", "example.org"}, {"shop.org", "eshop.org"}, {"xample.com", "example.com"}, {"le.org", "example.org"}})
				if g.Bool() {
					pr[0], pr[1] = pr[1], pr[0]
				}
				return pr[0] + "," + pr[1] + "##" + sel
			}
			return "~" + Pick(g, doms) + "##" + sel
		case 8:
			return Pick(g, []string{"example.org#$#x", "! c", "||example.org^", "example.org#?#" + sel, "#@#" + sel, "bad domain##x", "example.org##"})
		default:
			return Pick(g, doms) + "##" + sel
		}
	}
	register("c15", &Prop{
		Gen: func(g *Gen, tier string, emit func(string)) {
			n := 2500
			if tier == "thorough" {
				n = 60000
			}
			for i := 0; i < n; i++ {
				ls, _ := genStorage(g, cosLine, 14)
				if g.Chance(1, 8) {
					// several rules under one domain key, the earlier ones excepted on the domain itself but not on a
					// subdomain; the hostnames are asked parent first, on one engine (answers must not depend on earlier ones)
					d := Pick(g, []string{"example.org", "shop.example.org", "example.com"})
					sub := Pick(g, []string{"sub.", "www.", "a."}) + d
					extra := d + "##.first\n" + d + "##.second\n" + d + ",~" + sub + "#@#.first\n"
					if g.Bool() {
						extra += d + "##.third\n" + d + ",~" + sub + "#@#.second\n"
					}
					ls[0].content = extra + ls[0].content
					emit(encodeStorage(ls) + "\t" + encList(append([]string{d, sub, d, "x." + sub}, cosHosts...)))
					continue
				}
				if g.Chance(1, 8) {
					// rules with the same selector and the same permitted domains that differ only in their ~exclusions, the
					// more restrictive one first or last; also exclusion-only (generic) rules: each rule is its own rule
					d := Pick(g, []string{"example.org", "shop.example.org", "example.com"})
					sub := Pick(g, []string{"sub.", "www.", "a."}) + d
					selx := Pick(g, []string{".promo", ".first", "#banner"})
					pair := []string{d + ",~" + sub + "##" + selx, d + "##" + selx}
					if g.Chance(1, 3) {
						pair = []string{"~" + sub + "##" + selx, "~" + d + "##" + selx}
					}
					if g.Bool() {
						pair[0], pair[1] = pair[1], pair[0]
					}
					ls[0].content = pair[0] + "\n" + ls[0].content + "\n" + pair[1] + "\n"
					emit(encodeStorage(ls) + "\t" + encList(append([]string{sub, d, "x." + sub}, cosHosts...)))
					continue
				}
				if g.Chance(1, 8) {
					// several exceptions with one selector whose domains are nested, the outer one EXCLUDING a name below the
					// inner one's domain (d,~x.s.d then s.d — and the other way round): below the exclusion only the inner one
					// applies; every exception is its own rule, none makes another redundant
					d := Pick(g, []string{"example.org", "example.com"})
					sd := "sub." + d
					xd := "a." + sd
					selx := Pick(g, []string{".banner", ".promo", "#top"})
					e1 := d + ",~" + xd + "#@#" + selx
					e2 := Pick(g, []string{sd, sd, sd + ",other.net", xd}) + "#@#" + selx
					if g.Chance(1, 3) {
						e1, e2 = e2, e1
					}
					rule := Pick(g, []string{"##" + selx, d + "##" + selx, sd + "##" + selx, "~other.net##" + selx})
					parts := []string{e1, e2, rule}
					if g.Bool() {
						parts = []string{rule, e1, e2}
					}
					ls[0].content = parts[0] + "\n" + parts[1] + "\n" + ls[0].content + "\n" + parts[2] + "\n"
					emit(encodeStorage(ls) + "\t" + encList(append([]string{xd, "deep." + xd, sd, d, "b." + sd}, cosHosts...)))
					continue
				}
				emit(encodeStorage(ls) + "\t" + encList(cosHosts))
			}
		},
		Run: func(line string, st *Stats) (string, string, bool) {
			f := strings.Split(line, "\t")
			ls := decodeStorage(f[0])
			hosts := decList(f[1])
			s := stringStorage(ls)
			e := urlfilter.NewCosmeticEngine(s)
			eng := urlfilter.NewEngine(s)
			var all []*rules.CosmeticRule
			sc := s.NewRuleStorageScanner()
			for sc.Scan() {
				r, _ := sc.Rule()
				if c, ok := r.(*rules.CosmeticRule); ok {
					all = append(all, c)
				}
			}
			var out []string
			flags := ""
			nontriv := false
			for _, h := range hosts {
				for fl := 0; fl < 8; fl++ {
					css, js, gen := fl&1 != 0, fl&2 != 0, fl&4 != 0
					res := e.Match(h, css, js, gen)
					g1, s1 := sortedSet(res.ElementHiding.Generic), sortedSet(res.ElementHiding.Specific)
					// reference with CosmeticRule.Match over all rules
					var wg, ws []string
					if css {
						for _, r := range all {
							if r.Whitelist || !r.Match(h) {
								continue
							}
							cancelled := false
							for _, x := range all {
								if x.Whitelist && x.Content == r.Content && x.Match(h) {
									cancelled = true
								}
							}
							if cancelled {
								continue
							}
							if r.IsGeneric() {
								if gen {
									wg = append(wg, r.Content)
								}
							} else {
								ws = append(ws, r.Content)
							}
						}
					}
					if (sortedSet(wg) != g1 || sortedSet(ws) != s1) && flags == "" {
						flags = fmt.Sprintf("!COSMETIC-ENGINE-DIFFERS-FROM-REFERENCE:host=%s flags=%d", h, fl)
					}
					// the same through Engine.GetCosmeticResult with the option word
					var opt rules.CosmeticOption
					if gen {
						opt |= rules.CosmeticOptionGenericCSS
					}
					if css {
						opt |= rules.CosmeticOptionCSS
					}
					if js {
						opt |= rules.CosmeticOptionJS
					}
					r2 := eng.GetCosmeticResult(h, opt)
					if (sortedSet(r2.ElementHiding.Generic) != g1 || sortedSet(r2.ElementHiding.Specific) != s1) && flags == "" {
						flags = "!OPTION-FLAGS-CROSSED"
					}
					if g1 != "" || s1 != "" {
						nontriv = true
					}
					out = append(out, g1+"/"+s1)
				}
			}
			st.Add("cosmetic_rules", len(all))
			return strings.Join(out, "|") + flags, line + "\t" + pslForHosts(hosts), nontriv
		},
	})
}
