package main

import (
	"encoding/hex"
	"fmt"
	"math/rand"
	"strings"
)

// Gen wraps the single PRNG every random choice is derived from.
type Gen struct {
	R *rand.Rand
}

func (g *Gen) Intn(n int) int { return g.R.Intn(n) }
func (g *Gen) Bool() bool     { return g.R.Intn(2) == 0 }

// Chance returns true with probability num/den.
func (g *Gen) Chance(num, den int) bool { return g.R.Intn(den) < num }

// Pick returns a random element of l.
func Pick[T any](g *Gen, l []T) T { return l[g.R.Intn(len(l))] }

// Shuffle shuffles l in place.
func Shuffle[T any](g *Gen, l []T) {
	g.R.Shuffle(len(l), func(i, j int) { l[i], l[j] = l[j], l[i] })
}

func hx(s string) string { return hex.EncodeToString([]byte(s)) }

func unhx(s string) string {
	b, err := hex.DecodeString(s)
	if err != nil {
		panic(fmt.Sprintf("bad hex %q", s))
	}
	return string(b)
}

// encList encodes a list of strings: items prefixed by 'x', comma-separated.
func encList(l []string) string {
	parts := make([]string, len(l))
	for i, s := range l {
		parts[i] = "x" + hx(s)
	}
	return strings.Join(parts, ",")
}

func decList(s string) []string {
	if s == "" {
		return nil
	}
	parts := strings.Split(s, ",")
	res := make([]string, len(parts))
	for i, p := range parts {
		res[i] = unhx(p[1:])
	}
	return res
}

func b01(b bool) string {
	if b {
		return "1"
	}
	return "0"
}

// protect runs f and reports whether it panicked.
func protect(f func()) (panicked bool, msg string) {
	defer func() {
		if r := recover(); r != nil {
			panicked = true
			msg = fmt.Sprint(r)
		}
	}()
	f()
	return false, ""
}

func newRand(seed int64) *rand.Rand { return rand.New(rand.NewSource(seed)) }
