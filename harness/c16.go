package main

import (
	"fmt"
	"strings"

	"github.com/AdguardTeam/urlfilter"
	"github.com/AdguardTeam/urlfilter/filterlist"
	"github.com/AdguardTeam/urlfilter/rules"
)

// C16: cosmetic options derived from an exception verdict only shrink.
//
// case:  <rule text hex> TAB <mode>     mode = direct | engine | absent
// obs:   <option> or E (rule rejected)
func init() {
	mods := []string{"elemhide", "generichide", "jsinject", "document", "urlblock", "genericblock", "content", "extension", "important"}
	register("c16", &Prop{
		Gen: func(g *Gen, tier string, emit func(string)) {
			emit("\tabsent")
			for mask := 0; mask < 1<<len(mods); mask++ {
				var sel []string
				for i, m := range mods {
					if mask&(1<<i) != 0 {
						sel = append(sel, m)
					}
				}
				// Exception rule with this subset, in a random order.
				Shuffle(g, sel)
				txt := "@@||example.org^"
				if len(sel) > 0 {
					txt += "$" + strings.Join(sel, ",")
				}
				emit(hx(txt) + "\tdirect")
				emit(hx(txt) + "\tengine")
				emit(hx(txt) + "\tenginesrc")
				emit(hx(txt) + "\twithpair")
				emit(hx(txt) + "\tsrcpair")
				// two exceptions matching the page, with different cosmetic modifiers and different numbers of other
				// modifiers (restricted-only lists included): the option is the one of the rule the priority order selects
				{
					var sel2 []string
					for _, m := range mods[:6] {
						if g.Chance(1, 3) {
							sel2 = append(sel2, m)
						}
					}
					for _, x := range []string{"client=~Kids", "client=Mom", "ctag=~device_tv", "ctag=device_pc", "domain=~a.org", "domain=example.org", "dnstype=~A", "third-party", "match-case", "important"} {
						if g.Chance(1, 6) {
							sel2 = append(sel2, x)
						}
					}
					Shuffle(g, sel2)
					other := "@@||example.org^"
					if len(sel2) > 0 {
						other += "$" + strings.Join(sel2, ",")
					}
					first := txt
					if g.Chance(1, 3) {
						first += Pick(g, []string{",client=~Kids", ",ctag=~device_tv", ",domain=~a.org", ",client=Mom"})
						first = strings.Replace(first, "^,", "^$", 1)
					}
					if g.Bool() {
						first, other = other, first
					}
					emit(hx(first) + "\tpair\t" + hx(other))
					// the same with modifier counts one apart or equal, one of the two carrying a list made of excluded values
					// only ($client=~x, $ctag=~x, $domain=~x count as a modifier like any other list)
					cos := []string{"elemhide", "generichide", "jsinject"}
					pad := []string{"third-party", "match-case", "content", "extension"}
					mk := func(n int, extra string) string {
						var l []string
						for _, c := range cos {
							if g.Bool() {
								l = append(l, c)
							}
						}
						for _, p := range pad {
							if len(l) < n {
								l = append(l, p)
							}
						}
						if extra != "" {
							l = append(l, extra)
						}
						Shuffle(g, l)
						if len(l) == 0 {
							return "@@||example.org^"
						}
						return "@@||example.org^$" + strings.Join(l, ",")
					}
					n := 1 + g.Intn(3)
					a := mk(n, Pick(g, []string{"client=~Kids", "client=~Kids", "ctag=~device_tv", "domain=~a.org", "client=~Mom|~Dad"}))
					b := mk(n+g.Intn(3), "")
					if g.Bool() {
						a, b = b, a
					}
					emit(hx(a) + "\tpair\t" + hx(b))
				}
				// The same subset on a blocking rule (mostly rejected: the
				// modifiers are exception-only) and with other general
				// modifiers.
				blk := "||example.org^"
				if len(sel) > 0 {
					blk += "$" + strings.Join(sel, ",")
				}
				emit(hx(blk) + "\tdirect")
				if g.Chance(1, 4) {
					extra := Pick(g, []string{"third-party", "match-case", "domain=example.org", "script", "~third-party"})
					emit(hx(txt+func() string {
						if len(sel) > 0 {
							return ","
						}
						return "$"
					}()+extra) + "\tdirect")
				}
			}
		},
		Run: func(line string, st *Stats) (string, string, bool) {
			f := strings.Split(line, "\t")
			text, mode := unhx(f[0]), f[1]
			if mode == "absent" {
				r := &rules.MatchingResult{}
				return fmt.Sprint(uint32(r.GetCosmeticOption())), line, true
			}
			rule, err := rules.NewNetworkRule(text, 1)
			if err != nil {
				st.Inc("rejected")
				return "E", line, false
			}
			if mode == "pair" {
				second, err2 := rules.NewNetworkRule(unhx(f[2]), 1)
				if err2 != nil {
					st.Inc("rejected")
					return "E", line, false
				}
				st.Inc("two_exceptions")
				return fmt.Sprint(uint32(rules.NewMatchingResult([]*rules.NetworkRule{rule, second}, nil).GetCosmeticOption())), line, true
			}
			mi := line
			var opt rules.CosmeticOption
			switch mode {
			case "withpair":
				// other matching rules around the exception that cancel each other (a blocking rule and its $badfilter twin,
				// in every position relative to the exception): the option is the one of the exception alone
				blk, _ := rules.NewNetworkRule("||example.org^$third-party", 1)
				twin, _ := rules.NewNetworkRule("||example.org^$third-party,badfilter", 1)
				orders := [][]*rules.NetworkRule{{blk, twin, rule}, {rule, blk, twin}, {blk, rule, twin}, {twin, blk, rule}}
				opt = rules.NewMatchingResult(orders[len(text)%4], nil).GetCosmeticOption()
				for _, o := range orders {
					if got := rules.NewMatchingResult(o, nil).GetCosmeticOption(); got != opt {
						return fmt.Sprint(uint32(opt)) + "!OPTION-DEPENDS-ON-THE-POSITION-OF-A-CANCELLED-PAIR", f[0] + "\tdirect", rule.Whitelist
					}
				}
				mi = f[0] + "\tdirect"
			case "srcpair":
				// the page is also matched by an $important block restricted to the referrer, and the referrer by TWO
				// document-level exceptions with different flag sets, the $urlblock one being the lower in priority: $urlblock
				// switches every blocking rule off wherever it stands, so the exception is the verdict and the option is its own
				blk, _ := rules.NewNetworkRule("||example.org^$important,domain=a.org", 1)
				mk := func(ts ...string) (out []*rules.NetworkRule) {
					for _, t := range ts {
						r, perr := rules.NewNetworkRule(t, 1)
						must(perr)
						out = append(out, r)
					}
					return out
				}
				hi := []string{"@@||a.org^$genericblock,content", "@@||a.org^$genericblock,important", "@@||a.org^$genericblock,elemhide,jsinject", "@@||a.org^$genericblock,domain=a.org"}[len(text)%4]
				srcs := [][]*rules.NetworkRule{mk("@@||a.org^$urlblock"), mk("@@||a.org^$urlblock", hi), mk(hi, "@@||a.org^$urlblock"), mk(hi, "@@||a.org^$urlblock", hi)}
				opt = rules.NewMatchingResult([]*rules.NetworkRule{blk, rule}, srcs[0]).GetCosmeticOption()
				for k, src := range srcs {
					for _, rs := range [][]*rules.NetworkRule{{blk, rule}, {rule, blk}} {
						if got := rules.NewMatchingResult(rs, src).GetCosmeticOption(); got != opt {
							return fmt.Sprint(uint32(opt)) + fmt.Sprintf("!OPTION-DEPENDS-ON-THE-ORDER-OF-THE-PAGE-EXCEPTIONS:variant %d gives %d", k, uint32(got)), f[0] + "\tdirect", rule.Whitelist
						}
					}
				}
				mi = f[0] + "\tdirect"
			case "enginesrc":
				// the same exception on a page that has a referrer matched by document-level exceptions of its own
				// ($genericblock / $urlblock only ever suppress BLOCKING rules): the option is the one of the rule alone
				refMods := []string{"genericblock", "urlblock", "genericblock,urlblock", "genericblock,important"}[len(text)%4]
				s, serr := filterlist.NewRuleStorage([]filterlist.RuleList{
					&filterlist.StringRuleList{ID: 1, RulesText: text + "\n@@||a.org^$" + refMods + "\n||example.org^$script\n"},
				})
				must(serr)
				e := urlfilter.NewEngine(s)
				res := e.MatchRequest(rules.NewRequest("http://example.org/", "http://a.org/page", rules.TypeDocument))
				opt = res.GetCosmeticOption()
				mi = f[0] + "\tdirect"
			case "direct":
				res := rules.NewMatchingResult([]*rules.NetworkRule{rule}, nil)
				opt = res.GetCosmeticOption()
			case "engine":
				s, serr := filterlist.NewRuleStorage([]filterlist.RuleList{
					&filterlist.StringRuleList{ID: 1, RulesText: text + "\n##.g\nexample.org##.s\n~shop.example.net##.gx\nexample.*##.w\n~example.net,~example.com##.gy\n"},
				})
				must(serr)
				e := urlfilter.NewEngine(s)
				req := rules.NewRequest("http://example.org/", "", rules.TypeDocument)
				res := e.MatchRequest(req)
				opt = res.GetCosmeticOption()
				// what the option means at the cosmetic engine, on an engine that has already answered for the same
				// hostname with other options (an ordinary page first): the styles follow THIS option
				has := func(l []string, x string) bool {
					for _, y := range l {
						if y == x {
							return true
						}
					}
					return false
				}
				for _, o := range []rules.CosmeticOption{rules.CosmeticOptionAll, rules.CosmeticOptionAll &^ rules.CosmeticOptionJS, opt, rules.CosmeticOptionAll, opt} {
					cr := e.GetCosmeticResult("example.org", o)
					css := o&rules.CosmeticOptionCSS != 0
					gen := css && o&rules.CosmeticOptionGenericCSS != 0
					if has(cr.ElementHiding.Generic, ".g") != gen || has(cr.ElementHiding.Specific, ".s") != css {
						return fmt.Sprint(uint32(opt)) + fmt.Sprintf("!COSMETIC-RESULT-IGNORES-OPTION:%d", uint32(o)), mi, rule.Whitelist
					}
					// every generic rule (no permitted domain: exclusions do not make a rule specific) is switched off with
					// generic CSS, wherever the engine files it; every domain-restricted rule follows CSS
					both := append(append([]string{}, cr.ElementHiding.Generic...), cr.ElementHiding.Specific...)
					for _, x := range []string{".g", ".gx", ".gy"} {
						if has(both, x) != gen {
							return fmt.Sprint(uint32(opt)) + fmt.Sprintf("!GENERIC-RULE-IGNORES-OPTION:%d:%s", uint32(o), x), mi, rule.Whitelist
						}
					}
					for _, x := range []string{".s", ".w"} {
						if has(both, x) != css {
							return fmt.Sprint(uint32(opt)) + fmt.Sprintf("!SPECIFIC-RULE-IGNORES-OPTION:%d:%s", uint32(o), x), mi, rule.Whitelist
						}
					}
				}
			}
			st.Inc("mode_" + mode)
			if rule.Whitelist {
				st.Inc("exception")
			}
			return fmt.Sprint(uint32(opt)), mi, rule.Whitelist
		},
	})
}
