package main

import (
	"fmt"
	"os"
	"path/filepath"
	"strings"
	"sync"
	"time"

	"github.com/AdguardTeam/urlfilter"
	"github.com/AdguardTeam/urlfilter/filterlist"
	"github.com/AdguardTeam/urlfilter/filterutil"
	"github.com/AdguardTeam/urlfilter/rules"
)

// C13 and C19 — histories of queries on a NetworkEngine and a DNSEngine sharing one storage.
// Case line: <storage> TAB <ops>; an op is a request (kinds "url"/"host" through NetworkEngine.MatchAll,
// "dns" through DNSEngine.MatchRequest) or "close" (C19: the lists become unreadable; URL field "fd" selects
// the closed-descriptor kind).  The model executes its STATEFUL engines (cache, lazy compilation, pool) on the
// same history.

func histStorageLine(g *Gen) string {
	findCollisions()
	switch g.Intn(10) {
	case 0, 1:
		l, _, _ := genHostsLine(g)
		return l
	case 2:
		return Pick(g, hostsNames[:4])
	case 3:
		return Pick(g, []string{"||", "@@||"}) + Pick(g, hostsNames[:6]) + "^" + Pick(g, []string{"", "$important", "$badfilter", "$dnstype=A", "$client=Mom", "$ctag=device_pc", "$dnsrewrite=1.2.3.4", "$dnsrewrite=NOERROR;MX;10 mail.example.org", "$denyallow=a.example.org", "$dnsrewrite=1.2.3.5"})
	case 4:
		if g.Chance(1, 3) {
			// a plain rule and a $dnsrewrite rule for one name, the plain one first (and the other way round): asking the
			// result for its rewrites must leave the result as it was
			h := Pick(g, hostsNames[:6])
			pair := []string{"||" + h + "^", "||" + h + "^$dnsrewrite=" + Pick(g, []string{"1.2.3.4", "NXDOMAIN", "x.example.net"})}
			if g.Chance(1, 3) {
				pair[0], pair[1] = pair[1], pair[0]
			}
			return pair[0] + "\n" + pair[1]
		}
		// rules whose first pattern match may come from either a hostname or a URL request
		return "||" + Pick(g, hostPool) + Pick(g, []string{"^", "/ads", "^$script", "/*", ""})
	case 5:
		if g.Chance(1, 4) {
			// document-level exceptions for pages that occur as referrers of web requests
			return "@@||" + Pick(g, []string{"a.org", "example.org", "example.org", Pick(g, hostPool)}) + "^$" + Pick(g, []string{"document", "urlblock", "genericblock", "elemhide", "document,important", "generichide,urlblock", "jsinject"})
		}
		if g.Chance(1, 3) {
			// rules every query reaches and whose answer depends on WHAT KIND of name is asked (real addresses are exempt
			// from $denyallow on hostname requests): nothing learnt about one name may be remembered for the next
			return Pick(g, []string{"*$denyallow=example.org", "*$denyallow=test.com|tracker.io", "^$denyallow=example.org,important", "@@*$denyallow=evil.org"})
		}
		return Pick(g, []string{"/ad[0-9]/", "/ads?/", "/(/", "ad$client=127.0.0.1", "a^b$ctag=device_pc", "*$dnstype=A", "^ad^$client=Mom", "/banner\\d+/$script"})
	default:
		return engineRule(g)
	}
}

func histOp(g *Gen, lines []string, prev []Req) Req {
	if len(prev) > 0 && g.Chance(1, 8) {
		// the name just asked, in another letter case (names are case-insensitive for some rules only: nothing of the
		// previous spelling may survive in a reused request object)
		r := prev[len(prev)-1]
		if r.Kind == "dns" || r.Kind == "host" {
			switch g.Intn(3) {
			case 0:
				r.Hostname = strings.ToUpper(r.Hostname)
			case 1:
				r.Hostname = strings.ToLower(r.Hostname)
			default:
				if len(r.Hostname) > 1 {
					r.Hostname = strings.ToUpper(r.Hostname[:1]) + r.Hostname[1:]
				}
			}
			r.Kind = "dns"
			return r
		}
	}
	if len(prev) > 0 && g.Chance(1, 4) {
		// repeat an earlier query, possibly through the other engine or with other client fields
		r := Pick(g, prev)
		if r.Kind != "close" {
			if r.Kind != "url" && r.Kind != "web" && g.Chance(1, 2) {
				if r.Kind == "dns" {
					r.Kind = "host"
				} else {
					r.Kind = "dns"
				}
			}
			if r.Kind != "url" && r.Kind != "web" && g.Chance(1, 2) {
				r.ClientName = Pick(g, append([]string{""}, clientNames...))
				r.Tags = nil
				if g.Bool() {
					r.Tags = []string{Pick(g, tagPool)}
				}
				r.DNSType = 0
				if g.Bool() {
					r.DNSType = Pick(g, dnsTypeCodes)
				}
				r.ClientIP = ""
				if g.Bool() {
					r.ClientIP = Pick(g, clientIPs)
				}
			}
			return r
		}
	}
	switch g.Intn(5) {
	case 0, 1:
		r := engineURLReq(g, lines)
		if r.Kind == "host" && g.Bool() {
			r.Kind = "dns"
		}
		if r.Kind == "url" && isASCII(r.URL) && isASCII(r.Source) && g.Chance(1, 3) {
			// the same request through the web engine (verdict with referrer, cosmetic option)
			r.Kind = "web"
			if r.Source == "" && g.Bool() {
				r.Source = Pick(g, []string{"http://a.org/", "https://example.org/page", r.URL})
			}
			return r
		}
		if r.Kind == "url" && g.Chance(1, 3) {
			// same host through another scheme: exercises the lazily compiled || prefix
			r.URL = Pick(g, []string{"https://", "ws://", "wss://", "http://"}) + Pick(g, hostPool) + Pick(g, []string{"/", "/ads", "/ads/x.js", ""})
		}
		return r
	default:
		r := Req{Kind: "dns", Hostname: Pick(g, append(append([]string{}, hostsNames...), hostPool...))}
		if g.Chance(1, 6) {
			// address literals and names that merely look like them, between ordinary names
			r.Hostname = Pick(g, []string{"203.0.113.7", "1.2.3.4", "::1", "2001:db8::1", "abc.de", "1.2.3", "fe80::", "ads.example.net"})
		}
		if g.Chance(1, 4) {
			p := Pick(g, collidingHosts)
			r.Hostname = p[g.Intn(2)]
		}
		if g.Chance(1, 3) {
			r.ClientName = Pick(g, clientNames)
		}
		if g.Chance(1, 3) {
			r.DNSType = Pick(g, dnsTypeCodes)
		}
		if g.Chance(1, 4) {
			r.Tags = []string{Pick(g, tagPool)}
		}
		if g.Chance(1, 4) {
			r.ClientIP = Pick(g, clientIPs)
		}
		if g.Chance(1, 5) {
			r.Kind = "host"
		}
		return r
	}
}

func genHistStorage(g *Gen, maxLines int) ([]listSpec, []string) {
	listIDs := []int{1, 2, 3, 0, -5, 7, 2147483647, -2147483648}
	k := 1 + g.Intn(3)
	var ls []listSpec
	var all []string
	used := map[int]bool{}
	for j := 0; j < k; j++ {
		id := Pick(g, listIDs)
		for used[id] {
			id = Pick(g, listIDs)
		}
		used[id] = true
		n := g.Intn(maxLines + 1)
		var sb strings.Builder
		for i := 0; i < n; i++ {
			// a generator may return several lines that belong together
			for _, l := range strings.Split(strings.ReplaceAll(histStorageLine(g), "\r", ""), "\n") {
				if !isASCII(l) {
					continue
				}
				all = append(all, l)
				sb.WriteString(l + "\n")
			}
		}
		ls = append(ls, listSpec{id, false, sb.String()})
	}
	return ls, all
}

type histEngines struct {
	storage *filterlist.RuleStorage
	ne      *urlfilter.NetworkEngine
	de      *urlfilter.DNSEngine
	eng     *urlfilter.Engine // the web engine (its own network engine over the same storage)
	files   []*filterlist.FileRuleList
	dir     string
}

func newHistEngines(ls []listSpec, fileBacked bool) *histEngines {
	h := &histEngines{}
	var lists []filterlist.RuleList
	if fileBacked {
		dir, err := os.MkdirTemp("", "verif-hist-")
		if err != nil {
			panic(err)
		}
		h.dir = dir
		for i, l := range ls {
			p := filepath.Join(dir, fmt.Sprintf("list%d.txt", i))
			if err := os.WriteFile(p, []byte(l.content), 0o600); err != nil {
				panic(err)
			}
			fl, err := filterlist.NewFileRuleList(l.id, p, l.ignore)
			if err != nil {
				panic(err)
			}
			h.files = append(h.files, fl)
			lists = append(lists, fl)
		}
	} else {
		for _, l := range ls {
			lists = append(lists, &filterlist.StringRuleList{ID: l.id, RulesText: l.content, IgnoreCosmetic: l.ignore})
		}
	}
	s, err := filterlist.NewRuleStorage(lists)
	if err != nil {
		panic(err)
	}
	h.storage = s
	h.ne = urlfilter.NewNetworkEngine(s)
	h.eng = urlfilter.NewEngine(s)
	h.de = urlfilter.NewDNSEngine(s)
	return h
}

func (h *histEngines) cleanup() {
	_ = h.storage.Close()
	if h.dir != "" {
		_ = os.RemoveAll(h.dir)
	}
}

// histResult is what one query returned, kept to be re-inspected later.
type histResult struct {
	net []*rules.NetworkRule
	dns *urlfilter.DNSResult
	ser string
	web *rules.MatchingResult
}

func serTexts(rs []*rules.NetworkRule) string {
	t := make([]string, len(rs))
	for i, r := range rs {
		t[i] = hx(r.RuleText)
	}
	return strings.Join(t, ",")
}

// count is the number of rules the result reports (duplicates included).
func (r *histResult) count() int {
	if r.web != nil {
		if r.web.GetBasicResult() != nil {
			return 1
		}
		return 0
	}
	if r.dns != nil {
		return len(r.dns.NetworkRules) + len(r.dns.HostRulesV4) + len(r.dns.HostRulesV6)
	}
	return len(r.net)
}

func (r *histResult) serialise() string {
	if r.web != nil {
		t := func(x *rules.NetworkRule) string {
			if x == nil {
				return "nil"
			}
			return hx(x.RuleText)
		}
		return "W:" + t(r.web.BasicRule) + "/" + t(r.web.DocumentRule) + "/" + t(r.web.StealthRule) + "/" + fmt.Sprint(uint32(r.web.GetCosmeticOption()))
	}
	if r.dns != nil {
		var v4, v6 []string
		for _, h := range r.dns.HostRulesV4 {
			v4 = append(v4, hx(h.RuleText))
		}
		for _, h := range r.dns.HostRulesV6 {
			v6 = append(v6, hx(h.RuleText))
		}
		nr := "nil"
		if r.dns.NetworkRule != nil {
			nr = hx(r.dns.NetworkRule.RuleText)
		}
		return "D:" + serTexts(r.dns.NetworkRules) + "/" + nr + "/" + strings.Join(v4, ",") + "/" + strings.Join(v6, ",")
	}
	return "N:" + serTexts(r.net)
}

// runOp executes one query and returns the canonical observation (the format of RunSession.v) and the result object.
func (h *histEngines) runOp(rq Req) (string, *histResult, *rules.Request) {
	switch rq.Kind {
	case "web":
		// Engine.MatchRequest: the verdict for a request and its referrer, and the cosmetic option derived from it
		q := buildRequest(Req{Kind: "url", URL: rq.URL, Source: rq.Source, Type: rq.Type})
		res := h.eng.MatchRequest(q)
		r := &histResult{web: res}
		r.ser = r.serialise() // before any getter is asked: getters must leave the result as it is
		opt0 := res.GetCosmeticOption()
		b := res.GetBasicResult()
		cls, text := "n", "nil"
		if b != nil {
			cls, text = "b", hx(b.RuleText)
			if b.Whitelist {
				cls = "a"
			}
			if b.IsOptionEnabled(rules.OptionImportant) {
				cls = "i" + cls
			}
		}
		flag := ""
		if res.GetCosmeticOption() != opt0 || res.GetBasicResult() != b {
			flag = "!ASKING-FOR-THE-VERDICT-ALTERS-THE-RESULT"
		}
		return "W" + cls + "/" + text + "/" + fmt.Sprint(uint32(opt0)) + flag, r, q
	case "dns":
		dq := &urlfilter.DNSRequest{Hostname: rq.Hostname, ClientName: rq.ClientName, DNSType: rq.DNSType, SortedClientTags: rq.Tags}
		q := buildRequest(Req{Kind: "host", Hostname: rq.Hostname, ClientName: rq.ClientName, ClientIP: rq.ClientIP, Tags: rq.Tags, DNSType: rq.DNSType})
		dq.ClientIP = q.ClientIP
		res, matched := h.de.MatchRequest(dq)
		cls := "n"
		if res.NetworkRule != nil {
			cls = "b"
			if res.NetworkRule.Whitelist {
				cls = "a"
			}
			if res.NetworkRule.IsOptionEnabled(rules.OptionImportant) {
				cls = "i" + cls
			}
		}
		var v4, v6 []string
		for _, hr := range res.HostRulesV4 {
			v4 = append(v4, hr.RuleText)
		}
		for _, hr := range res.HostRulesV6 {
			v6 = append(v6, hr.RuleText)
		}
		obs := sortedSet(matchAllTexts(res.NetworkRules)) + "/" + cls + "/" + sortedSet(v4) + "/" + sortedSet(v6) + "/" + b01(matched)
		r := &histResult{dns: res}
		r.ser = r.serialise()
		return obs, r, q
	default:
		q := buildRequest(rq)
		got := h.ne.MatchAll(q)
		r := &histResult{net: got}
		r.ser = r.serialise()
		return sortedSet(matchAllTexts(got)), r, q
	}
}

// derived evaluates the derived results of an OLD result object (they must not alter anything).
func derived(r *histResult) {
	if r.web != nil {
		_ = r.web.GetBasicResult()
		_ = r.web.GetCosmeticOption()
		return
	}
	if r.dns != nil {
		_ = r.dns.DNSRewritesAll()
		_ = r.dns.DNSRewrites()
		_ = rules.GetDNSBasicRule(r.dns.NetworkRules)
		return
	}
	m := rules.NewMatchingResult(r.net, nil)
	_ = m.GetBasicResult()
	_ = m.GetCosmeticOption()
	_ = rules.GetDNSBasicRule(r.net)
	d := &urlfilter.DNSResult{NetworkRules: r.net}
	_ = d.DNSRewrites()
}

// protectTimeout runs f in its own goroutine under recover and gives up after d (a query that blocks forever,
// e.g. on a mutex left locked, must not hang the harness).
func protectTimeout(d time.Duration, f func()) (panicked bool, msg string, timedOut bool) {
	done := make(chan struct{})
	go func() {
		defer close(done)
		panicked, msg = protect(f)
	}()
	select {
	case <-done:
		return panicked, msg, false
	case <-time.After(d):
		return false, "", true
	}
}

// comboOps builds queries whose URL carries the shortcut of some other rule in front of the path of an
// earlier query: one lookup then needs a rule that may not be materialised AND rules that are.
func comboOps(g *Gen, lines []string, ops []Req, n int) []Req {
	var shortcuts []string
	for _, l := range lines {
		if r, err := rules.NewNetworkRule(l, 0); err == nil && len(r.Shortcut) >= 5 && !strings.ContainsAny(r.Shortcut, " |") {
			shortcuts = append(shortcuts, r.Shortcut)
		}
	}
	var urls []Req
	for _, o := range ops {
		if o.Kind == "url" {
			urls = append(urls, o)
		}
	}
	var out []Req
	for i := 0; i < n && len(shortcuts) > 0 && len(urls) > 0; i++ {
		u := Pick(g, urls)
		sc := strings.TrimPrefix(strings.TrimPrefix(Pick(g, shortcuts), "http://"), "https://")
		sc = strings.Trim(sc, "/:")
		if sc == "" {
			continue
		}
		k := strings.Index(u.URL, "://")
		if k < 0 {
			continue
		}
		rest := u.URL[k+3:]
		j := strings.IndexAny(rest, "/?")
		if j < 0 {
			u.URL = u.URL + "/" + sc
		} else {
			u.URL = u.URL[:k+3] + rest[:j] + "/" + sc + "/" + strings.TrimLeft(rest[j:], "/")
		}
		out = append(out, u)
	}
	return out
}

func histHosts(reqs []Req, qs []*rules.Request) []string {
	var hosts []string
	for i, rq := range reqs {
		hosts = append(hosts, rq.Hostname)
		if qs[i] != nil {
			hosts = append(hosts, qs[i].Hostname, qs[i].SourceHostname)
		}
	}
	return hosts
}

func init() {
	// ---------------- C13 ----------------
	register("c13", &Prop{
		Gen: func(g *Gen, tier string, emit func(string)) {
			cases, nops := 40, 60
			if tier == "thorough" {
				cases, nops = 600, 300
			}
			// one very long history: more distinct rules than any plausible bound on the rule cache are materialised,
			// then names holding a lookup window twice are asked (decided by the fresh-engine oracle alone)
			emit("big\t" + fmt.Sprint(17000+g.Intn(500)))
			emit("gaps\t" + fmt.Sprint(g.Intn(1000)))
			findCollisions()
			for k := 0; k < cases/3+2; k++ {
				ls, lines := genHistStorage(g, 25)
				var ops []Req
				for j := 0; j < 14; j++ {
					ops = append(ops, histOp(g, lines, ops))
				}
				emit("transient\t" + encodeStorage(ls) + "\t" + encodeReqs(ops) + "\t" + fmt.Sprint(g.Intn(8)))
			}
			// histories of web requests (Engine.MatchRequest: request + referrer) on one engine, decided by the
			// fresh-engine oracle: referrers with the same 32-bit hash, referrers differing in letter case, repeats
			for k := 0; k < 4; k++ {
				emit("web\t" + fmt.Sprint(g.Intn(1000000)))
			}
			for i := 0; i < cases; i++ {
				ls, lines := genHistStorage(g, 30)
				var ops []Req
				n := nops/2 + g.Intn(nops/2+1)
				for j := 0; j < n; j++ {
					ops = append(ops, histOp(g, lines, ops))
				}
				emit(encodeStorage(ls) + "\t" + encodeReqs(ops) + "\t" + b01(i%2 == 1))
			}
			// file-backed lists of several read blocks (4096 bytes): a query materialises the rule at offset p (the list
			// reads the block starting there), the next one needs the rule whose line straddles the end of that block, of
			// the block before, or starts exactly at a block boundary — whatever a list keeps from one read to the next
			// is invisible
			for i := 0; i < cases/4+1; i++ {
				var sb strings.Builder
				var offs []int
				nl := 240 + g.Intn(60)
				for k := 0; k < nl; k++ {
					offs = append(offs, sb.Len())
					fmt.Fprintf(&sb, "||h%03d.straddle.example^$%s\n", k, Pick(g, []string{"dnstype=A,client=Mom,important", "dnstype=A", "important,dnstype=~AAAA|~MX,ctag=device_pc", "client=Mom", "dnstype=A,denyallow=x.example.org|y.example.org"}))
				}
				lineAt := func(off int) int {
					j := 0
					for j+1 < nl && offs[j+1] <= off {
						j++
					}
					return j
				}
				var ops []Req
				for r := 0; r < 14; r++ {
					a := g.Intn(nl)
					for _, j := range []int{a, lineAt(offs[a] + 4096), lineAt(offs[a]+4096) - 1, lineAt(offs[a] + 4095 + g.Intn(3))} {
						if j < 0 || j >= nl {
							continue
						}
						name := fmt.Sprintf("h%03d.straddle.example", j)
						if g.Bool() {
							ops = append(ops, Req{Kind: "dns", Hostname: name, DNSType: 1, ClientName: "Mom", Tags: []string{"device_pc"}})
						} else {
							ops = append(ops, Req{Kind: "dns", Hostname: name, DNSType: 28})
						}
					}
				}
				emit(encodeStorage([]listSpec{{id: 1 + i, content: sb.String()}}) + "\t" + encodeReqs(ops) + "\t1")
			}
		},
		Run: func(line string, st *Stats) (string, string, bool) {
			f := strings.Split(line, "\t")
			if f[0] == "web" {
				var sd int64
				fmt.Sscan(f[1], &sd)
				wg := &Gen{R: newRand(sd)}
				// two different referrers with the same hash (two-character infix), one of them covered by a referrer-level
				// exception; a block for the request itself
				pre, suf := "http://"+Pick(wg, []string{"a.org", "shop.example", "news.test"})+"/p?i=", Pick(wg, []string{"", "&x=1", "/z"})
				seenH := map[uint32]string{}
				var pa, pb string
				al := "abcdefghijklmnopqrstuvwxyz0123456789"
			wsearch:
				for a := 0; a < len(al); a++ {
					for b := 0; b < len(al); b++ {
						u := pre + string(al[(a+int(sd))%36]) + string(al[b]) + suf
						hh := filterutil.FastHash(u)
						if o, ok := seenH[hh]; ok && o != u {
							pa, pb = o, u
							break wsearch
						}
						seenH[hh] = u
					}
				}
				excFor := func(u string) string {
					return "@@||" + strings.TrimPrefix(u, "http://") + "^$" + Pick(wg, []string{"urlblock", "genericblock", "document", "urlblock,match-case"})
				}
				content := "||example.org^\n||example.org^$script,important\n" + excFor(pa) + "\n@@||a.org/Page$urlblock,match-case\n@@||docpage.test^$document\n@@||hidepage.test^$elemhide,urlblock\n"
				ls := []listSpec{{1, false, content}}
				srcs := []string{pa, pb, pa, pb, pb, "http://a.org/Page", "http://a.org/page", "http://a.org/Page", "", pa, strings.ToUpper(pa[:12]) + pa[12:], pb, "http://docpage.test/", "http://hidepage.test/x"}
				wg.R.Shuffle(len(srcs), func(i, j int) { srcs[i], srcs[j] = srcs[j], srcs[i] })
				h := newHistEngines(ls, sd%2 == 0)
				defer h.cleanup()
				e := urlfilter.NewEngine(h.storage)
				flags := ""
				for k, src := range srcs {
					rq := func() *rules.Request {
						return rules.NewRequest("http://example.org/x.js", src, rules.TypeScript)
					}
					got := e.MatchRequest(rq())
					fh := newHistEngines(ls, false)
					want := urlfilter.NewEngine(fh.storage).MatchRequest(rq())
					fh.cleanup()
					if classOf(got.GetBasicResult()) != classOf(want.GetBasicResult()) || got.GetCosmeticOption() != want.GetCosmeticOption() {
						if flags == "" {
							flags = fmt.Sprintf("!WEB-VERDICT-HISTORY-DEPENDENT:op=%d referrer=%s", k, src)
						}
					}
					// a request no rule of its own matches, on a page covered by a document-level exception: the getters of the
					// result are pure (cosmetic option before and after the verdict was asked for, in both orders)
					r2 := e.MatchRequest(rules.NewRequest("http://norule.test/x.js", src, rules.TypeScript))
					o0 := r2.GetCosmeticOption()
					b0 := r2.GetBasicResult()
					if (r2.GetCosmeticOption() != o0 || r2.GetBasicResult() != b0) && flags == "" {
						flags = fmt.Sprintf("!ASKING-FOR-THE-VERDICT-ALTERS-THE-RESULT:referrer=%s", src)
					}
				}
				st.Add("ops", len(srcs))
				st.Inc("web_histories")
				return "ok" + flags, "echo\tok", pa != ""
			}
			if f[0] == "transient" {
				// a fault that goes away again (every list file handle replaced by a closed descriptor for a few queries,
				// then put back): once the lists are readable again every answer is the one of a fresh engine — nothing
				// about the failed retrievals is remembered
				ls := decodeStorage(f[1])
				ops := decodeReqs(f[2])
				var at int
				fmt.Sscan(f[3], &at)
				h := newHistEngines(ls, true)
				defer h.cleanup()
				flags := ""
				for _, rq := range ops[:at] {
					protect(func() { h.runOp(rq) })
				}
				olds := make([]*os.File, len(h.files))
				for i, fl := range h.files {
					if nf, err := os.Open(fl.File.Name()); err == nil {
						_ = nf.Close()
						olds[i] = fl.File
						fl.File = nf
					}
				}
				for _, rq := range ops[at:] {
					protect(func() { h.runOp(rq) })
				}
				for i, fl := range h.files {
					if olds[i] != nil {
						fl.File = olds[i]
					}
				}
				for k, rq := range ops {
					var got string
					var gr *histResult
					if p, msg := protect(func() { got, gr, _ = h.runOp(rq) }); p {
						flags = "!PANIC-AFTER-A-TRANSIENT-FAULT:" + strings.ReplaceAll(msg, "\t", " ")
						break
					}
					fresh := newHistEngines(ls, false)
					want, wr, _ := fresh.runOp(rq)
					fresh.cleanup()
					if (got != want || gr.count() != wr.count()) && flags == "" {
						flags = fmt.Sprintf("!HISTORY-DEPENDENT:op=%d answered %s after a fault that has gone away, a fresh engine answers %s", k, got, want)
					}
				}
				st.Add("ops", 2*len(ops))
				st.Inc("transient_fault_histories")
				return "ok" + flags, "echo\tok", true
			}
			if f[0] == "gaps" {
				// the same query again after EXACTLY d-1 other queries, for d around every width a counter could have
				// (8, 15, 16, 17 bits): the answer is the one of a fresh engine, whatever lies in between and however much
				var k int
				fmt.Sscan(f[1], &k)
				name := fmt.Sprintf("gap%d.example", k)
				ls := []listSpec{{1, false, "||" + name + "^\n0.0.0.0 host-" + name + "\n||zzzzzzzz.test^\n/qqqqqqqq/$domain=" + name + "\n"}}
				flags := ""
				ops := 0
				for _, kind := range []string{"dns", "url", "web"} {
					h := newHistEngines(ls, kind == "url")
					q := Req{Kind: kind, Hostname: name, URL: "http://" + name + "/x", Type: 4}
					filler := Req{Kind: kind, Hostname: "yyyyyyyy.test", URL: "http://yyyyyyyy.test/y", Type: 4}
					fresh := newHistEngines(ls, false)
					want, wr, _ := fresh.runOp(q)
					fresh.cleanup()
					h.runOp(q)
					for _, d := range []int{255, 256, 257, 32767, 32768, 32769, 65535, 65536, 65537, 131071, 131072, 131073} {
						for i := 0; i < d-1; i++ {
							h.runOp(filler)
						}
						got, gr, _ := h.runOp(q)
						ops += d
						if (got != want || gr.count() != wr.count()) && flags == "" {
							flags = fmt.Sprintf("!HISTORY-DEPENDENT:%s query answered %s instead of %s when asked again after exactly %d other queries", kind, got, want, d-1)
						}
					}
					h.cleanup()
				}
				st.Add("ops", ops)
				st.Inc("exact_gap_histories")
				return "ok" + flags, "echo\tok", true
			}
			if f[0] == "big" {
				var n int
				fmt.Sscan(f[1], &n)
				var sb strings.Builder
				for i := 0; i < n; i++ {
					fmt.Fprintf(&sb, "||h%d.big.example^\n", i)
				}
				ls := []listSpec{{1, false, sb.String()}}
				h := newHistEngines(ls, false)
				defer h.cleanup()
				for i := 0; i < n; i++ {
					h.runOp(Req{Kind: Pick(&Gen{R: newRand(int64(i))}, []string{"dns", "host"}), Hostname: fmt.Sprintf("h%d.big.example", i)})
				}
				fresh := newHistEngines(ls, false)
				defer fresh.cleanup()
				flags := ""
				for i := n - 40; i < n; i++ {
					name := fmt.Sprintf("h%d.big.example", i)
					for _, rq := range []Req{{Kind: "dns", Hostname: name + "." + name}, {Kind: "url", URL: "http://" + name + "/" + name, Type: 4}, {Kind: "dns", Hostname: name}} {
						o1, r1, _ := h.runOp(rq)
						o2, r2, _ := fresh.runOp(rq)
						if (o1 != o2 || r1.count() != r2.count()) && flags == "" {
							flags = fmt.Sprintf("!HISTORY-DEPENDENT-AFTER-%d-QUERIES:%s reports %d rules, fresh engine %d", n, rq.Hostname+rq.URL, r1.count(), r2.count())
						}
					}
				}
				st.Add("ops", n+120)
				st.Inc("long_histories")
				return "ok" + flags, "echo\tok", true
			}
			ls := decodeStorage(f[0])
			ops := decodeReqs(f[1])
			fileBacked := len(f) > 2 && f[2] == "1"
			if fileBacked {
				st.Inc("file_backed")
			}
			h := newHistEngines(ls, fileBacked)
			defer h.cleanup()
			var out []string
			var results []*histResult
			qs := make([]*rules.Request, len(ops))
			flags := ""
			hits := 0
			for k, rq := range ops {
				obs, r, q := h.runOp(rq)
				qs[k] = q
				out = append(out, obs)
				results = append(results, r)
				if strings.Trim(obs, "/n0") != "" {
					hits++
				}
				// the property's own oracle: the same query on fresh engines
				fresh := newHistEngines(ls, fileBacked)
				fobs, fr, _ := fresh.runOp(rq)
				fresh.cleanup()
				if (fobs != obs || fr.count() != r.count()) && flags == "" {
					flags = fmt.Sprintf("!HISTORY-DEPENDENT:op=%d", k)
				}
				// derived results of older results, interleaved
				if k%3 == 2 {
					derived(results[k-2])
					derived(results[k])
				}
			}
			for k, r := range results {
				if r.serialise() != r.ser && flags == "" {
					flags = fmt.Sprintf("!RESULT-MUTATED:op=%d", k)
				}
			}
			st.Add("ops", len(ops))
			st.Add("ops_with_match", hits)
			for _, rq := range ops {
				st.Inc("kind_" + rq.Kind)
			}
			return strings.Join(out, "|") + flags, f[0] + "\t" + f[1] + "\t" + pslForHosts(histHosts(ops, qs)), hits > 0
		},
	})

	// ---------------- C19 ----------------
	register("c19", &Prop{
		Gen: func(g *Gen, tier string, emit func(string)) {
			bases, maxOps := 8, 16
			if tier == "thorough" {
				bases, maxOps = 120, 40
			}
			for k := 0; k < 3; k++ {
				emit("latefail\t" + fmt.Sprint(g.Intn(1000)))
			}
			// a long fault-free life before the fault: tens of thousands of distinct rules materialised after the ones the
			// oracle asks about (nothing materialised is ever dropped, however many follow)
			emit("bigfault\t" + fmt.Sprint(66000+g.Intn(6000)) + "\t" + fmt.Sprint(g.Intn(1000)))
			emit("coldconc\t" + fmt.Sprint(g.Intn(1000)))
			if tier == "thorough" {
				emit("bigfault\t" + fmt.Sprint(132000+g.Intn(6000)) + "\t" + fmt.Sprint(g.Intn(1000)))
			}
			for i := 0; i < bases; i++ {
				ls, lines := genHistStorage(g, 25)
				var ops []Req
				n := 6 + g.Intn(maxOps-5)
				for j := 0; j < n; j++ {
					ops = append(ops, histOp(g, lines, ops))
				}
				if i%2 == 0 {
					// hosts-file rules sharing a name: the bucket of "shared" holds a rule nobody has asked for yet, then a rule
					// already materialised through its OTHER name (and the other way round in the second group); after the
					// fault the materialised one must still be served although its neighbour is unreadable
					// (rules that match every name — "*$denyallow=..." and the like — would answer before the hosts table is
					// consulted: they are left out of these bases)
					for li := range ls {
						var keep []string
						for _, l := range strings.Split(ls[li].content, "\n") {
							pat := strings.TrimPrefix(strings.SplitN(l, "$", 2)[0], "@@")
							if strings.Contains(l, "$") && len(strings.Trim(pat, "*^|")) < 3 {
								continue
							}
							keep = append(keep, l)
						}
						ls[li].content = strings.Join(keep, "\n")
					}
					a, b := "other"+fmt.Sprint(i)+".example", "shared"+fmt.Sprint(i)+".example"
					ls[0].content = "0.0.0.1 " + b + "\n0.0.0.2 " + a + " " + b + "\n" + ls[0].content + "::2 " + a + "x " + b + "x\n::1 " + b + "x\n"
					at := g.Intn(len(ops) + 1)
					ops = append(ops[:at], append([]Req{{Kind: "dns", Hostname: a}, {Kind: "dns", Hostname: a + "x", DNSType: 28}}, ops[at:]...)...)
					ops = append(ops, Req{Kind: "dns", Hostname: b}, Req{Kind: "dns", Hostname: b + "x"})
					n = len(ops)
				}
				if i%2 == 1 {
					// one lookup that needs an UNREADABLE rule (under an early window of the URL) and then a rule already
					// materialised through another URL (under a later window): the second is still served
					tag := fmt.Sprint(i)
					ls[0].content += "||first-one" + tag + ".test^\n/second-two" + tag + "/$script\n||third" + tag + ".test^$domain=a.org\n"
					at := g.Intn(len(ops) + 1)
					ops = append(ops[:at], append([]Req{{Kind: "url", URL: "http://other.test/second-two" + tag + "/x.js", Source: "http://a.org/", Type: 4}}, ops[at:]...)...)
					ops = append(ops, Req{Kind: "url", URL: "http://first-one" + tag + ".test/second-two" + tag + "/x.js", Source: "http://a.org/", Type: 4},
						Req{Kind: "url", URL: "http://third" + tag + ".test/second-two" + tag + "/y.js", Source: "http://a.org/", Type: 4})
					n = len(ops)
				}
				kind := Pick(g, []string{"", "fd"})
				combos := comboOps(g, lines, ops, 4)
				// the fault at EVERY point of the history (exhaustive over k), then the remaining queries and a
				// replay of all earlier ones
				for k := 0; k <= n; k++ {
					var h []Req
					h = append(h, ops[:k]...)
					h = append(h, Req{Kind: "close", URL: kind})
					h = append(h, ops[k:]...)
					h = append(h, ops[:k]...)
					h = append(h, combos...)
					if g.Chance(1, 5) {
						h = append(h, Req{Kind: "close", URL: kind})
						h = append(h, ops[:min(3, len(ops))]...)
					}
					emit(encodeStorage(ls) + "\t" + encodeReqs(h))
				}
			}
		},
		Run: func(line string, st *Stats) (string, string, bool) {
			f := strings.Split(line, "\t")
			if f[0] == "latefail" {
				// a query (B) has missed the cache and is about to read the list; another query (A) retrieves and
				// materialises the same rule; the lists become unreadable; B's read fails.  What A materialised is still
				// served afterwards.  The interleaving is forced with the hook at the cache-miss point (no lock is held there).
				var k int
				fmt.Sscan(f[1], &k)
				name := fmt.Sprintf("late%d.example", k)
				ls := []listSpec{{1, false, "||" + name + "^\n0.0.0.0 host-" + name + "\n||other.example^\n"}}
				flags := ""
				for _, rq := range []Req{{Kind: "dns", Hostname: name}, {Kind: "dns", Hostname: "host-" + name}, {Kind: "url", URL: "http://" + name + "/x", Type: 4}} {
					h := newHistEngines(ls, true)
					paused, resume := make(chan struct{}), make(chan struct{})
					var once sync.Once
					filterlist.VerifSetHook(func(kind int, obj any) {
						if kind == filterlist.VerifCacheMiss {
							blocked := false
							once.Do(func() { blocked = true })
							if blocked {
								close(paused)
								<-resume
							}
						}
					})
					doneB := make(chan struct{})
					go func() {
						defer close(doneB)
						protect(func() { h.runOp(rq) })
					}()
					select {
					case <-paused:
					case <-time.After(2 * time.Second):
					}
					before, _, _ := h.runOp(rq) // query A: retrieves and materialises
					_ = h.storage.Close()
					close(resume)
					select {
					case <-doneB:
					case <-time.After(5 * time.Second):
						flags += "!QUERY-BLOCKS-FOREVER"
					}
					filterlist.VerifSetHook(nil)
					after, _, _ := h.runOp(rq)
					if after != before && flags == "" {
						flags = fmt.Sprintf("!MATERIALISED-RULE-LOST-AFTER-A-LATE-FAILURE:%s before=%s after=%s", rq.Hostname+rq.URL, before, after)
					}
					h.cleanup()
				}
				st.Inc("late_failure_scenarios")
				return "ok" + flags, "echo\tok", true
			}
			if f[0] == "coldconc" {
				// after the fault many goroutines at once ask for rules that were never materialised (thousands of distinct
				// cold rules, a few warm ones between them): no crash, warm rules are served, nothing else is returned
				var k int
				fmt.Sscan(f[1], &k)
				var ls []listSpec
				const per = 3000
				for l := 0; l < 4; l++ {
					var sb strings.Builder
					for i := 0; i < per; i++ {
						fmt.Fprintf(&sb, "||cc%d-%d-%d.example^\n", k, l, i)
					}
					ls = append(ls, listSpec{l + 1, false, sb.String()})
				}
				h := newHistEngines(ls, true)
				name := func(l, i int) string { return fmt.Sprintf("cc%d-%d-%d.example", k, l, i) }
				warm := map[string]string{}
				for l := 0; l < 4; l++ {
					for i := 0; i < per; i += 500 {
						warm[name(l, i)], _, _ = h.runOp(Req{Kind: "dns", Hostname: name(l, i)})
					}
				}
				// the fault-free answers (a rule may also have been materialised as a by-product of another lookup: after
				// the fault a cold name gets the fault-free answer or the empty one, nothing else)
				oracle := newHistEngines(ls, false)
				full := map[string]string{}
				for l := 0; l < 4; l++ {
					for i := 0; i < per; i++ {
						full[name(l, i)], _, _ = oracle.runOp(Req{Kind: "dns", Hostname: name(l, i)})
					}
				}
				empty, _, _ := oracle.runOp(Req{Kind: "dns", Hostname: "nothing-of-the-kind.invalid"})
				oracle.cleanup()
				_ = h.storage.Close()
				var mu sync.Mutex
				flags := ""
				var wg sync.WaitGroup
				for w := 0; w < 16; w++ {
					wg.Add(1)
					go func(w int) {
						defer wg.Done()
						for j := 0; j < 4*per; j++ {
							jj := (j*7 + w*761) % (4 * per)
							nm := name(jj/per, jj%per)
							var got string
							p, msg := protect(func() { got, _, _ = h.runOp(Req{Kind: "dns", Hostname: nm}) })
							want, isWarm := warm[nm]
							bad := ""
							switch {
							case p:
								bad = "!PANIC-AFTER-FAULT:" + strings.ReplaceAll(msg, "\t", " ")
							case isWarm && got != want:
								bad = fmt.Sprintf("!MATERIALISED-RULE-NOT-SERVED:%s answered %s", nm, got)
							case !isWarm && got != empty && got != full[nm]:
								bad = fmt.Sprintf("!NOT-SUBSET:%s answered %s, fault-free answer %s", nm, got, full[nm])
							}
							if bad != "" {
								mu.Lock()
								if flags == "" {
									flags = bad
								}
								mu.Unlock()
								return
							}
						}
					}(w)
				}
				wg.Wait()
				h.cleanup()
				st.Inc("concurrent_cold_queries_after_the_fault")
				return "ok" + flags, "echo\tok", true
			}
			if f[0] == "bigfault" {
				var n, k int
				fmt.Sscan(f[1], &n)
				fmt.Sscan(f[2], &k)
				var sb strings.Builder
				for i := 0; i < n; i++ {
					if i%3 == 2 {
						fmt.Fprintf(&sb, "0.0.0.0 big%d-%d.example\n", k, i)
					} else {
						fmt.Fprintf(&sb, "||big%d-%d.example^\n", k, i)
					}
				}
				h := newHistEngines([]listSpec{{1, false, sb.String()}}, true)
				early := []Req{}
				for i := 0; i < 40; i++ {
					early = append(early, Req{Kind: "dns", Hostname: fmt.Sprintf("big%d-%d.example", k, i*7)})
					if i%4 == 0 {
						early = append(early, Req{Kind: "url", URL: fmt.Sprintf("http://big%d-%d.example/x", k, i*7), Type: 4})
					}
				}
				before := make([]string, len(early))
				for i, rq := range early {
					before[i], _, _ = h.runOp(rq)
				}
				for i := 0; i < n; i++ {
					h.runOp(Req{Kind: "dns", Hostname: fmt.Sprintf("big%d-%d.example", k, i)})
				}
				_ = h.storage.Close()
				flags := ""
				for i, rq := range early {
					after, _, _ := h.runOp(rq)
					if after != before[i] && flags == "" {
						flags = fmt.Sprintf("!MATERIALISED-RULE-LOST-AFTER-%d-LATER-RETRIEVALS:%s before=%s after=%s", n, rq.Hostname+rq.URL, before[i], after)
					}
				}
				h.cleanup()
				st.Inc("long_life_before_the_fault")
				return "ok" + flags, "echo\tok", true
			}
			ls := decodeStorage(f[0])
			ops := decodeReqs(f[1])
			h := newHistEngines(ls, true)
			defer h.cleanup()
			oracle := newHistEngines(ls, false) // fault-free reference
			defer oracle.cleanup()
			var out []string
			qs := make([]*rules.Request, len(ops))
			flags := ""
			closed := false
			served := 0
			var decoys []*os.File
			defer func() {
				for _, d := range decoys {
					_ = d.Close()
				}
			}()
			// in every other case the cache lock is BUSY at each insert before the fault (held in read mode on behalf of
			// another goroutine from the cache miss on, released 150 microseconds later): what a query returned must
			// still have been materialised, so that it is served after the fault
			if len(line)%2 == 0 {
				mon := newC14Monitor(false)
				mon.contend = true
				filterlist.VerifSetHook(mon.handle)
				defer func() {
					filterlist.VerifSetHook(nil)
					time.Sleep(time.Millisecond)
				}()
				st.Inc("histories_with_busy_cache_lock")
			}
			for k, rq := range ops {
				if rq.Kind == "close" {
					filterlist.VerifSetHook(nil)
					if rq.URL == "fd" {
						// the file handle is replaced by a closed descriptor
						for _, fl := range h.files {
							nf, err := os.Open(fl.File.Name())
							if err == nil {
								_ = nf.Close()
								old := fl.File
								fl.File = nf
								_ = old.Close()
							}
						}
					} else {
						_ = h.storage.Close()
						// life goes on in the process: other files are opened right after the lists were closed and receive the
						// descriptor numbers just released.  Their content has the same layout as the lists (a rule at every
						// old offset, in capitals, so that its text is not one of the fault-free result): nothing of it may
						// ever show up in a result
						for i, l := range ls {
							b := []byte(l.content)
							for j, c := range b {
								if c >= 'a' && c <= 'z' {
									b[j] = c - 32
								}
							}
							dp := filepath.Join(h.dir, fmt.Sprintf("decoy%d-%d.txt", k, i))
							if os.WriteFile(dp, b, 0o600) == nil {
								if df, derr := os.Open(dp); derr == nil {
									decoys = append(decoys, df)
								}
							}
						}
					}
					closed = true
					out = append(out, "c")
					continue
				}
				var obs string
				var r *histResult
				var q *rules.Request
				p, msg, timedOut := protectTimeout(1500*time.Millisecond, func() { obs, r, q = h.runOp(rq) })
				if timedOut {
					// the query never returned (e.g. a mutex left locked): the engines are unusable from here on
					flags = fmt.Sprintf("!QUERY-BLOCKS-FOREVER:op=%d", k)
					out = append(out, "blocked")
					break
				}
				if p {
					if flags == "" {
						flags = fmt.Sprintf("!PANIC-AFTER-FAULT:op=%d:%s", k, strings.ReplaceAll(msg, "\t", " "))
					}
					out = append(out, "panic")
					continue
				}
				qs[k] = q
				out = append(out, obs)
				if closed {
					_, or, _ := oracle.runOp(rq)
					// every returned network rule truly matches and is part of the fault-free result
					var got []*rules.NetworkRule
					var want []*rules.NetworkRule
					if r.web != nil {
						got, want = nil, nil
						if b := r.web.GetBasicResult(); b != nil && !b.Match(q) && flags == "" {
							// the referrer-level rules match the referrer, not the request: only the basic rule of the request is checked
							if r.web.BasicRule == b {
								flags = fmt.Sprintf("!LIE:op=%d:rule=%s", k, hx(b.RuleText))
							}
						}
					} else if r.dns != nil {
						got, want = r.dns.NetworkRules, or.dns.NetworkRules
						for _, hr := range append(append([]*rules.HostRule{}, r.dns.HostRulesV4...), r.dns.HostRulesV6...) {
							if !hr.Match(rq.Hostname) && flags == "" {
								flags = fmt.Sprintf("!LIE:op=%d:host-rule=%s", k, hx(hr.RuleText))
							}
						}
					} else {
						got, want = r.net, or.net
					}
					wantSet := map[string]bool{}
					for _, w := range want {
						wantSet[w.RuleText] = true
					}
					for _, gr := range got {
						if !gr.Match(q) && flags == "" {
							flags = fmt.Sprintf("!LIE:op=%d:rule=%s", k, hx(gr.RuleText))
						}
						if !wantSet[gr.RuleText] && flags == "" {
							flags = fmt.Sprintf("!NOT-SUBSET:op=%d:rule=%s", k, hx(gr.RuleText))
						}
					}
					if len(got) > 0 {
						served++
					}
				}
			}
			st.Add("ops", len(ops))
			st.Add("ops_after_fault_with_rules", served)
			return strings.Join(out, "|") + flags, line + "\t" + pslForHosts(histHosts(ops, qs)), served > 0
		},
	})
}
