package main

import (
	"fmt"
	"strings"

	"github.com/AdguardTeam/urlfilter/rules"
)

// C03: compiled basic patterns accept exactly the documented mask language.
//
// case: <pattern hex> TAB <match-case 0|1> TAB <list of subject strings>
// obs:  <preparePattern status>;<regexp source text hex>;<MatchString per subject>[!flag]    (E: rule rejected)
// Go-side oracle: NetworkRule.Match on a request for each subject agrees with the compiled expression.
//
// The rule is NewNetworkRule(pattern + "$domain=x.org" [",match-case"]); the domain restriction makes
// every pattern (also 1-2 character ones) acceptable to the parser.

var c03Alphabet = []string{"|", "*", "^", "a", "B", ".", "/", "?", "(", "[", "\\", "$", "+", "{"}

// subjectsFor derives subject strings from the pattern: walks its characters choosing matching,
// case-swapped, and deviating bytes.
func subjectsFor(g *Gen, p string, n int) []string {
	var out []string
	seps := []string{"/", ":", "?", "=", "&", "", "x", "A", "0", ".", "-", "_", "%", " ", "^", "\n"}
	swap := func(c byte) byte {
		switch {
		case c >= 'a' && c <= 'z':
			return c - 32
		case c >= 'A' && c <= 'Z':
			return c + 32
		}
		return c
	}
	for k := 0; k < n; k++ {
		var sb strings.Builder
		body := p
		if strings.HasPrefix(body, "||") {
			sb.WriteString(Pick(g, []string{"http://", "https://", "ws://", "wss://", "https://sub.", "http://a.b.", "ftp://", "", "http://-_.", "HTTP://", "xhttp://", "http://UP.", "https:/", "http://a/"}))
			body = body[2:]
		} else if strings.HasPrefix(body, "|") {
			sb.WriteString(Pick(g, []string{"", "", "x", "http://"}))
			body = body[1:]
		} else {
			sb.WriteString(Pick(g, []string{"", "", "http://x/", "zz", "/"}))
		}
		endPipe := false
		if strings.HasSuffix(body, "|") && len(body) > 0 {
			endPipe = true
			body = body[:len(body)-1]
		}
		for i := 0; i < len(body); i++ {
			c := body[i]
			switch c {
			case '*':
				sb.WriteString(Pick(g, []string{"", "x", "abc/d", "*", "\n"}))
			case '^':
				sb.WriteString(Pick(g, seps))
			default:
				switch g.Intn(12) {
				case 0:
					sb.WriteByte(swap(c))
				case 1:
					sb.WriteString(Pick(g, []string{"", "x", string([]byte{c, c})}))
				default:
					sb.WriteByte(c)
				}
			}
		}
		if endPipe {
			sb.WriteString(Pick(g, []string{"", "", "", "x", "|"}))
		} else {
			sb.WriteString(Pick(g, []string{"", "", "/tail", "x"}))
		}
		out = append(out, sb.String())
	}
	out = append(out, Pick(g, []string{"", "a", "http://a.b/c", "B", "|", "^", "*", "\\"}))
	return out
}

func init() {
	register("c03", &Prop{
		Gen: func(g *Gen, tier string, emit func(string)) {
			maxLen, sampled := 3, 6000
			if tier == "thorough" {
				maxLen, sampled = 4, 120000
			}
			var rec func(prefix string, depth int)
			rec = func(prefix string, depth int) {
				if depth > 0 {
					for _, mc := range []string{"0", "1"} {
						if mc == "1" && g.Chance(2, 3) {
							continue
						}
						emit(hx(prefix) + "\t" + mc + "\t" + encList(subjectsFor(g, prefix, 5)))
					}
				}
				if depth == maxLen {
					return
				}
				for _, s := range c03Alphabet {
					rec(prefix+s, depth+1)
				}
			}
			rec("", 0)
			// long masks: the regular-expression TEXT of a mask is longer than the mask (escapes, 21 bytes per "^", 40 per
			// "||"), far beyond any URL cap, while the URLs it describes stay short
			for _, unit := range []string{"a/", "a.", "^", "a^", "/?", "+b"} {
				for _, n := range []int{200, 1000, 1400, 2000} {
					if (unit == "^" || unit == "a^") && n > 400 {
						continue
					}
					p := "||h.org/" + strings.Repeat(unit, n)
					subj := "http://h.org/" + strings.Repeat(strings.ReplaceAll(unit, "^", "/"), n)
					emit(hx(p) + "\t" + b01(n%400 == 0) + "\t" + encList([]string{subj, subj + "x", subj[:len(subj)-1], "http://h.org/"}))
				}
			}
			for i := 0; i < sampled; i++ {
				var p string
				switch g.Intn(4) {
				case 0:
					n := 4 + g.Intn(6)
					for j := 0; j < n; j++ {
						p += Pick(g, c03Alphabet)
					}
				case 1:
					p = genPattern(g)
				case 2:
					p = genPattern(g) + Pick(g, []string{"/*", "|", "^", "*", "^|", "||"})
				default:
					n := 1 + g.Intn(8)
					for j := 0; j < n; j++ {
						p += string(rune(33 + g.Intn(94)))
					}
				}
				if strings.HasPrefix(p, "/") && strings.HasSuffix(p, "/") && len(p) > 1 {
					continue // regex rules belong to C05/C04
				}
				emit(hx(p) + "\t" + b01(g.Chance(1, 3)) + "\t" + encList(subjectsFor(g, p, 6)))
			}
		},
		Run: func(line string, st *Stats) (string, string, bool) {
			f := strings.Split(line, "\t")
			p := unhx(f[0])
			text := p + "$domain=x.org"
			if f[1] == "1" {
				text += ",match-case"
			}
			subjects := decList(f[2])
			rule, err := rules.NewNetworkRule(text, 1)
			if err != nil {
				st.Inc("rejected")
				return "E", line, false
			}
			var status int
			var src string
			if pn, msg := protect(func() { status, src = rule.VerifRegexp() }); pn {
				st.Inc("panic")
				return "P:" + msg, line, true
			}
			bits := ""
			hit := false
			flag := ""
			for i, s := range subjects {
				var ok bool
				if pn, _ := protect(func() { _, ok = rule.VerifRegexpMatch(s) }); pn {
					bits += "P"
					continue
				}
				bits += b01(ok)
				hit = hit || ok
				// the matcher as requests see it: NetworkRule.Match on a request for this URL from x.org must accept
				// exactly what the compiled expression accepts (the shortcut pre-check never rejects an accepted
				// string, C05; the rule carries no other modifier)
				var m bool
				if pn, _ := protect(func() { m = rule.Match(rules.NewRequest(s, "http://x.org/", rules.TypeOther)) }); pn {
					flag = fmt.Sprintf("!MATCH-PANICS:subject %d", i)
				} else if m != ok && flag == "" {
					flag = fmt.Sprintf("!MATCH-DIFFERS-FROM-COMPILED-PATTERN:subject %d compiled=%v Match=%v", i, ok, m)
				}
			}
			// one rule object serves requests of both kinds (an engine fed URL and hostname requests, DNS and web engines
			// over one storage): what it answers to a request does not depend on the kind of the requests it saw before
			if flag == "" && len(subjects) > 0 {
				plain := p
				if f[1] == "1" {
					plain += "$match-case"
				}
				mk := func() *rules.NetworkRule { r, _ := rules.NewNetworkRule(plain, 1); return r }
				if ra, rb := mk(), mk(); ra != nil && rb != nil {
					protect(func() {
						hosts := []string{}
						for _, s := range subjects {
							if h := rules.NewRequest(s, "", rules.TypeOther).Hostname; h != "" {
								hosts = append(hosts, h)
							}
						}
						hosts = append(hosts, "h.org", "x.org")
						// order A: a hostname request first, URL requests afterwards
						ra.Match(rules.NewRequestForHostname(hosts[0]))
						for i, s := range subjects {
							fresh := mk().Match(rules.NewRequest(s, "", rules.TypeOther))
							if m := ra.Match(rules.NewRequest(s, "", rules.TypeOther)); m != fresh && flag == "" {
								flag = fmt.Sprintf("!ANSWER-DEPENDS-ON-EARLIER-REQUESTS:url subject %d after a hostname request: %v, fresh rule: %v", i, m, fresh)
							}
						}
						// order B: a URL request first, hostname requests afterwards
						rb.Match(rules.NewRequest(subjects[0], "", rules.TypeOther))
						for _, h := range hosts {
							fresh := mk().Match(rules.NewRequestForHostname(h))
							if m := rb.Match(rules.NewRequestForHostname(h)); m != fresh && flag == "" {
								flag = fmt.Sprintf("!ANSWER-DEPENDS-ON-EARLIER-REQUESTS:hostname %q after a URL request: %v, fresh rule: %v", h, m, fresh)
							}
						}
					})
				}
			}
			st.Inc(fmt.Sprintf("status_%d", status))
			if hit {
				st.Inc("some_subject_accepted")
			}
			return fmt.Sprintf("%d;%s;%s", status, hx(src), bits) + flag, line, status == 1
		},
	})
}
