package main

import (
	"fmt"
	"sort"
	"strings"

	"github.com/AdguardTeam/urlfilter"
	"github.com/AdguardTeam/urlfilter/rules"
)

// C08: $badfilter disables exactly its twin rules, however many are present.
//
// case "direct": direct TAB <list of rule texts (all treated as matching)> TAB <mask: 1 = extra element>
//   obs: texts(RemoveBadfilterRules) ; GetDNSBasicRule ; NewMatchingResult basic ; texts(DNSRewrites)   [+ !flags]
//   the harness also evaluates the same four observables on the base list (mask 0) and flags a difference.

func fieldsKey(r *rules.NetworkRule) string {
	f := r.VerifFields()
	keys := make([]string, 0, len(f))
	for k := range f {
		if k == "shortcut" {
			continue
		}
		keys = append(keys, k)
	}
	sort.Strings(keys)
	var sb strings.Builder
	for _, k := range keys {
		v := f[k]
		if k == "enabled" {
			var e uint64
			fmt.Sscan(v, &e)
			v = fmt.Sprint(e &^ uint64(rules.OptionBadfilter))
		}
		sb.WriteString(k + "=" + v + "|")
	}
	return sb.String()
}

func withBadfilter(t string) string {
	// options are present iff parseRuleText finds a delimiter; all generated rules that reach
	// here were built as pattern[$mods] with mask patterns, so "$" presence decides.
	if strings.Contains(t, "$") {
		return t + ",badfilter"
	}
	return t + "$badfilter"
}

func ruleTexts(rs []*rules.NetworkRule) string {
	t := make([]string, len(rs))
	for i, r := range rs {
		t[i] = r.RuleText
	}
	return encList(t)
}

func c08Observe(rs []*rules.NetworkRule) string {
	eff := rules.RemoveBadfilterRules(rs)
	t := func(r *rules.NetworkRule) string {
		if r == nil {
			return "nil"
		}
		return hx(r.RuleText)
	}
	dnsBasic := rules.GetDNSBasicRule(rs)
	web := rules.NewMatchingResult(rs, nil).GetBasicResult()
	res := &urlfilter.DNSResult{NetworkRules: rs}
	return ruleTexts(eff) + ";" + t(dnsBasic) + ";" + t(web) + ";" + ruleTexts(res.DNSRewrites())
}

// nearTwin changes one modifier value of a rule text.
func nearTwin(g *Gen, t string) string {
	repl := [][2]string{
		{"example.org", "example.com"}, {"example.net", "test.com"}, {"=A", "=AAAA"}, {"device_pc", "device_tv"},
		{"Mom", "Dad"}, {"127.0.0.1", "127.0.0.2"}, {"script", "image"}, {"third-party", "~third-party"},
		{"1.2.3.4", "1.2.3.5"}, {"important", "match-case"}, {"10 mail", "20 mail"}, {"alpn=h3", "alpn=h2"},
	}
	Shuffle(g, repl)
	if g.Chance(1, 4) {
		// the same rule with one letter of the PATTERN in the other case: a different rule (patterns are compared
		// byte for byte; for regular expressions \d and \D are not the same thing)
		end := strings.Index(t, "$")
		if end < 0 {
			end = len(t)
		}
		b := []byte(t)
		for tries := 0; tries < 20; tries++ {
			k := g.Intn(end)
			switch {
			case b[k] >= 'a' && b[k] <= 'z':
				b[k] -= 32
				return string(b)
			case b[k] >= 'A' && b[k] <= 'Z':
				b[k] += 32
				return string(b)
			}
		}
	}
	i := strings.Index(t, "$")
	if i < 0 {
		return t + "$" + Pick(g, []string{"script", "important", "third-party"})
	}
	for _, r := range repl {
		if strings.Contains(t[i:], r[0]) {
			return t[:i] + strings.Replace(t[i:], r[0], r[1], 1)
		}
	}
	return t + "," + Pick(g, []string{"~media", "ping"})
}

func c08Rule(g *Gen) string {
	if g.Chance(1, 10) {
		// patterns the parser rewrites ("host/*" means "host^"), with and without modifiers: a rule and its textual
		// twin are parsed alike
		return Pick(g, []string{"||example.org/*", "@@||example.org/*", "example.org/ads/*", "||example.org/*$important", "||example.org/*$script", "/ads/*", "||example.org^*"})
	}
	if g.Chance(1, 4) {
		base := Pick(g, []string{"||example.org^", "@@||example.org^"})
		v := Pick(g, rewriteValues)
		m := "dnsrewrite=" + v
		if g.Chance(1, 4) {
			m += ",important"
		}
		return base + "$" + m
	}
	return featureRule(g)
}

func init() {
	register("c08", &Prop{
		Gen: func(g *Gen, tier string, emit func(string)) {
			n := 6000
			if tier == "thorough" {
				n = 150000
			}
			for i := 0; i < n; i++ {
				// base list
				nb := g.Intn(7)
				var base []string
				for j := 0; j < nb; j++ {
					t := c08Rule(g)
					if g.Chance(1, 8) {
						t = withBadfilter(strings.Replace(strings.Replace(t, ",badfilter", "", 1), "$badfilter", "", 1))
					}
					base = append(base, t)
				}
				base, baseRules := validRules(base)
				keys := map[string]bool{}
				for _, r := range baseRules {
					keys[fieldsKey(r)] = true
				}
				// extras: k groups (x ... x, x$badfilter ...) with at least one of each, each x structurally distinct from every base rule
				type el struct {
					t     string
					extra bool
				}
				var els []el
				for _, t := range base {
					els = append(els, el{t, false})
				}
				k := g.Intn(4)
				if g.Chance(1, 5) {
					k = 0
				}
				extraKeys := map[string]bool{} // structure of every inserted x: near-twins put into the base must differ from ALL of them
				for j := 0; j < k; j++ {
					x := c08Rule(g)
					forcedY := ""
					if g.Chance(1, 8) {
						// a list-valued modifier that REPEATS a value, next to a rule whose list has the same length and
						// contains every distinct value of it: the lists differ, the rules are not twins
						pat := Pick(g, []string{"||example.org^", "@@||example.org^", "||ads.example.org^", "*"})
						key := Pick(g, []string{"domain", "domain", "denyallow", "dnstype"})
						pool := []string{"a.com", "b.com", "example.net", "x.org", "~a.com", "~b.com"}
						if key == "dnstype" {
							pool = []string{"A", "AAAA", "CNAME", "~TXT", "~MX"}
						} else if key == "denyallow" {
							pool = pool[:4]
						}
						v, w := Pick(g, pool), Pick(g, pool)
						if v != w {
							xl, yl := []string{v, v}, []string{v, w}
							if g.Chance(1, 3) {
								xl, yl = []string{v, w, v}, Pick(g, [][]string{{v, w, w}, {w, v, w}})
							}
							if g.Bool() {
								yl[0], yl[1] = yl[1], yl[0]
							}
							tail := ""
							if key == "denyallow" {
								tail = ",domain=x.org"
							}
							x = pat + "$" + key + "=" + strings.Join(xl, "|") + tail
							forcedY = pat + "$" + key + "=" + strings.Join(yl, "|") + tail
							if g.Chance(1, 4) {
								x, forcedY = forcedY, x
							}
						}
					}
					if strings.Contains(x, "badfilter") {
						continue
					}
					xr, err := rules.NewNetworkRule(x, 1)
					if err != nil || keys[fieldsKey(xr)] {
						continue
					}
					if _, err = rules.NewNetworkRule(withBadfilter(x), 1); err != nil {
						continue
					}
					if k := strings.Index(x, "^$"); k >= 0 {
						if _, err = rules.NewNetworkRule(x[:k+2]+"badfilter,"+x[k+2:], 1); err != nil {
							continue
						}
					}
					extraKeys[fieldsKey(xr)] = true
					// the same rule may come from several lists: more copies of x than of its $badfilter twin (and the
					// other way round) — one twin disables every copy
					twin := withBadfilter(x)
					if k := strings.Index(x, "^$"); k >= 0 && strings.HasSuffix(x[:k], "example.org") && g.Chance(1, 3) {
						// the twin may spell its modifiers in another order: badfilter first
						twin = x[:k+2] + "badfilter," + x[k+2:]
					}
					group := []string{x, twin}
					if g.Chance(1, 3) {
						for c := 1 + g.Intn(2); c > 0; c-- {
							group = append(group, x)
						}
					}
					if g.Chance(1, 5) {
						group = append(group, twin)
					}
					for _, t := range group {
						p := g.Intn(len(els) + 1)
						els = append(els[:p], append([]el{{t, true}}, els[p:]...)...)
					}
					// sometimes also a near-twin y of x in the base part: it must stay effective
					if g.Chance(1, 2) || forcedY != "" {
						y := nearTwin(g, x)
						if forcedY != "" {
							y = forcedY
						}
						if yr, err := rules.NewNetworkRule(y, 1); err == nil && !extraKeys[fieldsKey(yr)] && !strings.Contains(y, "badfilter") {
							// y joins the base: later extras must be distinct from it as well
							keys[fieldsKey(yr)] = true
							p := g.Intn(len(els) + 1)
							els = append(els[:p], append([]el{{y, false}}, els[p:]...)...)
						}
					}
				}
				if len(els) == 0 {
					continue
				}
				texts := make([]string, len(els))
				mask := make([]byte, len(els))
				for j, e := range els {
					texts[j] = e.t
					mask[j] = '0'
					if e.extra {
						mask[j] = '1'
					}
				}
				emit("direct\t" + encList(texts) + "\t" + string(mask))
			}
		},
		Run: func(line string, st *Stats) (string, string, bool) {
			f := strings.Split(line, "\t")
			texts := decList(f[1])
			mask := f[2]
			_, rs := validRules(texts)
			if len(rs) != len(texts) {
				return "INVALID-RULE-IN-CASE", line, false
			}
			var baseRules []*rules.NetworkRule
			nExtra, nBad := 0, 0
			for i, r := range rs {
				if mask[i] == '0' {
					baseRules = append(baseRules, r)
				} else {
					nExtra++
				}
				if r.IsOptionEnabled(rules.OptionBadfilter) {
					nBad++
				}
			}
			obs := c08Observe(rs)
			// the property's own oracle: adding the pairs changes nothing
			// (re-parse the base so that result objects are not shared)
			_, base2 := validRules(func() []string {
				var t []string
				for i := range texts {
					if mask[i] == '0' {
						t = append(t, texts[i])
					}
				}
				return t
			}())
			if nExtra > 0 {
				if b := c08Observe(base2); b != obs {
					obs += "!CHANGED-BY-TWIN-PAIRS:base=" + b
				}
			}
			st.Inc(fmt.Sprintf("badfilters_%d", min(nBad, 4)))
			st.Inc(fmt.Sprintf("extra_pairs_%d", nExtra/2))
			return obs, line, nBad > 0
		},
	})
}
