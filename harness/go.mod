module verifharness

go 1.23.2

require (
	github.com/AdguardTeam/urlfilter v0.0.0
	github.com/miekg/dns v1.1.61
	golang.org/x/net v0.29.0
)

require (
	github.com/AdguardTeam/golibs v0.29.0 // indirect
	github.com/AdguardTeam/gomitmproxy v0.2.1 // indirect
	github.com/pkg/errors v0.9.1 // indirect
	golang.org/x/exp v0.0.0-20240909161429-701f63a606c0 // indirect
	golang.org/x/sys v0.25.0 // indirect
	golang.org/x/text v0.18.0 // indirect
)

replace github.com/AdguardTeam/urlfilter => /repo
