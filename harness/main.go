// Command harness is the Go side of the correspondence check: it generates
// cases from a seed, runs the real implementation (built from /repo's working
// tree with -tags verif) on them, and writes canonicalised observations.
//
//	harness gen <prop> -seed N -tier quick|thorough -out cases.txt
//	harness run <prop> -in cases.txt -out go.out -modelin model_in.txt -stats stats.json
package main

import (
	"bufio"
	"encoding/json"
	"flag"
	"fmt"
	"io"
	"log/slog"
	"math/rand"
	"os"
	"sort"
	"strings"
)

// Prop is one property family of the harness.
type Prop struct {
	// Gen writes case lines (without trailing newline) through emit.
	Gen func(g *Gen, tier string, emit func(line string))
	// Run executes one case line on the implementation.  It returns the
	// observation line, the line handed to the model (usually the case line
	// itself, possibly with oracle fields appended), and whether the case is
	// non-trivial by the property's stated rule.
	Run func(line string, st *Stats) (obs string, modelIn string, nontrivial bool)
}

var props = map[string]*Prop{}

func register(name string, p *Prop) { props[name] = p }

// Stats collects the input distribution reported in the evidence file.
type Stats struct {
	Counters map[string]int `json:"counters"`
}

func (s *Stats) Inc(key string) { s.Counters[key]++ }
func (s *Stats) Add(key string, n int) { s.Counters[key] += n }

func main() {
	slog.SetDefault(slog.New(slog.NewTextHandler(io.Discard, nil)))
	if len(os.Args) < 3 {
		fmt.Fprintln(os.Stderr, "usage: harness gen|run <prop> [flags]")
		os.Exit(2)
	}
	cmd, name := os.Args[1], strings.ToLower(os.Args[2])
	p, ok := props[name]
	if !ok {
		names := []string{}
		for k := range props {
			names = append(names, k)
		}
		sort.Strings(names)
		fmt.Fprintf(os.Stderr, "unknown property %q (have %v)\n", name, names)
		os.Exit(2)
	}
	fs := flag.NewFlagSet(cmd, flag.ExitOnError)
	seed := fs.Int64("seed", 1, "seed")
	tier := fs.String("tier", "quick", "tier")
	in := fs.String("in", "", "input cases")
	out := fs.String("out", "", "output file")
	modelIn := fs.String("modelin", "", "model input file")
	statsF := fs.String("stats", "", "stats file")
	_ = fs.Parse(os.Args[3:])

	switch cmd {
	case "gen":
		f, err := os.Create(*out)
		must(err)
		w := bufio.NewWriterSize(f, 1<<20)
		g := &Gen{R: rand.New(rand.NewSource(*seed))}
		p.Gen(g, *tier, func(line string) {
			if strings.ContainsAny(line, "\n\r") {
				panic("case line contains a newline")
			}
			_, _ = w.WriteString(line)
			_ = w.WriteByte('\n')
		})
		must(w.Flush())
		must(f.Close())
	case "run":
		inF, err := os.Open(*in)
		must(err)
		outF, err := os.Create(*out)
		must(err)
		miF, err := os.Create(*modelIn)
		must(err)
		ow := bufio.NewWriterSize(outF, 1<<20)
		mw := bufio.NewWriterSize(miF, 1<<20)
		st := &Stats{Counters: map[string]int{}}
		sc := bufio.NewScanner(inF)
		sc.Buffer(make([]byte, 1<<20), 1<<30)
		// the number of the case being exercised, kept in a small file: if the process is aborted by the runtime (a fatal
		// error cannot be recovered), the runner names that case as the failing input
		prog, _ := os.Create(*out + ".progress")
		caseNo := 0
		for sc.Scan() {
			line := sc.Text()
			if line == "" {
				continue
			}
			if prog != nil {
				_, _ = prog.WriteAt([]byte(fmt.Sprintf("%-12d", caseNo)), 0)
			}
			caseNo++
			var obs, mi string
			var nt bool
			if panicked, msg := protect(func() { obs, mi, nt = p.Run(line, st) }); panicked {
				// an uncaught panic while exercising the implementation on this case
				if len(msg) > 200 {
					msg = msg[:200]
				}
				obs, mi, nt = "!PANIC:"+strings.ReplaceAll(strings.ReplaceAll(msg, "\n", " "), "\t", " "), line, true
			}
			flag := "0"
			if nt {
				flag = "1"
			}
			_, _ = ow.WriteString(flag + "\t" + obs + "\n")
			_, _ = mw.WriteString(mi + "\n")
			st.Inc("cases")
		}
		must(sc.Err())
		must(ow.Flush())
		must(mw.Flush())
		must(outF.Close())
		must(miF.Close())
		if *statsF != "" {
			b, _ := json.MarshalIndent(st, "", " ")
			must(os.WriteFile(*statsF, b, 0o644))
		}
	default:
		fmt.Fprintln(os.Stderr, "unknown command", cmd)
		os.Exit(2)
	}
}

func must(err error) {
	if err != nil {
		fmt.Fprintln(os.Stderr, "harness:", err)
		os.Exit(3)
	}
}
