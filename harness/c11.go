package main

import (
	"fmt"
	"os"
	"strings"

	"github.com/AdguardTeam/urlfilter/filterlist"
	"github.com/AdguardTeam/urlfilter/rules"
)

// C11: every scanned rule can be retrieved by its index from any backing store.
//
// case: <list>;<list>;...    list = <id>:<ignoreCosmetic 0|1>:<content hex>
// obs:  scan sequence  idx:kind:text hex:list id, ...  of the String-backed storage
//       [+ !flags: file-backed scan differs, retrieval (during or after the scan, any order, String or
//          File) does not return the scanned rule, two yielded rules share an index]

func kindOf(r rules.Rule) string {
	switch r.(type) {
	case *rules.NetworkRule:
		return "N"
	case *rules.HostRule:
		return "H"
	case *rules.CosmeticRule:
		return "C"
	}
	return "?"
}

// c11UnicodeEdges is set for one storage in ten (the model declines non-ASCII trimming; such storages are decided
// by the Go-side scan / retrieve / line-by-line oracles alone).
var c11UnicodeEdges bool

func c11Line(g *Gen) string {
	switch g.Intn(14) {
	case 0:
		return ""
	case 1:
		if g.Chance(1, 3) {
			// the shortest lines that are rules: one-, two- and three-byte names (a bare name is a hosts entry), wherever
			// they stand — also as the last line of a content without a final line break
			return Pick(g, []string{"tv", "io", "ab", "de", "a", "x", "a.b", "t.co", "ai", "::", "@@", "||", "a^", "/a"})
		}
		return Pick(g, []string{"! comment", "# comment", "! комментарий", "   ", "\t", "#"})
	case 2:
		return Pick(g, cosmeticLines)
	case 3:
		l, _, _ := genHostsLine(g)
		return l
	case 4:
		return Pick(g, []string{"example.org##.реклама", "##.ad\x00x", "! \xff\xfe", "||example.org^$unknown", "@@", "||"})
	case 5:
		// long lines around the 4 KiB read buffer
		n := Pick(g, []int{4090, 4095, 4096, 4097, 4100, 8191, 8192, 8193, 9000})
		if g.Chance(1, 15) {
			// beyond every customary token limit of line readers (64 KiB, 1 MiB is left to the thorough tier)
			n = Pick(g, []int{65534, 65535, 65536, 65537, 70000, 131072})
		}
		return "||example.org/" + strings.Repeat("a", n-14-g.Intn(3))
	case 6:
		return "! " + strings.Repeat("c", Pick(g, []int{4094, 4095, 4096, 5000, 5001, 4093, 66000}))
	case 7:
		if c11UnicodeEdges && g.Chance(1, 2) {
			// white space of every kind at the edges of a line (Unicode White_Space, not only Latin-1): scanning and
			// retrieval trim the same way, whatever that way is
			sp := []string{"\u3000", "\u205f", "\u2028", "\u00a0", "\u0085", "\u1680", "\u2003", "\u202f", "\v", "\f", "\u200b", "\ufeff"}
			l := Pick(g, []string{genNetworkRule(g), "hostonly.example", "0.0.0.0 blocked.example", "! comment", "example.org##.ad"})
			if g.Bool() {
				l = Pick(g, sp) + l
			}
			if g.Bool() {
				l += Pick(g, sp)
			}
			return l
		}
		return Pick(g, []string{" ", "\t"}) + genNetworkRule(g) + Pick(g, []string{" ", "\t", "  "})
	default:
		return genNetworkRule(g)
	}
}

func c11Content(g *Gen) string {
	n := g.Intn(30)
	if g.Chance(1, 10) {
		n = 0
	}
	if g.Chance(1, 8) {
		// several read blocks of short lines: retrieval in any order, from any block, after any other retrieval
		n = 200 + g.Intn(500)
		var sb strings.Builder
		for i := 0; i < n; i++ {
			switch g.Intn(8) {
			case 0:
				fmt.Fprintf(&sb, "0.0.0.0 h%04d.example\n", i)
			case 1:
				fmt.Fprintf(&sb, "example.org##.c%d\n", i)
			case 2:
				sb.WriteString("! " + strings.Repeat("c", g.Intn(90)) + "\n")
			default:
				fmt.Fprintf(&sb, "||example%04d.org^\n", i)
			}
		}
		return sb.String()
	}
	eol := Pick(g, []string{"\n", "\n", "\r\n"})
	var sb strings.Builder
	if g.Chance(1, 16) {
		// files saved by some editors start with a byte order mark (or other invisible bytes): whatever the scanner
		// does with the first line, retrieval by its index must do the same
		sb.WriteString(Pick(g, []string{"\xef\xbb\xbf", "\xef\xbb\xbf", "\xff\xfe", "\xfe\xff", "\xef\xbb", "\ufeff\ufeff", "\x00", "\xe2\x80\x8b"}))
	}
	for i := 0; i < n; i++ {
		l := strings.NewReplacer("\n", "", "\r", "").Replace(c11Line(g))
		if i == n-1 && g.Chance(1, 6) {
			l = Pick(g, []string{"tv", "io", "ab", "a", "x.y", "de"})
		}
		sb.WriteString(l)
		if i < n-1 || g.Chance(2, 3) {
			if g.Chance(1, 12) {
				sb.WriteString(Pick(g, []string{"\n", "\r\n", "\n\n"}))
			} else {
				sb.WriteString(eol)
			}
		}
	}
	return sb.String()
}

func init() {
	ids := []int{0, 1, 2, 7, -1, -5, 1000, 2147483647, -2147483648, 65536, 123456789}
	register("c11", &Prop{
		Gen: func(g *Gen, tier string, emit func(string)) {
			n := 500
			if tier == "thorough" {
				n = 12000
			}
			for i := 0; i < n; i++ {
				c11UnicodeEdges = i%10 == 3
				k := 1 + g.Intn(4)
				used := map[int]bool{}
				var parts []string
				for j := 0; j < k; j++ {
					id := Pick(g, ids)
					for used[id] {
						id = Pick(g, ids)
					}
					used[id] = true
					parts = append(parts, fmt.Sprintf("%d:%s:%s", id, b01(g.Chance(1, 3)), hx(c11Content(g))))
				}
				emit(strings.Join(parts, ";"))
			}
		},
		Run: func(line string, st *Stats) (string, string, bool) {
			type spec struct {
				id      int
				ignore  bool
				content string
			}
			var specs []spec
			for _, p := range strings.Split(line, ";") {
				f := strings.SplitN(p, ":", 3)
				var id int
				fmt.Sscan(f[0], &id)
				specs = append(specs, spec{id, f[1] == "1", unhx(f[2])})
			}
			dir, err := os.MkdirTemp("", "c11")
			must(err)
			defer os.RemoveAll(dir)
			var sl, fl []filterlist.RuleList
			for i, s := range specs {
				sl = append(sl, &filterlist.StringRuleList{ID: s.id, RulesText: s.content, IgnoreCosmetic: s.ignore})
				path := fmt.Sprintf("%s/l%d.txt", dir, i)
				must(os.WriteFile(path, []byte(s.content), 0o644))
				f, ferr := filterlist.NewFileRuleList(s.id, path, s.ignore)
				must(ferr)
				fl = append(fl, f)
			}
			ss, err := filterlist.NewRuleStorage(sl)
			must(err)
			fs, err := filterlist.NewRuleStorage(fl)
			must(err)
			defer fs.Close()

			type ent struct {
				idx  int64
				kind string
				text string
				id   int
			}
			flags := ""
			scan := func(s *filterlist.RuleStorage, during bool) []ent {
				var out []ent
				sc := s.NewRuleStorageScanner()
				for sc.Scan() {
					r, idx := sc.Rule()
					out = append(out, ent{idx, kindOf(r), r.Text(), r.GetFilterListID()})
					if during {
						// retrieve the rule just yielded while the scan is in progress
						rr, rerr := s.RetrieveRule(idx)
						if rerr != nil || rr == nil || rr.Text() != r.Text() || kindOf(rr) != kindOf(r) || rr.GetFilterListID() != r.GetFilterListID() {
							flags += fmt.Sprintf("!RETRIEVE-DURING-SCAN-MISMATCH:idx=%d", idx)
						}
					}
				}
				return out
			}
			a := scan(ss, false)
			b := scan(fs, true)
			// several scanners of one storage alive at once, advanced in turns (engines may be built while another scan
			// of the same lists is in progress): each yields the whole sequence
			for _, s := range []*filterlist.RuleStorage{fs, ss} {
				s1, s2 := s.NewRuleStorageScanner(), s.NewRuleStorageScanner()
				var o1, o2 []ent
				for more1, more2 := true, true; more1 || more2; {
					if more1 = more1 && s1.Scan(); more1 {
						r, idx := s1.Rule()
						o1 = append(o1, ent{idx, kindOf(r), r.Text(), r.GetFilterListID()})
					}
					for k := 0; k < 2; k++ {
						if more2 = more2 && s2.Scan(); more2 {
							r, idx := s2.Rule()
							o2 = append(o2, ent{idx, kindOf(r), r.Text(), r.GetFilterListID()})
						}
					}
				}
				if fmt.Sprint(o1) != fmt.Sprint(a) || fmt.Sprint(o2) != fmt.Sprint(a) {
					flags += "!INTERLEAVED-SCANNERS-DIFFER-FROM-A-SINGLE-SCAN"
				}
			}
			// a scanner that has reported the end is polled again (callers loop on Scan) while a scanner created after it is
			// in the middle of its scan: the finished one stays finished and the live one still yields the whole sequence
			for _, s := range []*filterlist.RuleStorage{ss, fs} {
				done := s.NewRuleStorageScanner()
				for done.Scan() {
				}
				live := s.NewRuleStorageScanner()
				var o []ent
				for n := 0; ; n++ {
					if n%2 == 0 && done.Scan() {
						flags += "!FINISHED-SCANNER-YIELDS-AGAIN"
						break
					}
					if !live.Scan() {
						break
					}
					r, idx := live.Rule()
					o = append(o, ent{idx, kindOf(r), r.Text(), r.GetFilterListID()})
				}
				if fmt.Sprint(o) != fmt.Sprint(a) {
					flags += "!SCAN-DISTURBED-BY-A-FINISHED-SCANNER"
				}
			}
			render := func(l []ent) string {
				p := make([]string, len(l))
				for i, e := range l {
					p[i] = fmt.Sprintf("%d:%s:%s:%d", e.idx, e.kind, hx(e.text), e.id)
				}
				return strings.Join(p, ",")
			}
			if render(a) != render(b) {
				flags += "!STRING-FILE-SCAN-DIFFER"
			}
			seen := map[int64]bool{}
			for _, e := range a {
				if seen[e.idx] {
					flags += fmt.Sprintf("!IDX-COLLISION:%d", e.idx)
				}
				seen[e.idx] = true
			}
			// retrieval after the scan, in reverse order and again in order (second time from the cache),
			// from fresh storages so that the first retrieval of every index goes to the list
			ss2, _ := filterlist.NewRuleStorage(sl)
			for pass := 0; pass < 2; pass++ {
				for i := range a {
					e := a[len(a)-1-i]
					if pass == 1 {
						e = a[i]
					}
					for _, s := range []*filterlist.RuleStorage{ss2, fs} {
						rr, rerr := s.RetrieveRule(e.idx)
						if rerr != nil || rr == nil || rr.Text() != e.text || kindOf(rr) != e.kind || rr.GetFilterListID() != e.id {
							flags += fmt.Sprintf("!RETRIEVE-MISMATCH:idx=%d", e.idx)
						}
					}
				}
			}
			// retrieval in a scrambled order from fresh file-backed storages (nothing cached in the storage, so every
			// retrieval goes to the list, each after a different one): near and far jumps, back and forth between blocks
			if len(a) > 1 {
				for pass := 0; pass < 3 && flags == ""; pass++ {
					var fl3 []filterlist.RuleList
					for i, sp := range specs {
						f, ferr := filterlist.NewFileRuleList(sp.id, fmt.Sprintf("%s/l%d.txt", dir, i), sp.ignore)
						must(ferr)
						fl3 = append(fl3, f)
					}
					fs3, err3 := filterlist.NewRuleStorage(fl3)
					must(err3)
					rnd := newRand(int64(len(line)) + int64(pass)*7919)
					limit := len(a)
					if limit > 400 {
						limit = 400
					}
					for k := 0; k < limit; k++ {
						var e ent
						switch {
						case pass == 0:
							e = a[rnd.Intn(len(a))]
						case k%3 == 0:
							e = a[rnd.Intn(len(a))]
						default:
							// a neighbour of a random position, then back
							j := rnd.Intn(len(a))
							e = a[(j+k%7)%len(a)]
						}
						rr, rerr := fs3.RetrieveRule(e.idx)
						if rerr != nil || rr == nil || rr.Text() != e.text || kindOf(rr) != e.kind || rr.GetFilterListID() != e.id {
							flags += fmt.Sprintf("!RETRIEVE-IN-SCRAMBLED-ORDER-MISMATCH:idx=%d", e.idx)
							break
						}
					}
					_ = fs3.Close()
				}
			}
			if len(flags) > 300 {
				flags = flags[:300]
			}
			st.Add("rules_scanned", len(a))
			st.Add("lists", len(specs))
			return render(a) + flags, line, len(a) > 0
		},
	})
}
