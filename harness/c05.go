package main

import (
	"bufio"
	"os"
	"regexp"
	"regexp/syntax"
	"strings"

	"github.com/AdguardTeam/urlfilter/filterutil"
	"github.com/AdguardTeam/urlfilter/rules"
)

// C05: the shortcut pre-check never rejects a request the rule accepts.
//
// case "mask":  mask TAB <rule text hex> TAB <subjects>
// case "regex": regex TAB <rule text hex> TAB <subjects>
// obs: <Shortcut hex>;sound   [+ !COUNTEREXAMPLE:<url> when the compiled expression accepts a subject or a
//      string generated from the expression whose lower-casing does not contain the shortcut]
// model: <shortcut of the model hex>;sound       when the universal theorem (mask) applies or the verified
//        checker must_contain proves the rule; U:undecided when the checker cannot prove a regex rule

var bundledRegexRules []string

func loadBundledRegexRules() {
	if bundledRegexRules != nil {
		return
	}
	bundledRegexRules = []string{}
	for _, fn := range []string{"/repo/testdata/easylist.txt", "/repo/testdata/adguard_sdn_filter.txt"} {
		f, err := os.Open(fn)
		if err != nil {
			continue
		}
		sc := bufio.NewScanner(f)
		sc.Buffer(make([]byte, 1<<20), 1<<20)
		for sc.Scan() {
			l := strings.TrimSpace(sc.Text())
			t := strings.TrimPrefix(l, "@@")
			if strings.HasPrefix(t, "/") && strings.Count(t, "/") >= 2 && !strings.Contains(l, "##") {
				if r, err := rules.NewNetworkRule(l, 1); err == nil && r.IsRegexRule() {
					bundledRegexRules = append(bundledRegexRules, l)
				}
			}
		}
		_ = f.Close()
	}
}

func genRegexBody(g *Gen, depth int) string {
	atom := func() string {
		switch g.Intn(14) {
		case 0, 1, 2, 3:
			return regexp.QuoteMeta(Pick(g, fragPool))
		case 4:
			return Pick(g, []string{`\d`, `\w`, `\s`, `\D`, `\W`})
		case 5:
			if g.Chance(1, 3) {
				// classes holding regex metacharacters as literals, in every position
				ms := []string{"*", "+", "{0", "(", ")", "{", "}", "$", "^x", "|"}
				body := Pick(g, []string{"abcdef", "a-z", "0-9", "xy", ""})
				switch g.Intn(3) {
				case 0:
					body = Pick(g, ms) + body
				case 1:
					body = body + Pick(g, ms)
				default:
					body = "a" + Pick(g, ms) + body
				}
				return "[" + body + "]"
			}
			return Pick(g, []string{`[a-z]`, `[0-9]`, `[^/]`, `[a-zA-Z0-9_-]`, `[.]`, `[)]`, `[\]x]`})
		case 6:
			return "."
		case 7:
			return Pick(g, []string{`\b`, `\x41`, `\/`, `\.`, `\-`, `\?`})
		case 8, 9:
			if depth < 2 {
				inner := genRegexBody(g, depth+1)
				if g.Chance(1, 3) {
					inner += "|" + genRegexBody(g, depth+1)
				}
				return Pick(g, []string{"(", "(?:"}) + inner + ")"
			}
			return "x"
		default:
			return regexp.QuoteMeta(Pick(g, []string{"ads", "banner", "/", "example", ".org", "track", "-", "_", "q="}))
		}
	}
	n := 1 + g.Intn(4)
	var sb strings.Builder
	for i := 0; i < n; i++ {
		a := atom()
		switch g.Intn(9) {
		case 0:
			a += "*"
		case 1:
			a += "+"
		case 2:
			a += Pick(g, []string{"{2}", "{0,2}", "{1,3}", "{0}", "{2,}"})
		case 3:
			if g.Chance(1, 2) {
				a += "?"
			}
		}
		sb.WriteString(a)
	}
	return sb.String()
}

// genFromSyntax produces a string matched by re (best effort), biased to minimal repetitions.
func genFromSyntax(g *Gen, re *syntax.Regexp) string {
	switch re.Op {
	case syntax.OpLiteral:
		s := string(re.Rune)
		if re.Flags&syntax.FoldCase != 0 && g.Chance(1, 3) {
			s = strings.ToUpper(s)
		}
		return s
	case syntax.OpCharClass:
		if len(re.Rune) == 0 {
			return ""
		}
		i := g.Intn(len(re.Rune)/2) * 2
		lo, hi := re.Rune[i], re.Rune[i+1]
		if hi > 126 {
			hi = 126
		}
		if lo > hi {
			return string(rune(re.Rune[i]))
		}
		return string(rune(lo + rune(g.Intn(int(hi-lo)+1))))
	case syntax.OpAnyCharNotNL, syntax.OpAnyChar:
		return Pick(g, []string{"x", "/", "A", "0"})
	case syntax.OpCapture:
		return genFromSyntax(g, re.Sub[0])
	case syntax.OpStar:
		n := 0
		if g.Chance(1, 3) {
			n = 1 + g.Intn(2)
		}
		s := ""
		for i := 0; i < n; i++ {
			s += genFromSyntax(g, re.Sub[0])
		}
		return s
	case syntax.OpPlus:
		s := genFromSyntax(g, re.Sub[0])
		if g.Chance(1, 4) {
			s += genFromSyntax(g, re.Sub[0])
		}
		return s
	case syntax.OpQuest:
		if g.Chance(1, 3) {
			return genFromSyntax(g, re.Sub[0])
		}
		return ""
	case syntax.OpRepeat:
		s := ""
		n := re.Min
		if re.Max != re.Min && g.Chance(1, 4) {
			n++
		}
		for i := 0; i < n; i++ {
			s += genFromSyntax(g, re.Sub[0])
		}
		return s
	case syntax.OpConcat:
		s := ""
		for _, sub := range re.Sub {
			s += genFromSyntax(g, sub)
		}
		return s
	case syntax.OpAlternate:
		return genFromSyntax(g, Pick(g, re.Sub))
	default:
		return ""
	}
}

// reuseHosts derives host names a pattern is likely to match as a hostname request.
func reuseHosts(pat string) []string {
	p := strings.TrimPrefix(strings.TrimPrefix(pat, "@@"), "||")
	p = strings.TrimLeft(p, "|*^")
	end := strings.IndexAny(p, "^/*|$?")
	if end >= 0 {
		p = p[:end]
	}
	p = strings.ToLower(strings.Trim(p, "."))
	if len(p) < 2 || strings.ContainsAny(p, ":\\()[]{}+") {
		return nil
	}
	return []string{p, "www." + p, p + ".example.org"}
}

func init() {
	register("c05", &Prop{
		Gen: func(g *Gen, tier string, emit func(string)) {
			loadBundledRegexRules()
			nm, nr := 6000, 3000
			if tier == "thorough" {
				nm, nr = 150000, 80000
			}
			for _, l := range bundledRegexRules {
				emit("regex\t" + hx(l) + "\t" + encList([]string{"http://example.org/ads/banner.png"}))
			}
			for _, l := range regexPool {
				emit("regex\t" + hx(l+"$domain=x.org") + "\t" + encList([]string{"http://example.org/ads1/banner1.png", "https://example.org/track.js"}))
			}
			// pairs of DIFFERENT regex rules whose whole texts have the same 32-bit hash (djb2-xor collides on two-character
			// infixes for any prefix), parsed one after the other in one process
			for _, shape := range [][2]string{{`/adserv\/banner_`, `\.gif/`}, {`/track`, `[0-9]+\.js/`}, {`/^https?:\/\/x`, `\.example\.org\//`}} {
				seen := map[uint32]string{}
				found := 0
				al := "abcdefghijklmnopqrstuvwxyz0123456789"
				for a := 0; a < len(al) && found < 4; a++ {
					for b := 0; b < len(al) && found < 4; b++ {
						in := string(al[a]) + string(al[b])
						t := shape[0] + in + shape[1]
						h := filterutil.FastHash(t)
						if o, ok := seen[h]; ok {
							found++
							u := func(x string) string {
								body := strings.NewReplacer(`\/`, "/", `\.`, ".", "[0-9]+", "7", "^https?", "https", "/^", "").Replace(strings.Trim(x, "/"))
								if strings.HasPrefix(body, "https:") {
									return body
								}
								return "http://h.org/" + body
							}
							for _, pr := range [][2]string{{o, t}, {t, o}} {
								emit("regexpair\t" + hx(pr[0]) + "\t" + hx(pr[1]) + "\t" + encList([]string{u(pr[1]), u(pr[0])}))
							}
						}
						seen[h] = t
					}
				}
			}
			for i := 0; i < nm; i++ {
				p := genPattern(g)
				if g.Chance(1, 4) {
					n := 1 + g.Intn(7)
					p = ""
					for j := 0; j < n; j++ {
						p += Pick(g, c03Alphabet)
					}
				}
				if strings.HasPrefix(p, "/") && strings.HasSuffix(p, "/") && len(p) > 1 {
					continue
				}
				t := p + "$domain=x.org"
				if g.Chance(1, 4) {
					// case-sensitive rules with capitals in their literals: the shortcut is lower-cased, the URL is not
					if g.Bool() {
						b := []byte(p)
						for k := range b {
							if b[k] >= 'a' && b[k] <= 'z' && g.Chance(1, 3) {
								b[k] -= 32
							}
						}
						p = string(b)
					}
					t = p + "$domain=x.org,match-case"
				}
				emit("mask\t" + hx(t) + "\t" + encList(subjectsFor(g, p, 5)))
			}
			for i := 0; i < nr; i++ {
				t := "/" + genRegexBody(g, 0) + "/"
				switch g.Intn(10) {
				case 0:
					// escaped backslashes in front of an operator: escape parity decides whether "|" / "?" is an operator
					t = "/" + regexp.QuoteMeta(Pick(g, fragPool)) + Pick(g, []string{"", `\\`, `\\\\`}) + Pick(g, []string{"|", "?", `\|`, `\?`}) + regexp.QuoteMeta(Pick(g, fragPool)) + "/"
				case 1:
					// top-level alternation
					t = "/" + genRegexBody(g, 1) + "|" + genRegexBody(g, 1) + "/"
				}
				urls := []string{genURL(g), genURL(g)}
				if g.Chance(1, 12) {
					// \Q...\E quoting (upper-case escapes: the pattern's letter case is part of its meaning), with a quantifier
					// right after \E that applies to the last quoted character only
					a, b := Pick(g, fragPool), Pick(g, fragPool)
					q := Pick(g, []string{"*", "{0,2}", "+", "", "{0,1}", "*", "{0}"})
					t = "/" + Pick(g, []string{"", regexp.QuoteMeta(Pick(g, fragPool))}) + `\Q` + a + `\E` + q + regexp.QuoteMeta(b) + "/"
					if len(a) > 0 {
						urls = []string{"http://h.org/" + a[:len(a)-1] + b, "http://h.org/" + a + b, "http://h.org/x" + a + a[len(a)-1:] + b}
					}
				}
				if g.Chance(1, 2) {
					t += "$domain=x.org"
					if g.Chance(1, 4) {
						t += ",match-case"
					}
				}
				emit("regex\t" + hx(t) + "\t" + encList(urls))
			}
		},
		Run: func(line string, st *Stats) (string, string, bool) {
			f := strings.Split(line, "\t")
			if f[0] == "regexpair" {
				// another rule is parsed first in the same process: whatever it leaves behind must not reach this rule
				_, _ = rules.NewNetworkRule(unhx(f[1]), 1)
				f = []string{"regex", f[2], f[3]}
				line = strings.Join(f, "\t")
				st.Inc("parsed_after_a_rule_with_colliding_text_hash")
			}
			text := unhx(f[1])
			subjects := decList(f[2])
			rule, err := rules.NewNetworkRule(text, 1)
			if err != nil {
				st.Inc("rejected")
				return "E", line, false
			}
			status, src := rule.VerifRegexp()
			if status != 1 {
				st.Inc("not_compiled")
				return hx(rule.Shortcut) + ";nore", line, false
			}
			flags := ""
			g := &Gen{R: newRand(int64(len(text)) + 7)}
			// rules whose only modifiers are the generated $domain=x.org[,match-case]: Match on a request from x.org is the
			// pattern test preceded by the shortcut pre-check — the pre-check must not reject what the pattern accepts
			plain := strings.HasSuffix(text, "$domain=x.org") || strings.HasSuffix(text, "$domain=x.org,match-case")
			try := func(u string) {
				if flags != "" {
					return
				}
				_, ok := rule.VerifRegexpMatch(u)
				if ok && !strings.Contains(strings.ToLower(u), rule.Shortcut) {
					flags = "!COUNTEREXAMPLE:" + hx(u)
				}
				if ok && plain && len(u) <= 4096 && flags == "" {
					var m bool
					if pn, _ := protect(func() { m = rule.Match(rules.NewRequest(u, "http://x.org/", rules.TypeOther)) }); !pn && !m {
						flags = "!PRECHECK-REJECTS-AN-ACCEPTED-URL:" + hx(u)
					}
				}
			}
			for _, u := range subjects {
				try(u)
			}
			// one Request object refilled for another hostname (the DNS engine does this with its pooled requests): the
			// answer for the second name is the answer a fresh request gets — nothing about the pre-check is remembered
			if plain && flags == "" {
				pat := text[:strings.Index(text, "$domain=x.org")]
				for _, hn := range reuseHosts(pat) {
					reused := rules.NewRequestForHostname("nothing-of-the-kind.invalid")
					reused.SourceHostname, reused.SourceDomain = "x.org", "x.org"
					fresh := rules.NewRequestForHostname(hn)
					fresh.SourceHostname, fresh.SourceDomain = "x.org", "x.org"
					var m1, m2 bool
					if pn, _ := protect(func() {
						_ = rule.Match(reused)
						rules.FillRequestForHostname(reused, hn)
						m1, m2 = rule.Match(reused), rule.Match(fresh)
					}); !pn && m1 != m2 {
						flags = "!REFILLED-REQUEST-ANSWERS-DIFFERENTLY:" + hx(hn)
					}
				}
			}
			// strings generated from the compiled expression itself
			if re, perr := syntax.Parse(src, syntax.Perl); perr == nil {
				for i := 0; i < 40; i++ {
					s := genFromSyntax(g, re)
					try(s)
					try("http://h/" + s + "/x")
				}
			}
			st.Inc(f[0])
			if rule.Shortcut != "" {
				st.Inc(f[0] + "_with_shortcut")
			}
			return hx(rule.Shortcut) + ";sound" + flags, line + "\t" + hx(rule.Shortcut), rule.Shortcut != ""
		},
	})
}
