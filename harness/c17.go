package main

import (
	"fmt"
	"net/url"
	"strings"

	"github.com/AdguardTeam/urlfilter/filterutil"
	"github.com/AdguardTeam/urlfilter/rules"
	"golang.org/x/net/publicsuffix"
)

// C17: request fields agree with the standard URL parser and the Public Suffix List.
//
// case "url":  url TAB <url hex> TAB <source hex> TAB <in-contract 0|1>     NewRequest
// case "host": host TAB <hostname hex>                                      NewRequestForHostname
// obs: hostname;domain;sourcehostname;sourcedomain;thirdparty;urllower   (hex) [+ !flags when the
//      implementation disagrees with net/url / publicsuffix on an in-contract input]
var pslHosts = []string{
	"example.org", "www.example.org", "a.b.c.example.co.uk", "example.co.uk", "co.uk", "uk", "com", "localhost", "intranet",
	"www.ck", "foo.ck", "a.foo.ck", "ck", "city.kawasaki.jp", "x.city.kawasaki.jp", "foo.kawasaki.jp", "a.foo.kawasaki.jp",
	"kawasaki.jp", "user.github.io", "github.io", "a.user.github.io", "blogspot.com", "x.blogspot.com", "example.zzunknown",
	"a.example.zzunknown", "1.2.3.4", "192.168.0.1", "xn--e1afmkfd.xn--p1ai", "s3.amazonaws.com", "b.s3.amazonaws.com",
	"example.com.au", "a.b.example.com.au", "compute.amazonaws.com", "x.y.compute.amazonaws.com", "nom.br", "a.nom.br", "x.a.nom.br",
	"pvt.k12.ma.us", "school.pvt.k12.ma.us", "a-b.c-d.org", "x_y.example.org",
}

func c17URL(g *Gen) (u string, inContract bool) {
	h := Pick(g, pslHosts)
	if g.Chance(1, 10) {
		h = strings.ToUpper(h[:1]) + h[1:]
	}
	sch := Pick(g, []string{"http", "https", "ws", "wss", "ftp", "HTTPS", "custom-scheme", "a.b+c"})
	u = sch + "://" + h
	if g.Chance(1, 5) {
		u += fmt.Sprintf(":%d", 1+g.Intn(65535))
	}
	switch g.Intn(6) {
	case 0:
	case 1:
		u += "?" + Pick(g, []string{"q=1", "a=b&c=d", "u=http://x.org/", "x=a:b"})
	default:
		u += Pick(g, pathPool)
	}
	inContract = true
	if g.Chance(1, 5) {
		u += "#" + Pick(g, []string{"frag", "a/b", "x:y", "?q"})
		// a fragment directly after the host (or port) is outside the contract
		rest := u[len(sch)+3:]
		if i := strings.IndexAny(rest, "/?#"); i >= 0 && rest[i] == '#' {
			inContract = false
		}
	}
	if g.Chance(1, 30) {
		u += strings.Repeat("Ab/", 1500)
	} else if g.Chance(1, 30) {
		// beyond the 4096-byte cap with code points whose lower-case form has another UTF-8 length (Kelvin sign,
		// dotted capital I, A/T with stroke), invalid bytes, and a multi-byte rune straddling the cap: the lower-cased
		// URL is the lower-casing of the capped URL
		unit := Pick(g, []string{"\u212a/", "\u0130b/", "\u023a\u023e/", "a\xffb/", "Ab\u212a", "\u00c9/"})
		u += "/" + strings.Repeat(unit, 4200/len(unit)+g.Intn(3))
		if g.Bool() {
			// shift so that the cap falls at every offset inside a rune
			u = u[:len(u)-1] + strings.Repeat("x", g.Intn(4))
			k := 4096 - len(u)%7 - g.Intn(4)
			if k > 0 && k < len(u) {
				u = u[:k] + "\u212a\u023a" + u[k:]
			}
		}
	}
	return u, inContract
}

func c17Odd(g *Gen) string {
	return Pick(g, []string{
		"", "example.org", "//example.org/x", "http:/example.org", "http:example.org", "stun:stun.example.org", "mailto:user@example.org",
		"http://user:pw@example.org/", "http://[::1]:80/", "http://example.org#frag", "://example.org", ":", ":x", "a:", "http://", "http:///x",
		"http://example.org:80:90/", "http://.example.org/", "http://example.org./", "http://a..b/", "data:text/html,<a href='//x.org'>", "about:blank",
		"http://example.org?//x.org", "x//y//z", "HTTP://EXAMPLE.ORG/PATH",
	})
}

func init() {
	register("c17", &Prop{
		Gen: func(g *Gen, tier string, emit func(string)) {
			n := 30000
			if tier == "thorough" {
				n = 1000000
			}
			for _, h := range pslHosts {
				emit("host\t" + hx(h))
			}
			// pairs of host names with the same length and the same 32-bit hash whose registrable domains start at
			// different offsets ("abcdefg.example.com" / "abc.defghijkl.co.uk"), resolved one after the other in one process
			{
				al := "abcdefghijklmnopqrstuvwxyz"
				pr := newRand(20241002)
				word := func(n int) string {
					b := make([]byte, n)
					for k := range b {
						b[k] = al[pr.Intn(26)]
					}
					return string(b)
				}
				seen := make(map[uint32]string, 400000)
				for k := 0; k < 400000; k++ {
					h := word(7) + ".example.com"
					seen[filterutil.FastHash(h)] = h
				}
				found := 0
				for k := 0; k < 600000 && found < 6; k++ {
					h := word(3) + "." + word(9) + ".co.uk"
					if o, ok := seen[filterutil.FastHash(h)]; ok && len(o) == len(h) {
						for _, pr := range [][2]string{{o, h}, {h, o}} {
							emit("host\t" + hx(pr[0]))
							emit("host\t" + hx(pr[1]))
							emit("url\t" + hx("http://"+pr[1]+"/x") + "\t" + hx("https://"+pr[1][strings.Index(pr[1], ".")+1:]+"/") + "\t1")
							emit("url\t" + hx("http://"+pr[0]+"/x") + "\t" + hx("https://www."+pr[0][strings.Index(pr[0], ".")+1:]+"/") + "\t1")
						}
						found++
					}
				}
			}
			for i := 0; i < n; i++ {
				switch g.Intn(10) {
				case 0:
					src := ""
					if g.Chance(1, 2) {
						src = c17Odd(g)
					}
					emit("url\t" + hx(c17Odd(g)) + "\t" + hx(src) + "\t0")
				case 1:
					h := Pick(g, pslHosts)
					if g.Chance(1, 8) {
						h = Pick(g, []string{".", ".a", "a.", "a..b", "", "..", "a.b.", ".co.uk", "co.uk.", "example..org"})
					}
					emit("host\t" + hx(h))
				default:
					u, ok1 := c17URL(g)
					src, ok2 := "", true
					if g.Chance(2, 3) {
						src, ok2 = c17URL(g)
					}
					emit("url\t" + hx(u) + "\t" + hx(src) + "\t" + b01(ok1 && ok2))
				}
			}
		},
		Run: func(line string, st *Stats) (string, string, bool) {
			f := strings.Split(line, "\t")
			var q *rules.Request
			flags := ""
			refDomain := func(h string) string {
				d, err := publicsuffix.EffectiveTLDPlusOne(h)
				if err != nil {
					return h
				}
				return d
			}
			if f[0] == "url" {
				u, src := unhx(f[1]), unhx(f[2])
				q = rules.NewRequest(u, src, rules.TypeScript)
				if f[3] == "1" {
					// the property's own oracle: net/url and publicsuffix
					cap := func(s string) string {
						if len(s) > 4096 {
							return s[:4096]
						}
						return s
					}
					pu, err := url.Parse(cap(u))
					if err == nil && pu.Hostname() != q.Hostname {
						flags += "!HOSTNAME:net/url=" + pu.Hostname()
					}
					if src != "" {
						ps, err := url.Parse(cap(src))
						if err == nil && ps.Hostname() != q.SourceHostname {
							flags += "!SOURCEHOSTNAME:net/url=" + ps.Hostname()
						}
					}
					if q.Domain != refDomain(q.Hostname) {
						flags += "!DOMAIN:publicsuffix=" + refDomain(q.Hostname)
					}
					if q.SourceDomain != refDomain(q.SourceHostname) {
						flags += "!SOURCEDOMAIN:publicsuffix=" + refDomain(q.SourceHostname)
					}
					if q.ThirdParty != (q.SourceDomain != "" && q.SourceDomain != q.Domain) {
						flags += "!THIRDPARTY"
					}
					if src != "" {
						rev := rules.NewRequest(src, u, rules.TypeScript)
						if rev.ThirdParty != q.ThirdParty && q.Domain != "" && q.SourceDomain != "" {
							flags += "!THIRDPARTY-ASYMMETRIC"
						}
					}
					if q.URLLowerCase != strings.ToLower(cap(u)) {
						flags += "!URLLOWER"
					}
					st.Inc("in_contract")
				}
				st.Inc("url")
			} else {
				h := unhx(f[1])
				q = rules.NewRequestForHostname(h)
				if !strings.Contains(h, "..") && !strings.HasPrefix(h, ".") && !strings.HasSuffix(h, ".") && h != "" {
					if q.Domain != refDomain(h) {
						flags += "!DOMAIN:publicsuffix=" + refDomain(h)
					}
				}
				st.Inc("host")
			}
			obs := strings.Join([]string{hx(q.Hostname), hx(q.Domain), hx(q.SourceHostname), hx(q.SourceDomain), b01(q.ThirdParty), hx(q.URLLowerCase)}, ";")
			return obs + flags, line + "\t" + pslTable(q), q.Hostname != ""
		},
	})
}
