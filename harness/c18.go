package main

import (
	"fmt"
	"net/netip"
	"sort"
	"strings"
	"sync"

	"github.com/AdguardTeam/urlfilter"
	"github.com/AdguardTeam/urlfilter/filterlist"
	"github.com/AdguardTeam/urlfilter/filterutil"
	"github.com/AdguardTeam/urlfilter/rules"
)

// C18: hosts-file lines yield exactly the listed names with the given address.
//
// case: <line hex> TAB <expected address or ""> TAB <expected names> TAB <probe names>
//   (expected fields are filled for lines of the property's grammar, empty otherwise)
// obs:  rendering of NewRule(line) ; HostRule.Match per probe ; DNSEngine answer per probe (4|6|-)
//       [+ !flags when an in-grammar line does not yield the expected address and names]

func renderRule(r rules.Rule) string {
	switch v := r.(type) {
	case nil:
		return "none"
	case *rules.HostRule:
		return "H:" + rules.VerifAddr(v.IP) + ":" + encList(v.Hostnames)
	case *rules.CosmeticRule:
		p, rr := v.VerifCosmeticDomains()
		return "C:" + b01(v.Whitelist) + ":" + hx(v.Content) + ":" + encList(p) + ":" + encList(rr)
	case *rules.NetworkRule:
		f := v.VerifFields()
		keys := []string{"denyallow", "disabled", "dnsrewrite", "enabled", "pattern", "pclients", "pdns", "pdomains", "ptags", "ptypes", "rclients", "rdns", "rdomains", "rtags", "rtypes", "shortcut", "whitelist"}
		parts := make([]string, len(keys))
		for i, k := range keys {
			parts[i] = k + "=" + f[k]
		}
		return "N:" + strings.Join(parts, "|")
	default:
		return fmt.Sprintf("other:%T", r)
	}
}

var hostsIPs = []string{"0.0.0.0", "127.0.0.1", "192.168.1.1", "10.0.0.255", "::", "::1", "fe80::1", "2001:db8::1", "::ffff:1.2.3.4", "::ffff:0102:0304", "1.2.3.4", "255.255.255.255",
	// fully written-out forms: up to 45 characters without a zone
	"0000:0000:0000:0000:0000:0000:0000:0001", "fe80:0000:0000:0000:0000:0000:0000:0001", "0000:0000:0000:0000:0000:ffff:192.168.100.200",
	"2001:0db8:0000:0000:0000:0000:192.168.100.200", "0:0:0:0:0:ffff:192.168.100.200", "2001:0db8:85a3:0000:0000:8a2e:0370:7334"}
var hostsNames = []string{"example.org", "a.example.org", "localhost", "ads.example.net", "x", "tracker.io", "test.com", "foo.co.uk", "my-host", "under_score.example", "UPPER.example.org", "1.2.3.4", "a.b.c.d.e", "xn--e1afmkfd.xn--p1ai", "example.or", "example.orgx", "fqdn.example.net.", "dot."}

func genHostsLine(g *Gen) (line, ip string, names []string) {
	sep := func() string {
		s := ""
		n := 1 + g.Intn(3)
		for i := 0; i < n; i++ {
			s += Pick(g, []string{" ", "\t"})
		}
		return s
	}
	comment := func() string {
		switch g.Intn(6) {
		case 0:
			return "#note"
		case 1:
			return " # a comment"
		case 2:
			return "\t#tab before"
		case 3:
			return "  ## double after blank"
		case 4:
			return " # with # more ## signs $$ and other.name 1.2.3.4"
		default:
			return ""
		}
	}
	if g.Chance(1, 4) {
		// bare domain
		n := Pick(g, hostsNames)
		c := comment()
		line = n + c
		if g.Chance(1, 5) {
			line += Pick(g, []string{" ", "\t", "  "})
		}
		return line, "0.0.0.0", []string{n}
	}
	ip = Pick(g, hostsIPs)
	k := 1 + g.Intn(8)
	for i := 0; i < k; i++ {
		names = append(names, Pick(g, hostsNames))
	}
	line = ip
	for _, n := range names {
		line += sep() + n
	}
	if g.Chance(1, 4) {
		line += sep()
	}
	line += comment()
	if g.Chance(1, 6) {
		line = Pick(g, []string{" ", "\t"}) + line
	}
	return line, ip, names
}

func init() {
	register("c18", &Prop{
		Gen: func(g *Gen, tier string, emit func(string)) {
			n := 30000
			if tier == "thorough" {
				n = 800000
			}
			// one engine asked for different listed names by several goroutines at once: each answer consists of the rules
			// listing THAT name, with their addresses, exactly as when asked alone
			for i := 0; i < n/1500; i++ {
				var lines []string
				for k := 0; k < 4+g.Intn(8); k++ {
					ip := fmt.Sprintf("10.%d.%d.%d", i%250, k, 1+g.Intn(250))
					if g.Chance(1, 3) {
						ip = fmt.Sprintf("2001:db8::%x:%x", i, k+1)
					}
					l := fmt.Sprintf("%s conc%d.example", ip, k)
					if g.Chance(1, 3) {
						l += fmt.Sprintf(" alias%d.example", k)
					}
					if g.Chance(1, 4) {
						l += fmt.Sprintf(" conc%d.example", (k+1)%4) // a name listed by two lines
					}
					if k > 0 && g.Chance(1, 3) {
						// ... and the FIRST name of the line before, repeated by this later line
						l += fmt.Sprintf(" conc%d.example", k-1)
					}
					lines = append(lines, l)
				}
				emit("conc\t" + encList(lines) + "\t" + fmt.Sprint(Pick(g, []int{2, 4, 8, 16})))
			}
			for i := 0; i < n; i++ {
				probes := []string{Pick(g, hostsNames), Pick(g, hostsNames)}
				if g.Chance(1, 6) {
					// outside the grammar: mutated lines, odd addresses
					line, _, names := genHostsLine(g)
					line = mutate(g, line)
					if len(names) > 0 {
						probes = append(probes, names[0])
					}
					emit(hx(line) + "\t\t\t" + encList(probes))
					continue
				}
				if g.Chance(1, 12) {
					// a line with ONE name and, among the probes, a different name with the same 32-bit hash: the DNS
					// engine must compare the name after the bucket hit
					findCollisions()
					pr := Pick(g, collidingHosts)
					k := g.Intn(2)
					ip := Pick(g, hostsIPs)
					line := ip + Pick(g, []string{" ", "\t", "  "}) + pr[k]
					if g.Chance(1, 3) {
						line, ip = pr[k], "0.0.0.0"
					}
					emit(hx(line) + "\t" + hx(ip) + "\t" + encList([]string{pr[k]}) + "\t" + encList(append(probes, pr[k], pr[1-k])))
					continue
				}
				line, ip, names := genHostsLine(g)
				if ip == "0.0.0.0" && len(names) == 1 && !strings.HasPrefix(strings.TrimLeft(line, " \t"), "0.0.0.0") && !filterutil.IsDomainName(names[0]) {
					// a bare name that is not a domain name is outside the grammar
					emit(hx(line) + "\t\t\t" + encList(append(probes, names[0])))
					continue
				}
				probes = append(probes, names...)
				if len(names[0]) > 1 {
					// spellings that are NOT the listed name: one character less or more, a trailing dot, a leading dot,
					// another letter case
					probes = append(probes, names[0][:len(names[0])-1], names[0]+"x", names[0]+".", "."+names[0], strings.ToUpper(names[0]), strings.TrimSuffix(names[0], "."))
				}
				emit(hx(line) + "\t" + hx(ip) + "\t" + encList(names) + "\t" + encList(probes))
			}
		},
		Run: func(line string, st *Stats) (string, string, bool) {
			f := strings.Split(line, "\t")
			if f[0] == "conc" {
				lines := decList(f[1])
				var nw int
				fmt.Sscan(f[2], &nw)
				s, serr := filterlist.NewRuleStorage([]filterlist.RuleList{&filterlist.StringRuleList{ID: 3, RulesText: strings.Join(lines, "\n") + "\n"}})
				must(serr)
				e := urlfilter.NewDNSEngine(s)
				nameSet := map[string]bool{}
				for _, l := range lines {
					for _, nm := range strings.Fields(l)[1:] {
						nameSet[nm] = true
					}
				}
				var names []string
				for nm := range nameSet {
					names = append(names, nm)
				}
				sort.Strings(names)
				ser := func(res *urlfilter.DNSResult, ok bool) string {
					if !ok || res == nil {
						return "-"
					}
					var p []string
					for _, r := range res.HostRulesV4 {
						p = append(p, "4:"+r.RuleText)
					}
					for _, r := range res.HostRulesV6 {
						p = append(p, "6:"+r.RuleText)
					}
					sort.Strings(p)
					return strings.Join(p, "|")
				}
				want := map[string]string{}
				flags := ""
				for _, nm := range names {
					want[nm] = ser(e.Match(nm))
					// the reference: the lines that list the name, each under the group of its address
					var ref []string
					for _, l := range lines {
						fl := strings.Fields(l)
						for _, x := range fl[1:] {
							if x == nm {
								grp := "4:"
								if strings.Contains(fl[0], ":") {
									grp = "6:"
								}
								ref = append(ref, grp+l)
								break
							}
						}
					}
					sort.Strings(ref)
					if r := strings.Join(ref, "|"); r != want[nm] && flags == "" {
						flags = fmt.Sprintf("!HOSTS-LOOKUP-DIFFERS-FROM-THE-LINES:name=%s lines=%q engine=%q", nm, r, want[nm])
					}
				}
				var mu sync.Mutex
				var wg sync.WaitGroup
				for w := 0; w < nw; w++ {
					wg.Add(1)
					go func(w int) {
						defer wg.Done()
						for it := 0; it < 6000/nw; it++ {
							nm := names[(w+it%2)%len(names)]
							res, ok := e.Match(nm)
							got := ser(res, ok)
							if got != want[nm] {
								mu.Lock()
								if flags == "" {
									flags = fmt.Sprintf("!CONCURRENT-HOSTS-LOOKUP-DIFFERS:name=%s alone=%q concurrently=%q", nm, want[nm], got)
								}
								mu.Unlock()
								return
							}
						}
					}(w)
				}
				wg.Wait()
				st.Inc("concurrent_lookup_cases")
				return "ok" + flags, "echo\tok", true
			}
			text := unhx(f[0])
			probes := decList(f[3])
			var r rules.Rule
			var err error
			if p, msg := protect(func() { r, err = rules.NewRule(text, 7) }); p {
				return "P:" + msg, line, true
			}
			if err != nil {
				st.Inc("rejected")
				return "E", line, false
			}
			obs := renderRule(r)
			hr, isHost := r.(*rules.HostRule)
			flags := ""
			if isHost {
				st.Inc("host_rule")
				m := ""
				for _, p := range probes {
					m += b01(hr.Match(p))
				}
				obs += ";" + m
				// through the DNS engine
				// any list id (0 included: storage index 0 is the first line of list 0), the line first or after others
				lid := []int{7, 0, 0, -1, 1, 2147483647, -2147483648}[len(text)%7]
				pre := []string{"", "", "! comment\n", "0.0.0.0 unrelated.example\n"}[(len(text)/7)%4]
				s, serr := filterlist.NewRuleStorage([]filterlist.RuleList{&filterlist.StringRuleList{ID: lid, RulesText: pre + text + "\n"}})
				must(serr)
				e := urlfilter.NewDNSEngine(s)
				d := ""
				for _, p := range probes {
					res, ok := e.Match(p)
					switch {
					case p == "":
						d += "-"
					case ok && len(res.HostRulesV4) > 0:
						d += "4"
					case ok && len(res.HostRulesV6) > 0:
						d += "6"
					default:
						d += "-"
					}
				}
				obs += ";" + d
			}
			if f[1] != "" {
				st.Inc("in_grammar")
				wantIP, _ := netip.ParseAddr(unhx(f[1]))
				wantNames := decList(f[2])
				if !isHost {
					// a hosts line whose comment makes it element-hiding syntax is outside the grammar
					if _, isCos := r.(*rules.CosmeticRule); !isCos {
						flags += "!NOT-A-HOST-RULE"
					}
				} else {
					if hr.IP != wantIP {
						flags += "!IP"
					}
					if strings.Join(hr.Hostnames, " ") != strings.Join(wantNames, " ") {
						flags += "!NAMES:" + strings.Join(hr.Hostnames, ",")
					}
				}
			}
			return obs + flags, line, isHost
		},
	})
}
